(* C16/Harness.v — comparison functions used by the generated correspondence files
   (work/C16/Cases_k.v): model output vs. what was recorded from the Go implementation
   (harness/C16/compress_test.go).  Imports only Model.v.

   The third-party codecs are Section variables of the model.  For a case they are instantiated
   with finite tables that the Go harness fills by calling the libraries DIRECTLY (its own
   gzip.NewWriterLevel / zstd.NewReader / ... calls, not the package's decoder table), for all five
   codecs, so that the choice of codec, level and input stream is made by the model.            *)
From Verif Require Import Common.Base.
From Verif Require Export C16.Model.
From Coq Require Import String.

Definition bytes_eqb : bytes -> bytes -> bool := list_eqb N.eqb.
Definition strs_eqb : list string -> list string -> bool := list_eqb String.eqb.
Definition stream_eqb (a b : stream) : bool := bytes_eqb (fst a) (fst b) && N.eqb (snd a) (snd b).

Definition codec_id (c : codec) : N :=
  match c with CGzip => 0 | CZlib => 1 | CZstd => 2 | CSnappy => 3 | CLz4 => 4 end.

(* custom decoders the harness registers with WithDecoder, by identifier:
   0 = returns the body itself, 1 = returns (nil, nil), 2 = returns an error,
   3 = a reader that delivers every byte of the body twice (an expanding decoder) *)
Definition cdec_fixed (i : N) (s : stream) : dres :=
  match i with
  | 0 => DStream s
  | 1 => DNone
  | 2 => DInitErr
  | _ => DStream (flat_map (fun x => [x; x]) (fst s), snd s)
  end%N.

Definition lcdec_fixed (body1 : lstream) (i : N) : ldres :=
  match i with
  | 0 => LStream body1
  | 1 => LNone
  | 2 => LInitErr
  | _ => LStream (2 * fst body1, snd body1)%Z
  end%N.

Fixpoint assoc {A B} (eqb : A -> A -> bool) (l : list (A * B)) (k : A) : option B :=
  match l with
  | [] => None
  | (k', v) :: r => if eqb k k' then Some v else assoc eqb r k
  end.

Definition nz_eqb (a b : N * Z) : bool := N.eqb (fst a) (fst b) && Z.eqb (snd a) (snd b).

(* enc from the table (library output for THIS case's body at (codec, level)); [] when not tabulated *)
Definition enc_tbl (body : bytes) (t : list ((N * Z) * bytes)) (c : codec) (l : Z) (b : bytes) : bytes :=
  if bytes_eqb b body then match assoc nz_eqb t (codec_id c, l) with Some w => w | None => [] end else [].

(* dec from the table (library result on the stream [decin]); DInitErr when asked about another stream *)
Definition dec_tbl (decin : stream) (t : list (N * dres)) (c : codec) (s : stream) : dres :=
  if stream_eqb s decin then match assoc N.eqb t (codec_id c) with Some d => d | None => DInitErr end
  else DInitErr.

Inductive vcase :=
(* end-to-end, full bytes *)
| EC (type : string) (level : Z) (hdr : option string) (ce raw : list string) (body : option bytes) (reads : N) (chunked rerr cerr : bool)
     (max : Z) (algs : option (list string)) (custom : list (string * option N)) (mw : nat)
     (enc : list ((N * Z) * bytes)) (decin : stream) (dect : list (N * dres))
     (* observed: client (0 sent / 1 configuration refused / 2 RoundTrip error, nothing sent); wire
        header values and body; server outcome (0 handler ran / 1 rejected / 2 panicked), status,
        and what the handler saw *)
     (o_client : N) (o_wce : list string) (o_wbody : bytes) (o_wcl : Z) (o_wrw : option bytes)
     (o_kind : N) (o_status : Z) (o_hce : list string) (o_cl : Z) (o_data : bytes) (o_err : N)
     (* every handler behind the decompressor in the order it ran: (tag, what it was given);
        tag i = configured middleware i, 0 = the innermost handler *)
     (o_views : list (N * view))
(* server only, sizes only (large bodies) *)
| LC (max : Z) (algs : option (list string)) (custom : list (string * option N))
     (ce : list string) (n cl : Z) (ldect : list (N * ldres))
     (o_kind : N) (o_status : Z) (o_hce : list string) (o_cl : Z) (o_len : Z) (o_err : N).

(* canonical observable of a server outcome *)
Definition obs := (N * Z * list string * Z * bytes * N)%type.
Definition obs_of (o : sout) : obs :=
  match o with
  | Handled ce cl s => (0%N, 200%Z, ce, cl, fst s, snd s)
  | Rejected st => (1%N, st, [], 0%Z, [], 0%N)
  | Panicked => (2%N, 0%Z, [], 0%Z, [], 0%N)
  end.
Definition obs_eqb (a b : obs) : bool :=
  let '(k1, st1, ce1, cl1, d1, e1) := a in
  let '(k2, st2, ce2, cl2, d2, e2) := b in
  N.eqb k1 k2 && Z.eqb st1 st2 && strs_eqb ce1 ce2 && Z.eqb cl1 cl2 && bytes_eqb d1 d2 && N.eqb e1 e2.

Definition lobs := (N * Z * list string * Z * Z * N)%type.
Definition lobs_of (o : lsout) : lobs :=
  match o with
  | LHandled ce cl s => (0%N, 200%Z, ce, cl, fst s, snd s)
  | LRejected st => (1%N, st, [], 0%Z, 0%Z, 0%N)
  | LPanicked => (2%N, 0%Z, [], 0%Z, 0%Z, 0%N)
  end.
Definition lobs_eqb (a b : lobs) : bool :=
  let '(k1, st1, ce1, cl1, d1, e1) := a in
  let '(k2, st2, ce2, cl2, d2, e2) := b in
  N.eqb k1 k2 && Z.eqb st1 st2 && strs_eqb ce1 ce2 && Z.eqb cl1 cl2 && Z.eqb d1 d2 && N.eqb e1 e2.

Definition ldec_tbl (t : list (N * ldres)) (c : codec) : ldres :=
  match assoc N.eqb t (codec_id c) with Some d => d | None => LInitErr end.

(* the model's answer for a case: the wire request (None = configuration refused) and the outcome *)
Definition model_wire (c : vcase) : cres :=
  match c with
  | EC type level hdr ce raw body reads chunked rerr cerr _ _ _ _ enc _ _ _ _ _ _ _ _ _ _ _ _ _ _ =>
      client (enc_tbl (body_bytes body) enc) {| c_type := type; c_level := level; c_hdr := hdr |}
             {| q_ce := ce; q_body := body; q_raw := raw; q_stream := chunked; q_reads := reads; q_rerr := rerr; q_cerr := cerr |}
  | LC _ _ _ _ _ _ _ _ _ _ _ _ _ => CRefused
  end.

(* (client outcome, wire) , server observable *)
Definition model_out (c : vcase) : (N * option (list string * bytes * Z * option bytes)) * (obs + lobs) :=
  match c with
  | EC type level hdr ce raw body reads chunked rerr cerr max algs custom mw enc decin dect _ _ _ _ _ _ _ _ _ _ _ _ =>
      let sc := {| s_max := max; s_algs := algs; s_custom := custom; s_mw := mw |} in
      match model_wire c with
      | CRefused => ((1%N, None), inl (obs_of Panicked))
      | CError => ((2%N, None), inl (obs_of Panicked))
      | CSent w => ((0%N, Some (w.(w_ce), w.(w_body), w.(w_cl), w.(w_rewind))), inl (obs_of (server (dec_tbl decin dect) cdec_fixed sc w)))
      end
  | LC max algs custom ce n cl ldect _ _ _ _ _ _ =>
      let sc := {| s_max := max; s_algs := algs; s_custom := custom; s_mw := 0 |} in
      ((0%N, None), inr (lobs_of (lserver sc (ldec_tbl ldect) (lcdec_fixed (lmax_bytes (eff_max sc) (n, E_EOF))) ce n cl)))
  end.

(* the handlers behind the decompressor, in the order they run, with what each is given *)
Definition model_views (c : vcase) : list (N * view) :=
  match c with
  | EC type level hdr ce raw body reads chunked rerr cerr max algs custom mw enc decin dect _ _ _ _ _ _ _ _ _ _ _ _ =>
      let sc := {| s_max := max; s_algs := algs; s_custom := custom; s_mw := mw |} in
      match model_wire c with
      | CSent w => server_views (dec_tbl decin dect) cdec_fixed sc w
      | _ => []
      end
  | _ => []
  end.

Definition view_eqb (a b : N * view) : bool :=
  let '(i1, (ce1, cl1, s1)) := a in
  let '(i2, (ce2, cl2, s2)) := b in
  N.eqb i1 i2 && strs_eqb ce1 ce2 && Z.eqb cl1 cl2 && stream_eqb s1 s2.

Definition check_case (c : vcase) : bool :=
  match c with
  | EC _ _ _ _ _ _ _ _ _ _ _ _ _ _ _ _ _ o_client o_wce o_wbody o_wcl o_wrw o_kind o_status o_hce o_cl o_data o_err o_views =>
      match model_out c with
      | ((k, None), _) => N.eqb k o_client && negb (N.eqb o_client 0)
      | ((k, Some (wce, wbody, wcl, wrw)), inl o) =>
          N.eqb k o_client && strs_eqb wce o_wce && bytes_eqb wbody o_wbody && Z.eqb wcl o_wcl
          && option_eqb bytes_eqb wrw o_wrw
          && obs_eqb o (o_kind, o_status, o_hce, o_cl, o_data, o_err)
          && list_eqb view_eqb (model_views c) o_views
      | _ => false
      end
  | LC _ _ _ _ _ _ _ o_kind o_status o_hce o_cl o_len o_err =>
      match model_out c with
      | (_, inr o) => lobs_eqb o (o_kind, o_status, o_hce, o_cl, o_len, o_err)
      | _ => false
      end
  end.
