(* C16/ClausesSound.v — the decidable clause checker of C16/Check.v is sound and complete w.r.t. the
   Prop-level statement of the property's four clauses over an observed behaviour. *)
From Verif Require Import Common.Base C16.Model C16.Harness C16.Check C16.Proofs.
From Coq Require Import String.

Definition Enabled (algs : option (list string)) (cu : list (string * option N)) (e : string) : Prop :=
  (In e (algs_of algs) /\ In e coding_names) \/ In e (custom_keys cu).

(* The property's clauses, stated on what was OBSERVED for one request (e : eobs):
   L = the configured maximum request body size (20 MiB when unset). *)
Definition Clause_roundtrip (e : eobs) : Prop :=
  let L := limit_of e.(x_max) in
  compresses_b e = true ->                      (* the client is configured to compress and nothing relabels the request *)
  In e.(x_type) (algs_of e.(x_algs)) -> In e.(x_type) coding_names -> ~ In e.(x_type) (custom_keys e.(x_custom)) ->
  (blen_b (given e) <= L)%Z ->
  e.(x_client) = 0%N /\                          (* the request is sent *)
  ((blen_b e.(x_wbody) <= L)%Z ->               (* and, its compressed form fitting too, *)
   e.(x_kind) = 0%N /\ e.(x_data) = given e /\ e.(x_err) = 0%N).   (* the handler reads exactly the bytes given *)

Definition Clause_passthrough (e : eobs) : Prop :=
  let L := limit_of e.(x_max) in
  e.(x_client) = 0%N -> first_of e.(x_wce) = ""%string ->
  In ""%string (algs_of e.(x_algs)) -> ~ In ""%string (custom_keys e.(x_custom)) ->
  e.(x_kind) = 0%N /\ e.(x_hce) = e.(x_wce) /\ e.(x_cl) = e.(x_wcl) /\
  e.(x_data) = take L e.(x_wbody) /\
  e.(x_err) = (if Z.gtb (blen_b e.(x_wbody)) L then 1%N else 0%N).

Definition Clause_unsupported (e : eobs) : Prop :=
  e.(x_client) = 0%N -> ~ Enabled e.(x_algs) e.(x_custom) (first_of e.(x_wce)) ->
  e.(x_kind) = 1%N /\ (400 <= e.(x_status) < 500)%Z.

Definition Clause_limit (e : eobs) : Prop :=
  e.(x_client) = 0%N -> e.(x_kind) = 0%N -> (blen_b e.(x_data) <= limit_of e.(x_max))%Z.

Definition Clauses (e : eobs) : Prop :=
  Clause_roundtrip e /\ Clause_passthrough e /\ Clause_unsupported e /\ Clause_limit e.

(* ---- reflection ---------------------------------------------------------------------------------------- *)
Lemma bytes_eqb_eq a b : bytes_eqb a b = true <-> a = b.
Proof. apply list_eqb_spec. intros x y. apply N.eqb_eq. Qed.
Lemma strs_eqb_eq a b : strs_eqb a b = true <-> a = b.
Proof. apply list_eqb_spec. intros x y. apply String.eqb_eq. Qed.
Lemma implb_iff a b : implb a b = true <-> (a = true -> b = true).
Proof. destruct a, b; simpl; split; auto; intros H; try discriminate; apply H; reflexivity. Qed.

Lemma enabled_b_spec algs cu e : enabled_b algs cu e = true <-> Enabled algs cu e.
Proof.
  unfold enabled_b, Enabled. rewrite orb_true_iff, andb_true_iff, !str_mem_In. reflexivity.
Qed.

Lemma enabled_b_false algs cu e : enabled_b algs cu e = false <-> ~ Enabled algs cu e.
Proof. rewrite <- enabled_b_spec. destruct (enabled_b algs cu e); split; congruence. Qed.

Lemma c_limit_sound e : c_limit e = true <-> Clause_limit e.
Proof.
  unfold c_limit, Clause_limit, sent_b. rewrite implb_iff, andb_true_iff, !N.eqb_eq, Z.leb_le. tauto.
Qed.

Lemma c_unsupported_sound e : c_unsupported e = true <-> Clause_unsupported e.
Proof.
  unfold c_unsupported, Clause_unsupported, sent_b.
  rewrite implb_iff, !andb_true_iff, negb_true_iff, !N.eqb_eq, Z.leb_le, Z.ltb_lt, enabled_b_false. tauto.
Qed.

Lemma c_passthrough_sound e : c_passthrough e = true <-> Clause_passthrough e.
Proof.
  unfold c_passthrough, Clause_passthrough, sent_b. cbv zeta.
  rewrite implb_iff, !andb_true_iff, negb_true_iff, !N.eqb_eq, String.eqb_eq, str_mem_In, str_mem_false,
          strs_eqb_eq, Z.eqb_eq, bytes_eqb_eq.
  tauto.
Qed.

Lemma c_roundtrip_sound e : c_roundtrip e = true <-> Clause_roundtrip e.
Proof.
  unfold c_roundtrip, Clause_roundtrip, sent_b, enabled_b. cbv zeta. simpl custom_keys. simpl (str_mem _ []).
  rewrite orb_false_r.
  rewrite !implb_iff, !andb_true_iff, negb_true_iff, !implb_iff, !andb_true_iff, !N.eqb_eq, !Z.leb_le,
          !str_mem_In, str_mem_false, bytes_eqb_eq.
  tauto.
Qed.

Lemma core_ok_sound e : core_ok e = true <-> Clauses e.
Proof.
  unfold core_ok, Clauses. rewrite !andb_true_iff, c_roundtrip_sound, c_passthrough_sound, c_unsupported_sound, c_limit_sound.
  tauto.
Qed.

(* prop_ok implies the core clauses (it additionally runs the auxiliary checks) *)
Lemma prop_ok_core c e : eobs_of c = Some e -> prop_ok c = true -> Clauses e.
Proof.
  intros He. unfold prop_ok, prop_fail, clauses. rewrite He. simpl.
  intros H. apply core_ok_sound. unfold core_ok.
  destruct (c_roundtrip e); [|discriminate H]. destruct (c_passthrough e); [|discriminate H].
  destruct (c_unsupported e); [|discriminate H]. destruct (c_limit e); [reflexivity|discriminate H].
Qed.

(* a violated core clause is reported: if the observed behaviour does not satisfy the clauses, prop_ok is false *)
Lemma prop_ok_complete c e : eobs_of c = Some e -> ~ Clauses e -> prop_ok c = false.
Proof.
  intros He Hn. destruct (prop_ok c) eqn:E; [|reflexivity]. exfalso. exact (Hn (prop_ok_core c e He E)).
Qed.
