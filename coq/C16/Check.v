(* C16/Check.v — a DECIDABLE CHECKER OF THE PROPERTY'S CLAUSES over the behaviour OBSERVED on the
   implementation (executable, no proofs; soundness w.r.t. the Prop-level clauses: C16/ClausesSound.v).

   It does not use the model's step functions ([client], [server], [decoders], [tget] ...): only the
   configuration-level notions the property itself speaks about — the effective limit, the enabled
   list, the names that have a decoder, the custom decoder keys — and, for the auxiliary checks, the
   library tables recorded with the case.  Run over ALL observed cases it is an oracle that does not
   trust the model; run on a case where model and implementation disagree it decides whether the
   PROPERTY fails there (then that case is the failing input) or only the correspondence.          *)
From Verif Require Import Common.Base.
From Verif Require Export C16.Harness.
From Coq Require Import String.

(* what is observed about one request, and the configuration it ran under *)
Record eobs := {
  (* client side input *)
  x_type : string; x_level : Z; x_hdr : option string; x_ce : list string; x_raw : list string;
  x_body : option bytes; x_rerr : bool; x_cerr : bool;
  (* server configuration *)
  x_max : Z; x_algs : option (list string); x_custom : list (string * option N); x_mw : nat;
  (* library table: result of each codec's reader on the (limited) raw body *)
  x_dect : list (N * dres);
  (* observed *)
  x_client : N; x_wce : list string; x_wbody : bytes; x_wcl : Z;
  x_kind : N; x_status : Z; x_hce : list string; x_cl : Z; x_data : bytes; x_err : N;
  x_views : list (N * view) }.

Definition eobs_of (c : vcase) : option eobs :=
  match c with
  | EC type level hdr ce raw body _ _ rerr cerr max algs custom mw _ _ dect
       o_client o_wce o_wbody o_wcl _ o_kind o_status o_hce o_cl o_data o_err o_views =>
      Some {| x_type := type; x_level := level; x_hdr := hdr; x_ce := ce; x_raw := raw; x_body := body;
              x_rerr := rerr; x_cerr := cerr; x_max := max; x_algs := algs; x_custom := custom; x_mw := mw; x_dect := dect;
              x_client := o_client; x_wce := o_wce; x_wbody := o_wbody; x_wcl := o_wcl;
              x_kind := o_kind; x_status := o_status; x_hce := o_hce; x_cl := o_cl; x_data := o_data; x_err := o_err;
              x_views := o_views |}
  | LC _ _ _ _ _ _ _ _ _ _ _ _ _ => None
  end.

(* ---- the notions the property's text uses ------------------------------------------------------------ *)
(* "the configured maximum request body size" *)
Definition limit_of (max : Z) : Z := if Z.leb max 0 then (20 * 1024 * 1024)%Z else max.
(* "the enabled-decoder list" *)
Definition algs_of (a : option (list string)) : list string :=
  match a with None => [""; "gzip"; "zstd"; "zlib"; "snappy"; "deflate"; "lz4"]%string | Some l => l end.
(* the content-coding names that exist at all *)
Definition coding_names : list string := [""; "gzip"; "zstd"; "zlib"; "snappy"; "deflate"; "lz4"]%string.
Definition custom_keys (cu : list (string * option N)) : list string := map fst cu.
(* "a content encoding is enabled" *)
Definition enabled_b (algs : option (list string)) (cu : list (string * option N)) (e : string) : bool :=
  (str_mem e (algs_of algs) && str_mem e coding_names) || str_mem e (custom_keys cu).

Definition blen_b (b : bytes) : Z := Z.of_nat (List.length b).
(* the first L bytes (never builds the unary numeral of a large L) *)
Definition take (L : Z) (b : bytes) : bytes := if Z.leb (blen_b b) L then b else firstn (Z.to_nat L) b.
Definition first_of (l : list string) : string := hd ""%string l.

(* the client "was given" a body it is to compress: a compression type with a writer, accepted by
   Validate, nothing in the request or the configured headers that switches compression off or relabels it *)
Definition compresses_b (e : eobs) : bool :=
  is_compressed e.(x_type) && client_validate {| c_type := e.(x_type); c_level := e.(x_level); c_hdr := e.(x_hdr) |}
  && match writer_codec e.(x_type) with Some _ => true | None => false end
  && match e.(x_ce) with [] => true | _ => false end
  && match e.(x_raw) with [] => true | _ => false end
  && match e.(x_hdr) with None => true | Some v => String.eqb v e.(x_type) end
  && match e.(x_body) with None => true | Some _ => negb e.(x_rerr) && negb e.(x_cerr) end.

Definition sent_b (e : eobs) : bool := N.eqb e.(x_client) 0.
Definition given (e : eobs) : bytes := body_bytes e.(x_body).

(* ---- the four clauses of the property, as booleans ---------------------------------------------------- *)
(* 1. round trip: every body, every algorithm client and server support *)
Definition c_roundtrip (e : eobs) : bool :=
  let L := limit_of e.(x_max) in
  implb (compresses_b e && enabled_b e.(x_algs) [] e.(x_type) && negb (str_mem e.(x_type) (custom_keys e.(x_custom)))
         && Z.leb (blen_b (given e)) L)
        (sent_b e && implb (Z.leb (blen_b e.(x_wbody)) L)
                           (N.eqb e.(x_kind) 0 && bytes_eqb e.(x_data) (given e) && N.eqb e.(x_err) 0)).

(* 2. a request without content encoding passes through untouched *)
Definition c_passthrough (e : eobs) : bool :=
  let L := limit_of e.(x_max) in
  implb (sent_b e && String.eqb (first_of e.(x_wce)) ""%string && str_mem ""%string (algs_of e.(x_algs))
         && negb (str_mem ""%string (custom_keys e.(x_custom))))
        (N.eqb e.(x_kind) 0 && strs_eqb e.(x_hce) e.(x_wce) && Z.eqb e.(x_cl) e.(x_wcl)
         && bytes_eqb e.(x_data) (take L e.(x_wbody))
         && N.eqb e.(x_err) (if Z.gtb (blen_b e.(x_wbody)) L then 1%N else 0%N)).

(* 3. a content encoding that is not enabled: client error before the handler runs *)
Definition c_unsupported (e : eobs) : bool :=
  implb (sent_b e && negb (enabled_b e.(x_algs) e.(x_custom) (first_of e.(x_wce))))
        (N.eqb e.(x_kind) 1 && Z.leb 400 e.(x_status) && Z.ltb e.(x_status) 500).

(* 4. the handler never reads more than the limit, counted after decompression *)
Definition c_limit (e : eobs) : bool :=
  implb (sent_b e && N.eqb e.(x_kind) 0) (Z.leb (blen_b e.(x_data)) (limit_of e.(x_max))).

(* ---- auxiliary checks (also over the observed behaviour; they use the recorded library tables) --------- *)
Definition codec_of_name (n : string) : option N :=
  if String.eqb n "gzip" then Some 0%N else if (String.eqb n "zlib" || String.eqb n "deflate")%bool then Some 1%N
  else if String.eqb n "zstd" then Some 2%N else if String.eqb n "snappy" then Some 3%N
  else if String.eqb n "lz4" then Some 4%N else None.

(* the library's verdict on the raw body for the codec the header names (only when the raw body fits) *)
Definition lib_decode (e : eobs) : option dres :=
  let L := limit_of e.(x_max) in
  let n := first_of e.(x_wce) in
  if sent_b e && str_mem n (algs_of e.(x_algs)) && negb (str_mem n (custom_keys e.(x_custom)))
     && Z.leb (blen_b e.(x_wbody)) L
  then match codec_of_name n with Some k => assoc N.eqb e.(x_dect) k | None => None end
  else None.

(* decoded size over the limit: the read fails with "too large" after exactly the first L bytes;
   a valid body within the limit is delivered decoded, without the encoding header *)
Definition c_decoded (e : eobs) : bool :=
  let L := limit_of e.(x_max) in
  match lib_decode e with
  | Some (DStream (d, er)) =>
      if Z.gtb (blen_b d) L then
        N.eqb e.(x_kind) 0 && bytes_eqb e.(x_data) (take L d) && N.eqb e.(x_err) 1
      else if N.eqb er 0 then
        N.eqb e.(x_kind) 0 && bytes_eqb e.(x_data) d && N.eqb e.(x_err) 0
        && match e.(x_hce) with [] => true | _ => false end && Z.eqb e.(x_cl) (-1)
      else true
  | _ => true
  end.

(* a preset Content-Encoding / a client without compression: the body is not touched *)
Definition c_untouched (e : eobs) : bool :=
  implb (sent_b e && (negb (String.eqb (first_of e.(x_ce)) ""%string) || negb (is_compressed e.(x_type))))
        (bytes_eqb e.(x_wbody) (given e)).

(* the server does not panic unless the request selects a custom decoder registered as a nil func *)
Fixpoint last_custom (cu : list (string * option N)) (k : string) : option (option N) :=
  match cu with
  | [] => None
  | (k', i) :: r => match last_custom r k with Some j => Some j | None => if String.eqb k k' then Some i else None end
  end.
Definition c_nopanic (e : eobs) : bool :=
  implb (N.eqb e.(x_kind) 2)
        (match last_custom e.(x_custom) (first_of e.(x_wce)) with Some None => true | _ => false end).

(* EVERY handler behind the server middleware — each configured `middlewares` handler and the innermost
   one — is given what the innermost handler is given (so clauses 1, 2, 4 hold for each of them), in the
   configured order, and none of them runs for a request that is rejected *)
Definition c_views (e : eobs) : bool :=
  if sent_b e && N.eqb e.(x_kind) 0 then
    let v := (e.(x_hce), e.(x_cl), (e.(x_data), e.(x_err))) in
    list_eqb view_eqb e.(x_views) (map (fun i => (N.of_nat i, v)) (seq 1 e.(x_mw)) ++ [(0%N, v)])
  else match e.(x_views) with [] => true | _ => false end.

(* ---- sizes-only cases ----------------------------------------------------------------------------------- *)
Definition l_clauses (c : vcase) : list (N * bool) :=
  match c with
  | LC max algs custom ce n cl ldect o_kind o_status o_hce o_cl o_len o_err =>
      let L := limit_of max in
      let e := first_of ce in
      [ (4%N, implb (N.eqb o_kind 0) (Z.leb o_len L));
        (3%N, implb (negb (enabled_b algs custom e)) (N.eqb o_kind 1 && Z.leb 400 o_status && Z.ltb o_status 500));
        (2%N, implb (String.eqb e ""%string && str_mem ""%string (algs_of algs) && negb (str_mem ""%string (custom_keys custom)))
                    (N.eqb o_kind 0 && strs_eqb o_hce ce && Z.eqb o_cl cl && Z.eqb o_len (Z.min n L)
                     && N.eqb o_err (if Z.gtb n L then 1%N else 0%N)));
        (5%N, if str_mem e (algs_of algs) && negb (str_mem e (custom_keys custom)) && Z.leb n L
              then match codec_of_name e with
                   | Some k => match assoc N.eqb ldect k with
                               | Some (LStream (d, er)) =>
                                   if Z.gtb d L then N.eqb o_kind 0 && Z.eqb o_len L && N.eqb o_err 1
                                   else if N.eqb er 0 then N.eqb o_kind 0 && Z.eqb o_len d && N.eqb o_err 0
                                   else true
                               | _ => true
                               end
                   | None => true
                   end
              else true);
        (7%N, implb (N.eqb o_kind 2) (match last_custom custom e with Some None => true | _ => false end)) ]
  | _ => []
  end.

(* ---- the checker ---------------------------------------------------------------------------------------- *)
(* clause numbers: 1 round trip, 2 pass-through, 3 not enabled => rejected, 4 limit,
   5 decoded stream / limit exact, 6 body untouched, 7 no panic, 8 every handler behind the middleware *)
Definition core_ok (e : eobs) : bool := c_roundtrip e && c_passthrough e && c_unsupported e && c_limit e.

Definition eclauses (e : eobs) : list (N * bool) :=
  [ (1%N, c_roundtrip e); (2%N, c_passthrough e); (3%N, c_unsupported e); (4%N, c_limit e);
    (5%N, c_decoded e); (6%N, c_untouched e); (7%N, c_nopanic e); (8%N, c_views e) ].

(* all eight checks on one observation *)
Definition eobs_ok (e : eobs) : bool := forallb snd (eclauses e).

Definition clauses (c : vcase) : list (N * bool) :=
  match eobs_of c with
  | Some e => eclauses e
  | None => l_clauses c
  end.

(* the violated clauses *)
Definition prop_fail (c : vcase) : list N := map fst (filter (fun p => negb (snd p)) (clauses c)).
Definition prop_ok (c : vcase) : bool := match prop_fail c with [] => true | _ => false end.

(* correspondence AND property: what the driver evaluates on every case *)
Definition check_all (c : vcase) : bool := check_case c && prop_ok c.

(* diagnosis of one case: does the model agree, which clauses are violated *)
Definition diagnose (c : vcase) : bool * list N := (check_case c, prop_fail c).
