(* C14/Repaired.v — the model AFTER the proposed repairs (work/C14/fix/*.diff), next to the faithful
   Model.v / UseModel.v (which stay as the code IS).  For each open finding that lives in the
   collector's own code: the repaired definition and the proof that the statement which is refuted of
   the faithful model is a theorem of the repaired one.  Nothing here is used by the check of the
   unchanged tree; when a repair is committed the corresponding definition moves into Model.v — done for
   C14-CONFMAP-ARRAY (b32d82269) and C14-SQUASH-REMARSHAL (02a3505c0).  The three below were NOT taken. *)
From Verif Require Import Common.Base Generated.C14Opaque C14.Model C14.Proofs.
From Coq Require Import String Ascii.
Local Open Scope string_scope.

Local Hint Resolve contains_refl contains_app_l contains_app_r contains_cons : cont.

(* ------------------------------------------------------------------------------------------------ *)
(* C14-EXPAND-POINTER (useExpandValue looks through pointer types) — proposed, NOT taken: for an     *)
(* optional *string field, nil versus pointer-to-empty after an empty / null expansion is a change    *)
(* ------------------------------------------------------------------------------------------------ *)
Fixpoint unmarshal_repaired (M : methods) (u : uctx) (t : string) : ures :=
  match u with
  | UViaSub u' => unmarshal_repaired M u' t
  | UExpInline => Stored ("pre-" ++ t ++ "-post")
  | _ => Stored t
  end.

(* refuted of the faithful model: unmarshal_stores_refuted, expanded_pointer_gets_parsed_value.
   Repaired: the FULL statement. *)
Theorem unmarshal_stores_repaired : forall M u t, is_inline u = false -> unmarshal_repaired M u t = Stored t.
Proof.
  intros M u t. induction u; intros H; try reflexivity; try discriminate. simpl in *. now apply IHu.
Qed.

Theorem unmarshal_repaired_agrees_elsewhere : forall M u t,
  plain_ctx u = true \/ is_inline u = true -> unmarshal_repaired M u t = unmarshal M u t.
Proof.
  intros M u t. induction u as [| | | | | | | | | |c|u IH]; intros H; try reflexivity.
  - destruct c; try reflexivity; destruct H; discriminate.
  - simpl in *. now apply IH.
Qed.

(* ------------------------------------------------------------------------------------------------ *)
(* C14-FMT-BADVERB: a Format method on configopaque.String (fix/C14-FMT-BADVERB.diff):               *)
(*   func (s String) Format(f fmt.State, verb rune) { fmt.Fprintf(f, fmt.FormatString(f, verb), maskedString) } *)
(* handleMethods then routes EVERY verb to the method (it is asked before GoStringer / Stringer);     *)
(* only %p (handled before any method) and %w on a non-error (checked before the Formatter) remain.   *)
(* ------------------------------------------------------------------------------------------------ *)
Definition leaf_opaque_repaired (M : methods) (st : pst) (verb : string) (handle : bool) (s : string) : string :=
  if handle && negb (erroring st) then leaf_plain st verb "string" (m_String M s)   (* Sprintf(same format, marker) *)
  else leaf_plain st verb tn_opaque s.

Definition render_bare_repaired (M : methods) (verb : string) (f : flags) (s : string) : string :=
  let st := mk_pst verb f in
  let bad := "%!" ++ verb ++ "(" ++ tn_opaque ++ "=" ++ leaf_opaque_repaired M (set_erroring st) "v" true s ++ ")" in
  if String.eqb verb "T" then fmtS (fl st) tn_opaque
  else if String.eqb verb "p" then bad
  else if String.eqb verb "w" then bad
  else leaf_opaque_repaired M st verb true s.

(* refuted of the faithful model: fmt_unrouted_verb_reveals(_any_flags).  Repaired: for EVERY verb other
   than p and w, every flag set, width and precision, the rendering of the bare value is independent
   of the secret ... *)
Theorem fmt_every_verb_repaired : forall M, methods_constant M -> forall verb f s1 s2,
  verb <> "p" -> verb <> "w" -> render_bare_repaired M verb f s1 = render_bare_repaired M verb f s2.
Proof.
  intros M HC verb f s1 s2 Hp Hw. unfold render_bare_repaired.
  destruct (String.eqb verb "T"); [reflexivity|].
  destruct (String.eqb verb "p") eqn:Ep; [apply String.eqb_eq in Ep; contradiction|].
  destruct (String.eqb verb "w") eqn:Ew; [apply String.eqb_eq in Ew; contradiction|].
  unfold leaf_opaque_repaired. rewrite mk_pst_not_erroring. simpl. now rewrite (mc_String M HC s1 s2).
Qed.

(* ... e.g. %d now prints the marker in fmt's bad-verb report; %p and %w still print the value *)
Example ex_repaired_d : render_bare_repaired opaque "d" no_flags "s3cr3t" = "%!d(string=[REDACTED])".
Proof. vm_compute. reflexivity. Qed.
Example ex_repaired_w : render_bare_repaired opaque "w" no_flags "s3cr3t" = "%!w(configopaque.String=s3cr3t)".
Proof. vm_compute. reflexivity. Qed.

(* ------------------------------------------------------------------------------------------------ *)
(* C14-FMT-UNEXPORTED, the one instance in the tree (confighttp.headerRoundTripper.headers):          *)
(* a Format method on the type prints the headers map as the opaque strings they are                  *)
(* ------------------------------------------------------------------------------------------------ *)
(* faithful: a struct whose UNEXPORTED field holds the headers map *)
Definition roundtripper_fmt (M : methods) (verb : string) (f : flags) (s : string) : string :=
  render_fmt M verb f (SField false (SMapVal SBare)) s.

Definition roundtripper_fmt_repaired (M : methods) (verb : string) (f : flags) (s : string) : string :=
  "headerRoundTripper{headers: " ++ render_fmt M "v" no_flags (SMapVal SBare) s ++ "}".

Theorem roundtripper_reveals : roundtripper_fmt opaque "v" no_flags "a" <> roundtripper_fmt opaque "v" no_flags "b".
Proof. vm_compute. discriminate. Qed.

Theorem roundtripper_repaired : forall M, methods_constant M -> forall verb f s1 s2,
  roundtripper_fmt_repaired M verb f s1 = roundtripper_fmt_repaired M verb f s2.
Proof.
  intros M HC verb f s1 s2. unfold roundtripper_fmt_repaired. f_equal. f_equal.
  apply (render_ni M HC (PFmt "v" no_flags) (SMapVal SBare) s1 s2). reflexivity.
Qed.

Print Assumptions unmarshal_stores_repaired.
Print Assumptions fmt_every_verb_repaired.
Print Assumptions roundtripper_repaired.
