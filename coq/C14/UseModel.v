(* C14/UseModel.v — executable model of the code that NEEDS the secret: from the configured
   headers map (opaque values) / PEM fields to what goes on the wire / into the TLS loader.

   Code modelled (by hand: each of the three header functions is a loop over a map, outside T1's
   loop-free subset; tied by the correspondence run of harness B, real HTTP / gRPC round trips):
   * config/confighttp/confighttp.go headerRoundTripper.RoundTrip:
         hostHeader, found := headers["Host"]; if found && hostHeader != "" { req.Host = string(hostHeader) }
         for k, v := range headers { req.Header.Set(k, string(v)) }
     with net/http Header.Set (key canonicalised by textproto.CanonicalMIMEHeaderKey, value replaced)
   * config/confighttp/confighttp.go responseHeadersHandler: for k, v := range headers { w.Header().Set(k, string(v)) }
   * config/configgrpc/configgrpc.go addHeadersIfAbsent (unary and stream client interceptors):
         for k, v := range gcs.Headers { if len(existingMd.Get(k)) == 0 { kv = append(kv, k, string(v)) } }
         metadata.AppendToOutgoingContext(ctx, kv...)
     with grpc metadata (keys lower-cased, values appended per key)
   * config/configtls/configtls.go Config.loadCertificate: which bytes are handed to tls.X509KeyPair.
     Its presence predicates hasCert / hasKey / hasCertPem / hasKeyPem are translated by T1
     (Generated/C14Tls.v); the switch itself is by hand ([]byte locals are outside T1's subset).

   A Go map is modelled as an association list in SOME iteration order (Go's is random): the
   theorems hold for every order. *)
From Verif Require Import Common.Base Generated.C14Tls.
From Coq Require Import String Ascii.
Local Open Scope string_scope.

Definition hdrs := list (string * string).

(* ---- ASCII case ------------------------------------------------------------------------------ *)
Definition cN (c : ascii) : N := N_of_ascii c.
Definition is_upper (c : ascii) : bool := (65 <=? cN c)%N && (cN c <=? 90)%N.
Definition is_lower (c : ascii) : bool := (97 <=? cN c)%N && (cN c <=? 122)%N.
Definition is_digit (c : ascii) : bool := (48 <=? cN c)%N && (cN c <=? 57)%N.
Definition to_lower (c : ascii) : ascii := if is_upper c then ascii_of_N (cN c + 32) else c.
Definition to_upper (c : ascii) : ascii := if is_lower c then ascii_of_N (cN c - 32) else c.

Fixpoint lower_s (s : string) : string :=
  match s with EmptyString => EmptyString | String c r => String (to_lower c) (lower_s r) end.

(* net/textproto: validHeaderFieldByte (RFC 7230 token characters) *)
Definition is_token_byte (c : ascii) : bool :=
  is_upper c || is_lower c || is_digit c ||
  existsb (fun n => (cN c =? n)%N) [33; 35; 36; 37; 38; 39; 42; 43; 45; 46; 94; 95; 96; 124; 126]%N.

Fixpoint all_token (s : string) : bool :=
  match s with EmptyString => true | String c r => is_token_byte c && all_token r end.

Fixpoint canon_go (up : bool) (s : string) : string :=
  match s with
  | EmptyString => EmptyString
  | String c r => String (if up then to_upper c else to_lower c) (canon_go (cN c =? 45)%N r)
  end.

(* textproto.CanonicalMIMEHeaderKey: first letter and letters after '-' upper case, the rest lower
   case; a key with a space or another invalid byte is returned as it is *)
Definition canon_mime (k : string) : string := if all_token k then canon_go true k else k.

(* ---- http.Header with Set / Get (single values) ----------------------------------------------- *)
Fixpoint hget (h : hdrs) (k : string) : option string :=
  match h with
  | [] => None
  | (k', v) :: r => if String.eqb k' k then Some v else hget r k
  end.

Fixpoint hset (h : hdrs) (k v : string) : hdrs :=
  match h with
  | [] => [(k, v)]
  | (k', v') :: r => if String.eqb k' k then (k, v) :: r else (k', v') :: hset r k v
  end.

Definition http_set_all (cfg : hdrs) (h : hdrs) : hdrs :=
  fold_left (fun h kv => hset h (canon_mime (fst kv)) (snd kv)) cfg h.

(* headerRoundTripper.RoundTrip: (req.Host, req.Header) after the call *)
Definition http_client_roundtrip (cfg : hdrs) (req_host : string) (req_hdr : hdrs) : string * hdrs :=
  (match hget cfg "Host" with
   | Some v => if String.eqb v "" then req_host else v
   | None => req_host
   end,
   http_set_all cfg req_hdr).

(* responseHeadersHandler: w.Header() when the wrapped handler is entered *)
Definition http_response_headers (cfg : hdrs) (h : hdrs) : hdrs := http_set_all cfg h.

(* ---- what the consumers give back ------------------------------------------------------------------
   headerRoundTripper.RoundTrip ends with `return interceptor.transport.RoundTrip(req)`, the grpc
   interceptors with `return invoker(addHeadersIfAbsent(ctx), ...)` / `return streamer(...)`: the result
   — in particular the ERROR of a failed request, which exporters log and propagate — is the next
   layer's result, untouched; the request (which by now holds the plain secrets) is not rendered. *)
Inductive outcome := Done (what : string) | Fail (err : string).

Definition http_client_result (cfg : hdrs) (next : outcome) : outcome := next.
Definition grpc_call_result (cfg : hdrs) (next : outcome) : outcome := next.

(* ---- grpc metadata ------------------------------------------------------------------------------ *)
Definition md := list (string * list string).

Fixpoint md_get (m : md) (k : string) : list string :=
  match m with
  | [] => []
  | (k', vs) :: r => if String.eqb k' k then vs else md_get r k
  end.

Fixpoint md_append (m : md) (k v : string) : md :=
  match m with
  | [] => [(k, [v])]
  | (k', vs) :: r => if String.eqb k' k then (k', (vs ++ [v])%list) :: r else (k', vs) :: md_append r k v
  end.

Definition md_absent (m : md) (k : string) : bool := match md_get m k with [] => true | _ => false end.

(* addHeadersIfAbsent: the outgoing metadata after the interceptor ([existing] has lower-case keys) *)
Definition grpc_add_headers (cfg : hdrs) (existing : md) : md :=
  fold_left (fun m kv => if md_absent existing (lower_s (fst kv))
                         then md_append m (lower_s (fst kv)) (snd kv) else m) cfg existing.

(* ---- configtls: the key pair handed to tls.X509KeyPair ------------------------------------------ *)
Record tlscfg := TlsCfg { t_CertFile : string; t_CertPem : string; t_KeyFile : string; t_KeyPem : string }.

Inductive tls_src := FromFile (path : string) | FromPem (bytes : string).

Inductive tls_load :=
| TlsErrBothOrNeither        (* "provide both certificate and key, or neither" *)
| TlsErrCertTwice            (* "provide either a certificate or the PEM-encoded string, but not both" *)
| TlsErrKeyTwice
| TlsNoCertificate
| TlsPair (cert key : tls_src).

(* hand-written presence predicates (obligations in UseProofs.v: equal to the generated ones) *)
Definition nonempty (s : string) : bool := negb (String.eqb s "").

Definition has_cert (c : tlscfg) : bool := nonempty (t_CertFile c) || nonempty (t_CertPem c).
Definition has_key (c : tlscfg) : bool := nonempty (t_KeyFile c) || nonempty (t_KeyPem c).

Definition load_certificate (c : tlscfg) : tls_load :=
  if negb (Bool.eqb (has_cert c) (has_key c)) then TlsErrBothOrNeither
  else if negb (has_cert c) && negb (has_key c) then TlsNoCertificate
  else if nonempty (t_CertFile c) && nonempty (t_CertPem c) then TlsErrCertTwice
  else if nonempty (t_KeyFile c) && nonempty (t_KeyPem c) then TlsErrKeyTwice
  else TlsPair (if nonempty (t_CertFile c) then FromFile (t_CertFile c) else FromPem (t_CertPem c))
               (if nonempty (t_KeyFile c) then FromFile (t_KeyFile c) else FromPem (t_KeyPem c)).

(* the same decision with the predicates T1 reads from the source *)
Definition load_certificate_gen (c : tlscfg) : tls_load :=
  let hcf := nonempty (t_CertFile c) in
  let hkf := nonempty (t_KeyFile c) in
  let hcp := tls_hasCertPem (Z.of_nat (String.length (t_CertPem c))) in
  let hkp := tls_hasKeyPem (Z.of_nat (String.length (t_KeyPem c))) in
  if negb (Bool.eqb (tls_hasCert hcf hcp) (tls_hasKey hkf hkp)) then TlsErrBothOrNeither
  else if negb (tls_hasCert hcf hcp) && negb (tls_hasKey hkf hkp) then TlsNoCertificate
  else if hcf && hcp then TlsErrCertTwice
  else if hkf && hkp then TlsErrKeyTwice
  else TlsPair (if hcf then FromFile (t_CertFile c) else FromPem (t_CertPem c))
               (if hkf then FromFile (t_KeyFile c) else FromPem (t_KeyPem c)).

(* the error text of a failed load: three fixed messages, or the loader's own error behind a fixed
   prefix; the PEM bytes are not part of it *)
Definition tls_error_text (r : tls_load) (loader_err : string) : option string :=
  match r with
  | TlsErrBothOrNeither => Some "for auth via TLS, provide both certificate and key, or neither"
  | TlsErrCertTwice => Some "for auth via TLS, provide either a certificate or the PEM-encoded string, but not both"
  | TlsErrKeyTwice => Some "for auth via TLS, provide either a key or the PEM-encoded string, but not both"
  | TlsNoCertificate => None
  | TlsPair _ _ => if String.eqb loader_err "" then None
                   else Some ("failed to load TLS cert and key PEMs: " ++ loader_err)
  end.

(* ---- configtls: the CA pool (Config.loadCACertPool) ----------------------------------------------- *)
Inductive ca_load := CaErrTwice | CaNone | CaFrom (s : tls_src).

Definition load_ca (cafile capem : string) : ca_load :=
  if nonempty cafile && nonempty capem then CaErrTwice
  else if nonempty cafile then CaFrom (FromFile cafile)
  else if nonempty capem then CaFrom (FromPem capem)
  else CaNone.

Definition load_ca_gen (cafile capem : string) : ca_load :=
  let hf := nonempty cafile in
  let hp := tls_hasCAPem (Z.of_nat (String.length capem)) in
  if hf && hp then CaErrTwice
  else if hf then CaFrom (FromFile cafile)
  else if hp then CaFrom (FromPem capem)
  else CaNone.

(* the error text: fixed messages; [parse_ok] = x509's AppendCertsFromPEM accepted the bytes *)
Definition ca_error_text (r : ca_load) (parse_ok : bool) : option string :=
  match r with
  | CaErrTwice => Some "failed to load CA CertPool: provide either a CA file or the PEM-encoded string, but not both"
  | CaNone => None
  | CaFrom (FromFile _) => if parse_ok then None else Some "failed to load CA CertPool File: failed to parse cert"
  | CaFrom (FromPem _) => if parse_ok then None else Some "failed to load CA CertPool PEM: failed to parse cert"
  end.

(* ---- Validate() of the configuration structs that hold opaque values ----------------------------------
   configgrpc.ClientConfig.Validate (balancer name known?), confighttp.ClientConfig.Validate (compression
   parameters), configtls.Config.Validate (CA given twice? TLS versions): decisions over the NON-opaque
   settings; the headers map / the PEMs are parameters here only to say that the result ignores them.
   (Not translatable by T1: string-field selectors / multi-value assignments.) *)
Definition grpc_client_validate (balancer_name : string) (balancer_known : bool) (headers : hdrs) : option string :=
  if nonempty balancer_name && negb balancer_known then Some ("invalid balancer_name: " ++ balancer_name) else None.

Definition http_client_validate (compression_params_err : option string) (headers : hdrs) : option string :=
  compression_params_err.

Definition tls_validate (cafile capem certpem keypem : string) : option string :=
  if nonempty cafile && nonempty capem
  then Some "provide either a CA file or the PEM-encoded string, but not both" else None.

(* ---- the configuration after it has been USED ------------------------------------------------------------
   The calls that build a consumer from a configuration struct (confighttp ToClient / ToListener+ToServer,
   configgrpc ToClientConn / ToServer, configtls LoadTLSConfig, Validate, and a request through the built
   client) READ the configuration: they keep no plain copy of an opaque value in it (nor anywhere a rendering
   of the configuration reaches).  The configuration after the call is the configuration before it, hence
   so is every rendering of it. *)
Inductive builder :=
| BHttpToClient | BHttpRequest | BHttpToServer | BGrpcToClientConn | BGrpcCall | BGrpcToServer
| BTlsLoadClient | BTlsLoadServer | BValidate.

Definition config_after (b : builder) (cfg : hdrs) : hdrs := cfg.
