(* C14/Witness.v — non-vacuity of the hypotheses, concrete evaluations, the refutation witnesses. *)
From Verif Require Import Common.Base Generated.C14Opaque C14.Model C14.Proofs C14.UseModel C14.UseProofs C14.Harness C14.Clauses.
From Coq Require Import String Ascii.
Local Open Scope string_scope.

Definition headers : shape := SField true (SMapVal SBare).      (* struct { F map[string]String } *)
Definition fl_sharp_plus_w14 : flags := F true false true false false (Some 14) None.

(* [safe] / [shows] / [verbatim] are satisfied by non-trivial paths and shapes *)
Example ex_safe : safe (PFmt "v" fl_sharp_plus_w14) (SPtr headers) = true /\ shows (PFmt "v" fl_sharp_plus_w14) (SPtr headers) = true
  /\ safe PJson (SSlice (SIface headers)) = true /\ shows PConfmap headers = true /\ verbatim (PFmt "q" fl_sharp_plus_w14) = true
  /\ safe PConfmap SMapKey = true /\ safe PYaml (SField false SBare) = true.
Proof. vm_compute. repeat split. Qed.

(* concrete renderings (the same strings the Go implementation produces; see the harness) *)
Example ex_v : render opaque (PFmt "v" no_flags) headers "s3cr3t" = "{map[k:[REDACTED]]}".
Proof. vm_compute. reflexivity. Qed.
Example ex_sharp_v : render opaque (PFmt "v" (F false false true false false None None)) (SField true SBare) "s3cr3t"
  = "struct { F configopaque.String }{F:" ++ dquote ++ "[REDACTED]" ++ dquote ++ "}".
Proof. vm_compute. reflexivity. Qed.
Example ex_x : render opaque (PFmt "x" (F false false true true false None (Some 2))) SBare "s3cr3t" = "0x5b 0x52".
Proof. vm_compute. reflexivity. Qed.
Example ex_q_pad : render opaque (PFmt "q" (F false true false false true (Some 14) (Some 3))) (SSlice SBare) "s3cr3t"
  = "[" ++ dquote ++ "[RE" ++ dquote ++ "          " ++ dquote ++ "[RE" ++ dquote ++ "         ]".
Proof. vm_compute. reflexivity. Qed.
Example ex_json : render opaque PJson (SField true (SSlice (SPtr SBare))) "s3cr3t"
  = "{" ++ dquote ++ "F" ++ dquote ++ ":[" ++ dquote ++ "[REDACTED]" ++ dquote ++ "," ++ dquote ++ "[REDACTED]" ++ dquote ++ "]}".
Proof. vm_compute. reflexivity. Qed.
Example ex_confmap : render opaque PConfmap headers "s3cr3t" = "{f:{k:" ++ dquote ++ "[REDACTED]" ++ dquote ++ "}}".
Proof. vm_compute. reflexivity. Qed.
Example ex_confmap_key : render opaque PConfmap SMapKey "s3cr3t" = "{[REDACTED]:" ++ dquote ++ "v" ++ dquote ++ "}".
Proof. vm_compute. reflexivity. Qed.
Example ex_confmap_array : render opaque PConfmap (SField true (SArray SBare)) "s3cr3t" = "{f:[" ++ dquote ++ "[REDACTED]" ++ dquote ++ "]}"
  /\ shows PConfmap (SField true (SArray (SMarsh SBare))) = true.
Proof. vm_compute. split; reflexivity. Qed.
Example ex_ptrptr : has_addr (render opaque (PFmt "v" no_flags) (SPtr (SPtr SBare)) "s3cr3t") = true.
Proof. vm_compute. reflexivity. Qed.

(* the hypotheses of the ..._reveals theorems are satisfiable, and the leaks on concrete secrets *)
Example ex_bad_d : good_verb "d" = false /\ "d" <> "T" /\
  render opaque (PFmt "d" no_flags) SBare "s3cr3t" = "%!d(configopaque.String=s3cr3t)".
Proof. vm_compute. repeat split. discriminate. Qed.
Example ex_bad_w : render opaque PErrorfW (SField true SBare) "s3cr3t" = "%!w(struct { F configopaque.String }={s3cr3t})".
Proof. vm_compute. reflexivity. Qed.
Example ex_bad_prec : render opaque (PFmt "d" (F false false false false false (Some 5) (Some 2))) SBare "s3cr3t"
  = "%!d(configopaque.String=   s3)".
Proof. vm_compute. reflexivity. Qed.
Example ex_unexported_x : render opaque (PFmt "x" no_flags) (SField false SBare) "sec" = "{736563}".
Proof. vm_compute. reflexivity. Qed.
Example ex_zap_key : render opaque PZapAny SMapKey "s3cr3t" = "{" ++ dquote ++ "k" ++ dquote ++ ":{" ++ dquote ++ "s3cr3t" ++ dquote ++ ":" ++ dquote ++ "v" ++ dquote ++ "}}".
Proof. vm_compute. reflexivity. Qed.
Example ex_squash : unmarshal opaque UConfSquashUnmarshaler "s3cr3t" = Stored "s3cr3t" /\ plain_ctx UConfSquashUnmarshaler = true /\ unmarshal opaque UConfSquashPlain "s3cr3t" = Stored "s3cr3t".
Proof. vm_compute. repeat split. Qed.

(* a method table that looks at the secret is NOT constant: the hypothesis of the central theorem
   has content, and such a table does leak through a Stringer verb *)
Definition leaky : methods := Methods (fun s => s) (fun s => go_quote s) (fun _ => "[REDACTED]") (fun _ => "[REDACTED]").
Example ex_leaky : ~ methods_constant leaky /\ render leaky (PFmt "v" no_flags) SBare "a" <> render leaky (PFmt "v" no_flags) SBare "b".
Proof.
  split.
  - intros [H _ _ _]. specialize (H "a" "b"). discriminate.
  - vm_compute. discriminate.
Qed.

(* methods_agree is strictly weaker than constancy: the leaky table agrees on equal String() results only *)
Example ex_agree : methods_agree opaque "a" "b" /\ ~ methods_agree leaky "a" "b".
Proof. split; [vm_compute; repeat split|intros [[H _] _]; discriminate]. Qed.

(* hypotheses of fmt_unrouted_verb_reveals_any_flags *)
Example ex_any_flags : let f := F true true true true true None None in
  good_verb "d" = false /\ f_wid f = None /\ f_prec f = None /\ (String.eqb "d" "w" && f_sharp f = false) /\
  render opaque (PFmt "d" f) SBare "s3cr3t" = "%!d(configopaque.String=s3cr3t)".
Proof. vm_compute. repeat split. Qed.

(* two opaque keys collide on the marker: the config-map encoder fails, and its error text (also
   when wrapped by the enclosing struct) shows the ENCODED key only; fmt and json for comparison *)
Example ex_dupkey : render opaque PConfmap (SField true SMapKey2) "s3cr3t"
  = "ERR error encoding field " ++ dquote ++ "f" ++ dquote ++ ": duplicate key " ++ dquote ++ "[REDACTED]" ++ dquote ++ " while encoding".
Proof. vm_compute. reflexivity. Qed.
Example ex_dupkey_fmt : render opaque (PFmt "v" no_flags) SMapKey2 "s3cr3t" = "map[[REDACTED]:v [REDACTED]:w]"
  /\ safe PConfmap (SField true SMapKey2) = true /\ safe (PFmt "v" no_flags) SMapKey2 = true.
Proof. vm_compute. repeat split. Qed.

(* decoding contexts *)
Example ex_expand : plain_ctx UExpScalar = true /\ plain_ctx (UExpPtr YStr) = true /\
  unmarshal opaque UExpScalar "987654321" = Stored "987654321" /\ unmarshal opaque UExpMapVal "null" = Stored "null" /\
  unmarshal opaque (UExpPtr YOther) "987654321" = DecodeError.
Proof. vm_compute. repeat split. Qed.

(* the header paths: hypotheses satisfiable, concrete wire contents *)
Definition cfg_ex : hdrs := [("x-signature-bin", "s3cr3t"); ("Authorization", "Bearer t0k"); ("Host", "h0st")].
Example ex_http : NoDup (ckeys cfg_ex) /\ NoDup (lkeys cfg_ex) /\
  http_client_roundtrip cfg_ex "127.0.0.1:1" [("Authorization", "old")]
  = ("h0st", [("Authorization", "Bearer t0k"); ("X-Signature-Bin", "s3cr3t"); ("Host", "h0st")]).
Proof.
  split; [|split]; try (vm_compute; reflexivity);
    repeat (constructor; [simpl; intuition discriminate|]); constructor.
Qed.
Example ex_grpc : grpc_add_headers cfg_ex [("authorization", ["caller"])]
  = [("authorization", ["caller"]); ("x-signature-bin", ["s3cr3t"]); ("host", ["h0st"])].
Proof. vm_compute. reflexivity. Qed.
Example ex_tls : load_certificate (TlsCfg "" "CERT" "" "KEY") = TlsPair (FromPem "CERT") (FromPem "KEY")
  /\ load_certificate (TlsCfg "f" "CERT" "" "KEY") = TlsErrCertTwice /\ load_certificate (TlsCfg "" "CERT" "" "") = TlsErrBothOrNeither.
Proof. vm_compute. repeat split. Qed.

(* colliding keys: the hypothesis NoDup (ckeys cfg) fails, the weaker theorems still apply *)
Definition cfg_collide : hdrs := [("x-tok", "s3cr3t-1"); ("X-Tok", "s3cr3t-2")].
Example ex_collide : ~ NoDup (ckeys cfg_collide) /\
  hget (http_set_all cfg_collide []) "X-Tok" = Some "s3cr3t-2" /\
  md_get (grpc_add_headers cfg_collide []) "x-tok" = ["s3cr3t-1"; "s3cr3t-2"].
Proof.
  split; [|split; vm_compute; reflexivity].
  intros H. inversion H as [|? ? N _]; subst. apply N. simpl. now left.
Qed.

(* the clause checker has content: a recorded rendering that shows the secret, a header that arrives
   redacted, a text stored differently are rejected; the corresponding good cases are accepted *)
Example ex_clauses :
  prop_code (CRender (SField true SBare) (A "hunter2-s3cr3t") [(PFmt "v" no_flags, A "{hunter2-s3cr3t}", false)]) = 1 /\
  prop_code (CRender (SField true SBare) (A "hunter2-s3cr3t") [(PFmt "x" no_flags, A "{68756e746572322d733363723374}", false)]) = 1 /\
  prop_code (CRender (SField true SBare) (A "hunter2-s3cr3t") [(PFmt "v" no_flags, A "{***}", false)]) = 5 /\
  prop_code (CRender (SField true SBare) (A "hunter2-s3cr3t") [(PFmt "v" no_flags, A "{[REDACTED]}", false)]) = 0 /\
  prop_code (CRender (SField false SBare) (A "hunter2-s3cr3t") [(PFmt "v" no_flags, A "{hunter2-s3cr3t}", false)]) = 0 /\
  prop_code (CUnm UExpScalar (A "987654321") (A "")) = 2 /\
  prop_code (CGrpc [(A "x-sig-bin", A "hunter2-s3cr3t")] [] [(A "x-sig-bin", [A "[REDACTED]"])]) = 3 /\
  prop_code (CGrpc [(A "x-sig-bin", A "hunter2-s3cr3t")] [] [(A "x-sig-bin", [A "hunter2-s3cr3t"])]) = 0 /\
  prop_code (CFail false [(A "Authorization", A "Bearer hunter2-s3cr3t")] (A "refused") (A "GET (headers: map[Authorization:[Bearer hunter2-s3cr3t]]): refused")) = 4 /\
  prop_code (CTls 0 1 0 1 4) = 3.
Proof. vm_compute. repeat split. Qed.
