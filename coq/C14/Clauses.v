(* C14/Clauses.v — decidable checkers of the property's clauses over the OBSERVED behaviour of the
   implementation (the case terms recorded by the harnesses), independent of the model's rendering
   functions, each proved equivalent to the Prop-level clause.  The check driver runs [prop_code]
   over every recorded case: a non-zero code is a failing input of the named clause.

   code 1  "never revealed"      a rendering on the safe region shows the secret (raw or hex)
   code 2  "stores unchanged"    a decoding context of the plain kind did not store the text
   code 3  "use yields secret"   a consumer sent / loaded something else than the configured secret
   code 4  "never revealed" (what the consumers give back)  the error of a failed request shows a configured value
   code 5  "render the marker"   a rendering that shows the value verbatim does not contain the marker

   The side conditions [safe], [shows], [verbatim], [plain_ctx] are the decidable predicates of
   Model.v (the region outside them is where the recorded findings live; the Go oracles cover it). *)
From Verif Require Import Common.Base Generated.C14Opaque C14.Harness.
From Coq Require Import String Ascii.
Local Open Scope string_scope.

(* ---- substring ---------------------------------------------------------------------------------- *)
Fixpoint prefix_b (p s : string) : bool :=
  match p, s with
  | EmptyString, _ => true
  | String a p', String b s' => Ascii.eqb a b && prefix_b p' s'
  | _, _ => false
  end.

Fixpoint occurs_b (p s : string) : bool :=
  prefix_b p s || match s with EmptyString => false | String _ s' => occurs_b p s' end.

Definition occurs (p s : string) : Prop := exists pre post, s = pre ++ p ++ post.

Lemma prefix_b_spec : forall p s, prefix_b p s = true <-> exists post, s = p ++ post.
Proof.
  induction p as [|a p IH]; intros s; simpl.
  - split; [intros _; now exists s|reflexivity].
  - destruct s as [|b s]; simpl.
    + split; [discriminate|intros [post E]; discriminate].
    + rewrite andb_true_iff, Ascii.eqb_eq, IH. split.
      * intros [-> [post ->]]. now exists post.
      * intros [post E]. inversion E; subst. split; [reflexivity|now exists post].
Qed.

Lemma occurs_b_spec : forall p s, occurs_b p s = true <-> occurs p s.
Proof.
  intros p s. split.
  - induction s as [|c s IH]; simpl; rewrite orb_true_iff; intros [H|H].
    + apply prefix_b_spec in H. destruct H as [post E]. exists "", post. exact E.
    + discriminate.
    + apply prefix_b_spec in H. destruct H as [post E]. exists "", post. exact E.
    + destruct (IH H) as [pre [post E]]. exists (String c pre), post. simpl. now rewrite E.
  - intros [pre [post E]]. subst s. induction pre as [|c pre IH].
    + simpl. destruct (p ++ post) eqn:Ep; simpl; rewrite orb_true_iff; left; apply prefix_b_spec;
        exists post; now rewrite Ep.
    + simpl. rewrite orb_true_iff. right. exact IH.
Qed.

(* ---- "never revealed" on observed renderings ------------------------------------------------------ *)
Definition hex_s (s : string) : string := concat_map (hex2 false) s.

(* secrets that are searched for: long enough not to occur by accident, and not part of the marker *)
Definition distinctive (s : string) : bool := Nat.leb 8 (String.length s) && negb (occurs_b s "[REDACTED]").

Definition shown_b (secret o : string) : bool := occurs_b secret o || occurs_b (hex_s secret) o.
Definition shown (secret o : string) : Prop := occurs secret o \/ occurs (hex_s secret) o.

Lemma shown_b_spec secret o : shown_b secret o = true <-> shown secret o.
Proof. unfold shown_b, shown. now rewrite orb_true_iff, !occurs_b_spec. Qed.

Definition reveal_ok (sh : shape) (secret : string) (r : path * enc * bool) : bool :=
  negb (safe (fst (fst r)) sh && distinctive secret && shown_b secret (dec (snd (fst r)))).

Definition marker_ok (sh : shape) (r : path * enc * bool) : bool :=
  negb (shows (fst (fst r)) sh && verbatim (fst (fst r))) || occurs_b "[REDACTED]" (dec (snd (fst r))).

(* the clauses, as propositions over one recorded case *)
Definition Clause_never_revealed (sh : shape) (secret : string) (rs : list (path * enc * bool)) : Prop :=
  forall r, In r rs -> safe (fst (fst r)) sh = true -> distinctive secret = true -> ~ shown secret (dec (snd (fst r))).

Definition Clause_marker (sh : shape) (rs : list (path * enc * bool)) : Prop :=
  forall r, In r rs -> shows (fst (fst r)) sh = true -> verbatim (fst (fst r)) = true ->
            occurs "[REDACTED]" (dec (snd (fst r))).

Lemma never_revealed_sound sh secret rs :
  forallb (reveal_ok sh secret) rs = true <-> Clause_never_revealed sh secret rs.
Proof.
  unfold Clause_never_revealed, reveal_ok. rewrite forallb_forall. split; intros H r I.
  - intros Hs Hd Hx. specialize (H r I). rewrite Hs, Hd in H. apply shown_b_spec in Hx. rewrite Hx in H. discriminate.
  - specialize (H r I). destruct (safe (fst (fst r)) sh); [|reflexivity]. destruct (distinctive secret); [|reflexivity].
    simpl. destruct (shown_b secret (dec (snd (fst r)))) eqn:E; [|reflexivity].
    exfalso. apply (H eq_refl eq_refl). now apply shown_b_spec.
Qed.

Lemma marker_sound sh rs : forallb (marker_ok sh) rs = true <-> Clause_marker sh rs.
Proof.
  unfold Clause_marker, marker_ok. rewrite forallb_forall. split; intros H r I.
  - intros Hs Hv. specialize (H r I). rewrite Hs, Hv in H. simpl in H. now apply occurs_b_spec.
  - specialize (H r I). destruct (shows (fst (fst r)) sh); [|reflexivity]. destruct (verbatim (fst (fst r))); [|reflexivity].
    simpl. apply occurs_b_spec. now apply H.
Qed.

(* ---- "unmarshalling stores the secret unchanged" ---------------------------------------------------- *)
Definition expected_stored (u : uctx) (t : string) : string :=
  if is_inline u then "pre-" ++ t ++ "-post" else t.

Definition in_scope (u : uctx) : bool := plain_ctx u || is_inline u.

Definition unm_ok (u : uctx) (t : string) (o : uobs) : bool :=
  negb (in_scope u) || match o with OStored e => String.eqb (dec e) (expected_stored u t) | _ => false end.

Definition Clause_stores (u : uctx) (t : string) (o : uobs) : Prop :=
  in_scope u = true -> exists e, o = OStored e /\ dec e = expected_stored u t.

Lemma stores_sound u t o : unm_ok u t o = true <-> Clause_stores u t o.
Proof.
  unfold unm_ok, Clause_stores. destruct (in_scope u); simpl.
  - destruct o as [e| |]; split; try discriminate.
    + intros H _. exists e. split; [reflexivity|now apply String.eqb_eq].
    + intros H. destruct (H eq_refl) as [e' [E1 E2]]. inversion E1; subst. now apply String.eqb_eq.
    + intros H. destruct (H eq_refl) as [e' [E1 _]]. discriminate.
    + intros H. destruct (H eq_refl) as [e' [E1 _]]. discriminate.
  - split; [discriminate|reflexivity].
Qed.

(* ---- "use yields the secret" ---------------------------------------------------------------------------- *)
Fixpoint obs_get (obs : list (enc * list enc)) (k : string) : option (list string) :=
  match obs with
  | [] => None
  | (k', vs) :: r => if String.eqb (dec k') k then Some (map dec vs) else obs_get r k
  end.

Definition opt_slist_eqb (a : option (list string)) (b : list string) : bool :=
  match a with Some l => slist_eqb l b | None => false end.

Fixpoint nodup_b (l : list string) : bool :=
  match l with [] => true | x :: r => negb (existsb (String.eqb x) r) && nodup_b r end.

(* every configured (key, secret), Host apart, arrived as exactly that secret *)
Definition headers_ok (skip_host : bool) (cfg : hdrs) (obs : list (enc * list enc)) : bool :=
  forallb (fun kv => (skip_host && String.eqb (fst kv) "Host") || opt_slist_eqb (obs_get obs (fst kv)) [snd kv]) cfg.

Definition Clause_headers (skip_host : bool) (cfg : hdrs) (obs : list (enc * list enc)) : Prop :=
  forall k v, In (k, v) cfg -> (skip_host = true /\ k = "Host") \/ obs_get obs k = Some [v].

Lemma slist_eqb_spec a b : slist_eqb a b = true <-> a = b.
Proof. unfold slist_eqb. apply list_eqb_spec. intros x y. apply String.eqb_eq. Qed.

Lemma headers_sound sk cfg obs : headers_ok sk cfg obs = true <-> Clause_headers sk cfg obs.
Proof.
  unfold headers_ok, Clause_headers. rewrite forallb_forall. split.
  - intros H k v I. specialize (H (k, v) I). simpl in H. apply orb_true_iff in H. destruct H as [H|H].
    + apply andb_true_iff in H. destruct H as [H1 H2]. left. split; [exact H1|now apply String.eqb_eq].
    + right. destruct (obs_get obs k) as [l|]; simpl in H; [|discriminate]. apply slist_eqb_spec in H. now subst.
  - intros H [k v] I. simpl. apply orb_true_iff. destruct (H k v I) as [[H1 H2]|H2].
    + left. subst. now rewrite String.eqb_refl.
    + right. rewrite H2. simpl. now apply slist_eqb_spec.
Qed.

Definition host_ok (cfg : hdrs) (host oh : string) : bool :=
  String.eqb oh (match hget cfg "Host" with Some v => if String.eqb v "" then host else v | None => host end).

(* grpc: a configured key the caller had not set arrives as exactly the secret; one it had set keeps the caller's values *)
Definition grpc_ok (cfg : hdrs) (existing : md) (obs : list (enc * list enc)) : bool :=
  forallb (fun kv => opt_slist_eqb (obs_get obs (fst kv))
                       (match md_get existing (lower_s (fst kv)) with [] => [snd kv] | l => l end)) cfg.

Definition Clause_grpc (cfg : hdrs) (existing : md) (obs : list (enc * list enc)) : Prop :=
  forall k v, In (k, v) cfg ->
    obs_get obs k = Some (match md_get existing (lower_s k) with [] => [v] | l => l end).

Lemma grpc_sound cfg ex obs : grpc_ok cfg ex obs = true <-> Clause_grpc cfg ex obs.
Proof.
  unfold grpc_ok, Clause_grpc. rewrite forallb_forall. split.
  - intros H k v I. specialize (H (k, v) I). simpl in H.
    destruct (obs_get obs k) as [l|]; simpl in H; [|discriminate]. apply slist_eqb_spec in H. now subst.
  - intros H [k v] I. simpl. rewrite (H k v I). simpl. now apply slist_eqb_spec.
Qed.

(* ---- what the consumers give back --------------------------------------------------------------------- *)
Definition fail_ok (cfg : hdrs) (o : string) : bool :=
  forallb (fun kv => negb (distinctive (snd kv) && shown_b (snd kv) o)) cfg.

Definition Clause_fail (cfg : hdrs) (o : string) : Prop :=
  forall k v, In (k, v) cfg -> distinctive v = true -> ~ shown v o.

Lemma fail_sound cfg o : fail_ok cfg o = true <-> Clause_fail cfg o.
Proof.
  unfold fail_ok, Clause_fail. rewrite forallb_forall. split.
  - intros H k v I Hd Hx. specialize (H (k, v) I). simpl in H. rewrite Hd in H. apply shown_b_spec in Hx. rewrite Hx in H. discriminate.
  - intros H [k v] I. simpl. destruct (distinctive v) eqn:Hd; [|reflexivity]. simpl.
    destruct (shown_b v o) eqn:E; [|reflexivity]. exfalso. apply (H k v I Hd). now apply shown_b_spec.
Qed.

(* ---- rendering after use: nothing of a configured value appears that the same rendering did not show before ----- *)
Definition after_ok (cfg : hdrs) (ba : list (string * string)) : bool :=
  (* (written with [if]: vm_compute evaluates the arguments of && eagerly, and the search in the BEFORE rendering is
     needed only in the rare case that the AFTER rendering shows the value) *)
  forallb (fun p => forallb (fun kv => if distinctive (snd kv)
                                       then (if shown_b (snd kv) (snd p) then shown_b (snd kv) (fst p) else true)
                                       else true) cfg) ba.

Definition Clause_after (cfg : hdrs) (ba : list (string * string)) : Prop :=
  forall b a k v, In (b, a) ba -> In (k, v) cfg -> distinctive v = true -> shown v a -> shown v b.

Lemma after_sound cfg ba : after_ok cfg ba = true <-> Clause_after cfg ba.
Proof.
  unfold after_ok, Clause_after. rewrite forallb_forall. split.
  - intros H b a k v I J Hd Ha. specialize (H (b, a) I). rewrite forallb_forall in H. specialize (H (k, v) J). simpl in H.
    rewrite Hd in H. apply shown_b_spec in Ha. rewrite Ha in H. now apply shown_b_spec.
  - intros H [b a] I. apply forallb_forall. intros [k v] J. simpl.
    destruct (distinctive v) eqn:Hd; [|reflexivity]. destruct (shown_b v a) eqn:Ea; [|reflexivity].
    apply shown_b_spec in Ea. specialize (H b a k v I J Hd Ea). now apply shown_b_spec.
Qed.

(* ---- one code per case ------------------------------------------------------------------------------------ *)
Definition keys_distinct (f : string -> string) (cfg : hdrs) : bool := nodup_b (map (fun kv => f (fst kv)) cfg).

Definition prop_code (c : vcase) : nat :=
  match c with
  | CRender sh e rs =>
      if negb (forallb (reveal_ok sh (dec e)) rs) then 1
      else if negb (forallb (marker_ok sh) rs) then 5 else 0
  | CUnm u t st => if unm_ok u (dec t) (OStored st) then 0 else 2
  | CUnmX u t o => if unm_ok u (dec t) o then 0 else 2
  | CUse _ e r => if String.eqb (dec e) (dec r) then 0 else 3
  | CHttpClient cfg pre host oh obs =>
      if negb (keys_distinct canon_mime (dec2 cfg)) then 0
      else if headers_ok true (dec2 cfg) obs && host_ok (dec2 cfg) (dec host) (dec oh) then 0 else 3
  | CHttpServer cfg obs =>
      if negb (keys_distinct canon_mime (dec2 cfg)) then 0 else if headers_ok false (dec2 cfg) obs then 0 else 3
  | CGrpc cfg ex obs =>
      if negb (keys_distinct lower_s (dec2 cfg)) then 0 else if grpc_ok (dec2 cfg) (decmd ex) obs then 0 else 3
  | CTls cf cp kf kp o =>
      (* PEM-only configurations with a matching pair load exactly that pair *)
      if Nat.eqb cf 0 && Nat.eqb kf 0 && Nat.eqb cp kp && (Nat.eqb cp 1 || Nat.eqb cp 2)
      then (if Nat.eqb o (10 + cp) then 0 else 3) else 0
  | CFail _ cfg _ o => if fail_ok (dec2 cfg) (dec o) then 0 else 4
  | CTlsErr _ _ _ _ _ _ => 0
  | CTlsCA _ _ _ _ => 0
  | CValidate _ _ _ cfg o => if fail_ok (dec2 cfg) (dec o) then 0 else 4
  | CAfterUse _ cfg _ before after => if after_ok (dec2 cfg) (combine (map dec before) (map dec after)) then 0 else 1
  end.

Definition prop_ok (c : vcase) : bool := Nat.eqb (prop_code c) 0.

(* the Prop-level statement of "this recorded case satisfies the property's clauses" *)
Definition Clause (c : vcase) : Prop :=
  match c with
  | CRender sh e rs => Clause_never_revealed sh (dec e) rs /\ Clause_marker sh rs
  | CUnm u t st => Clause_stores u (dec t) (OStored st)
  | CUnmX u t o => Clause_stores u (dec t) o
  | CUse _ e r => dec e = dec r
  | CHttpClient cfg pre host oh obs =>
      keys_distinct canon_mime (dec2 cfg) = true ->
      Clause_headers true (dec2 cfg) obs /\ host_ok (dec2 cfg) (dec host) (dec oh) = true
  | CHttpServer cfg obs => keys_distinct canon_mime (dec2 cfg) = true -> Clause_headers false (dec2 cfg) obs
  | CGrpc cfg ex obs => keys_distinct lower_s (dec2 cfg) = true -> Clause_grpc (dec2 cfg) (decmd ex) obs
  | CTls cf cp kf kp o =>
      cf = 0 -> kf = 0 -> cp = kp -> cp = 1 \/ cp = 2 -> o = 10 + cp
  | CFail _ cfg _ o => Clause_fail (dec2 cfg) (dec o)
  | CTlsErr _ _ _ _ _ _ => True
  | CTlsCA _ _ _ _ => True
  | CValidate _ _ _ cfg o => Clause_fail (dec2 cfg) (dec o)
  | CAfterUse _ cfg _ before after => Clause_after (dec2 cfg) (combine (map dec before) (map dec after))
  end.

Theorem prop_ok_sound : forall c, prop_ok c = true <-> Clause c.
Proof.
  intros c. unfold prop_ok. rewrite Nat.eqb_eq. destruct c; simpl.
  - rewrite <- never_revealed_sound, <- marker_sound.
    destruct (forallb (reveal_ok sh (dec secret)) rs); simpl;
      [destruct (forallb (marker_ok sh) rs); simpl|]; intuition discriminate.
  - rewrite <- stores_sound. destruct (unm_ok u (dec t) (OStored stored)); intuition discriminate.
  - rewrite <- stores_sound. destruct (unm_ok u (dec t) o); intuition discriminate.
  - rewrite <- String.eqb_eq. destruct (String.eqb (dec secret) (dec received)); intuition discriminate.
  - destruct (keys_distinct canon_mime (dec2 cfg)); simpl; [|intuition discriminate].
    rewrite <- headers_sound.
    destruct (headers_ok true (dec2 cfg) obs); simpl; [destruct (host_ok (dec2 cfg) (dec host) (dec obs_host))|];
      intuition discriminate.
  - destruct (keys_distinct canon_mime (dec2 cfg)); simpl; [|intuition discriminate].
    rewrite <- headers_sound. destruct (headers_ok false (dec2 cfg) obs); intuition discriminate.
  - destruct (keys_distinct lower_s (dec2 cfg)); simpl; [|intuition discriminate].
    rewrite <- grpc_sound. destruct (grpc_ok (dec2 cfg) (decmd existing) obs); intuition discriminate.
  - destruct (Nat.eqb_spec cf 0) as [E1|E1]; simpl; [|split; [intros _; intros; exfalso; lia|reflexivity]].
    destruct (Nat.eqb_spec kf 0) as [E2|E2]; simpl; [|split; [intros _; intros; exfalso; lia|reflexivity]].
    destruct (Nat.eqb_spec cp kp) as [E3|E3]; simpl; [|split; [intros _; intros; exfalso; lia|reflexivity]].
    assert (G : forall b, b = true -> (cp = 1 \/ cp = 2) ->
              ((if b then (if Nat.eqb obs (10 + cp) then 0 else 3) else 0) = 0 <->
               (cf = 0 -> kf = 0 -> cp = kp -> cp = 1 \/ cp = 2 -> obs = 10 + cp))).
    { intros b -> Hc. destruct (Nat.eqb_spec obs (10 + cp)) as [E5|E5]; split; auto; try discriminate.
      intros H. exfalso. apply E5. now apply H. }
    destruct (Nat.eqb_spec cp 1) as [E4|E4]; simpl; [apply (G true); auto|].
    destruct (Nat.eqb_spec cp 2) as [E6|E6]; simpl; [apply (G true); auto|].
    split; [intros _; intros; exfalso; lia|reflexivity].
  - rewrite <- fail_sound. destruct (fail_ok (dec2 cfg) (dec obs)); intuition discriminate.
  - intuition.
  - intuition.
  - rewrite <- fail_sound. destruct (fail_ok (dec2 cfg) (dec obs)); intuition discriminate.
  - rewrite <- after_sound. destruct (after_ok (dec2 cfg) (combine (map dec before) (map dec after))); intuition discriminate.
Qed.
