(* C14/Proofs.v — lemmas behind C14/Properties.v *)
From Verif Require Import Common.Base Generated.C14Opaque C14.Model.
From Coq Require Import String Ascii.
Local Open Scope string_scope.

(* ---- instance obligations over the generated definitions -------------------------------- *)
Lemma method_set_l : opaque_methods = expected_method_set.
Proof. vm_compute. reflexivity. Qed.

Lemma ignore_receiver_l : methods_ignore_receiver = true.
Proof. vm_compute. reflexivity. Qed.

(* ---- methods that do not look at the secret --------------------------------------------- *)
Record methods_constant (M : methods) : Prop := MC {
  mc_String : forall s1 s2, m_String M s1 = m_String M s2;
  mc_GoString : forall s1 s2, m_GoString M s1 = m_GoString M s2;
  mc_MarshalText : forall s1 s2, m_MarshalText M s1 = m_MarshalText M s2;
  mc_MarshalBinary : forall s1 s2, m_MarshalBinary M s1 = m_MarshalBinary M s2
}.

(* holds of the instance read from the source because (and only as long as) no method body
   mentions its receiver: the proof is by computation on the generated flags *)
Lemma opaque_constant_l : methods_constant opaque.
Proof. split; intros s1 s2; vm_compute; reflexivity. Qed.

Lemma opaque_returns_marker_l : forall s,
  m_String opaque s = marker /\ m_MarshalText opaque s = marker /\ m_MarshalBinary opaque s = marker /\
  m_GoString opaque s = go_quote marker.
Proof. intros s. vm_compute. repeat split; reflexivity. Qed.

Lemma marker_value_l : marker = "[REDACTED]".
Proof. vm_compute. reflexivity. Qed.

(* ---- verbs ------------------------------------------------------------------------------- *)
Lemma good_verb_cases v : good_verb v = true -> v = "v" \/ v = "s" \/ v = "x" \/ v = "X" \/ v = "q".
Proof.
  unfold good_verb. intros H.
  repeat (apply orb_true_iff in H; destruct H as [H|H]); apply String.eqb_eq in H; auto 6.
Qed.

Lemma good_verb_not_special v : good_verb v = true ->
  String.eqb v "T" = false /\ String.eqb v "p" = false /\ String.eqb v "w" = false.
Proof.
  intros H. destruct (good_verb_cases v H) as [E|[E|[E|[E|E]]]]; subst v; vm_compute; auto.
Qed.

Lemma mk_pst_not_erroring verb f : erroring (mk_pst verb f) = false.
Proof. unfold mk_pst. destruct (String.eqb verb "v" || String.eqb verb "w"); reflexivity. Qed.

Lemma no_unexported_dyn sh : no_unexported (dyn sh) = no_unexported sh.
Proof. induction sh; simpl; auto. Qed.

Lemma no_mapkey_dyn sh : no_mapkey (dyn sh) = no_mapkey sh.
Proof. induction sh; simpl; auto. Qed.

(* ---- fmt ---------------------------------------------------------------------------------- *)
(* The renderers look at the secret ONLY through the value's methods: on a safe (path, shape) two
   secrets on which the four methods agree are rendered identically. *)
Definition methods_agree1 (M : methods) (s1 s2 : string) : Prop :=
  m_String M s1 = m_String M s2 /\ m_GoString M s1 = m_GoString M s2 /\
  m_MarshalText M s1 = m_MarshalText M s2 /\ m_MarshalBinary M s1 = m_MarshalBinary M s2.

(* ... on the secret and on the second secret of a two-key map *)
Definition methods_agree (M : methods) (s1 s2 : string) : Prop :=
  methods_agree1 M s1 s2 /\ methods_agree1 M (second s1) (second s2).

Section NI.
  Variable M : methods.
  Variables s1 s2 : string.
  Hypothesis HA : methods_agree M s1 s2.

  Let aS : m_String M s1 = m_String M s2 := proj1 (proj1 HA).
  Let aG : m_GoString M s1 = m_GoString M s2 := proj1 (proj2 (proj1 HA)).
  Let aT : m_MarshalText M s1 = m_MarshalText M s2 := proj1 (proj2 (proj2 (proj1 HA))).
  Let aB : m_MarshalBinary M s1 = m_MarshalBinary M s2 := proj2 (proj2 (proj2 (proj1 HA))).
  Let bS : m_String M (second s1) = m_String M (second s2) := proj1 (proj2 HA).
  Let bG : m_GoString M (second s1) = m_GoString M (second s2) := proj1 (proj2 (proj2 HA)).
  Let bT : m_MarshalText M (second s1) = m_MarshalText M (second s2) := proj1 (proj2 (proj2 (proj2 HA))).

  Lemma leaf_opaque_ni st verb :
    erroring st = false -> good_verb verb = true ->
    leaf_opaque M st verb true s1 = leaf_opaque M st verb true s2.
  Proof.
    intros He Hg. unfold leaf_opaque. rewrite He, Hg. simpl.
    destruct (sharpV st).
    - now rewrite aG.
    - now rewrite aS.
  Qed.

  Lemma leaf_opaque_ni2 st verb :
    erroring st = false -> good_verb verb = true ->
    leaf_opaque M st verb true (second s1) = leaf_opaque M st verb true (second s2).
  Proof.
    intros He Hg. unfold leaf_opaque. rewrite He, Hg. simpl.
    destruct (sharpV st).
    - now rewrite bG.
    - now rewrite bS.
  Qed.

  Lemma pv_ni : forall sh st verb depth,
    erroring st = false -> good_verb verb = true -> no_unexported sh = true ->
    ptr_verb verb || no_deep_ptr sh depth = true ->
    pv M st verb sh depth false s1 = pv M st verb sh depth false s2.
  Proof.
    induction sh as [|i IH|ex i IH|i IH|i IH|i IH| | |i IH|i IH]; intros st verb depth He Hg Hn Hp;
      cbn [pv no_unexported no_deep_ptr] in *.
    - rewrite orb_true_r. now apply leaf_opaque_ni.
    - rewrite orb_true_r. destruct (is_bare i).
      + rewrite He. simpl. destruct (sharpV st || good_verb verb); [now apply leaf_opaque_ni|reflexivity].
      + destruct (amp_kind i) eqn:Ea; destruct (Nat.eqb depth 0) eqn:Ed; cbn [andb negb orb] in *;
          try reflexivity.
        * now rewrite (IH st verb (S depth) He Hg Hn Hp).
        * destruct (ptr_verb verb); [reflexivity|discriminate].
        * now rewrite orb_true_r.
        * now rewrite orb_true_r.
    - apply andb_true_iff in Hn. destruct Hn as [Hex Hn]. subst ex. simpl.
      now rewrite (IH st verb (S depth)).
    - now rewrite (IH st verb (S depth)).
    - now rewrite (IH st verb (S depth)).
    - now rewrite (IH st verb (S depth)).
    - cbn [negb]. now rewrite (leaf_opaque_ni st verb).
    - cbn [negb]. now rewrite (leaf_opaque_ni st verb), (leaf_opaque_ni2 st verb).
    - now apply IH.
    - now rewrite (IH st verb (S depth)).
  Qed.

  Lemma render_fmt_ni verb f sh :
    String.eqb verb "T" || fmt_safe verb sh = true ->
    render_fmt M verb f sh s1 = render_fmt M verb f sh s2.
  Proof.
    intros H. unfold render_fmt. destruct (String.eqb verb "T") eqn:ET; [reflexivity|].
    simpl in H. unfold fmt_safe in H. apply andb_true_iff in H. destruct H as [H Hp].
    apply andb_true_iff in H. destruct H as [Hg Hn].
    destruct (good_verb_not_special verb Hg) as [_ [Ep Ew]]. rewrite Ep, Ew.
    apply pv_ni; auto using mk_pst_not_erroring. now rewrite no_unexported_dyn.
  Qed.

  (* ---- json / yaml / confmap / zap ------------------------------------------------------- *)
  Lemma js_ni html : forall sh, no_mapkey sh = true -> js M html sh s1 = js M html sh s2.
  Proof.
    induction sh as [|i IH|ex i IH|i IH|i IH|i IH| | |i IH|i IH]; intros Hn; simpl in *; try discriminate;
      try (now rewrite (IH Hn)).
    now rewrite aT.
  Qed.

  Lemma yaml_ni : forall sh, yaml_tree M sh s1 = yaml_tree M sh s2.
  Proof.
    induction sh as [|i IH|ex i IH|i IH|i IH|i IH| | |i IH|i IH]; simpl; try (now rewrite IH);
      now rewrite ?aT, ?bT.
  Qed.

  Lemma conf_ni : forall sh, conf_tree M sh s1 = conf_tree M sh s2.
  Proof.
    induction sh as [|i IH|ex i IH|i IH|i IH|i IH| | |i IH|i IH]; simpl; try (now rewrite IH);
      try reflexivity; now rewrite ?aT, ?bT.
  Qed.

  Lemma conf_top_ni sh : conf_top M sh s1 = conf_top M sh s2.
  Proof.
    unfold conf_top. destruct (dyn sh) as [|i|ex i|i|i|i| | |i|i]; try apply conf_ni. now rewrite (conf_ni i).
  Qed.

  Lemma render_ni_agree : forall p sh, safe p sh = true -> render M p sh s1 = render M p sh s2.
  Proof.
    intros p sh H. destruct p; simpl in *; try discriminate.
    - now apply render_fmt_ni.
    - apply render_fmt_ni. unfold fmt_safe. now rewrite H.
    - f_equal. apply render_fmt_ni. unfold fmt_safe. now rewrite H.
    - now apply js_ni.
    - now rewrite (yaml_ni sh).
    - unfold render_confmap. now rewrite (conf_top_ni sh).
    - unfold render_zap_any. rewrite aS. now rewrite (js_ni false sh H).
    - now rewrite (js_ni false sh H).
    - now rewrite aS.
    - exact aS.
    - exact aG.
    - exact aT.
    - exact aB.
  Qed.
End NI.

Lemma render_ni : forall M, methods_constant M ->
  forall p sh s1 s2, safe p sh = true -> render M p sh s1 = render M p sh s2.
Proof.
  intros M HC p sh s1 s2. apply render_ni_agree.
  repeat split; first [apply (mc_String M HC)|apply (mc_GoString M HC)|apply (mc_MarshalText M HC)|apply (mc_MarshalBinary M HC)].
Qed.

(* ---- the marker is shown ---------------------------------------------------------------------- *)
Definition contains (leaf x : string) : Prop := exists pre post, x = pre ++ leaf ++ post.

Lemma sapp_assoc (a b c : string) : (a ++ b) ++ c = a ++ b ++ c.
Proof. induction a as [|ch a IH]; simpl; [reflexivity|now rewrite IH]. Qed.

Lemma sapp_nil_r (a : string) : a ++ "" = a.
Proof. induction a as [|ch a IH]; simpl; [reflexivity|now rewrite IH]. Qed.

Lemma contains_refl x : contains x x.
Proof. exists "", "". simpl. now rewrite sapp_nil_r. Qed.

Lemma contains_app_l leaf a x : contains leaf x -> contains leaf (a ++ x).
Proof. intros [pre [post E]]. exists (a ++ pre), post. now rewrite E, sapp_assoc. Qed.

Lemma contains_app_r leaf x b : contains leaf x -> contains leaf (x ++ b).
Proof. intros [pre [post E]]. exists pre, (post ++ b). now rewrite E, !sapp_assoc. Qed.

Lemma contains_cons leaf c x : contains leaf x -> contains leaf (String c x).
Proof. intros H. change (String c x) with (String c "" ++ x). now apply contains_app_l. Qed.

Local Hint Resolve contains_refl contains_app_l contains_app_r contains_cons : cont.

(* walk down a right-nested concatenation to the sub-term for which [tac] proves containment *)
Ltac cont_with tac :=
  repeat first [ tac | apply contains_refl | apply contains_cons | (apply contains_app_r; tac) | apply contains_app_l ].

Section Shows.
  Variable M : methods.

  Lemma pv_shows : forall sh st verb depth s,
    erroring st = false -> good_verb verb = true -> no_unexported sh = true -> fmt_reaches sh depth = true ->
    contains (leaf_opaque M st verb true s) (pv M st verb sh depth false s).
  Proof.
    induction sh as [|i IH|ex i IH|i IH|i IH|i IH| | |i IH|i IH]; intros st verb depth s He Hg Hn Hr;
      cbn [pv no_unexported fmt_reaches] in *.
    - rewrite orb_true_r. auto with cont.
    - rewrite orb_true_r. destruct (is_bare i).
      + rewrite He, Hg, orb_true_r. simpl. auto with cont.
      + simpl in Hr. apply andb_true_iff in Hr. destruct Hr as [Hr1 Hr2]. rewrite Hr1.
        apply contains_cons. now apply IH.
    - apply andb_true_iff in Hn. destruct Hn as [Hex Hn]. subst ex.
      specialize (IH st verb (S depth) s He Hg Hn Hr). cbn [orb negb].
      destruct (sharpV st), (plusV st); cbn [orb]; cont_with ltac:(exact IH).
    - specialize (IH st verb (S depth) s He Hg Hn Hr). destruct (sharpV st); cont_with ltac:(exact IH).
    - specialize (IH st verb (S depth) s He Hg Hn Hr). destruct (sharpV st); cont_with ltac:(exact IH).
    - specialize (IH st verb (S depth) s He Hg Hn Hr). destruct (sharpV st); cont_with ltac:(exact IH).
    - destruct (sharpV st); cont_with ltac:(apply contains_refl).
    - destruct (sharpV st); cont_with ltac:(apply contains_refl).
    - now apply IH.
    - specialize (IH st verb (S depth) s He Hg Hn Hr).
      destruct (sharpV st), (plusV st); cbn [orb]; cont_with ltac:(exact IH).
  Qed.

  Lemma render_fmt_shows verb f sh s :
    good_verb verb = true -> no_unexported sh = true -> fmt_reaches (dyn sh) 0 = true ->
    contains (leaf_opaque M (mk_pst verb f) verb true s) (render_fmt M verb f sh s).
  Proof.
    intros Hg Hn Hr. unfold render_fmt.
    destruct (good_verb_not_special verb Hg) as [ET [Ep Ew]]. rewrite ET, Ep, Ew.
    apply pv_shows; auto using mk_pst_not_erroring. now rewrite no_unexported_dyn.
  Qed.

  Lemma js_shows html : forall sh s, no_unexported sh = true -> no_mapkey sh = true ->
    contains (json_quote html (m_MarshalText M s)) (js M html sh s).
  Proof.
    induction sh as [|i IH|ex i IH|i IH|i IH|i IH| | |i IH|i IH]; intros s Hn Hk; simpl in *; try discriminate;
      auto 8 with cont.
    apply andb_true_iff in Hn. destruct Hn as [Hex Hn]. subst ex. auto 8 with cont.
  Qed.

  Lemma yaml_shows : forall sh s, no_unexported sh = true ->
    contains (m_MarshalText M s) (canon (yaml_tree M sh s)).
  Proof.
    induction sh as [|i IH|ex i IH|i IH|i IH|i IH| | |i IH|i IH]; intros s Hn; simpl in *; auto 8 with cont.
    apply andb_true_iff in Hn. destruct Hn as [Hex Hn]. subst ex. simpl. auto 8 with cont.
  Qed.

  Lemma conf_shows : forall sh s, no_unexported sh = true -> no_key2 sh = true ->
    exists t, conf_tree M sh s = COk t /\ contains (m_MarshalText M s) (canon t).
  Proof.
    induction sh as [|i IH|ex i IH|i IH|i IH|i IH| | |i IH|i IH]; intros s Hn Ha; cbn [conf_tree no_unexported no_key2] in *;
      try discriminate; try (now apply IH).
    - eexists; split; [reflexivity|]. simpl. auto 8 with cont.
    - apply andb_true_iff in Hn. destruct Hn as [Hex Hn]. subst ex.
      destruct (IH s Hn Ha) as [t [E C]]. rewrite E. eexists; split; [reflexivity|]. simpl. auto 8 with cont.
    - destruct (IH s Hn Ha) as [t [E C]]. rewrite E. eexists; split; [reflexivity|]. simpl. auto 8 with cont.
    - destruct (IH s Hn Ha) as [t [E C]]. rewrite E. eexists; split; [reflexivity|]. simpl. auto 8 with cont.
    - destruct (IH s Hn Ha) as [t [E C]]. rewrite E. eexists; split; [reflexivity|]. simpl. auto 8 with cont.
    - eexists; split; [reflexivity|]. simpl. auto 8 with cont.
    - destruct (IH s Hn Ha) as [t [E C]]. rewrite E. eexists; split; [reflexivity|]. simpl. auto 8 with cont.
  Qed.

  Lemma conf_tree_is_map : forall sh s t, conf_tree M sh s = COk t -> encodes_to_map sh = true ->
    exists l, t = TMap l.
  Proof.
    assert (D : forall sh s, conf_tree M (dyn sh) s = conf_tree M sh s) by (induction sh; simpl; auto).
    assert (K : forall sh s t, conf_tree M sh s = COk t ->
                match sh with SField _ _ | SMapVal _ | SMapKey | SMarsh _ => True | _ => False end -> exists l, t = TMap l).
    { intros sh s t E. destruct sh as [|i|ex i|i|i|i| | |i|i]; try contradiction; intros _; cbn [conf_tree] in E.
      - destruct ex; [destruct (conf_tree M i s); simpl in E|]; inversion E; eauto.
      - destruct (conf_tree M i s); simpl in E; inversion E; eauto.
      - inversion E; eauto.
      - destruct (conf_tree M i s); simpl in E; inversion E; eauto. }
    intros sh s t E H. unfold encodes_to_map in H. rewrite <- D in E.
    destruct (dyn sh) as [|i|ex i|i|i|i| | |i|i] eqn:Ed; try discriminate; try (now apply (K _ _ _ E)).
    cbn [conf_tree] in E. rewrite <- D in E.
    destruct (dyn i) as [|j|ex j|j|j|j| | |j|j] eqn:Ei; try discriminate; now apply (K _ _ _ E).
  Qed.

  Lemma conf_top_ok : forall sh s t, conf_tree M sh s = COk t -> conf_top M sh s = COk t.
  Proof.
    assert (D : forall sh s, conf_tree M (dyn sh) s = conf_tree M sh s) by (induction sh; simpl; auto).
    intros sh s t H. unfold conf_top. destruct (dyn sh) as [|i|ex i|i|i|i| | |i|i] eqn:E; try exact H.
    rewrite <- D, E in H. cbn [conf_tree] in H. destruct (conf_tree M i s); simpl in *; [exact H|discriminate].
  Qed.

  Lemma render_shows : forall p sh s, shows p sh = true -> contains (leaf_text M p s) (render M p sh s).
  Proof.
    intros p sh s H. destruct p; simpl in *; try discriminate; auto with cont.
    - apply andb_true_iff in H. destruct H as [H Hr]. apply andb_true_iff in H. destruct H as [Hg Hn].
      now apply render_fmt_shows.
    - apply andb_true_iff in H. destruct H as [Hn Hr]. now apply render_fmt_shows.
    - apply andb_true_iff in H. destruct H as [Hn Hr]. apply contains_app_r. now apply render_fmt_shows.
    - apply andb_true_iff in H. destruct H as [Hn Hk]. now apply js_shows.
    - now apply yaml_shows.
    - apply andb_true_iff in H. destruct H as [H Hm]. apply andb_true_iff in H. destruct H as [Hn Ha].
      unfold render_confmap. destruct (conf_shows sh s Hn Ha) as [t [E C]]. rewrite (conf_top_ok sh s t E).
      destruct (conf_tree_is_map sh s t E Hm) as [l El]. subst t. exact C.
    - apply andb_true_iff in H. destruct H as [Hn Hk]. unfold zap_line. auto 8 using js_shows with cont.
    - unfold zap_line. auto 8 with cont.
  Qed.
End Shows.

(* ---- ... and what is shown is the marker itself ------------------------------------------------ *)
Lemma contains_trans a b c : contains a b -> contains b c -> contains a c.
Proof.
  intros [p1 [q1 E1]] [p2 [q2 E2]]. exists (p2 ++ p1), (q1 ++ q2). subst b c. now rewrite !sapp_assoc.
Qed.

Lemma pad_contains m f x : contains m x -> contains m (pad_string f x).
Proof.
  intros H. unfold pad_string. destruct (f_wid f) as [[|w]|]; auto. destruct (f_minus f); auto with cont.
Qed.

Lemma fmtS_contains m f x : f_prec f = None -> contains m x -> contains m (fmtS f x).
Proof. intros Hp H. unfold fmtS, truncate. rewrite Hp. now apply pad_contains. Qed.

Lemma go_quote_marker : go_quote marker = dquote ++ marker ++ dquote.
Proof. vm_compute. reflexivity. Qed.

Lemma json_quote_marker html : json_quote html marker = dquote ++ marker ++ dquote.
Proof. destruct html; vm_compute; reflexivity. Qed.

Lemma can_backquote_marker : can_backquote marker = true.
Proof. vm_compute. reflexivity. Qed.

Lemma fmtQ_marker f : f_prec f = None -> contains marker (fmtQ f marker).
Proof.
  intros Hp. unfold fmtQ, truncate. rewrite Hp, can_backquote_marker, andb_true_r.
  destruct (f_sharp f); apply pad_contains; [|rewrite go_quote_marker]; auto with cont.
Qed.

Lemma opaque_String_marker s : m_String opaque s = marker.
Proof. apply opaque_returns_marker_l. Qed.
Lemma opaque_Text_marker s : m_MarshalText opaque s = marker.
Proof. apply opaque_returns_marker_l. Qed.
Lemma opaque_Binary_marker s : m_MarshalBinary opaque s = marker.
Proof. apply opaque_returns_marker_l. Qed.
Lemma opaque_GoString_marker s : m_GoString opaque s = dquote ++ marker ++ dquote.
Proof. rewrite <- go_quote_marker. apply opaque_returns_marker_l. Qed.

Lemma leaf_fmt_marker verb f s :
  String.eqb verb "v" || String.eqb verb "s" || String.eqb verb "q" = true -> f_prec f = None ->
  contains marker (leaf_opaque opaque (mk_pst verb f) verb true s).
Proof.
  intros Hv Hp. unfold leaf_opaque. rewrite mk_pst_not_erroring. cbn [andb negb].
  rewrite opaque_String_marker, opaque_GoString_marker.
  apply orb_true_iff in Hv. destruct Hv as [Hv|Hv]; [apply orb_true_iff in Hv; destruct Hv as [Hv|Hv]|];
    apply String.eqb_eq in Hv; subst verb; cbn -[marker fmtS fmtQ dquote].
  - destruct (f_sharp f).
    + apply fmtS_contains; [exact Hp|auto with cont].
    + apply fmtS_contains; [exact Hp|auto with cont].
  - apply fmtS_contains; [exact Hp|auto with cont].
  - now apply fmtQ_marker.
Qed.

Lemma leaf_text_marker_l : forall p s, verbatim p = true -> contains marker (leaf_text opaque p s).
Proof.
  intros p s H. destruct p; cbn [verbatim leaf_text] in *; try discriminate;
    try (now apply (leaf_fmt_marker "v" no_flags s));
    rewrite ?opaque_String_marker, ?opaque_Text_marker, ?opaque_Binary_marker, ?opaque_GoString_marker,
            ?json_quote_marker; auto with cont.
  - apply andb_true_iff in H. destruct H as [Hv Hp]. destruct (f_prec f) eqn:E; [discriminate|].
    now apply leaf_fmt_marker.
Qed.

(* ---- where the pinned tree reveals the secret (universally, not just one witness) --------- *)
Lemma fmtS_no_flags s : fmtS no_flags s = s.
Proof. reflexivity. Qed.

Lemma unrouted_verb_l : forall verb s,
  good_verb verb = false -> verb <> "T" ->
  render opaque (PFmt verb no_flags) SBare s = "%!" ++ verb ++ "(configopaque.String=" ++ s ++ ")".
Proof.
  intros verb s Hg HT. simpl. unfold render_fmt.
  destruct (String.eqb verb "T") eqn:ET; [apply String.eqb_eq in ET; contradiction|].
  assert (Hv : String.eqb verb "v" = false).
  { destruct (String.eqb verb "v") eqn:E; [|reflexivity]. unfold good_verb in Hg. now rewrite E in Hg. }
  unfold mk_pst. rewrite Hv. simpl.
  destruct (String.eqb verb "w") eqn:Ew; simpl.
  - destruct (String.eqb verb "p"); reflexivity.
  - destruct (String.eqb verb "p") eqn:Ep; simpl.
    + reflexivity.
    + unfold leaf_opaque. simpl. rewrite Hg. unfold leaf_plain. rewrite Hg. reflexivity.
Qed.

(* with ANY flag set (no width / precision; %#w quotes instead) the secret comes out verbatim *)
Lemma unrouted_verb_flags_l : forall verb f s,
  good_verb verb = false -> verb <> "T" -> f_wid f = None -> f_prec f = None ->
  (String.eqb verb "w" && f_sharp f = false) ->
  render opaque (PFmt verb f) SBare s = "%!" ++ verb ++ "(configopaque.String=" ++ s ++ ")".
Proof.
  intros verb f s Hg HT Hw Hp Hs. simpl. unfold render_fmt.
  destruct (String.eqb verb "T") eqn:ET; [apply String.eqb_eq in ET; contradiction|].
  assert (Hv : String.eqb verb "v" = false).
  { destruct (String.eqb verb "v") eqn:E; [|reflexivity]. unfold good_verb in Hg. now rewrite E in Hg. }
  destruct f as [pl mi sh sp ze w p]. simpl in Hw, Hp, Hs. subst w p.
  unfold mk_pst. rewrite Hv. simpl.
  destruct (String.eqb verb "w") eqn:Ew; simpl in *.
  - subst sh. destruct (String.eqb verb "p"); reflexivity.
  - destruct (String.eqb verb "p") eqn:Ep; simpl.
    + reflexivity.
    + unfold leaf_opaque. simpl. rewrite Hg. unfold leaf_plain. rewrite Hg. reflexivity.
Qed.

Lemma unexported_field_l : forall s, render opaque (PFmt "v" no_flags) (SField false SBare) s = "{" ++ s ++ "}".
Proof. intros s. reflexivity. Qed.

Lemma json_map_key_l : forall s, render opaque PJson SMapKey s = "{" ++ json_quote true s ++ ":" ++ dquote ++ "v" ++ dquote ++ "}".
Proof. intros s. reflexivity. Qed.

Lemma inner_pointer_l : forall s,
  render opaque (PFmt "s" no_flags) (SSlice (SPtr (SField true SBare))) s =
  "[%!s(*struct { F configopaque.String }=&{" ++ s ++ "}) %!s(*struct { F configopaque.String }=&{" ++ s ++ "})]".
Proof. intros s. vm_compute. repeat (rewrite ?sapp_assoc; simpl). reflexivity. Qed.

(* an array is left in the configuration map as a typed value: the marker is not rendered there *)
Lemma confmap_array_l : forall s,
  render opaque PConfmap (SField true (SArray SBare)) s = "{f:[" ++ dquote ++ "[REDACTED]" ++ dquote ++ "]}".
Proof. intros s. reflexivity. Qed.

(* nothing typed is left in the configuration map: every leaf is a plain string *)
Fixpoint no_raw (t : tree) : bool :=
  match t with
  | TStr _ => true
  | TRaw _ => false
  | TMap l => (fix go (l : list (string * tree)) : bool := match l with [] => true | (_, v) :: r => no_raw v && go r end) l
  | TList l => (fix go (l : list tree) : bool := match l with [] => true | v :: r => no_raw v && go r end) l
  end.

Lemma conf_no_typed_leaf_l : forall M sh s t, conf_tree M sh s = COk t -> no_raw t = true.
Proof.
  intros M. induction sh as [|i IH|ex i IH|i IH|i IH|i IH| | |i IH|i IH]; intros s t E; cbn [conf_tree] in E;
    try (now apply (IH s t E)).
  - inversion E. reflexivity.
  - destruct ex; [destruct (conf_tree M i s) as [t'|] eqn:E'; simpl in E; inversion E; simpl;
                  now rewrite (IH s t' E')|inversion E; reflexivity].
  - destruct (conf_tree M i s) as [t'|] eqn:E'; simpl in E; inversion E. simpl. now rewrite (IH s t' E').
  - destruct (conf_tree M i s) as [t'|] eqn:E'; simpl in E; inversion E. simpl. now rewrite (IH s t' E').
  - destruct (conf_tree M i s) as [t'|] eqn:E'; simpl in E; inversion E. simpl. now rewrite (IH s t' E').
  - inversion E. reflexivity.
  - destruct (String.eqb (m_MarshalText M s) (m_MarshalText M (second s))); inversion E. reflexivity.
  - destruct (conf_tree M i s) as [t'|] eqn:E'; simpl in E; inversion E. simpl. now rewrite (IH s t' E').
Qed.

(* a nested Marshaler's typed content (a value, a headers map, a slice) comes out redacted *)
Lemma confmap_marshaler_l : forall s,
  render opaque PConfmap (SField true (SMarsh SBare)) s = "{f:{v:" ++ dquote ++ "[REDACTED]" ++ dquote ++ "}}" /\
  render opaque PConfmap (SField true (SMarsh (SMapVal SBare))) s = "{f:{v:{k:" ++ dquote ++ "[REDACTED]" ++ dquote ++ "}}}" /\
  render opaque PConfmap (SPtr (SMarsh (SSlice SBare))) s
    = "{v:[" ++ dquote ++ "[REDACTED]" ++ dquote ++ "," ++ dquote ++ "[REDACTED]" ++ dquote ++ "]}".
Proof. intros s. repeat split. Qed.

Lemma ni_refuted_l : exists p sh s1 s2, p <> PCast /\ render opaque p sh s1 <> render opaque p sh s2.
Proof. exists (PFmt "d" no_flags), SBare, "a", "b". split; [discriminate|]. vm_compute. discriminate. Qed.

(* ---- decoding -------------------------------------------------------------------------------- *)
Lemma unmarshal_partial_l : forall M u t, plain_ctx u = true -> unmarshal M u t = Stored t.
Proof.
  intros M u t. induction u as [| | | | | | | | | |c|u IH]; intros H; try reflexivity; try discriminate.
  - destruct c; try reflexivity; discriminate.
  - simpl in *. now apply IH.
Qed.

Lemma unmarshal_inline_l : forall M t, unmarshal M UExpInline t = Stored ("pre-" ++ t ++ "-post").
Proof. reflexivity. Qed.

Lemma unmarshal_squash_l : forall M t, unmarshal M UConfSquashUnmarshaler t = Stored t.
Proof. intros M t. reflexivity. Qed.

Lemma unmarshal_ptr_l : forall M t, unmarshal M (UExpPtr YNull) t = NilPtr /\ unmarshal M (UExpPtr YOther) t = DecodeError.
Proof. intros; split; reflexivity. Qed.

Lemma unmarshal_refuted_l : exists u t, is_inline u = false /\ unmarshal opaque u t <> Stored t.
Proof. exists (UExpPtr YOther), "987654321". split; [reflexivity|]. vm_compute. discriminate. Qed.

Lemma unmarshal_sub_l : forall M u t, unmarshal M (UViaSub u) t = unmarshal M u t /\ plain_ctx (UViaSub u) = plain_ctx u.
Proof. intros; split; reflexivity. Qed.

(* ---- use ----------------------------------------------------------------------------------------- *)
Lemma use_identity_l : forall c s, use c s = s.
Proof. reflexivity. Qed.
