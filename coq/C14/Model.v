(* C14/Model.v — executable model of how an opaque configuration string is rendered.

   Code modelled
   * config/configopaque/opaque.go: the four methods of [String] and the marker.  Their bodies are
     NOT written here: Generated/C14Opaque.v is regenerated from the Go source on every run
     (translator T1: does the body mention the receiver? which constant does it return? which
     methods does *String have?).  [opaque] below is built from those generated definitions.
   * the method-dispatch rules of the renderers (Go library behaviour, transcribed by hand from the
     Go 1.23 sources and validated by the correspondence run):
       fmt      print.go printArg/handleMethods/badVerb/printValue/fmtPointer, format.go
                fmtS/fmtQ/fmtSbx/padString/truncateString
       json     encoding/json encode.go (TextMarshaler for values; map keys of string kind are
                taken RAW before the TextMarshaler test: resolveKeyName)
       yaml     sigs.k8s.io/yaml/goyaml.v3 (TextMarshaler for values and for map keys)
       confmap  confmap/internal/mapstructure/encoder.go encode/encodeStruct/encodeSlice/encodeMap
                with confmap.encoderConfig's hook chain (TextMarshalerHookFunc on every leaf)
       zap      zap.Any / zap.Stringer / zap.Reflect with the JSON encoder
     and of confmap's decode direction as far as it touches the stored secret
     (confmap.go unmarshalerEmbeddedStructsHookFunc re-marshals a squashed sub-struct).

   The model is faithful to the code including where it leaks: a verb that fmt does not
   route through Stringer (d t c e p w ...), a struct field that is not exported, a JSON map key. *)
From Verif Require Import Common.Base Generated.C14Opaque.
From Coq Require Import String Ascii.
Local Open Scope string_scope.

(* ------------------------------------------------------------------------------------------ *)
(* The value's methods                                                                         *)
(* ------------------------------------------------------------------------------------------ *)
Record methods := Methods {
  m_String : string -> string;
  m_GoString : string -> string;
  m_MarshalText : string -> string;
  m_MarshalBinary : string -> string
}.

(* ------------------------------------------------------------------------------------------ *)
(* Go string helpers (bytes; UTF-8 is assumed valid where runes are counted)                   *)
(* ------------------------------------------------------------------------------------------ *)
Fixpoint rep (c : ascii) (n : nat) : string :=
  match n with 0 => EmptyString | S k => String c (rep c k) end.

Definition bN (c : ascii) : N := N_of_ascii c.

Definition is_cont (c : ascii) : bool := (128 <=? bN c)%N && (bN c <? 192)%N.

Fixpoint rune_count (s : string) : nat :=
  match s with
  | EmptyString => 0
  | String c r => if is_cont c then rune_count r else S (rune_count r)
  end.

(* truncateString: keep the first n runes *)
Fixpoint trunc_runes (n : nat) (s : string) : string :=
  match s with
  | EmptyString => EmptyString
  | String c r =>
      if is_cont c then String c (trunc_runes n r)
      else match n with 0 => EmptyString | S k => String c (trunc_runes k r) end
  end.

Fixpoint take_bytes (n : nat) (s : string) : string :=
  match n, s with
  | S k, String c r => String c (take_bytes k r)
  | _, _ => EmptyString
  end.

Definition hexdigit (up : bool) (n : N) : ascii :=
  ascii_of_N (if (n <? 10)%N then 48 + n else (if up then 55 else 87) + n)%N.

Definition hex2 (up : bool) (c : ascii) : string :=
  String (hexdigit up (bN c / 16)) (String (hexdigit up (bN c mod 16)) EmptyString).

Definition ch (n : N) : string := String (ascii_of_N n) EmptyString.
Definition bslash : string := ch 92.
Definition dquote : string := ch 34.
Definition bquote : string := ch 96.

(* strconv.Quote on one byte (printable ASCII, the named escapes, \xNN for other control bytes;
   bytes >= 0x80 are passed through: valid printable UTF-8 assumed) *)
Definition quote_char (c : ascii) : string :=
  let n := bN c in
  if (n =? 34)%N then bslash ++ dquote
  else if (n =? 92)%N then bslash ++ bslash
  else if (n =? 7)%N then bslash ++ "a"
  else if (n =? 8)%N then bslash ++ "b"
  else if (n =? 12)%N then bslash ++ "f"
  else if (n =? 10)%N then bslash ++ "n"
  else if (n =? 13)%N then bslash ++ "r"
  else if (n =? 9)%N then bslash ++ "t"
  else if (n =? 11)%N then bslash ++ "v"
  else if ((n <? 32) || (n =? 127))%N then bslash ++ "x" ++ hex2 false c
  else String c EmptyString.

Fixpoint concat_map (f : ascii -> string) (s : string) : string :=
  match s with EmptyString => EmptyString | String c r => f c ++ concat_map f r end.

Definition go_quote (s : string) : string := dquote ++ concat_map quote_char s ++ dquote.

(* strconv.CanBackquote *)
Fixpoint can_backquote (s : string) : bool :=
  match s with
  | EmptyString => true
  | String c r =>
      let n := bN c in
      (((32 <=? n) || (n =? 9)) && negb (n =? 96) && negb (n =? 127))%N && can_backquote r
  end.

(* encoding/json string escaping (escapeHTML = html) *)
Definition json_char (html : bool) (c : ascii) : string :=
  let n := bN c in
  if (n =? 34)%N then bslash ++ dquote
  else if (n =? 92)%N then bslash ++ bslash
  else if (n =? 8)%N then bslash ++ "b"
  else if (n =? 12)%N then bslash ++ "f"
  else if (n =? 10)%N then bslash ++ "n"
  else if (n =? 13)%N then bslash ++ "r"
  else if (n =? 9)%N then bslash ++ "t"
  else if (n <? 32)%N then bslash ++ "u00" ++ hex2 false c
  else if html && ((n =? 60) || (n =? 62) || (n =? 38))%N then bslash ++ "u00" ++ hex2 false c
  else String c EmptyString.

Definition json_quote (html : bool) (s : string) : string :=
  dquote ++ concat_map (json_char html) s ++ dquote.

(* ------------------------------------------------------------------------------------------ *)
(* fmt: flags and leaf formatting (format.go)                                                  *)
(* ------------------------------------------------------------------------------------------ *)
Record flags := F {
  f_plus : bool; f_minus : bool; f_sharp : bool; f_space : bool; f_zero : bool;
  f_wid : option nat; f_prec : option nat
}.

(* printer state after the verb has been read (print.go doPrintf): for %v and %w the sharp and
   plus flags move to sharpV / plusV *)
Record pst := Pst { fl : flags; sharpV : bool; plusV : bool; erroring : bool }.

Definition padding (f : flags) (n : nat) : string :=
  rep (if f_zero f && negb (f_minus f) then "0"%char else " "%char) n.

Definition pad_string (f : flags) (s : string) : string :=
  match f_wid f with
  | None => s
  | Some 0 => s
  | Some w =>
      let n := w - rune_count s in
      if f_minus f then s ++ padding f n else padding f n ++ s
  end.

Definition truncate (f : flags) (s : string) : string :=
  match f_prec f with Some p => trunc_runes p s | None => s end.

Definition fmtS (f : flags) (s : string) : string := pad_string f (truncate f s).

Definition fmtQ (f : flags) (s : string) : string :=
  let s' := truncate f s in
  if f_sharp f && can_backquote s' then pad_string f (bquote ++ s' ++ bquote)
  else pad_string f (go_quote s').   (* f_plus: AppendQuoteToASCII, same on ASCII *)

Fixpoint hexbody (f : flags) (up : bool) (first : bool) (s : string) : string :=
  match s with
  | EmptyString => EmptyString
  | String c r =>
      (if f_space f && negb first then " " ++ (if f_sharp f then "0" ++ (if up then "X" else "x") else "") else "")
      ++ hex2 up c ++ hexbody f up false r
  end.

Definition fmtSx (f : flags) (up : bool) (s : string) : string :=
  let len0 := String.length s in
  let len := match f_prec f with Some p => Nat.min p len0 | None => len0 end in
  if Nat.eqb len 0 then match f_wid f with Some w => padding f w | None => EmptyString end
  else
    let w2 := 2 * len in
    let width := if f_space f then (if f_sharp f then 2 * w2 else w2) + (len - 1)
                 else if f_sharp f then w2 + 2 else w2 in
    let body := (if f_sharp f then "0" ++ (if up then "X" else "x") else "") ++ hexbody f up true (take_bytes len s) in
    match f_wid f with
    | Some w => if Nat.ltb width w
                then (if f_minus f then body ++ padding f (w - width) else padding f (w - width) ++ body)
                else body
    | None => body
    end.

Definition good_verb (v : string) : bool :=
  String.eqb v "v" || String.eqb v "s" || String.eqb v "x" || String.eqb v "X" || String.eqb v "q".

(* pp.fmtString for the good verbs *)
Definition fmt_string (st : pst) (verb : string) (s : string) : string :=
  if String.eqb verb "v" then (if sharpV st then fmtQ (fl st) s else fmtS (fl st) s)
  else if String.eqb verb "s" then fmtS (fl st) s
  else if String.eqb verb "x" then fmtSx (fl st) false s
  else if String.eqb verb "X" then fmtSx (fl st) true s
  else fmtQ (fl st) s.

(* pp.badVerb on a string-kind value of type [tn]: the value is printed with %v while
   p.erroring is set, i.e. WITHOUT consulting any method *)
Definition bad_verb (st : pst) (verb tn : string) (raw : string) : string :=
  "%!" ++ verb ++ "(" ++ tn ++ "=" ++ fmt_string st "v" raw ++ ")".

(* a string-kind value without usable methods (plain string, or an opaque string whose methods
   cannot be / are not consulted) *)
Definition leaf_plain (st : pst) (verb tn : string) (raw : string) : string :=
  if good_verb verb then fmt_string st verb raw else bad_verb st verb tn raw.

(* an opaque string; [handle] = handleMethods is reached with the value as an interface
   (depth 0, or CanInterface) *)
Definition tn_opaque : string := "configopaque.String".

Definition leaf_opaque (M : methods) (st : pst) (verb : string) (handle : bool) (s : string) : string :=
  if handle && negb (erroring st) then
    if sharpV st then fmtS (fl st) (m_GoString M s)                 (* GoStringer, only with %#v *)
    else if good_verb verb then fmt_string st verb (m_String M s)   (* Stringer *)
    else leaf_plain st verb tn_opaque s
  else leaf_plain st verb tn_opaque s.

(* ------------------------------------------------------------------------------------------ *)
(* Containers                                                                                  *)
(* ------------------------------------------------------------------------------------------ *)
Inductive shape :=
| SBare                              (* configopaque.String *)
| SPtr (s : shape)                   (* *T *)
| SField (exported : bool) (s : shape)   (* struct { F T } / struct { f T } *)
| SSlice (s : shape)                 (* []T{x, x} *)
| SArray (s : shape)                 (* [1]T{x} *)
| SMapVal (s : shape)                (* map[string]T{"k": x} *)
| SMapKey                            (* map[configopaque.String]string{x: "v"} *)
| SMapKey2                           (* ... {x: "v", x+"#2": "w"}: two opaque keys (second x sorts after x) *)
| SIface (s : shape)                 (* a field / element of type any holding T *)
| SMarsh (s : shape).                (* a struct { V any } that implements confmap.Marshaler by merging {"v": V} — the
                                        TYPED value — into its Conf (the generic encoder has to encode the hook's result) *)

Fixpoint tyname (sh : shape) : string :=
  match sh with
  | SBare => tn_opaque
  | SPtr s => "*" ++ tyname s
  | SField true s => "struct { F " ++ tyname s ++ " }"
  | SField false s => "struct { f " ++ tyname s ++ " }"
  | SSlice s => "[]" ++ tyname s
  | SArray s => "[1]" ++ tyname s
  | SMapVal s => "map[string]" ++ tyname s
  | SMapKey | SMapKey2 => "map[configopaque.String]string"
  | SIface _ => "interface {}"
  | SMarsh _ => "e2e.vMarsh"
  end.

(* the dynamic value behind interfaces *)
Fixpoint dyn (sh : shape) : shape := match sh with SIface s => dyn s | _ => sh end.

Definition is_container (sh : shape) : bool :=
  match dyn sh with SField _ _ | SSlice _ | SArray _ | SMapVal _ | SMapKey | SMapKey2 | SMarsh _ => true | _ => false end.

(* the second secret held by a two-key map *)
Definition second (s : string) : string := s ++ "#2".

(* an address: never modelled as digits, the correspondence only compares "an address was printed" *)
Definition ADDR : string := ch 1.

Fixpoint has_addr (s : string) : bool :=
  match s with EmptyString => false | String c r => (bN c =? 1)%N || has_addr r end.

Definition is_bare (sh : shape) : bool := match sh with SBare => true | _ => false end.

(* pointer to array, slice, struct or map: printed as &{...} at top level only *)
Definition amp_kind (sh : shape) : bool :=
  match sh with SField _ _ | SSlice _ | SArray _ | SMapVal _ | SMapKey | SMapKey2 | SMarsh _ => true | _ => false end.

(* verbs fmtPointer accepts *)
Definition ptr_verb (v : string) : bool :=
  String.eqb v "v" || String.eqb v "p" || String.eqb v "b" || String.eqb v "o" || String.eqb v "d"
  || String.eqb v "x" || String.eqb v "X".

Definition set_erroring (st : pst) : pst := Pst (fl st) (sharpV st) (plusV st) true.

(* pp.printValue.  [ro] = the value was reached through an unexported field (CanInterface false) *)
Fixpoint pv (M : methods) (st : pst) (verb : string) (sh : shape) (depth : nat) (ro : bool) (s : string) : string :=
  let handle := Nat.eqb depth 0 || negb ro in
  match sh with
  | SBare => leaf_opaque M st verb handle s
  | SIface i => pv M st verb i (S depth) ro s
  | SPtr i =>
      if is_bare i then
        (* *String has String's methods; when they are not consulted the pointer is printed *)
        (if handle && negb (erroring st) && (sharpV st || good_verb verb)
         then leaf_opaque M st verb true s else ADDR)
      else if amp_kind i && Nat.eqb depth 0 then "&" ++ pv M st verb i (S depth) ro s
      else if ptr_verb verb || negb (amp_kind i) then ADDR          (* fmtPointer *)
      else
        (* fmtPointer's bad-verb report re-prints the pointer with %v at depth 0 while erroring:
           a pointer to a struct / slice / array / map is then dereferenced and printed raw *)
        "%!" ++ verb ++ "(" ++ tyname sh ++ "=&" ++ pv M (set_erroring st) "v" i 1 ro s ++ ")"
  | SField ex i =>
      (if sharpV st then tyname sh else "") ++ "{" ++
      (if plusV st || sharpV st then (if ex then "F:" else "f:") else "") ++
      pv M st verb i (S depth) (ro || negb ex) s ++ "}"
  | SMarsh i =>        (* fmt sees a struct with one exported field V of interface type *)
      (if sharpV st then tyname sh else "") ++ "{" ++
      (if plusV st || sharpV st then "V:" else "") ++
      pv M st verb i (S depth) ro s ++ "}"
  | SSlice i =>
      let e := pv M st verb i (S depth) ro s in
      if sharpV st then tyname sh ++ "{" ++ e ++ ", " ++ e ++ "}" else "[" ++ e ++ " " ++ e ++ "]"
  | SArray i =>
      let e := pv M st verb i (S depth) ro s in
      if sharpV st then tyname sh ++ "{" ++ e ++ "}" else "[" ++ e ++ "]"
  | SMapVal i =>
      let k := leaf_plain st verb "string" "k" in
      let e := pv M st verb i (S depth) ro s in
      if sharpV st then tyname sh ++ "{" ++ k ++ ":" ++ e ++ "}" else "map[" ++ k ++ ":" ++ e ++ "]"
  | SMapKey =>
      let k := leaf_opaque M st verb (negb ro) s in
      let e := leaf_plain st verb "string" "v" in
      if sharpV st then tyname sh ++ "{" ++ k ++ ":" ++ e ++ "}" else "map[" ++ k ++ ":" ++ e ++ "]"
  | SMapKey2 =>
      (* internal/fmtsort orders the entries by the RAW keys: x before x+"#2" *)
      let k1 := leaf_opaque M st verb (negb ro) s in
      let k2 := leaf_opaque M st verb (negb ro) (second s) in
      let e1 := leaf_plain st verb "string" "v" in
      let e2 := leaf_plain st verb "string" "w" in
      if sharpV st then tyname sh ++ "{" ++ k1 ++ ":" ++ e1 ++ ", " ++ k2 ++ ":" ++ e2 ++ "}"
      else "map[" ++ k1 ++ ":" ++ e1 ++ " " ++ k2 ++ ":" ++ e2 ++ "]"
  end.

Definition mk_pst (verb : string) (f : flags) : pst :=
  if String.eqb verb "v" || String.eqb verb "w"
  then Pst (F false (f_minus f) false (f_space f) (f_zero f) (f_wid f) (f_prec f)) (f_sharp f) (f_plus f) false
  else Pst f false false false.

Definition addr_kind (sh : shape) : bool :=
  match dyn sh with SPtr _ | SSlice _ | SMapVal _ | SMapKey | SMapKey2 => true | _ => false end.

(* Sprintf("%<flags><wid>.<prec><verb>", value) — print.go printArg *)
Definition render_fmt (M : methods) (verb : string) (f : flags) (sh : shape) (s : string) : string :=
  let st := mk_pst verb f in
  let bad := "%!" ++ verb ++ "(" ++ tyname (dyn sh) ++ "=" ++ pv M (set_erroring st) "v" (dyn sh) 0 false s ++ ")" in
  if String.eqb verb "T" then fmtS (fl st) (tyname (dyn sh))
  else if String.eqb verb "p" then (if addr_kind sh then ADDR else bad)
  else if String.eqb verb "w" then bad            (* the operand is not an error *)
  else pv M st verb (dyn sh) 0 false s.

Definition no_flags : flags := F false false false false false None None.

(* ------------------------------------------------------------------------------------------ *)
(* encoding/json (also behind zap.Reflect, with escapeHTML off)                                *)
(* ------------------------------------------------------------------------------------------ *)
Fixpoint js (M : methods) (html : bool) (sh : shape) (s : string) : string :=
  match sh with
  | SBare => json_quote html (m_MarshalText M s)
  | SPtr i => js M html i s
  | SIface i => js M html i s
  | SField true i => "{" ++ dquote ++ "F" ++ dquote ++ ":" ++ js M html i s ++ "}"
  | SField false _ => "{}"
  | SMarsh i => "{" ++ dquote ++ "V" ++ dquote ++ ":" ++ js M html i s ++ "}"
  | SSlice i => "[" ++ js M html i s ++ "," ++ js M html i s ++ "]"
  | SArray i => "[" ++ js M html i s ++ "]"
  | SMapVal i => "{" ++ dquote ++ "k" ++ dquote ++ ":" ++ js M html i s ++ "}"
  | SMapKey => "{" ++ json_quote html s ++ ":" ++ dquote ++ "v" ++ dquote ++ "}"   (* the key is taken raw *)
  | SMapKey2 => "{" ++ json_quote html s ++ ":" ++ dquote ++ "v" ++ dquote ++ ","
                    ++ json_quote html (second s) ++ ":" ++ dquote ++ "w" ++ dquote ++ "}"   (* sorted by raw key *)
  end.

(* ------------------------------------------------------------------------------------------ *)
(* Generic trees: what yaml and the config-map encoder produce, printed canonically            *)
(* ------------------------------------------------------------------------------------------ *)
Inductive tree :=
| TStr (s : string)
| TRaw (tn : string)                 (* a typed Go value left as is (still of an opaque type) *)
| TMap (l : list (string * tree))
| TList (l : list tree).

Fixpoint canon (t : tree) : string :=
  match t with
  | TStr s => dquote ++ s ++ dquote
  | TRaw tn => "<raw " ++ tn ++ ">"
  | TMap l => "{" ++ (fix go (l : list (string * tree)) (first : bool) : string :=
                        match l with
                        | [] => EmptyString
                        | (k, v) :: r => (if first then "" else ",") ++ k ++ ":" ++ canon v ++ go r false
                        end) l true ++ "}"
  | TList l => "[" ++ (fix go (l : list tree) (first : bool) : string :=
                         match l with
                         | [] => EmptyString
                         | v :: r => (if first then "" else ",") ++ canon v ++ go r false
                         end) l true ++ "]"
  end.

(* goyaml.v3 Marshal, decoded back into a generic tree *)
Fixpoint yaml_tree (M : methods) (sh : shape) (s : string) : tree :=
  match sh with
  | SBare => TStr (m_MarshalText M s)
  | SPtr i => yaml_tree M i s
  | SIface i => yaml_tree M i s
  | SField true i => TMap [("f", yaml_tree M i s)]
  | SField false _ => TMap []
  | SMarsh i => TMap [("v", yaml_tree M i s)]
  | SSlice i => TList [yaml_tree M i s; yaml_tree M i s]
  | SArray i => TList [yaml_tree M i s]
  | SMapVal i => TMap [("k", yaml_tree M i s)]
  | SMapKey => TMap [(m_MarshalText M s, TStr "v")]
  | SMapKey2 => TMap [(m_MarshalText M s, TStr "v"); (m_MarshalText M (second s), TStr "w")]
  end.

(* confmap encoder.encode: Interface/Ptr -> Elem; Map; Slice; Struct; everything else (strings,
   ...) goes to the hook chain, whose TextMarshalerHookFunc replaces a TextMarshaler by
   its text and leaves any other value as it is *)
Inductive cres := COk (t : tree) | CErr (e : string).

Definition cmap (f : tree -> tree) (wrap : string -> string) (r : cres) : cres :=
  match r with COk t => COk (f t) | CErr e => CErr (wrap e) end.

(* errors are wrapped on the way up (encodeStruct / encodeSlice / encodeMap); a map whose keys
   encode to the same string fails with the ENCODED key in the message *)
Fixpoint conf_tree (M : methods) (sh : shape) (s : string) : cres :=
  match sh with
  | SBare => COk (TStr (m_MarshalText M s))
  | SPtr i => conf_tree M i s
  | SIface i => conf_tree M i s
  | SField true i => cmap (fun t => TMap [("f", t)])
                          (fun e => "error encoding field " ++ go_quote "f" ++ ": " ++ e) (conf_tree M i s)
  | SField false _ => COk (TMap [])
  | SSlice i => cmap (fun t => TList [t; t])
                     (fun e => "error encoding element in slice at index 0: " ++ e) (conf_tree M i s)
  | SArray i => cmap (fun t => TList [t])     (* encodeArray: the hook leaves [n]String alone, then element by element *)
                     (fun e => "error encoding element in array at index 0: " ++ e) (conf_tree M i s)
  | SMapVal i => cmap (fun t => TMap [("k", t)])
                      (fun e => "error encoding map value for key " ++ go_quote "k" ++ ": " ++ e) (conf_tree M i s)
  | SMarsh i =>
      (* marshalerHookFunc: Marshal(conf); conf.ToStringMap() = {"v": the typed value}; encodeStruct
         then runs the encoder over that map (encodeMap), which is what redacts the value *)
      cmap (fun t => TMap [("v", t)])
           (fun e => "error encoding map value for key " ++ go_quote "v" ++ ": " ++ e) (conf_tree M i s)
  | SMapKey => COk (TMap [(m_MarshalText M s, TStr "v")])
  | SMapKey2 =>
      if String.eqb (m_MarshalText M s) (m_MarshalText M (second s))
      then CErr ("duplicate key " ++ go_quote (m_MarshalText M s) ++ " while encoding")
      else COk (TMap [(m_MarshalText M s, TStr "v"); (m_MarshalText M (second s), TStr "w")])
  end.

(* Conf.Marshal accepts only a value that encodes to a map; an encoder error is returned as is *)
Definition conf_top (M : methods) (sh : shape) (s : string) : cres :=
  match dyn sh with
  | SMarsh i =>
      (* the value handed to Conf.Marshal itself is exempt from the Marshaler hook: its field V is
         encoded like any struct field *)
      cmap (fun t => TMap [("v", t)])
           (fun e => "error encoding field " ++ go_quote "v" ++ ": " ++ e) (conf_tree M i s)
  | _ => conf_tree M sh s
  end.

Definition render_confmap (M : methods) (sh : shape) (s : string) : string :=
  match conf_top M sh s with
  | COk (TMap l) => canon (TMap l)
  | COk _ => "ERR invalid config encoding"
  | CErr e => "ERR " ++ e
  end.

(* ------------------------------------------------------------------------------------------ *)
(* zap fields through the JSON encoder                                                         *)
(* ------------------------------------------------------------------------------------------ *)
Definition is_stringer (sh : shape) : bool :=
  match dyn sh with SBare => true | SPtr i => match dyn i with SBare => true | _ => false end | _ => false end.

Definition zap_line (v : string) : string := "{" ++ dquote ++ "k" ++ dquote ++ ":" ++ v ++ "}".

(* zap.Any: a fmt.Stringer becomes zap.Stringer, everything else zap.Reflect (encoding/json) *)
Definition render_zap_any (M : methods) (sh : shape) (s : string) : string :=
  if is_stringer sh then zap_line (json_quote false (m_String M s)) else zap_line (js M false sh s).

(* ------------------------------------------------------------------------------------------ *)
(* Rendering paths                                                                             *)
(* ------------------------------------------------------------------------------------------ *)
Inductive path :=
| PFmt (verb : string) (f : flags)   (* fmt.Sprintf / Fprintf / Printf / Errorf(...).Error() *)
| PSprint                            (* fmt.Sprint / Print / Fprint *)
| PSprintln
| PErrorfW                           (* fmt.Errorf("%w", v).Error() *)
| PJson                              (* encoding/json.Marshal *)
| PYaml                              (* goyaml.v3 Marshal *)
| PConfmap                           (* confmap.Conf.Marshal + ToStringMap *)
| PZapAny | PZapReflect | PZapStringer
| PString | PGoString | PMarshalText | PMarshalBinary   (* the methods, called directly *)
| PCast.                             (* string(v): the explicit conversion *)

Definition render (M : methods) (p : path) (sh : shape) (s : string) : string :=
  match p with
  | PFmt verb f => render_fmt M verb f sh s
  | PSprint => render_fmt M "v" no_flags sh s
  | PSprintln => render_fmt M "v" no_flags sh s ++ ch 10
  | PErrorfW => render_fmt M "w" no_flags sh s
  | PJson => js M true sh s
  | PYaml => canon (yaml_tree M sh s)
  | PConfmap => render_confmap M sh s
  | PZapAny => render_zap_any M sh s
  | PZapReflect => zap_line (js M false sh s)
  | PZapStringer => zap_line (json_quote false (m_String M s))
  | PString => m_String M s
  | PGoString => m_GoString M s
  | PMarshalText => m_MarshalText M s
  | PMarshalBinary => m_MarshalBinary M s
  | PCast => s
  end.

(* ------------------------------------------------------------------------------------------ *)
(* Where the secret cannot come out (decidable side conditions of the theorems)                *)
(* ------------------------------------------------------------------------------------------ *)
Fixpoint no_unexported (sh : shape) : bool :=
  match sh with
  | SBare | SMapKey | SMapKey2 => true
  | SField ex i => ex && no_unexported i
  | SPtr i | SSlice i | SArray i | SMapVal i | SIface i | SMarsh i => no_unexported i
  end.

Fixpoint no_mapkey (sh : shape) : bool :=
  match sh with
  | SBare => true
  | SMapKey | SMapKey2 => false
  | SField _ i | SPtr i | SSlice i | SArray i | SMapVal i | SIface i | SMarsh i => no_mapkey i
  end.

(* no pointer to a struct / slice / array / map below the top level (fmt prints such a pointer
   through fmtPointer, whose bad-verb report for %s and %q dereferences it raw) *)
Fixpoint no_deep_ptr (sh : shape) (depth : nat) : bool :=
  match sh with
  | SBare | SMapKey | SMapKey2 => true
  | SPtr i => (negb (amp_kind i) || Nat.eqb depth 0) && no_deep_ptr i (S depth)
  | SField _ i | SSlice i | SArray i | SMapVal i | SIface i | SMarsh i => no_deep_ptr i (S depth)
  end.

Definition fmt_safe (verb : string) (sh : shape) : bool :=
  good_verb verb && no_unexported sh && (ptr_verb verb || no_deep_ptr (dyn sh) 0).

(* the (path, shape) pairs on which the rendering is proved independent of the secret; the
   complement is where the pinned tree reveals it (or the explicit conversion) *)
Definition safe (p : path) (sh : shape) : bool :=
  match p with
  | PFmt verb f => String.eqb verb "T" || fmt_safe verb sh
  | PSprint | PSprintln => no_unexported sh
  | PErrorfW => false
  | PJson | PZapAny | PZapReflect => no_mapkey sh
  | PYaml | PConfmap | PZapStringer | PString | PGoString | PMarshalText | PMarshalBinary => true
  | PCast => false
  end.

(* does printValue get down to the value (no pointer printed as an address on the way)? *)
Fixpoint fmt_reaches (sh : shape) (depth : nat) : bool :=
  match sh with
  | SBare | SMapKey | SMapKey2 => true
  | SIface i => fmt_reaches i (S depth)
  | SPtr i => is_bare i || (amp_kind i && Nat.eqb depth 0 && fmt_reaches i (S depth))
  | SField _ i | SSlice i | SArray i | SMapVal i | SMarsh i => fmt_reaches i (S depth)
  end.

(* a map with two opaque keys makes the config-map encoder fail (they collide on the marker) *)
Fixpoint no_key2 (sh : shape) : bool :=
  match sh with
  | SBare | SMapKey => true
  | SMapKey2 => false
  | SField _ i | SPtr i | SSlice i | SArray i | SMapVal i | SIface i | SMarsh i => no_key2 i
  end.

Definition encodes_to_map (sh : shape) : bool :=
  match dyn sh with SField _ _ | SMapVal _ | SMapKey | SMarsh _ => true
  | SPtr i => match dyn i with SField _ _ | SMapVal _ | SMapKey | SMarsh _ => true | _ => false end
  | _ => false end.

(* the (path, shape) pairs on which the value itself is printed (through its methods) *)
Definition shows (p : path) (sh : shape) : bool :=
  match p with
  | PFmt verb f => good_verb verb && no_unexported sh && fmt_reaches (dyn sh) 0
  | PSprint | PSprintln => no_unexported sh && fmt_reaches (dyn sh) 0
  | PJson | PZapReflect => no_unexported sh && no_mapkey sh
  | PYaml => no_unexported sh
  | PConfmap => no_unexported sh && no_key2 sh && encodes_to_map sh
  | PZapStringer | PString | PGoString | PMarshalText | PMarshalBinary => true
  | PZapAny | PErrorfW | PCast => false
  end.

(* what the value contributes there: the result of one of its methods, transformed by the
   verb / encoder — a function of the methods' results only *)
Definition leaf_text (M : methods) (p : path) (s : string) : string :=
  match p with
  | PFmt verb f => leaf_opaque M (mk_pst verb f) verb true s
  | PSprint | PSprintln => leaf_opaque M (mk_pst "v" no_flags) "v" true s
  | PJson => json_quote true (m_MarshalText M s)
  | PZapReflect => json_quote false (m_MarshalText M s)
  | PYaml | PConfmap | PMarshalText => m_MarshalText M s
  | PZapStringer => json_quote false (m_String M s)
  | PString => m_String M s
  | PGoString => m_GoString M s
  | PMarshalBinary => m_MarshalBinary M s
  | PZapAny | PErrorfW | PCast => EmptyString
  end.

(* paths whose transform keeps the method's result verbatim (no precision, no hex) *)
Definition verbatim (p : path) : bool :=
  match p with
  | PFmt verb f => (String.eqb verb "v" || String.eqb verb "s" || String.eqb verb "q")
                   && match f_prec f with None => true | Some _ => false end
  | PSprint | PSprintln | PJson | PZapReflect | PYaml | PConfmap | PMarshalText | PZapStringer
  | PString | PGoString | PMarshalBinary => true
  | PZapAny | PErrorfW | PCast => false
  end.

(* ------------------------------------------------------------------------------------------ *)
(* The instance read from the source                                                           *)
(* ------------------------------------------------------------------------------------------ *)
(* a method whose body mentions its receiver is (pessimistically) taken to reveal it *)
Definition meth (mentions : bool) (c : option string) (dflt : string) : string -> string :=
  fun s => if mentions then s else match c with Some k => k | None => dflt end.

Definition marker : string := match opaque_String_const with Some k => k | None => EmptyString end.

Definition opaque : methods :=
  Methods (meth opaque_String_mentions_receiver opaque_String_const EmptyString)
          (* GoString's body is fmt.Sprintf("%#v", maskedString): no constant for T1 *)
          (meth opaque_GoString_mentions_receiver opaque_GoString_const (go_quote marker))
          (meth opaque_MarshalText_mentions_receiver opaque_MarshalText_const EmptyString)
          (meth opaque_MarshalBinary_mentions_receiver opaque_MarshalBinary_const EmptyString).

Definition expected_method_set : list string := ["GoString"; "MarshalBinary"; "MarshalText"; "String"].

Definition methods_ignore_receiver : bool :=
  forallb negb [opaque_String_mentions_receiver; opaque_GoString_mentions_receiver;
                opaque_MarshalText_mentions_receiver; opaque_MarshalBinary_mentions_receiver].

(* ------------------------------------------------------------------------------------------ *)
(* Decoding direction: what ends up stored in the opaque field                                 *)
(* ------------------------------------------------------------------------------------------ *)
(* how YAML reads a text: as a string, as null, or as something else (number, bool, sequence, ...);
   supplied by the harness from the YAML library itself *)
Inductive ycls := YStr | YNull | YOther.

Inductive uctx :=
| UJson | UYaml                      (* encoding/json, goyaml.v3 Unmarshal into struct { F String } *)
| UConfPlain                         (* confmap Unmarshal into a struct field / map value / slice element *)
| UConfNestedUnmarshaler             (* ... inside a named sub-struct that implements confmap.Unmarshaler *)
| UConfSquashPlain                   (* ... inside a squashed embedded struct without Unmarshaler *)
| UConfSquashUnmarshaler             (* ... inside a squashed embedded struct that implements Unmarshaler *)
(* the text comes from a provider expansion, resolved by confmap.Resolver, then Unmarshal: *)
| UExpScalar                         (* tok: ${env:X} / ${file:P} into a String field *)
| UExpMapVal                         (* hdr: {a: ${env:X}} into map[string]String *)
| UExpSliceElem                      (* list: ["${env:X}"] into []String *)
| UExpInline                         (* inl: pre-${env:X}-post into a String field *)
| UExpPtr (c : ycls)                 (* ptr: ${env:X} into a *String field *)
| UViaSub (u : uctx).                (* the same, but the component's section is first taken with Conf.Sub (as the
                                        collector does for every component) and THAT Conf is unmarshalled *)

Inductive ures := Stored (s : string) | NilPtr | DecodeError.

(* unmarshalerEmbeddedStructsHookFunc: the squashed struct is unmarshalled, then marshalled back into a
   Conf by marshalForDecoding — which keeps values whose text form cannot be unmarshalled again, i.e.
   does not redact (repair 02a3505c0) — and the result overwrites the input map before the final decode.
   useExpandValue: an expanded value keeps its original text only for a target of KIND string; a
   pointer target gets the YAML-parsed value (nil for null, a decode error for a non-string). *)
Fixpoint unmarshal (M : methods) (u : uctx) (t : string) : ures :=
  match u with
  | UViaSub u' => unmarshal M u' t      (* Sub keeps the expanded values (original text included) as they are *)
  | UExpInline => Stored ("pre-" ++ t ++ "-post")
  | UExpPtr YNull => NilPtr
  | UExpPtr YOther => DecodeError
  | _ => Stored t
  end.

Fixpoint is_inline (u : uctx) : bool :=
  match u with UExpInline => true | UViaSub u' => is_inline u' | _ => false end.

(* the decoding contexts in which the text must be (and is) stored as it is *)
Fixpoint plain_ctx (u : uctx) : bool :=
  match u with
  | UViaSub u' => plain_ctx u'
  | UExpInline | UExpPtr YNull | UExpPtr YOther => false
  | _ => true
  end.

(* ------------------------------------------------------------------------------------------ *)
(* Use: the code that needs the secret converts explicitly                                     *)
(* ------------------------------------------------------------------------------------------ *)
Inductive consumer :=
| UseHttpClientHeader                (* confighttp headerRoundTripper: req.Header.Set(k, string(v)) *)
| UseHttpClientHost                  (* ... the Host header: req.Host = string(v) *)
| UseHttpServerResponseHeader        (* confighttp responseHeadersHandler *)
| UseGrpcUnary (bin : bool)          (* configgrpc addHeadersIfAbsent via the unary interceptor; key ends in -bin? *)
| UseGrpcStream (bin : bool)         (* ... via the stream interceptor *)
| UseTLSKeyPair.                     (* configtls: CertPem / KeyPem parsed as the key pair *)

Definition use (c : consumer) (s : string) : string := s.
