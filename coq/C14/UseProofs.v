(* C14/UseProofs.v — the consumers hand the configured secret to the wire / the TLS loader. *)
From Verif Require Import Common.Base Generated.C14Tls C14.UseModel.
From Coq Require Import String Ascii.
Local Open Scope string_scope.

(* ---- association lists ------------------------------------------------------------------------- *)
Lemma hget_hset_same h k v : hget (hset h k v) k = Some v.
Proof.
  induction h as [|[k' v'] r IH]; simpl.
  - now rewrite String.eqb_refl.
  - destruct (String.eqb k' k) eqn:E; simpl; [now rewrite String.eqb_refl|now rewrite E].
Qed.

Lemma hget_hset_other h k v x : x <> k -> hget (hset h k v) x = hget h x.
Proof.
  intros N. induction h as [|[k' v'] r IH]; simpl.
  - destruct (String.eqb k x) eqn:E; [apply String.eqb_eq in E; congruence|reflexivity].
  - destruct (String.eqb k' k) eqn:E; simpl.
    + apply String.eqb_eq in E. subst k'.
      destruct (String.eqb k x) eqn:E2; [apply String.eqb_eq in E2; congruence|reflexivity].
    + destruct (String.eqb k' x); [reflexivity|exact IH].
Qed.

Definition ckeys (cfg : hdrs) : list string := map (fun kv => canon_mime (fst kv)) cfg.

(* a key that no configured key canonicalises to is left alone *)
Lemma set_all_other : forall cfg h x, ~ In x (ckeys cfg) -> hget (http_set_all cfg h) x = hget h x.
Proof.
  unfold http_set_all. induction cfg as [|[k v] r IH]; intros h x N; simpl in *; [reflexivity|].
  rewrite IH by tauto. apply hget_hset_other. intros E. apply N. left. now symmetry.
Qed.

(* every configured (key, secret): the header under the canonical key carries the secret itself,
   whatever the request / response already held and whatever the iteration order *)
Lemma set_all_sends : forall cfg h k v,
  In (k, v) cfg -> NoDup (ckeys cfg) -> hget (http_set_all cfg h) (canon_mime k) = Some v.
Proof.
  unfold http_set_all. induction cfg as [|[k0 v0] r IH]; intros h k v I D; simpl in *; [contradiction|].
  inversion D as [|? ? Hn Dr]; subst. destruct I as [E|I].
  - inversion E; subst. fold (http_set_all r (hset h (canon_mime k) v)).
    rewrite set_all_other by exact Hn. apply hget_hset_same.
  - now apply IH.
Qed.

Lemma client_header_l : forall cfg host hdr k v,
  In (k, v) cfg -> NoDup (ckeys cfg) ->
  hget (snd (http_client_roundtrip cfg host hdr)) (canon_mime k) = Some v.
Proof. intros. now apply set_all_sends. Qed.

Lemma client_host_l : forall cfg host hdr v,
  hget cfg "Host" = Some v -> v <> "" -> fst (http_client_roundtrip cfg host hdr) = v.
Proof.
  intros cfg host hdr v H N. unfold http_client_roundtrip. simpl. rewrite H.
  destruct (String.eqb v "") eqn:E; [apply String.eqb_eq in E; contradiction|reflexivity].
Qed.

Lemma client_host_default_l : forall cfg host hdr,
  hget cfg "Host" = None \/ hget cfg "Host" = Some "" -> fst (http_client_roundtrip cfg host hdr) = host.
Proof. intros cfg host hdr [H|H]; unfold http_client_roundtrip; simpl; now rewrite H. Qed.

Lemma response_header_l : forall cfg h k v,
  In (k, v) cfg -> NoDup (ckeys cfg) -> hget (http_response_headers cfg h) (canon_mime k) = Some v.
Proof. intros. now apply set_all_sends. Qed.

(* the canonical form does not depend on the case the key was configured in, and a "-bin" (or any
   other) suffix gets no special treatment: examples, the general statement is the lemma above *)
Lemma canon_examples : canon_mime "x-signature-bin" = "X-Signature-Bin" /\ canon_mime "X-TENANT-BIN" = "X-Tenant-Bin"
  /\ canon_mime "authorization" = "Authorization" /\ canon_mime "bad key" = "bad key".
Proof. vm_compute. repeat split. Qed.

(* ---- grpc ----------------------------------------------------------------------------------------- *)
Lemma md_get_append_same m k v : md_get (md_append m k v) k = (md_get m k ++ [v])%list.
Proof.
  induction m as [|[k' vs] r IH]; simpl.
  - now rewrite String.eqb_refl.
  - destruct (String.eqb k' k) eqn:E; simpl; now rewrite E.
Qed.

Lemma md_get_append_other m k v x : x <> k -> md_get (md_append m k v) x = md_get m x.
Proof.
  intros N. induction m as [|[k' vs] r IH]; simpl.
  - destruct (String.eqb k x) eqn:E; [apply String.eqb_eq in E; congruence|reflexivity].
  - destruct (String.eqb k' k) eqn:E; simpl.
    + apply String.eqb_eq in E. subst k'.
      destruct (String.eqb k x) eqn:E2; [apply String.eqb_eq in E2; congruence|reflexivity].
    + destruct (String.eqb k' x); [reflexivity|exact IH].
Qed.

Definition lkeys (cfg : hdrs) : list string := map (fun kv => lower_s (fst kv)) cfg.

Lemma grpc_other : forall cfg existing m x,
  ~ In x (lkeys cfg) ->
  md_get (fold_left (fun m kv => if md_absent existing (lower_s (fst kv))
                                 then md_append m (lower_s (fst kv)) (snd kv) else m) cfg m) x = md_get m x.
Proof.
  induction cfg as [|[k v] r IH]; intros existing m x N; simpl in *; [reflexivity|].
  rewrite IH by tauto. destruct (md_absent existing (lower_s k)); [|reflexivity].
  apply md_get_append_other. intros E. apply N. left. now symmetry.
Qed.

Lemma grpc_sends_gen : forall cfg existing m k v,
  In (k, v) cfg -> NoDup (lkeys cfg) -> md_absent existing (lower_s k) = true ->
  md_get (fold_left (fun m kv => if md_absent existing (lower_s (fst kv))
                                 then md_append m (lower_s (fst kv)) (snd kv) else m) cfg m) (lower_s k)
  = (md_get m (lower_s k) ++ [v])%list.
Proof.
  induction cfg as [|[k0 v0] r IH]; intros existing m k v I D A; simpl in *; [contradiction|].
  inversion D as [|? ? Hn Dr]; subst. destruct I as [E|I].
  - inversion E; subst. rewrite A. rewrite grpc_other by exact Hn. apply md_get_append_same.
  - rewrite (IH existing _ k v I Dr A).
    destruct (md_absent existing (lower_s k0)); [|reflexivity].
    rewrite md_get_append_other; [reflexivity|].
    intros E. apply Hn. rewrite <- E. unfold lkeys. apply in_map_iff. exists (k, v). auto.
Qed.

(* a configured header whose key is absent from the outgoing metadata is sent with exactly the
   secret as its single value — for every key, "-bin" or not *)
Lemma grpc_sends_l : forall cfg existing k v,
  In (k, v) cfg -> NoDup (lkeys cfg) -> md_get existing (lower_s k) = [] ->
  md_get (grpc_add_headers cfg existing) (lower_s k) = [v].
Proof.
  intros cfg existing k v I D A. unfold grpc_add_headers.
  rewrite (grpc_sends_gen cfg existing existing k v I D); [now rewrite A|].
  unfold md_absent. now rewrite A.
Qed.

(* ... and one that the caller already set is left as the caller set it ("IfAbsent") *)
Lemma grpc_keeps_l : forall cfg existing k,
  NoDup (lkeys cfg) -> md_get existing (lower_s k) <> [] ->
  md_get (grpc_add_headers cfg existing) (lower_s k) = md_get existing (lower_s k).
Proof.
  intros cfg existing k _ A. unfold grpc_add_headers.
  assert (G : forall cfg m, md_get (fold_left (fun m kv => if md_absent existing (lower_s (fst kv))
                 then md_append m (lower_s (fst kv)) (snd kv) else m) cfg m) (lower_s k) = md_get m (lower_s k)).
  { induction cfg0 as [|[k0 v0] r IH]; intros m; simpl; [reflexivity|]. rewrite IH.
    destruct (md_absent existing (lower_s k0)) eqn:E; [|reflexivity].
    apply md_get_append_other. intros Ek. rewrite Ek in A. unfold md_absent in E.
    destruct (md_get existing (lower_s k0)); [contradiction|discriminate]. }
  apply G.
Qed.

(* ---- configtls -------------------------------------------------------------------------------------- *)
Lemma length_zero_iff (s : string) : (Z.of_nat (String.length s) =? 0)%Z = String.eqb s "".
Proof. destruct s; reflexivity. Qed.

(* OBLIGATIONS over the definitions T1 regenerates from configtls.go on every run: the
   hand-written presence predicates are the generated ones on their whole domain *)
Lemma tls_pem_present_l : forall s,
  tls_hasCertPem (Z.of_nat (String.length s)) = nonempty s /\
  tls_hasKeyPem (Z.of_nat (String.length s)) = nonempty s /\
  tls_hasCAPem (Z.of_nat (String.length s)) = nonempty s.
Proof. intros s. unfold tls_hasCertPem, tls_hasKeyPem, tls_hasCAPem, nonempty. now rewrite length_zero_iff. Qed.

Lemma tls_has_l : forall a b, tls_hasCert a b = (a || b) /\ tls_hasKey a b = (a || b) /\ tls_hasCA a b = (a || b).
Proof. intros a b. repeat split. Qed.

Lemma load_certificate_gen_l : forall c, load_certificate c = load_certificate_gen c.
Proof.
  intros c. unfold load_certificate, load_certificate_gen, has_cert, has_key.
  destruct (tls_pem_present_l (t_CertPem c)) as [E1 _]. destruct (tls_pem_present_l (t_KeyPem c)) as [_ [E2 _]].
  rewrite E1, E2.
  destruct (tls_has_l (nonempty (t_CertFile c)) (nonempty (t_CertPem c))) as [H1 _].
  destruct (tls_has_l (nonempty (t_KeyFile c)) (nonempty (t_KeyPem c))) as [_ [H2 _]].
  rewrite H1, H2. reflexivity.
Qed.

(* the PEM fields, when they are the configured source, reach the loader byte for byte *)
Lemma tls_pem_l : forall c,
  t_CertFile c = "" -> t_KeyFile c = "" -> t_CertPem c <> "" -> t_KeyPem c <> "" ->
  load_certificate c = TlsPair (FromPem (t_CertPem c)) (FromPem (t_KeyPem c)).
Proof.
  intros [cf cp kf kp] H1 H2 H3 H4. simpl in *. subst cf kf. unfold load_certificate, has_cert, has_key, nonempty. simpl.
  destruct (String.eqb cp "") eqn:E1; [apply String.eqb_eq in E1; contradiction|].
  destruct (String.eqb kp "") eqn:E2; [apply String.eqb_eq in E2; contradiction|]. reflexivity.
Qed.

(* whatever is loaded from a PEM field is that field *)
Lemma tls_pem_only_l : forall c cert key,
  load_certificate c = TlsPair cert key ->
  (forall b, cert = FromPem b -> b = t_CertPem c) /\ (forall b, key = FromPem b -> b = t_KeyPem c).
Proof.
  intros c cert key H. unfold load_certificate in H.
  destruct (negb (Bool.eqb (has_cert c) (has_key c))); [discriminate|].
  destruct (negb (has_cert c) && negb (has_key c)); [discriminate|].
  destruct (nonempty (t_CertFile c) && nonempty (t_CertPem c)); [discriminate|].
  destruct (nonempty (t_KeyFile c) && nonempty (t_KeyPem c)); [discriminate|].
  inversion H; subst. split; intros b E.
  - destruct (nonempty (t_CertFile c)); inversion E; reflexivity.
  - destruct (nonempty (t_KeyFile c)); inversion E; reflexivity.
Qed.

(* ---- what the consumers give back does not depend on the configured secrets -------------------------- *)
Lemma client_result_l : forall cfg next, http_client_result cfg next = next /\ grpc_call_result cfg next = next.
Proof. intros; split; reflexivity. Qed.

Lemma client_result_ni_l : forall cfg1 cfg2 next,
  http_client_result cfg1 next = http_client_result cfg2 next /\ grpc_call_result cfg1 next = grpc_call_result cfg2 next.
Proof. intros; split; reflexivity. Qed.

(* the text of a TLS loading error depends on WHICH sources are configured, never on their contents
   (two configurations with the same emptiness pattern and the same loader error give the same text) *)
Lemma tls_error_ni_l : forall c1 c2 e,
  nonempty (t_CertFile c1) = nonempty (t_CertFile c2) -> nonempty (t_CertPem c1) = nonempty (t_CertPem c2) ->
  nonempty (t_KeyFile c1) = nonempty (t_KeyFile c2) -> nonempty (t_KeyPem c1) = nonempty (t_KeyPem c2) ->
  tls_error_text (load_certificate c1) e = tls_error_text (load_certificate c2) e.
Proof.
  intros c1 c2 e H1 H2 H3 H4. unfold load_certificate, has_cert, has_key. rewrite H1, H2, H3, H4.
  destruct (negb (Bool.eqb (nonempty (t_CertFile c2) || nonempty (t_CertPem c2)) (nonempty (t_KeyFile c2) || nonempty (t_KeyPem c2)))); [reflexivity|].
  destruct (negb (nonempty (t_CertFile c2) || nonempty (t_CertPem c2)) && negb (nonempty (t_KeyFile c2) || nonempty (t_KeyPem c2))); [reflexivity|].
  destruct (nonempty (t_CertFile c2) && nonempty (t_CertPem c2)); [reflexivity|].
  destruct (nonempty (t_KeyFile c2) && nonempty (t_KeyPem c2)); reflexivity.
Qed.

(* ---- without the hypothesis that the configured keys stay distinct once canonicalised --------------
   Go's map has distinct RAW keys only; "x-tok" and "X-Tok" are two entries that Header.Set writes to the
   same canonical key, the later one in (random) iteration order winning.  Whatever the order, what is
   sent under that key is the secret of ONE of the entries with that canonical key — never anything else. *)
Lemma set_all_some : forall cfg h k v,
  In (k, v) cfg ->
  exists k' v', In (k', v') cfg /\ canon_mime k' = canon_mime k /\
                hget (http_set_all cfg h) (canon_mime k) = Some v'.
Proof.
  unfold http_set_all. induction cfg as [|[k0 v0] r IH]; intros h k v I; simpl in *; [contradiction|].
  destruct (existsb (fun kv => String.eqb (canon_mime (fst kv)) (canon_mime k)) r) eqn:E.
  - apply existsb_exists in E. destruct E as [[k2 v2] [I2 E2]]. simpl in E2. apply String.eqb_eq in E2.
    destruct (IH (hset h (canon_mime k0) v0) k2 v2 I2) as [k' [v' [I' [C' G']]]].
    exists k', v'. split; [now right|]. split; [congruence|]. now rewrite <- E2.
  - assert (N : ~ In (canon_mime k) (ckeys r)).
    { intros Hin. unfold ckeys in Hin. apply in_map_iff in Hin. destruct Hin as [[k2 v2] [E2 I2]].
      assert (X : existsb (fun kv => String.eqb (canon_mime (fst kv)) (canon_mime k)) r = true).
      { apply existsb_exists. exists (k2, v2). split; [exact I2|]. simpl in *. rewrite E2. apply String.eqb_refl. }
      congruence. }
    destruct I as [I|I].
    + inversion I; subst. exists k, v. split; [now left|]. split; [reflexivity|].
      fold (http_set_all r (hset h (canon_mime k) v)). rewrite set_all_other by exact N. apply hget_hset_same.
    + exfalso. apply N. unfold ckeys. apply in_map_iff. exists (k, v). auto.
Qed.

(* grpc appends: with colliding lower-cased keys every one of their secrets is sent (and nothing is dropped) *)
Lemma md_append_keeps m k v x y : In y (md_get m x) -> In y (md_get (md_append m k v) x).
Proof.
  intros H. destruct (String.eqb x k) eqn:E.
  - apply String.eqb_eq in E. subst x. rewrite md_get_append_same. apply in_or_app. now left.
  - rewrite md_get_append_other; [exact H|]. intros X. subst. now rewrite String.eqb_refl in E.
Qed.

Lemma grpc_fold_keeps : forall cfg existing m x y,
  In y (md_get m x) ->
  In y (md_get (fold_left (fun m kv => if md_absent existing (lower_s (fst kv))
                                       then md_append m (lower_s (fst kv)) (snd kv) else m) cfg m) x).
Proof.
  induction cfg as [|[k v] r IH]; intros existing m x y H; simpl; [exact H|].
  apply IH. destruct (md_absent existing (lower_s k)); [now apply md_append_keeps|exact H].
Qed.

Lemma grpc_fold_contains : forall cfg existing m k v,
  In (k, v) cfg -> md_absent existing (lower_s k) = true ->
  In v (md_get (fold_left (fun m kv => if md_absent existing (lower_s (fst kv))
                                       then md_append m (lower_s (fst kv)) (snd kv) else m) cfg m) (lower_s k)).
Proof.
  induction cfg as [|[k0 v0] r IH]; intros existing m k v I Ab; simpl in *; [contradiction|].
  destruct I as [I|I].
  - inversion I; subst. rewrite Ab. apply grpc_fold_keeps. rewrite md_get_append_same. apply in_or_app. right. now left.
  - now apply IH.
Qed.

Lemma grpc_contains_l : forall cfg existing k v,
  In (k, v) cfg -> md_get existing (lower_s k) = [] ->
  In v (md_get (grpc_add_headers cfg existing) (lower_s k)).
Proof.
  intros cfg existing k v I A. unfold grpc_add_headers. apply grpc_fold_contains; [exact I|].
  unfold md_absent. now rewrite A.
Qed.

(* ---- the CA pool ----------------------------------------------------------------------------------------- *)
Lemma load_ca_gen_l : forall f p, load_ca f p = load_ca_gen f p.
Proof. intros f p. unfold load_ca, load_ca_gen. destruct (tls_pem_present_l p) as [_ [_ E]]. now rewrite E. Qed.

Lemma ca_pem_l : forall p, p <> "" -> load_ca "" p = CaFrom (FromPem p).
Proof.
  intros p H. unfold load_ca, nonempty. simpl.
  destruct (String.eqb p "") eqn:E; [apply String.eqb_eq in E; contradiction|reflexivity].
Qed.

Lemma ca_error_ni_l : forall f1 p1 f2 p2 ok,
  nonempty f1 = nonempty f2 -> nonempty p1 = nonempty p2 ->
  ca_error_text (load_ca f1 p1) ok = ca_error_text (load_ca f2 p2) ok.
Proof.
  intros f1 p1 f2 p2 ok H1 H2. unfold load_ca. rewrite H1, H2.
  destruct (nonempty f2), (nonempty p2); reflexivity.
Qed.

(* ---- Validate() -------------------------------------------------------------------------------------------- *)
Lemma validate_ni_l : forall b k h1 h2 e,
  grpc_client_validate b k h1 = grpc_client_validate b k h2 /\ http_client_validate e h1 = http_client_validate e h2.
Proof. intros; split; reflexivity. Qed.

Lemma tls_validate_ni_l : forall f p1 c1 k1 p2 c2 k2,
  nonempty p1 = nonempty p2 -> tls_validate f p1 c1 k1 = tls_validate f p2 c2 k2.
Proof. intros f p1 c1 k1 p2 c2 k2 H. unfold tls_validate. now rewrite H. Qed.

(* ---- rendering after use = rendering before use -------------------------------------------------------------- *)
Lemma after_use_l : forall (A : Type) (rend : hdrs -> A) bs cfg,
  rend (fold_left (fun c b => config_after b c) bs cfg) = rend cfg.
Proof. intros A rend bs. induction bs as [|b r IH]; intros cfg; simpl; [reflexivity|apply IH]. Qed.
