(* C14/Properties.v — the property theorems, nothing else.  Each is closed by [exact lemma]
   and followed by Print Assumptions (captured into the evidence by the check driver).

   Property C14: "A secret held in an opaque configuration string is never revealed by any
   formatting verb or flag, string conversion through the standard interfaces, text/binary/JSON/
   YAML marshalling, or by marshalling a configuration struct that contains it (directly, in maps,
   slices or nested structs) into a configuration map.  All of these render the fixed redaction
   marker, while the explicit conversion to a plain string still returns the secret for the code
   that needs it, and unmarshalling stores the secret unchanged."

   [render M p sh s] is the text produced on rendering path [p] for the value with secret [s]
   held in container shape [sh]; [opaque] is the method table read from the Go source. *)
From Verif Require Import Common.Base Generated.C14Opaque Generated.C14Tls C14.Model C14.Proofs C14.UseModel C14.UseProofs C14.Harness C14.Clauses C14.Link.
From Coq Require Import String Ascii.
Local Open Scope string_scope.

(* ---- instance obligations over the definitions regenerated from opaque.go on every run ---- *)
(* *String has exactly these methods: no Format, Error, MarshalJSON, MarshalYAML, GobEncode,
   MarshalLogObject ... that a renderer would prefer over the four modelled ones *)
Theorem opaque_method_set_is_expected : opaque_methods = expected_method_set.
Proof. exact method_set_l. Qed.

(* no method body mentions its receiver *)
Theorem opaque_methods_ignore_receiver : methods_ignore_receiver = true.
Proof. exact ignore_receiver_l. Qed.

Theorem opaque_methods_constant : methods_constant opaque.
Proof. exact opaque_constant_l. Qed.

(* "the fixed redaction marker" *)
Theorem opaque_methods_return_marker : forall s,
  m_String opaque s = marker /\ m_MarshalText opaque s = marker /\ m_MarshalBinary opaque s = marker /\
  m_GoString opaque s = go_quote marker.
Proof. exact opaque_returns_marker_l. Qed.

Theorem marker_is_redacted : marker = "[REDACTED]".
Proof. exact marker_value_l. Qed.

(* ---- "never revealed" ------------------------------------------------------------------------
   FULL statement:  forall p sh s1 s2, p <> PCast -> render opaque p sh s1 = render opaque p sh s2.
   It is FALSE of the faithful model (render_noninterference_refuted and the three universal
   ..._reveals theorems: findings C14-FMT-BADVERB, C14-FMT-UNEXPORTED, C14-FMT-INNER-POINTER,
   C14-JSON-MAPKEY).
   PROVED (partial): on every (path, shape) with [safe p sh = true] — every fmt verb in
   {v s q x X T} with every flag set, width and precision, Sprint/Sprintln, on every container
   nesting without an unexported field (and, for %s and %q, without a pointer to a struct /
   slice / array / map below the top level); json / zap.Reflect / zap.Any on every nesting without an
   opaque map key; yaml, the config-map encoder, zap.Stringer and the four methods on every
   nesting — the output is the same for ANY two secrets (so it carries no information about the
   secret, whatever the secret contains: format directives, the marker, nothing), for any
   method table whose methods ignore the receiver. *)
Theorem render_noninterference_partial : forall M, methods_constant M ->
  forall p sh s1 s2, safe p sh = true -> render M p sh s1 = render M p sh s2.
Proof. exact render_ni. Qed.

(* the renderers look at the secret ONLY through the value's methods: two secrets on which the
   four methods agree are rendered identically (this is the lemma behind the theorem above, and
   says what a method that does look at its receiver could at most give away) *)
Theorem render_depends_only_on_methods_partial : forall M s1 s2, methods_agree M s1 s2 ->
  forall p sh, safe p sh = true -> render M p sh s1 = render M p sh s2.
Proof. exact render_ni_agree. Qed.

Theorem opaque_render_noninterference_partial : forall p sh s1 s2,
  safe p sh = true -> render opaque p sh s1 = render opaque p sh s2.
Proof. exact (render_ni opaque opaque_constant_l). Qed.

Theorem render_noninterference_refuted : exists p sh s1 s2,
  p <> PCast /\ render opaque p sh s1 <> render opaque p sh s2.
Proof. exact ni_refuted_l. Qed.

(* the four leaks, each for EVERY secret *)
Theorem fmt_unrouted_verb_reveals : forall verb s,
  good_verb verb = false -> verb <> "T" ->
  render opaque (PFmt verb no_flags) SBare s = "%!" ++ verb ++ "(configopaque.String=" ++ s ++ ")".
Proof. exact unrouted_verb_l. Qed.

(* ... and with any flag set (no width / precision; %#w would quote) *)
Theorem fmt_unrouted_verb_reveals_any_flags : forall verb f s,
  good_verb verb = false -> verb <> "T" -> f_wid f = None -> f_prec f = None ->
  (String.eqb verb "w" && f_sharp f = false) ->
  render opaque (PFmt verb f) SBare s = "%!" ++ verb ++ "(configopaque.String=" ++ s ++ ")".
Proof. exact unrouted_verb_flags_l. Qed.

Theorem fmt_unexported_field_reveals : forall s,
  render opaque (PFmt "v" no_flags) (SField false SBare) s = "{" ++ s ++ "}".
Proof. exact unexported_field_l. Qed.

Theorem fmt_inner_pointer_reveals : forall s,
  render opaque (PFmt "s" no_flags) (SSlice (SPtr (SField true SBare))) s =
  "[%!s(*struct { F configopaque.String }=&{" ++ s ++ "}) %!s(*struct { F configopaque.String }=&{" ++ s ++ "})]".
Proof. exact inner_pointer_l. Qed.

Theorem json_map_key_reveals : forall s,
  render opaque PJson SMapKey s = "{" ++ json_quote true s ++ ":" ++ dquote ++ "v" ++ dquote ++ "}".
Proof. exact json_map_key_l. Qed.

(* marshalling into a configuration map: arrays are encoded element by element like slices (repair
   b32d82269 of finding C14-CONFMAP-ARRAY; the old failing input is the first conjunct), and NOTHING
   typed is left in the map: every leaf of an encoded configuration is a plain string *)
Theorem confmap_array_redacted : forall s,
  render opaque PConfmap (SField true (SArray SBare)) s = "{f:[" ++ dquote ++ "[REDACTED]" ++ dquote ++ "]}".
Proof. exact confmap_array_l. Qed.

Theorem confmap_no_typed_leaf : forall M sh s t, conf_tree M sh s = COk t -> no_raw t = true.
Proof. exact conf_no_typed_leaf_l. Qed.

(* the typed content that a NESTED struct implementing confmap.Marshaler merges into its
   Conf is run through the encoder and comes out as the marker (in general: render_noninterference_partial
   and render_shows_marker cover [SMarsh] at any nesting) *)
Theorem confmap_nested_marshaler_redacted : forall s,
  render opaque PConfmap (SField true (SMarsh SBare)) s = "{f:{v:" ++ dquote ++ "[REDACTED]" ++ dquote ++ "}}" /\
  render opaque PConfmap (SField true (SMarsh (SMapVal SBare))) s = "{f:{v:{k:" ++ dquote ++ "[REDACTED]" ++ dquote ++ "}}}" /\
  render opaque PConfmap (SPtr (SMarsh (SSlice SBare))) s
    = "{v:[" ++ dquote ++ "[REDACTED]" ++ dquote ++ "," ++ dquote ++ "[REDACTED]" ++ dquote ++ "]}".
Proof. exact confmap_marshaler_l. Qed.

(* ---- "all of these render the fixed redaction marker" -----------------------------------------
   Wherever the value is printed at all ([shows p sh]: not cut off by a pointer printed as an
   address, an omitted unexported field, an array left raw by the config-map encoder), the output
   contains [leaf_text M p s] — the result of one of the value's methods under the verb's /
   encoder's transform (quoted, hex, padded, truncated) — ... *)
Theorem render_shows_marker : forall M p sh s,
  shows p sh = true -> contains (leaf_text M p s) (render M p sh s).
Proof. exact render_shows. Qed.

(* ... and for the real methods, on the transforms that keep text verbatim (%v %s %q without
   precision, Sprint, json, yaml, confmap, zap, the methods), that text contains the marker. *)
Theorem opaque_leaf_is_marker : forall p s, verbatim p = true -> contains marker (leaf_text opaque p s).
Proof. exact leaf_text_marker_l. Qed.

Theorem opaque_render_shows_redacted : forall p sh s,
  shows p sh = true -> verbatim p = true -> contains "[REDACTED]" (render opaque p sh s).
Proof.
  exact (fun p sh s H V => eq_ind marker (fun m => contains m (render opaque p sh s))
           (contains_trans _ _ _ (leaf_text_marker_l p s V) (render_shows opaque p sh s H)) _ marker_value_l).
Qed.

(* ---- "the explicit conversion to a plain string still returns the secret" ------------------- *)
Theorem explicit_conversion_identity : forall M sh s, render M PCast sh s = s.
Proof. exact (fun M sh s => eq_refl). Qed.

(* ---- "... still returns the secret for the code that needs it": the consumers -------------------
   Every consumer of an opaque value in the anchored code (HTTP client headers and Host, HTTP
   server response headers, gRPC metadata through the unary and the stream interceptor for
   ordinary and for "-bin" keys, the TLS key pair) receives the secret itself.  The model says
   [use c s = s] by definition (the code is string(v)); the content of this clause is the
   correspondence run, which observes what arrives on the wire. *)
Theorem actual_use_identity : forall c s, use c s = s.
Proof. exact use_identity_l. Qed.

(* The header paths as functions from the configured map (an association list in ANY iteration
   order) to what goes on the wire — C14/UseModel.v, by hand after headerRoundTripper.RoundTrip,
   responseHeadersHandler and addHeadersIfAbsent (loops over a map: outside T1's subset), tied
   by real HTTP / gRPC round trips.  For EVERY configured key — any case, "-bin" or not — the wire
   value is the configured secret itself. *)
Theorem http_client_header_is_secret : forall cfg host hdr k v,
  In (k, v) cfg -> NoDup (ckeys cfg) ->
  hget (snd (http_client_roundtrip cfg host hdr)) (canon_mime k) = Some v.
Proof. exact client_header_l. Qed.

Theorem http_client_host_is_secret : forall cfg host hdr v,
  hget cfg "Host" = Some v -> v <> "" -> fst (http_client_roundtrip cfg host hdr) = v.
Proof. exact client_host_l. Qed.

Theorem http_client_host_default : forall cfg host hdr,
  hget cfg "Host" = None \/ hget cfg "Host" = Some "" -> fst (http_client_roundtrip cfg host hdr) = host.
Proof. exact client_host_default_l. Qed.

Theorem http_response_header_is_secret : forall cfg h k v,
  In (k, v) cfg -> NoDup (ckeys cfg) -> hget (http_response_headers cfg h) (canon_mime k) = Some v.
Proof. exact response_header_l. Qed.

(* headers nobody configured are left as they were *)
Theorem http_other_headers_untouched : forall cfg h x, ~ In x (ckeys cfg) -> hget (http_set_all cfg h) x = hget h x.
Proof. exact set_all_other. Qed.

Theorem grpc_metadata_is_secret : forall cfg existing k v,
  In (k, v) cfg -> NoDup (lkeys cfg) -> md_get existing (lower_s k) = [] ->
  md_get (grpc_add_headers cfg existing) (lower_s k) = [v].
Proof. exact grpc_sends_l. Qed.

Theorem grpc_metadata_if_absent : forall cfg existing k,
  NoDup (lkeys cfg) -> md_get existing (lower_s k) <> [] ->
  md_get (grpc_add_headers cfg existing) (lower_s k) = md_get existing (lower_s k).
Proof. exact grpc_keeps_l. Qed.

(* WITHOUT the hypothesis that the configured keys stay distinct once canonicalised / lower-cased
   (Go only guarantees distinct RAW keys; the real code accepts "x-tok" next to "X-Tok"): HTTP sends,
   under the shared canonical key, the secret of ONE of the colliding entries (whichever Go's map order
   puts last), gRPC sends ALL of them — never anything that was not configured for that key *)
Theorem http_header_is_a_configured_secret : forall cfg h k v,
  In (k, v) cfg ->
  exists k' v', In (k', v') cfg /\ canon_mime k' = canon_mime k /\
                hget (http_set_all cfg h) (canon_mime k) = Some v'.
Proof. exact set_all_some. Qed.

Theorem grpc_metadata_contains_secret : forall cfg existing k v,
  In (k, v) cfg -> md_get existing (lower_s k) = [] ->
  In v (md_get (grpc_add_headers cfg existing) (lower_s k)).
Proof. exact grpc_contains_l. Qed.

(* ... and the consumers, which by then hold the PLAIN secrets, give back the next layer's result
   untouched: the error of a failed request (logged and propagated by exporters) is the transport's /
   invoker's error and does not depend on the configured headers *)
Theorem consumer_result_is_next_layers : forall cfg next,
  http_client_result cfg next = next /\ grpc_call_result cfg next = next.
Proof. exact client_result_l. Qed.

Theorem consumer_result_independent_of_secrets : forall cfg1 cfg2 next,
  http_client_result cfg1 next = http_client_result cfg2 next /\ grpc_call_result cfg1 next = grpc_call_result cfg2 next.
Proof. exact client_result_ni_l. Qed.

Theorem tls_error_independent_of_contents : forall c1 c2 e,
  nonempty (t_CertFile c1) = nonempty (t_CertFile c2) -> nonempty (t_CertPem c1) = nonempty (t_CertPem c2) ->
  nonempty (t_KeyFile c1) = nonempty (t_KeyFile c2) -> nonempty (t_KeyPem c1) = nonempty (t_KeyPem c2) ->
  tls_error_text (load_certificate c1) e = tls_error_text (load_certificate c2) e.
Proof. exact tls_error_ni_l. Qed.

(* STATE: the calls that build a consumer from a configuration (ToClient, ToListener/ToServer, ToClientConn,
   LoadTLSConfig, Validate, a request through the built client) leave the configuration as it was — no plain
   copy of an opaque value is kept in it — so EVERY rendering of the configuration after any sequence of such
   calls is its rendering before them (and the rendering theorems above apply to it unchanged) *)
Theorem rendering_after_use_is_rendering_before : forall (R : Type) (rend : hdrs -> R) bs cfg,
  rend (fold_left (fun c b => config_after b c) bs cfg) = rend cfg.
Proof. exact after_use_l. Qed.

Theorem model_after_use_passes_the_checker : forall bs cfg before,
  prop_ok (CAfterUse bs (encA cfg) (encA (fold_left (fun c b => config_after (builder_of b) c) bs cfg)) (map A before) (map A before)) = true.
Proof. exact (fun bs cfg before => proj2 (Nat.eqb_eq _ _) (model_passes_after_use bs cfg before)). Qed.

(* Validate() of the configuration structs (run and printed at collector start-up): its verdict and
   error text are decided by the non-opaque settings and do not depend on the header values / PEM contents *)
Theorem validate_independent_of_secrets : forall b k h1 h2 e,
  grpc_client_validate b k h1 = grpc_client_validate b k h2 /\ http_client_validate e h1 = http_client_validate e h2.
Proof. exact validate_ni_l. Qed.

Theorem tls_validate_independent_of_contents : forall f p1 c1 k1 p2 c2 k2,
  nonempty p1 = nonempty p2 -> tls_validate f p1 c1 k1 = tls_validate f p2 c2 k2.
Proof. exact tls_validate_ni_l. Qed.

(* configtls: the PEM fields, when they are the configured source, reach tls.X509KeyPair byte for
   byte; and whatever the loader gets "from PEM" is the field *)
Theorem tls_loader_gets_pem : forall c,
  t_CertFile c = "" -> t_KeyFile c = "" -> t_CertPem c <> "" -> t_KeyPem c <> "" ->
  load_certificate c = TlsPair (FromPem (t_CertPem c)) (FromPem (t_KeyPem c)).
Proof. exact tls_pem_l. Qed.

Theorem tls_loaded_pem_is_field : forall c cert key,
  load_certificate c = TlsPair cert key ->
  (forall b, cert = FromPem b -> b = t_CertPem c) /\ (forall b, key = FromPem b -> b = t_KeyPem c).
Proof. exact tls_pem_only_l. Qed.

(* the CA pool (Config.loadCACertPool): a configured ca_pem reaches x509 byte for byte; the text of a
   load error depends on which sources are configured and on x509's verdict, never on the bytes *)
Theorem ca_pem_reaches_pool : forall p, p <> "" -> load_ca "" p = CaFrom (FromPem p).
Proof. exact ca_pem_l. Qed.

Theorem ca_error_independent_of_contents : forall f1 p1 f2 p2 ok,
  nonempty f1 = nonempty f2 -> nonempty p1 = nonempty p2 ->
  ca_error_text (load_ca f1 p1) ok = ca_error_text (load_ca f2 p2) ok.
Proof. exact ca_error_ni_l. Qed.

Theorem load_ca_is_generated : forall f p, load_ca f p = load_ca_gen f p.
Proof. exact load_ca_gen_l. Qed.

(* OBLIGATIONS tying the hand-written presence predicates of Config.loadCertificate to the ones
   translator T1 regenerates from configtls.go on every run (Generated/C14Tls.v) *)
Theorem tls_pem_presence_is_generated : forall s,
  tls_hasCertPem (Z.of_nat (String.length s)) = nonempty s /\
  tls_hasKeyPem (Z.of_nat (String.length s)) = nonempty s /\
  tls_hasCAPem (Z.of_nat (String.length s)) = nonempty s.
Proof. exact tls_pem_present_l. Qed.

Theorem tls_has_is_generated : forall a b,
  tls_hasCert a b = (a || b) /\ tls_hasKey a b = (a || b) /\ tls_hasCA a b = (a || b).
Proof. exact tls_has_l. Qed.

Theorem load_certificate_is_generated : forall c, load_certificate c = load_certificate_gen c.
Proof. exact load_certificate_gen_l. Qed.

(* ---- "unmarshalling stores the secret unchanged" ----------------------------------------------
   FULL statement: forall u t, unmarshal opaque u t = Stored t (with pre-/-post around t for the
   inline expansion).  FALSE of the faithful model only for a POINTER target of a provider expansion:
   finding C14-EXPAND-POINTER (expanded_pointer_gets_parsed_value).  PROVED for every other decoding
   context: json, yaml, confmap plain / nested Unmarshaler / squashed plain / squashed Unmarshaler
   (unmarshal_stores_squashed_unmarshaler: repair 02a3505c0 of finding C14-SQUASH-REMARSHAL), and a
   text that comes from a provider expansion into a scalar field, a map value or a slice element —
   directly or through Conf.Sub — whatever the text looks like to YAML. *)
Theorem unmarshal_stores_partial : forall M u t, plain_ctx u = true -> unmarshal M u t = Stored t.
Proof. exact unmarshal_partial_l. Qed.

Theorem unmarshal_inline_expansion : forall M t, unmarshal M UExpInline t = Stored ("pre-" ++ t ++ "-post").
Proof. exact unmarshal_inline_l. Qed.

(* taking the component's section with Conf.Sub first changes nothing (the expanded values keep their
   original text through Sub) *)
Theorem unmarshal_through_sub : forall M u t,
  unmarshal M (UViaSub u) t = unmarshal M u t /\ plain_ctx (UViaSub u) = plain_ctx u.
Proof. exact unmarshal_sub_l. Qed.

Theorem unmarshal_stores_refuted : exists u t, is_inline u = false /\ unmarshal opaque u t <> Stored t.
Proof. exact unmarshal_refuted_l. Qed.

Theorem unmarshal_stores_squashed_unmarshaler : forall M t, unmarshal M UConfSquashUnmarshaler t = Stored t.
Proof. exact unmarshal_squash_l. Qed.

Theorem expanded_pointer_gets_parsed_value : forall M t,
  unmarshal M (UExpPtr YNull) t = NilPtr /\ unmarshal M (UExpPtr YOther) t = DecodeError.
Proof. exact unmarshal_ptr_l. Qed.

(* ---- the decidable clause checker run over every recorded case of the implementation ---------------
   [prop_ok c = true] iff the recorded behaviour [c] satisfies the clauses above in their observable
   form (C14/Clauses.v): on the safe region no rendering shows the secret (raw or hex) and verbatim
   renderings contain "[REDACTED]"; plain decoding contexts stored the text; every configured header
   arrived as exactly its secret; PEM-only TLS configurations loaded the configured pair; the error
   of a failed request shows no configured value. *)
Theorem clause_checker_sound : forall c, prop_ok c = true <-> Clause c.
Proof. exact prop_ok_sound. Qed.

(* ---- the checker and the theorems speak about the same thing ------------------------------------------
   Whatever the MODEL produces passes the clause checker ([obs_*] build the recorded-case term from the
   model's own run as the harnesses build it from the implementation's): the checker never demands more
   than the theorems deliver.  Guards: [frame_free] (the secret is not, by coincidence, part of the
   secret-independent text that is rendered for the empty secret: a type name, "map[", the hex of the
   marker ...) for renderings; for error texts, that the next layer's / the fixed message text does not
   itself contain a configured value.  No guard for decoding, headers, metadata, TLS. *)
Theorem model_renderings_pass_the_checker : forall sh s paths,
  frame_free sh s paths = true -> prop_ok (obs_render sh s paths) = true.
Proof. exact (fun sh s paths F => proj2 (Nat.eqb_eq _ _) (model_passes_render sh s paths F)). Qed.

Theorem model_decoding_passes_the_checker : forall u t, prop_ok (obs_unm u t) = true.
Proof. exact (fun u t => proj2 (Nat.eqb_eq _ _) (model_passes_unmarshal u t)). Qed.

Theorem model_use_passes_the_checker : forall cfg pre host existing extra c s cf cp kf kp,
  prop_ok (obs_http_client cfg pre host extra) = true /\ prop_ok (obs_http_server cfg extra) = true /\
  prop_ok (obs_grpc cfg existing extra) = true /\ prop_ok (CUse c (A s) (A (use c s))) = true /\
  prop_ok (CTls cf cp kf kp (tls_obs cf cp kf kp)) = true.
Proof.
  exact (fun cfg pre host existing extra c s cf cp kf kp =>
    conj (proj2 (Nat.eqb_eq _ _) (model_passes_http_client cfg pre host extra))
   (conj (proj2 (Nat.eqb_eq _ _) (model_passes_http_server cfg extra))
   (conj (proj2 (Nat.eqb_eq _ _) (model_passes_grpc cfg existing extra))
   (conj (proj2 (Nat.eqb_eq _ _) (model_passes_use c s))
         (proj2 (Nat.eqb_eq _ _) (model_passes_tls cf cp kf kp)))))).
Qed.

Theorem model_give_back_passes_the_checker : forall g cfg baseline w arg fl,
  (fail_ok cfg baseline = true ->
   prop_ok (CFail g (encA cfg) (A baseline)
                  (A (match (if g then grpc_call_result else http_client_result) cfg (Fail baseline) with
                      | Fail e => e | Done x => x end))) = true) /\
  (fail_ok cfg (validate_text w arg fl cfg) = true ->
   prop_ok (CValidate w (A arg) fl (encA cfg) (A (validate_text w arg fl cfg))) = true).
Proof.
  exact (fun g cfg baseline w arg fl =>
    conj (fun H => proj2 (Nat.eqb_eq _ _) (model_passes_fail g cfg baseline H))
         (fun H => proj2 (Nat.eqb_eq _ _) (model_passes_validate w arg fl cfg H))).
Qed.

Print Assumptions opaque_method_set_is_expected.
Print Assumptions opaque_methods_ignore_receiver.
Print Assumptions opaque_methods_constant.
Print Assumptions opaque_methods_return_marker.
Print Assumptions marker_is_redacted.
Print Assumptions render_noninterference_partial.
Print Assumptions render_depends_only_on_methods_partial.
Print Assumptions opaque_render_noninterference_partial.
Print Assumptions render_noninterference_refuted.
Print Assumptions fmt_unrouted_verb_reveals.
Print Assumptions fmt_unrouted_verb_reveals_any_flags.
Print Assumptions fmt_unexported_field_reveals.
Print Assumptions fmt_inner_pointer_reveals.
Print Assumptions json_map_key_reveals.
Print Assumptions confmap_array_redacted.
Print Assumptions confmap_no_typed_leaf.
Print Assumptions confmap_nested_marshaler_redacted.
Print Assumptions render_shows_marker.
Print Assumptions opaque_leaf_is_marker.
Print Assumptions opaque_render_shows_redacted.
Print Assumptions explicit_conversion_identity.
Print Assumptions unmarshal_stores_partial.
Print Assumptions unmarshal_through_sub.
Print Assumptions unmarshal_stores_refuted.
Print Assumptions unmarshal_stores_squashed_unmarshaler.
Print Assumptions actual_use_identity.
Print Assumptions http_client_header_is_secret.
Print Assumptions http_client_host_is_secret.
Print Assumptions http_client_host_default.
Print Assumptions http_response_header_is_secret.
Print Assumptions http_other_headers_untouched.
Print Assumptions grpc_metadata_is_secret.
Print Assumptions grpc_metadata_if_absent.
Print Assumptions http_header_is_a_configured_secret.
Print Assumptions grpc_metadata_contains_secret.
Print Assumptions ca_pem_reaches_pool.
Print Assumptions ca_error_independent_of_contents.
Print Assumptions load_ca_is_generated.
Print Assumptions clause_checker_sound.
Print Assumptions model_renderings_pass_the_checker.
Print Assumptions model_decoding_passes_the_checker.
Print Assumptions model_use_passes_the_checker.
Print Assumptions model_give_back_passes_the_checker.
Print Assumptions consumer_result_is_next_layers.
Print Assumptions consumer_result_independent_of_secrets.
Print Assumptions tls_error_independent_of_contents.
Print Assumptions rendering_after_use_is_rendering_before.
Print Assumptions model_after_use_passes_the_checker.
Print Assumptions validate_independent_of_secrets.
Print Assumptions tls_validate_independent_of_contents.
Print Assumptions tls_loader_gets_pem.
Print Assumptions tls_loaded_pem_is_field.
Print Assumptions tls_pem_presence_is_generated.
Print Assumptions tls_has_is_generated.
Print Assumptions load_certificate_is_generated.
Print Assumptions unmarshal_inline_expansion.
Print Assumptions expanded_pointer_gets_parsed_value.
