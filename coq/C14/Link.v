(* C14/Link.v — the clause checker and the theorems are about the same thing: whatever the MODEL
   produces passes the decidable clause checker [prop_ok] that the driver runs over the behaviour
   recorded from the implementation.  [obs_*] build the recorded-case term from the model's own run
   exactly as the harnesses build it from the implementation's (same constructors, same fields).

   Guards.  The checker searches the secret in the rendered text; a secret that happens to be part
   of the secret-INDEPENDENT text itself (a type name, "map[", the hex of the marker ...) would be
   "found" although nothing is revealed.  [frame_free] excludes exactly these coincidences: the
   secret does not occur in what the model renders for the EMPTY secret.  The harness secrets
   satisfy it (otherwise the checker would raise a false alarm on the unchanged tree); the
   analogous guard for error texts is [fail_ok cfg text] on the next layer's / the fixed text. *)
From Verif Require Import Common.Base Generated.C14Opaque C14.Model C14.Proofs C14.UseModel C14.UseProofs C14.Harness C14.Clauses.
From Coq Require Import String Ascii.
Local Open Scope string_scope.

(* ---- renderings ------------------------------------------------------------------------------------ *)
Definition obs_render (sh : shape) (s : string) (paths : list path) : vcase :=
  CRender sh (A s) (map (fun p => (p, A (render opaque p sh s), has_addr (render opaque p sh s))) paths).

Definition frame_free (sh : shape) (s : string) (paths : list path) : bool :=
  forallb (fun p => negb (safe p sh && distinctive s && shown_b s (render opaque p sh ""))) paths.

(* the guard of a recorded case (evaluated by the driver on every recorded rendering case) *)
Definition frame_guard (c : vcase) : bool :=
  match c with
  | CRender sh e rs => frame_free sh (dec e) (map (fun r => fst (fst r)) rs)
  | _ => true
  end.

Lemma occurs_contains p s : occurs p s <-> contains p s.
Proof. reflexivity. Qed.

Theorem model_passes_render : forall sh s paths,
  frame_free sh s paths = true -> prop_code (obs_render sh s paths) = 0.
Proof.
  intros sh s paths F. unfold obs_render, prop_code. cbn [dec].
  assert (R : forallb (reveal_ok sh s) (map (fun p => (p, A (render opaque p sh s), has_addr (render opaque p sh s))) paths) = true).
  { apply forallb_forall. intros r I. apply in_map_iff in I. destruct I as [p [E I]]. subst r.
    unfold reveal_ok. cbn [fst snd dec].
    unfold frame_free in F. rewrite forallb_forall in F. specialize (F p I).
    destruct (safe p sh) eqn:Hs; [|reflexivity].
    rewrite (render_ni opaque opaque_constant_l p sh s "" Hs). exact F. }
  rewrite R. cbn [negb].
  assert (Mk : forallb (marker_ok sh) (map (fun p => (p, A (render opaque p sh s), has_addr (render opaque p sh s))) paths) = true).
  { apply forallb_forall. intros r I. apply in_map_iff in I. destruct I as [p [E I]]. subst r.
    unfold marker_ok. cbn [fst snd dec].
    destruct (shows p sh) eqn:Hs; [|reflexivity]. destruct (verbatim p) eqn:Hv; [|reflexivity]. cbn [andb negb orb].
    apply occurs_b_spec. apply occurs_contains.
    pose proof (contains_trans _ _ _ (leaf_text_marker_l p s Hv) (render_shows opaque p sh s Hs)) as C.
    now rewrite marker_value_l in C. }
  now rewrite Mk.
Qed.

(* ---- decoding ------------------------------------------------------------------------------------------ *)
Definition uobs_of (r : ures) : uobs :=
  match r with Stored s => OStored (A s) | NilPtr => ONil | DecodeError => OErr end.

Definition obs_unm (u : uctx) (t : string) : vcase := CUnmX u (A t) (uobs_of (unmarshal opaque u t)).

Lemma unmarshal_inline_gen : forall M u t, is_inline u = true -> unmarshal M u t = Stored ("pre-" ++ t ++ "-post").
Proof. intros M u t. induction u; intros H; try discriminate; [reflexivity|simpl in *; now apply IHu]. Qed.

Lemma inline_not_plain : forall u, is_inline u = true -> plain_ctx u = false.
Proof. induction u; intros H; try discriminate; [reflexivity|simpl in *; now apply IHu]. Qed.

Theorem model_passes_unmarshal : forall u t, prop_code (obs_unm u t) = 0.
Proof.
  intros u t. unfold obs_unm, prop_code, unm_ok, in_scope, expected_stored. cbn [dec].
  destruct (plain_ctx u) eqn:P.
  - rewrite (unmarshal_partial_l opaque u t P). simpl.
    destruct (is_inline u) eqn:I; [apply inline_not_plain in I; congruence|]. now rewrite String.eqb_refl.
  - destruct (is_inline u) eqn:I; simpl; [|reflexivity].
    rewrite (unmarshal_inline_gen opaque u t I). simpl. now rewrite String.eqb_refl.
Qed.

(* ---- use --------------------------------------------------------------------------------------------------- *)
Definition encA (l : hdrs) : list (enc * enc) := map (fun kv => (A (fst kv), A (snd kv))) l.

Lemma dec2_encA l : dec2 (encA l) = l.
Proof. induction l as [|[k v] r IH]; simpl; [reflexivity|now rewrite IH]. Qed.

Definition encM (m : md) : list (enc * list enc) := map (fun kv => (A (fst kv), map A (snd kv))) m.

Lemma map_dec_A l : map dec (map A l) = l.
Proof. induction l as [|x r IH]; simpl; [reflexivity|now rewrite IH]. Qed.

Lemma decmd_encM m : decmd (encM m) = m.
Proof. induction m as [|[k vs] r IH]; simpl; [reflexivity|]. now rewrite map_dec_A, IH. Qed.

Lemma nodup_b_spec l : nodup_b l = true -> NoDup l.
Proof.
  induction l as [|x r IH]; simpl; intros H; [constructor|].
  apply andb_true_iff in H. destruct H as [H1 H2]. constructor; [|now apply IH].
  intros I. apply negb_true_iff in H1. assert (X : existsb (String.eqb x) r = true).
  { apply existsb_exists. exists x. split; [exact I|apply String.eqb_refl]. }
  congruence.
Qed.

(* the recorded observation: for every queried key, the values that arrived *)
Definition obs_of (vals : string -> list string) (qs : list string) : list (enc * list enc) :=
  map (fun k => (A k, map A (vals k))) qs.

Lemma obs_get_of vals qs k : In k qs -> obs_get (obs_of vals qs) k = Some (vals k).
Proof.
  induction qs as [|q r IH]; intros I; [contradiction|]. simpl.
  destruct (String.eqb q k) eqn:E.
  - apply String.eqb_eq in E. subst. now rewrite map_dec_A.
  - destruct I as [I|I]; [subst; now rewrite String.eqb_refl in E|now apply IH].
Qed.

Definition http_vals (h : hdrs) (k : string) : list string :=
  match hget h (canon_mime k) with Some v => [v] | None => [] end.

Definition obs_http_client (cfg pre : hdrs) (host : string) (extra : list string) : vcase :=
  let r := http_client_roundtrip cfg host pre in
  CHttpClient (encA cfg) (encA pre) (A host) (A (fst r)) (obs_of (http_vals (snd r)) (map fst cfg ++ extra)).

Definition obs_http_server (cfg : hdrs) (extra : list string) : vcase :=
  CHttpServer (encA cfg) (obs_of (http_vals (http_response_headers cfg [])) (map fst cfg ++ extra)).

Lemma headers_ok_of skip cfg h extra :
  NoDup (ckeys cfg) ->
  headers_ok skip cfg (obs_of (http_vals (http_set_all cfg h)) (map fst cfg ++ extra)) = true.
Proof.
  intros D. unfold headers_ok. apply forallb_forall. intros [k v] I. cbn [fst snd].
  apply orb_true_iff. right.
  rewrite obs_get_of by (apply in_or_app; left; apply in_map_iff; exists (k, v); auto).
  unfold http_vals. rewrite (set_all_sends cfg h k v I D). cbn [opt_slist_eqb]. now apply slist_eqb_spec.
Qed.

Theorem model_passes_http_client : forall cfg pre host extra, prop_code (obs_http_client cfg pre host extra) = 0.
Proof.
  intros cfg pre host extra. unfold obs_http_client, prop_code. rewrite !dec2_encA. cbn [dec].
  destruct (keys_distinct canon_mime cfg) eqn:K; [|reflexivity]. cbn [negb].
  apply nodup_b_spec in K. unfold http_client_roundtrip. cbn [fst snd].
  rewrite (headers_ok_of true cfg pre extra K). unfold host_ok. now rewrite String.eqb_refl.
Qed.

Theorem model_passes_http_server : forall cfg extra, prop_code (obs_http_server cfg extra) = 0.
Proof.
  intros cfg extra. unfold obs_http_server, prop_code. rewrite !dec2_encA.
  destruct (keys_distinct canon_mime cfg) eqn:K; [|reflexivity]. cbn [negb].
  apply nodup_b_spec in K. unfold http_response_headers. now rewrite (headers_ok_of false cfg [] extra K).
Qed.

Definition obs_grpc (cfg : hdrs) (existing : md) (extra : list string) : vcase :=
  CGrpc (encA cfg) (encM existing)
        (obs_of (fun k => md_get (grpc_add_headers cfg existing) (lower_s k)) (map fst cfg ++ extra)).

Theorem model_passes_grpc : forall cfg existing extra, prop_code (obs_grpc cfg existing extra) = 0.
Proof.
  intros cfg existing extra. unfold obs_grpc, prop_code. rewrite dec2_encA, decmd_encM.
  destruct (keys_distinct lower_s cfg) eqn:K; [|reflexivity]. cbn [negb].
  apply nodup_b_spec in K.
  assert (G : grpc_ok cfg existing (obs_of (fun k => md_get (grpc_add_headers cfg existing) (lower_s k)) (map fst cfg ++ extra)) = true).
  { unfold grpc_ok. apply forallb_forall. intros [k v] I. cbn [fst snd].
    rewrite obs_get_of by (apply in_or_app; left; apply in_map_iff; exists (k, v); auto).
    simpl. apply slist_eqb_spec.
    destruct (md_get existing (lower_s k)) eqn:E.
    - now apply grpc_sends_l.
    - rewrite <- E. apply grpc_keeps_l; [exact K|]. rewrite E. discriminate. }
  now rewrite G.
Qed.

Theorem model_passes_use : forall c s, prop_code (CUse c (A s) (A (use c s))) = 0.
Proof. intros c s. simpl. now rewrite String.eqb_refl. Qed.

Theorem model_passes_tls : forall cf cp kf kp, prop_code (CTls cf cp kf kp (tls_obs cf cp kf kp)) = 0.
Proof.
  intros cf cp kf kp. unfold prop_code.
  destruct (Nat.eqb_spec cf 0) as [->|]; [|reflexivity].
  destruct (Nat.eqb_spec kf 0) as [->|]; [|reflexivity].
  destruct (Nat.eqb_spec cp kp) as [<-|]; [|reflexivity].
  destruct (Nat.eqb_spec cp 1) as [->|]; [reflexivity|].
  destruct (Nat.eqb_spec cp 2) as [->|]; reflexivity.
Qed.

(* what the consumers give back: the next layer's error text, which is assumed not to contain a configured
   value itself (that would be the next layer's leak, not the consumer's) *)
Theorem model_passes_fail : forall g cfg baseline,
  fail_ok cfg baseline = true ->
  prop_code (CFail g (encA cfg) (A baseline)
                   (A (match (if g then grpc_call_result else http_client_result) cfg (Fail baseline) with
                       | Fail e => e | Done w => w end))) = 0.
Proof. intros g cfg b H. unfold prop_code. rewrite dec2_encA. destruct g; simpl; now rewrite H. Qed.

(* Validate(): the texts it can produce are fixed messages and the balancer name; guard = no configured
   value occurs in them by coincidence *)
Definition validate_text (w : nat) (arg : string) (fl : bool) (cfg : hdrs) : string :=
  match (match w with
         | 0 => grpc_client_validate arg fl cfg
         | 1 => http_client_validate None cfg
         | _ => tls_validate (if fl then "f" else "") (match hget cfg "ca_pem" with Some v => v | None => "" end) "" ""
         end) with Some e => e | None => "" end.

Theorem model_passes_validate : forall w arg fl cfg,
  fail_ok cfg (validate_text w arg fl cfg) = true ->
  prop_code (CValidate w (A arg) fl (encA cfg) (A (validate_text w arg fl cfg))) = 0.
Proof. intros w arg fl cfg H. unfold prop_code. rewrite dec2_encA. cbn [dec]. now rewrite H. Qed.

Theorem model_passes_tls_texts : forall cf cp kf kp le o caf cap ok o',
  prop_code (CTlsErr cf cp kf kp le o) = 0 /\ prop_code (CTlsCA caf cap ok o') = 0.
Proof. intros; split; reflexivity. Qed.

(* rendering after use: the model's configuration is unchanged, so what the renderings show of the opaque values
   after the calls is what they showed before (no guard) *)
Theorem model_passes_after_use : forall bs cfg before,
  prop_code (CAfterUse bs (encA cfg) (encA (fold_left (fun c b => config_after (builder_of b) c) bs cfg)) (map A before) (map A before)) = 0.
Proof.
  intros bs cfg before. unfold prop_code. rewrite dec2_encA, map_dec_A.
  assert (X : after_ok cfg (combine before before) = true).
  { unfold after_ok. apply forallb_forall. intros [b a] I. apply forallb_forall. intros [k v] J. simpl.
    assert (E : b = a).
    { clear -I. induction before as [|x r IH]; simpl in I; [contradiction|]. destruct I as [I|I]; [now inversion I|now apply IH]. }
    subst. destruct (distinctive v); [|reflexivity]. destruct (shown_b v a) eqn:E; reflexivity. }
  now rewrite X.
Qed.

(* ---- non-vacuity ---------------------------------------------------------------------------------------------- *)
(* the guard holds for a harness secret on a headers-like shape and paths of every renderer ... *)
Example ex_frame_free :
  frame_free (SField true (SMapVal SBare)) "hunter2-s3cr3t-A"
             [PFmt "v" no_flags; PFmt "x" (F false false true true false None None); PFmt "q" no_flags; PSprint; PJson; PYaml;
              PConfmap; PZapAny; PFmt "d" no_flags] = true
  /\ prop_code (obs_render (SField true (SMapVal SBare)) "hunter2-s3cr3t-A" [PFmt "v" no_flags; PJson; PConfmap; PFmt "d" no_flags]) = 0.
Proof. split; vm_compute; reflexivity. Qed.

(* ... and it is not vacuous: a "secret" that is part of the secret-independent text is excluded by it (the
   checker would report it although nothing is revealed) *)
Example ex_frame_hit :
  frame_free (SField true SBare) "configopaque.String" [PFmt "v" (F false false true false false None None)] = false.
Proof. vm_compute. reflexivity. Qed.

Example ex_link_use :
  prop_code (obs_http_client [("x-sig-bin", "s3cr3t-1"); ("Host", "h0st")] [("X-Sig-Bin", "old")] "127.0.0.1:1" ["x-absent"]) = 0 /\
  prop_code (obs_grpc [("X-Pre-Set", "s3cr3t-1"); ("x-b-bin", "s3cr3t-2")] [("x-pre-set", ["caller"])] []) = 0 /\
  prop_code (obs_unm (UViaSub UExpScalar) "987654321") = 0 /\ prop_code (obs_unm (UExpPtr YOther) "987654321") = 0.
Proof. vm_compute. repeat split. Qed.
