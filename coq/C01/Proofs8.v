(* C01/Proofs8.v — soundness of the decidable clause checkers of Checker.v w.r.t. the Prop-level clauses. *)
From Verif Require Import Common.Base C01.Model C01.Spec C01.Checker.

Lemma mem_In r l : mem r l = true <-> In r l.
Proof.
  unfold mem. rewrite existsb_exists. split.
  - intros (x & Hx & E). apply N.eqb_eq in E. now subst.
  - intros H. exists r. split; [exact H|apply N.eqb_refl].
Qed.

Lemma opt_eqb_some i items r : option_eqb N.eqb (iget i items) (Some r) = true <-> iget i items = Some r.
Proof.
  destruct (iget i items) as [x|]; simpl; [|split; discriminate].
  rewrite N.eqb_eq. split; congruence.
Qed.

Lemma range_has_spec items n : forall a r,
  range_has items a n r = true <-> exists i, (a <= i < a + N.of_nat n)%N /\ iget i items = Some r.
Proof.
  induction n as [|n IH]; intros a r; cbn [range_has].
  - split; [discriminate|]. intros (i & Hi & _). lia.
  - rewrite orb_true_iff, opt_eqb_some, IH. split.
    + intros [H|(i & Hi & Hb)]; [exists a; split; [lia|exact H]|exists i; split; [lia|exact Hb]].
    + intros (i & Hi & Hb). destruct (N.eq_dec i a) as [->|Hne]; [now left|right].
      exists i. split; [lia|exact Hb].
Qed.

Lemma durableb_spec st r : durableb st r = true <-> durable st r.
Proof.
  unfold durableb, durable. rewrite orb_true_iff, range_has_spec, existsb_exists. split.
  - intros [(i & Hi & Hb)|(i & Hi & Hb)].
    + exists i. split; [exact Hb|left]. lia.
    + apply opt_eqb_some in Hb. exists i. split; [exact Hb|now right].
  - intros (i & Hb & [Hr|Hd]).
    + left. exists i. split; [|exact Hb]. lia.
    + right. exists i. split; [exact Hd|now apply opt_eqb_some].
Qed.

(* clause 2: "a request disappears from storage only after a final hand-off" *)
Lemma clause2b_sound st evs :
  clause2b st evs = true <-> (forall r, In r (accepted evs) -> In r (finals evs) \/ durable st r).
Proof.
  unfold clause2b, durable_or_finalb. rewrite forallb_forall. split.
  - intros H r Hr. specialize (H r Hr). apply orb_true_iff in H as [H|H]; [left; now apply mem_In|right; now apply durableb_spec].
  - intros H r Hr. apply orb_true_iff. destruct (H r Hr) as [F|D]; [left; now apply mem_In|right; now apply durableb_spec].
Qed.

Lemma iget_In i l r : iget i l = Some r -> In (i, r) l.
Proof.
  induction l as [|[j x] l IH]; simpl; [discriminate|].
  destruct (N.eqb_spec i j) as [->|Hne]; [intros H; inversion H; now left|intros H; right; auto].
Qed.

Lemma no_durableb_sound st : no_durableb st = true <-> nothing_durable st.
Proof.
  unfold no_durableb, nothing_durable. rewrite forallb_forall. split.
  - intros H r D. destruct D as (i & Hb & Hw).
    assert (Hj : exists j, In (j, r) (s_items st)) by (exists i; now apply iget_In).
    destruct Hj as (j & Hj). specialize (H (j, r) Hj). cbn [snd] in H.
    apply negb_true_iff in H. assert (durableb st r = true) by (apply durableb_spec; exists i; auto). congruence.
  - intros H p Hp. apply negb_true_iff. destruct (durableb st (snd p)) eqn:E; [|reflexivity].
    apply durableb_spec in E. destruct (H _ E).
Qed.

(* clause 1, safety half *)
Lemma clause1b_sound st evs :
  clause1b st evs = true <-> (nothing_durable st -> forall r, In r (accepted evs) -> In r (handoffs evs)).
Proof.
  unfold clause1b. rewrite orb_true_iff, negb_true_iff, forallb_forall. split.
  - intros [H|H] ND r Hr.
    + apply no_durableb_sound in ND. congruence.
    + apply mem_In. now apply H.
  - intros H. destruct (no_durableb st) eqn:E; [right|now left].
    apply no_durableb_sound in E. intros r Hr. apply mem_In. now apply H.
Qed.
