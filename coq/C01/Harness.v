(* C01/Harness.v — comparison functions for the generated correspondence files
   (work/C01/Cases_k.v): the model is run on the recorded input and compared with what the Go
   implementation did (operation results, Size(), death flag, the COMPLETE store as bytes after
   every incarnation).  Imports only Model.v. *)
From Verif Require Import Common.Base.
From Verif Require Export C01.Model.
From Verif Require Import C01.Spec C01.Checker.

(* ---- wire forms ----------------------------------------------------------------------------- *)
(* op: (0,id,_) Offer | (1,_,_) Read | (2,k,o) Complete k, o: 0 ok 1 failed 2 shutdown | (3,_,_) Shutdown *)
Definition opcode := (nat * N * nat)%type.
Definition op_of (x : opcode) : op :=
  let '(t, a, b) := x in
  match t with
  | 0 => Offer a
  | 1 => Read
  | 2 => Complete (N.to_nat a) (match b with 0 => OOk | 1 => OFailed | _ => OShutdown end)
  | _ => Shutdown
  end.

(* result: (0,acc,_) Offer | (1,index,id) Read | (2) Read on a stopped queue | (3) Read would block
   | (4,executed,_) Complete | (5) Shutdown ; last component: Size() after the call *)
Definition rescode := (nat * N * N * Z)%type.
Definition code_of_res (x : res * Z) : rescode :=
  let '(r, z) := x in
  match r with
  | ROffer a => (0, if a then 1%N else 0%N, 0%N, z)
  | ROfferWait => (0, 2%N, 0%N, z)
  | ROfferTooLarge => (0, 3%N, 0%N, z)
  | RRead i r => (1, i, r, z)
  | RStopped => (2, 0%N, 0%N, z)
  | RBlocked => (3, 0%N, 0%N, z)
  | RComplete e => (4, if e then 1%N else 0%N, 0%N, z)
  | RShutdown => (5, 0%N, 0%N, z)
  end.

(* the store as bytes: "ri", "wi", "di", "si", then (index, body) sorted by index *)
Definition ostore := (option (list N) * option (list N) * option (list N) * option (list N) * list (N * list N))%type.

Fixpoint ins_sorted (p : N * list N) (l : list (N * list N)) : list (N * list N) :=
  match l with
  | [] => [p]
  | q :: t => if N.leb (fst p) (fst q) then p :: l else q :: ins_sorted p t
  end.
Definition sort_items (l : list (N * list N)) : list (N * list N) := fold_right ins_sorted [] l.

Definition enc_store (st : store) : ostore :=
  (option_map itemIndexToBytes (s_ri st), option_map itemIndexToBytes (s_wi st),
   option_map itemIndexArrayToBytes (s_di st), option_map itemIndexToBytes (s_si st),
   sort_items (map (fun p => (fst p, enc_req (snd p))) (s_items st))).

(* per incarnation: died, parked for ever in Start (hasMoreSpace.Wait), number of client.Close calls (0 if
   died/parked), results, store afterwards.  run_act drops the budget when it reaches Block, so an
   incarnation without result and without budget is a parked one. *)
Definition iobs := (bool * bool * nat * list rescode * ostore)%type.

Definition parked (r : irun) : bool :=
  i_died r && match i_budget r with None => true | Some _ => false end.

Definition obs_of (r : irun) : iobs :=
  (i_died r && negb (parked r), parked r, i_closed r, map code_of_res (i_obs r), enc_store (i_store r)).

Definition hist_of (h : list (list opcode * option nat)) : history :=
  map (fun p => (map op_of (fst p), snd p)) h.

Definition model_hist (cap : Z) (rs bl : bool) (h : list (list opcode * option nat)) : list iobs :=
  map obs_of (run_history_obs (mkCfg cap rs bl) store0 (hist_of h)).

(* ---- equality on the wire forms -------------------------------------------------------------- *)
Definition bytes_eqb := list_eqb N.eqb.
Definition obytes_eqb := option_eqb bytes_eqb.
Definition rescode_eqb (a b : rescode) : bool :=
  let '(t1, a1, b1, z1) := a in let '(t2, a2, b2, z2) := b in
  Nat.eqb t1 t2 && N.eqb a1 a2 && N.eqb b1 b2 && Z.eqb z1 z2.
Definition ostore_eqb (a b : ostore) : bool :=
  let '(r1, w1, d1, s1, i1) := a in let '(r2, w2, d2, s2, i2) := b in
  obytes_eqb r1 r2 && obytes_eqb w1 w2 && obytes_eqb d1 d2 && obytes_eqb s1 s2 &&
  list_eqb (fun p q => N.eqb (fst p) (fst q) && bytes_eqb (snd p) (snd q)) i1 i2.
Definition iobs_eqb (a b : iobs) : bool :=
  let '(d1, p1, c1, r1, s1) := a in let '(d2, p2, c2, r2, s2) := b in
  Bool.eqb d1 d2 && Bool.eqb p1 p2 && Nat.eqb c1 c2 && list_eqb rescode_eqb r1 r2 && ostore_eqb s1 s2.

(* the model DEcoders applied to the real bytes give back the model's decoded store *)
Definition dec_idx_ok (b : option (list N)) (m : option N) : bool :=
  match bytesToItemIndex b, m with
  | inl n, Some n' => N.eqb n n'
  | inr ErrNotSet, None => true
  | _, _ => false
  end.
Definition dec_store_ok (o : ostore) (st : store) : bool :=
  let '(r, w, d, s, items) := o in
  dec_idx_ok r (s_ri st) && dec_idx_ok w (s_wi st) && dec_idx_ok s (s_si st) &&
  match bytesToItemIndexArray d, s_di st with
  | inl l, Some l' => list_eqb N.eqb l l'
  | inl [], None => match d with None => true | _ => false end
  | _, _ => false
  end &&
  forallb (fun p => option_eqb N.eqb (dec_req (Some (snd p))) (iget (fst p) (s_items st))) items.

(* ---- cases ---------------------------------------------------------------------------------- *)
(* an initial store in decoded form: ri, wi, di, si, (index, request id) *)
Definition istore := (option N * option N * option (list N) * option N * list (N * N))%type.
Definition store_of (i : istore) : store :=
  let '(r, w, d, s, items) := i in mkStore r w d s items.

(* queuebatch.Config on the wire: (enabled, wait, sizer, size, block, storage, consumers, batch) *)
Definition qcfg_t := (bool * bool * nat * Z * bool * option nat * Z * option (Z * Z * Z))%type.
Definition qcfg_of (x : qcfg_t) : qconfig :=
  let '(e, w, sz, n, bl, st, c, bt) := x in mkQConfig e w sz n bl st c bt.
Definition qcfg_eqb (a b : qconfig) : bool :=
  Bool.eqb (q_enabled a) (q_enabled b) && Bool.eqb (q_wait a) (q_wait b) && Nat.eqb (q_sizer a) (q_sizer b) &&
  Z.eqb (q_size a) (q_size b) && Bool.eqb (q_block a) (q_block b) && option_eqb Nat.eqb (q_storage a) (q_storage b) &&
  Z.eqb (q_consumers a) (q_consumers b) &&
  option_eqb (fun x y => Z.eqb (fst (fst x)) (fst (fst y)) && Z.eqb (snd (fst x)) (snd (fst y)) && Z.eqb (snd x) (snd y)) (q_batch a) (q_batch b).
Definition qkind_eqb (a b : qkind) : bool :=
  match a, b with
  | QMemory c1 w1 b1 n1, QMemory c2 w2 b2 n2 => Z.eqb c1 c2 && Bool.eqb w1 w2 && Bool.eqb b1 b2 && Z.eqb n1 n2
  | QPersistent c1 b1 s1 g1 o1 n1, QPersistent c2 b2 s2 g2 o2 n2 =>
      Z.eqb c1 c2 && Bool.eqb b1 b2 && Nat.eqb s1 s2 && Nat.eqb g1 g2 && Nat.eqb o1 o2 && Z.eqb n1 n2
  | _, _ => false
  end.

Inductive vcase :=
| CHist (cap : Z) (rs bl : bool) (h : list (list opcode * option nat)) (obs : list iobs)
| CHistFrom (cap : Z) (rs bl : bool) (init : istore) (h : list (list opcode * option nat)) (obs : list iobs)
| CDec (buf : option (list N)) (idx : nat * N) (arr : nat * list N)
    (* observed bytesToItemIndex / bytesToItemIndexArray: class 0 ok, 1 value not set, 2 invalid *)
| CEnc (n : N) (l : list N) (b1 b2 : list N)
| CRetry (scenario wraps cls : nat)
| CFin (f1 f2 f3 : bool) (init : istore) (cdi0 : list N) (index : N) (st' : ostore) (cdi' : list N) (cls : nat)
    (* itemDispatchingFinish on a queue whose storage client fails the chosen calls: store afterwards, in-memory
       dispatched list, class of the returned error (0 nil, 1 delete failed, 2 list update failed) *)
| CQCfg (maxint ncpu : Z) (q : qcfg_t) (b : bool * Z * Z * Z) (r : qcfg_t)
    (* the real newQueueBatchConfig(q, b) returned r *)
| CQKind (signal owner : nat) (q : qcfg_t) (k : qkind)
    (* the real newQueueBatch built this queue for configuration q of exporter [owner], signal [signal] *)
| CDone (pieces : list nat) (cls : nat)
    (* refCountDone fed with the piece outcomes (0 ok, 1 failed, 2 shutdown) in completion order; class received by the request's Done *)
| CSend (rs : list nat) (stop : option nat) (tail : nat) (cls attempts : nat).
    (* one Send of a (possibly concurrent) retry scenario: attempt results 0 ok / 1 permanent / 2 retryable,
       stop = attempts started when Shutdown was called, tail 2 = max elapsed time / 3 = context cancelled;
       observed class of the returned error and number of export attempts *)
    (* retrySender.Send driven to one of its ends; cls: 0 ok, 1 failed, 2 shutdown error *)

Definition send_end_of (n : nat) : send_end :=
  match n with 0 => SendOk | 1 => SendPermanent | 2 => SendNoMoreRetries | 3 => SendCtxDone | _ => SendStopped end.
Definition attempt_of (n : nat) : attempt := match n with 0 => AOk | 1 => APermanent | _ => ARetryable end.
Definition outcome_of_code (n : nat) : outcome := match n with 0 => OOk | 1 => OFailed | _ => OShutdown end.
Definition outcome_code (o : outcome) : nat := match o with OOk => 0 | OFailed => 1 | OShutdown => 2 end.
    (* observed itemIndexToBytes n, itemIndexArrayToBytes l *)

Definition check_case (c : vcase) : bool :=
  match c with
  | CHist cap rs bl h obs =>
      let runs := run_history_obs (mkCfg cap rs bl) store0 (hist_of h) in
      list_eqb iobs_eqb (map obs_of runs) obs &&
      Nat.eqb (length runs) (length obs) &&
      forallb (fun p => dec_store_ok (snd (fst p)) (i_store (snd p))) (combine obs runs)
  | CHistFrom cap rs bl init h obs =>
      let runs := run_history_obs (mkCfg cap rs bl) (store_of init) (hist_of h) in
      list_eqb iobs_eqb (map obs_of runs) obs &&
      Nat.eqb (length runs) (length obs) &&
      forallb (fun p => dec_store_ok (snd (fst p)) (i_store (snd p))) (combine obs runs)
  | CDec buf idx arr =>
      (match bytesToItemIndex buf with
       | inl n => Nat.eqb (fst idx) 0 && N.eqb (snd idx) n
       | inr ErrNotSet => Nat.eqb (fst idx) 1
       | inr ErrInvalid => Nat.eqb (fst idx) 2
       end) &&
      (match bytesToItemIndexArray buf with
       | inl l => Nat.eqb (fst arr) 0 && list_eqb N.eqb (snd arr) l
       | inr ErrNotSet => Nat.eqb (fst arr) 1
       | inr ErrInvalid => Nat.eqb (fst arr) 2
       end)
  | CEnc n l b1 b2 => bytes_eqb (itemIndexToBytes n) b1 && bytes_eqb (itemIndexArrayToBytes l) b2
  | CRetry sc _ cls => Nat.eqb (outcome_code (outcome_of_send (send_end_of sc))) cls
  | CFin f1 f2 f3 init cdi0 index st' cdi' cls =>
      let '(st1, v1, k) := finish_with_errors f1 f2 f3 (mkVol 0 0 cdi0 0 false 1 0) index (store_of init) in
      ostore_eqb (enc_store st1) st' && list_eqb N.eqb (cdi v1) cdi' && Nat.eqb k cls
  | CQCfg maxint ncpu q b r =>
      let '(be, bf, bmin, bmax) := b in
      qcfg_eqb (newQueueBatchConfig maxint ncpu (qcfg_of q) (mkBConfig be bf bmin bmax)) (qcfg_of r)
  | CQKind sg ow q k => qkind_eqb (queue_of sg ow (qcfg_of q)) k
  | CDone pieces cls => Nat.eqb (outcome_code (combine_outcomes (map outcome_of_code pieces))) cls
  | CSend rs stop tail cls attempts =>
      let '(e, k) := send_model (map attempt_of rs) stop (send_end_of tail) 0 in
      Nat.eqb (outcome_code (outcome_of_send e)) cls && Nat.eqb k attempts
  end.

(* model output, for replay files *)
Inductive vout :=
| OHist (obs : list iobs) (evs : list event)
| ODec (idx : N + derr) (arr : list N + derr)
| OEnc (b1 b2 : list N)
| OQCfg (r : qconfig)
| OQKind (k : qkind)
| OFin (st : ostore) (l : list N) (cls : nat)
| ORetry (cls : nat)
| OSend (cls attempts : nat).

Definition model_out (c : vcase) : vout :=
  match c with
  | CHist cap rs bl h _ => OHist (model_hist cap rs bl h) (snd (run_history (mkCfg cap rs bl) store0 (hist_of h)))
  | CHistFrom cap rs bl init h _ =>
      OHist (map obs_of (run_history_obs (mkCfg cap rs bl) (store_of init) (hist_of h)))
            (snd (run_history (mkCfg cap rs bl) (store_of init) (hist_of h)))
  | CDec buf _ _ => ODec (bytesToItemIndex buf) (bytesToItemIndexArray buf)
  | CEnc n l _ _ => OEnc (itemIndexToBytes n) (itemIndexArrayToBytes l)
  | CRetry sc _ _ => ORetry (outcome_code (outcome_of_send (send_end_of sc)))
  | CFin f1 f2 f3 init cdi0 index _ _ _ =>
      let '(st1, v1, k) := finish_with_errors f1 f2 f3 (mkVol 0 0 cdi0 0 false 1 0) index (store_of init) in
      OFin (enc_store st1) (cdi v1) k
  | CQCfg maxint ncpu q b _ =>
      let '(be, bf, bmin, bmax) := b in OQCfg (newQueueBatchConfig maxint ncpu (qcfg_of q) (mkBConfig be bf bmin bmax))
  | CQKind sg ow q _ => OQKind (queue_of sg ow (qcfg_of q))
  | CDone pieces _ => ORetry (outcome_code (combine_outcomes (map outcome_of_code pieces)))
  | CSend rs stop tail _ _ =>
      let '(e, k) := send_model (map attempt_of rs) stop (send_end_of tail) 0 in
      OSend (outcome_code (outcome_of_send e)) k
  end.

(* ---- the property's clauses checked on the OBSERVED behaviour only (C01/Checker.v; sound by Proofs8.v) ---- *)
Definition oinc_of (p : (list opcode * option nat) * iobs) : oinc :=
  let '((sc, _), (d, pk, _, rs, st)) := p in (map op_of sc, d || pk, rs, st).

Definition prop_verdict (c : vcase) : nat :=
  match c with
  | CHist _ _ _ h obs => obs_verdict (map oinc_of (combine h obs)) [] None
  | CHistFrom _ _ _ init h obs =>
      (* the requests an earlier run left stored were accepted by it *)
      let '(_, _, _, _, items) := init in
      obs_verdict (map oinc_of (combine h obs)) (map (fun p => EvAccepted (snd p)) items) None
  | _ => 0
  end.

Definition prop_ok (c : vcase) : bool := Nat.eqb (prop_verdict c) 0.

(* one pass: agreement with the model AND the clauses on the observed behaviour *)
Definition check_both (c : vcase) : bool := check_case c && prop_ok c.
