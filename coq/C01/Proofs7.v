(* C01/Proofs7.v — (1) documentation of the repaired finding C01-RECOVERY-BLOCKS against a separately named
   definition of the OLD start-up recovery; (2) itemDispatchingFinish under storage errors. *)
From Verif Require Import Common.Base C01.Model C01.Spec C01.Proofs1 C01.Proofs2 C01.Proofs3.

(* the recovery loop BEFORE commit 7592c5c1e: the re-put went through putInternal with the configured
   block_on_overflow and so waited for space (Block) while no consumer was running *)
Fixpoint reenqueue_old (c : cfg) (v : vol) (ivs : list (N * option val)) (dels : list N) (errc : nat)
  : act (vol * nat) :=
  match ivs with
  | [] => Call (map DelItem dels) (fun _ => Done (v, errc))
  | (i, Some (VBody r)) :: t =>
      if would_wait c v r then Block
      else
      bind (putInternal c v r) (fun x =>
        if snd x then reenqueue_old c (fst x) t (dels ++ [i]) errc
        else reenqueue_old c (set_cdi (fst x) (cdi (fst x) ++ [i])) t dels (S errc))
  | (i, _) :: t => reenqueue_old c v t (dels ++ [i]) errc
  end.

Definition initClient_old (c : cfg) : act (vol * nat) :=
  bind (initStorage c) (fun v =>
    Call [GetDi] (fun rs =>
      match res_arr rs 0 with
      | None => Done (v, O)
      | Some [] => Done (v, O)
      | Some di => Call (map GetItem di) (fun vals => reenqueue_old c v (combine di vals) [] O)
      end)).

Definition cfg_block : cfg := mkCfg 2 true true.
Definition h_block : history :=
  [ ([Offer 90; Read; Complete 0 OOk], None); ([Offer 1; Read; Offer 2; Offer 3], None) ].

(* capacity 2, request 1 in flight, queue refilled with 2 and 3: the OLD recovery parks (no result, store
   unchanged); the CURRENT one completes, refuses the re-put and keeps request 1 stored and listed *)
Lemma old_recovery_parked_now_completes_l :
  let st := fst (run_history cfg_block store0 h_block) in
  run_act None st (initClient_old cfg_block) = (st, None, None) /\
  (exists st1 v, run_act None st (initClient cfg_block) = (st1, None, Some (v, 1%nat)) /\ cdi v = [1%N]).
Proof. vm_compute. split; [reflexivity|]. eexists. eexists. split; reflexivity. Qed.

(* ---- itemDispatchingFinish under storage errors: whichever of its (up to three) batches fail, the
        crash invariant is kept — a failure can leave a stale "di" entry or a body that will be delivered
        again, never lose a request that is not final ---- *)
Lemma finish_errors_keep_invariant_l E v outs st index f1 f2 f3 :
  St E v outs st -> fin_hand E ->
  (forall r, iget index (s_items st) = Some r -> In r (finals E)) ->
  Icr E (fst (fst (finish_with_errors f1 f2 f3 v index st))).
Proof.
  intros HS FH HF. unfold finish_with_errors, try_ops.
  pose proof (St_finish E v outs st index HS HF) as HS'.
  destruct f1; cbn [fst snd negb].
  2:{ change (fst (apply_ops [SetDi (swap_remove index (cdi v)); DelItem index] st))
        with (fin_store st (swap_remove index (cdi v)) index). eapply St_Icr; eauto. }
  destruct f2; cbn [fst snd negb].
  { eapply St_Icr; eauto. }
  destruct f3; cbn [fst snd].
  2:{ change (fst (apply_ops [SetDi (swap_remove index (cdi v))] (fst (apply_ops [DelItem index] st))))
        with (fin_store st (swap_remove index (cdi v)) index). eapply St_Icr; eauto. }
  (* body deleted, list not updated *)
  change (fst (apply_ops [DelItem index] st)) with (set_items (idel index (s_items st)) st).
  destruct HS as [C G]. split; [|split; [|exact FH]].
  - exact (Cons_wf _ _ _ C).
  - intros r Hr. destruct (G r Hr) as [F|(j & Hb & Hw)]; [now left|].
    destruct (N.eqb_spec j index) as [->|Hne]; [left; now apply HF|].
    right. exists j. split; [|exact Hw].
    cbn [set_items s_items]. rewrite iget_idel. destruct (N.eqb_spec j index); [congruence|exact Hb].
Qed.
