(* C01/Proofs7.v — block_on_overflow: start-up recovery can park for ever (finding C01-RECOVERY-BLOCKS).
   The re-put of an in-flight request goes through putInternal; with blockOnOverflow and a full queue it
   waits on hasMoreSpace while no consumer is running yet.  A parked Start makes no storage call, so
   the durability invariant is untouched (pq_durable_or_final holds for every configuration), but no
   later incarnation ever hands anything off. *)
From Verif Require Import Common.Base C01.Model C01.Spec C01.Proofs1 C01.Proofs2 C01.Proofs3.

Lemma parked_incarnation c st sc :
  run_act None st (initClient c) = (st, None, None) ->
  incarnation c st sc None = mkIrun st None [] [] true 0.
Proof. intros H. unfold incarnation. now rewrite H. Qed.

Lemma parked_for_ever c st n : run_act None st (initClient c) = (st, None, None) ->
  forall k, run_history c st (drains n k) = (st, []).
Proof.
  intros H. induction k as [|k IH]; [reflexivity|].
  cbn [drains repeat run_history]. fold (drains n k).
  rewrite (parked_incarnation c st _ H). cbn [i_store i_events]. now rewrite IH.
Qed.

Definition cfg_block : cfg := mkCfg 2 true true.
Definition h_block : history :=
  [ ([Offer 90; Read; Complete 0 OOk], None); ([Offer 1; Read; Offer 2; Offer 3], None) ].

Lemma fits_cfg_block : fits cfg_block.
Proof. intros r. unfold sizeof, cfg_block. cbn. lia. Qed.

Lemma at_least_once_blocking_refuted_l :
  exists c h r, blockOnOverflow c = true /\ fits c /\
    In r (accepted (snd (run_history c store0 h))) /\
    forall n k, ~ In r (handoffs (snd (run_history c store0 (h ++ drains n k)))).
Proof.
  exists cfg_block, h_block, 2%N. split; [reflexivity|]. split; [exact fits_cfg_block|]. split.
  - vm_compute. auto.
  - intros n k. rewrite run_history_app. cbn [snd].
    assert (P : run_act None (fst (run_history cfg_block store0 h_block)) (initClient cfg_block) =
                (fst (run_history cfg_block store0 h_block), None, None)) by (vm_compute; reflexivity).
    rewrite (parked_for_ever cfg_block _ n P k). cbn [snd]. rewrite app_nil_r.
    vm_compute. intros [H|[H|[]]]; discriminate.
Qed.

(* a parked Start changes nothing: same store, no event *)
Lemma parked_changes_nothing c st sc :
  run_act None st (initClient c) = (st, None, None) ->
  i_store (incarnation c st sc None) = st /\ i_events (incarnation c st sc None) = [].
Proof. intros H. rewrite (parked_incarnation c st sc H). auto. Qed.

(* ---- itemDispatchingFinish under storage errors: whichever of its (up to three) batches fail, the
        crash invariant is kept — a failure can leave a stale "di" entry or a body that will be delivered
        again, never lose a request that is not final ---- *)
Lemma finish_errors_keep_invariant_l E v outs st index f1 f2 f3 :
  St E v outs st -> fin_hand E ->
  (forall r, iget index (s_items st) = Some r -> In r (finals E)) ->
  Icr E (fst (fst (finish_with_errors f1 f2 f3 v index st))).
Proof.
  intros HS FH HF. unfold finish_with_errors, try_ops.
  pose proof (St_finish E v outs st index HS HF) as HS'.
  destruct f1; cbn [fst snd negb].
  2:{ change (fst (apply_ops [SetDi (swap_remove index (cdi v)); DelItem index] st))
        with (fin_store st (swap_remove index (cdi v)) index). eapply St_Icr; eauto. }
  destruct f2; cbn [fst snd negb].
  { eapply St_Icr; eauto. }
  destruct f3; cbn [fst snd].
  2:{ change (fst (apply_ops [SetDi (swap_remove index (cdi v))] (fst (apply_ops [DelItem index] st))))
        with (fin_store st (swap_remove index (cdi v)) index). eapply St_Icr; eauto. }
  (* body deleted, list not updated *)
  change (fst (apply_ops [DelItem index] st)) with (set_items (idel index (s_items st)) st).
  destruct HS as [C G]. split; [|split; [|exact FH]].
  - exact (Cons_wf _ _ _ C).
  - intros r Hr. destruct (G r Hr) as [F|(j & Hb & Hw)]; [now left|].
    destruct (N.eqb_spec j index) as [->|Hne]; [left; now apply HF|].
    right. exists j. split; [|exact Hw].
    cbn [set_items s_items]. rewrite iget_idel. destruct (N.eqb_spec j index); [congruence|exact Hb].
Qed.
