(* C01/Proofs1.v — codecs, store lemmas, the weakest-precondition calculus over the storage
   monad (one crash invariant checked at EVERY storage-call boundary), budget lemmas. *)
From Verif Require Import Common.Base C01.Model C01.Spec.

(* ------------------------------------------------------------------------------------------- *)
(* codecs                                                                                      *)
(* ------------------------------------------------------------------------------------------- *)
Lemma le_bytes_length k n : length (le_bytes k n) = k.
Proof. revert n. induction k as [|k IH]; intros n; simpl; auto. Qed.

Lemma le_val_le_bytes k n : le_val (le_bytes k n) = (n mod (256 ^ N.of_nat k))%N.
Proof.
  revert n. induction k as [|k IH]; intros n.
  - simpl. now rewrite N.mod_1_r.
  - cbn [le_bytes le_val]. rewrite IH.
    replace (N.of_nat (S k)) with (N.succ (N.of_nat k)) by lia.
    rewrite N.pow_succ_r by lia.
    rewrite N.mod_mul_r; [reflexivity| lia | apply N.pow_nonzero; lia].
Qed.

Lemma firstn_all_app {A} (l l' : list A) : firstn (length l) (l ++ l') = l.
Proof. induction l; simpl; congruence. Qed.
Lemma skipn_all_app {A} (l l' : list A) : skipn (length l) (l ++ l') = l'.
Proof. induction l; simpl; congruence. Qed.

Lemma index_roundtrip n : (n < 2 ^ 64)%N -> bytesToItemIndex (Some (itemIndexToBytes n)) = inl n.
Proof.
  intros Hn. unfold bytesToItemIndex, itemIndexToBytes.
  rewrite le_bytes_length. change (8 <? 8)%nat with false. cbv iota.
  pose proof (firstn_all_app (le_bytes 8 n) []) as F. rewrite le_bytes_length, app_nil_r in F.
  rewrite F, le_val_le_bytes. f_equal. change (256 ^ N.of_nat 8)%N with (2 ^ 64)%N.
  now apply N.mod_small.
Qed.

Lemma req_roundtrip n : (n < 2 ^ 64)%N -> dec_req (Some (enc_req n)) = Some n.
Proof.
  intros Hn. pose proof (index_roundtrip n Hn) as H. unfold bytesToItemIndex, itemIndexToBytes in H.
  unfold dec_req, enc_req. revert H. destruct (length (le_bytes 8 n) <? 8)%nat; [discriminate|].
  intros H. f_equal. congruence.
Qed.

Lemma chunks8_flat l rest :
  Forall (fun n => (n < 2 ^ 64)%N) l -> chunks8 (length l) (flat_map (le_bytes 8) l ++ rest) = l.
Proof.
  induction 1 as [|n l Hn _ IH]; [reflexivity|].
  cbn [length chunks8 flat_map]. rewrite <- app_assoc.
  pose proof (firstn_all_app (le_bytes 8 n) (flat_map (le_bytes 8) l ++ rest)) as F.
  pose proof (skipn_all_app (le_bytes 8 n) (flat_map (le_bytes 8) l ++ rest)) as S.
  rewrite le_bytes_length in F, S. rewrite F, S, IH, le_val_le_bytes. f_equal.
  change (256 ^ N.of_nat 8)%N with (2 ^ 64)%N. now apply N.mod_small.
Qed.

Lemma flat_le_bytes_length l : length (flat_map (le_bytes 8) l) = (8 * length l)%nat.
Proof. induction l as [|a l IH]; [reflexivity|]. cbn [flat_map]. rewrite app_length, le_bytes_length, IH. simpl. lia. Qed.

Lemma array_roundtrip l :
  Forall (fun n => (n < 2 ^ 64)%N) l -> (N.of_nat (length l) < 2 ^ 32)%N ->
  bytesToItemIndexArray (Some (itemIndexArrayToBytes l)) = inl l.
Proof.
  intros Hl Hlen. unfold bytesToItemIndexArray, itemIndexArrayToBytes.
  set (hd := le_bytes 4 (N.of_nat (length l))).
  assert (Lh : length hd = 4%nat) by apply le_bytes_length.
  destruct hd as [|b0 [|b1 [|b2 [|b3 [|? ?]]]]] eqn:Ehd; try discriminate.
  assert (V : le_val [b0; b1; b2; b3] = N.of_nat (length l)).
  { rewrite <- Ehd. unfold hd. rewrite le_val_le_bytes. change (256 ^ N.of_nat 4)%N with (2 ^ 32)%N.
    now apply N.mod_small. }
  cbn [app]. cbn [length]. change (S (S (S (S (length (flat_map (le_bytes 8) l))))) <? 4)%nat with false.
  cbv iota. cbn [firstn skipn]. rewrite V.
  destruct l as [|a l']; [reflexivity|].
  replace (N.of_nat (length (a :: l')) =? 0)%N with false by (symmetry; apply N.eqb_neq; simpl; lia).
  rewrite flat_le_bytes_length.
  replace (N.of_nat (8 * length (a :: l')) <? N.of_nat (length (a :: l')) * 8)%N with false
    by (symmetry; apply N.ltb_ge; lia).
  rewrite Nat2N.id. pose proof (chunks8_flat (a :: l') [] Hl) as C. rewrite app_nil_r in C. now rewrite C.
Qed.

(* the decoders reject exactly what the Go code rejects *)
Lemma index_decoder_rejects buf :
  (bytesToItemIndex buf = inr ErrNotSet <-> buf = None) /\
  (bytesToItemIndex buf = inr ErrInvalid <-> exists b, buf = Some b /\ (length b < 8)%nat).
Proof.
  unfold bytesToItemIndex. destruct buf as [b|].
  - destruct (length b <? 8)%nat eqn:E.
    + apply Nat.ltb_lt in E. repeat split; try discriminate; eauto.
    + apply Nat.ltb_ge in E. repeat split; try discriminate.
      intros (b' & Eb & L). inversion Eb; subst. lia.
  - repeat split; try discriminate. intros (b' & Eb & _). discriminate.
Qed.

Lemma array_decoder_rejects buf :
  bytesToItemIndexArray buf = inr ErrInvalid <->
  exists b, buf = Some b /\ b <> [] /\
    ((length b < 4)%nat \/
     (4 <= length b)%nat /\ le_val (firstn 4 b) <> 0%N /\
     (N.of_nat (length (skipn 4 b)) < le_val (firstn 4 b) * 8)%N).
Proof.
  unfold bytesToItemIndexArray. destruct buf as [b|].
  2:{ split; [discriminate|]. intros (b & E & _). discriminate. }
  destruct b as [|x b']. { split; [discriminate|]. intros (b & E & N & _). inversion E; subst. congruence. }
  set (b := x :: b').
  destruct (length b <? 4)%nat eqn:E4.
  - apply Nat.ltb_lt in E4. split; [|reflexivity]. intros _. exists b. repeat split; [discriminate|auto].
  - apply Nat.ltb_ge in E4. destruct (le_val (firstn 4 b) =? 0)%N eqn:E0.
    + apply N.eqb_eq in E0. split; [discriminate|]. intros (b2 & Eb & _ & [L|(_ & NZ & _)]); inversion Eb; subst b2; [lia|congruence].
    + apply N.eqb_neq in E0. destruct (N.of_nat (length (skipn 4 b)) <? le_val (firstn 4 b) * 8)%N eqn:EL.
      * apply N.ltb_lt in EL. split; [|reflexivity]. intros _. exists b. repeat split; [discriminate|]. right. auto.
      * apply N.ltb_ge in EL. split; [discriminate|]. intros (b2 & Eb & _ & [L|(_ & _ & L)]); inversion Eb; subst b2; lia.
Qed.

(* ------------------------------------------------------------------------------------------- *)
(* items                                                                                       *)
(* ------------------------------------------------------------------------------------------- *)
Lemma iget_idel i j l : iget i (idel j l) = if N.eqb i j then None else iget i l.
Proof.
  unfold idel. induction l as [|[k r] l IH]; simpl.
  - now destruct (N.eqb i j).
  - destruct (N.eqb j k) eqn:Ejk; simpl.
    + apply N.eqb_eq in Ejk; subst k. destruct (N.eqb i j) eqn:Eij; [exact IH|]. exact IH.
    + destruct (N.eqb i k) eqn:Eik; [|exact IH].
      apply N.eqb_eq in Eik; subst k. rewrite N.eqb_sym in Ejk. now rewrite Ejk.
Qed.

Lemma iget_iset i j r l : iget i (iset j r l) = if N.eqb i j then Some r else iget i l.
Proof.
  unfold iset. simpl. destruct (N.eqb i j) eqn:E; [reflexivity|]. rewrite iget_idel. now rewrite E.
Qed.

Lemma idel_absent i l : iget i l = None -> idel i l = l.
Proof.
  unfold idel. induction l as [|[k r] l IH]; simpl; [reflexivity|].
  destruct (N.eqb i k) eqn:E; [discriminate|]. intros H. simpl. now rewrite IH.
Qed.

(* the batches of recovery *)
Lemma apply_gets di st :
  apply_ops (map GetItem di) st = (st, map (fun i => option_map VBody (iget i (s_items st))) di).
Proof.
  induction di as [|i di IH]; [reflexivity|]. cbn [map apply_ops apply_op]. now rewrite IH.
Qed.

Definition del_all (di : list N) (l : list (N * N)) : list (N * N) := fold_left (fun l i => idel i l) di l.

Lemma apply_dels di st :
  fst (apply_ops (map DelItem di) st) = set_items (del_all di (s_items st)) st.
Proof.
  revert st. induction di as [|i di IH]; intros st.
  - destruct st; reflexivity.
  - cbn [map apply_ops apply_op].
    specialize (IH (set_items (idel i (s_items st)) st)).
    destruct (apply_ops (map DelItem di) (set_items (idel i (s_items st)) st)) as [st2 vs] eqn:E.
    cbn [fst] in *. rewrite IH. reflexivity.
Qed.

Lemma iget_del_all j di l :
  iget j (del_all di l) = if existsb (N.eqb j) di then None else iget j l.
Proof.
  revert l. induction di as [|i di IH]; intros l; [reflexivity|].
  cbn [del_all fold_left existsb]. fold (del_all di (idel i l)). rewrite IH, iget_idel.
  destruct (N.eqb j i); simpl; [now destruct (existsb (N.eqb j) di)|reflexivity].
Qed.

Lemma del_all_stale di l : (forall i, In i di -> iget i l = None) -> del_all di l = l.
Proof.
  revert l. induction di as [|i di IH]; intros l H; [reflexivity|].
  cbn [del_all fold_left]. fold (del_all di (idel i l)).
  rewrite idel_absent by (apply H; now left). apply IH. intros k Hk. apply H. now right.
Qed.

Lemma existsb_eqb_In j l : existsb (N.eqb j) l = true <-> In j l.
Proof.
  rewrite existsb_exists. split.
  - intros (x & Hx & E). apply N.eqb_eq in E. now subst.
  - intros H. exists j. split; [exact H|apply N.eqb_refl].
Qed.

(* ------------------------------------------------------------------------------------------- *)
(* wp: [I] holds after every storage call, [Q] at the end.  [bl]: may the action park for ever   *)
(* (Block)?  With bl = true a parked action satisfies every postcondition (partial correctness: *)
(* no further storage call is made); with bl = false a proof of wp shows it never parks.        *)
(* ------------------------------------------------------------------------------------------- *)
Fixpoint wp {A} (bl : bool) (I : store -> Prop) (m : act A) (st : store) (Q : A -> store -> Prop) : Prop :=
  match m with
  | Done a => Q a st
  | Call ops k =>
      I (fst (apply_ops ops st)) /\ wp bl I (k (snd (apply_ops ops st))) (fst (apply_ops ops st)) Q
  | Block => bl = true
  end.

Lemma wp_bind {A B} bl (I : store -> Prop) (m : act A) (f : A -> act B) st Q :
  wp bl I m st (fun a st' => wp bl I (f a) st' Q) -> wp bl I (bind m f) st Q.
Proof.
  revert st. induction m as [a|ops k IH|]; intros st; simpl; [auto| |auto].
  intros [H1 H2]. split; [exact H1|]. now apply IH.
Qed.

Lemma wp_mono {A} bl (I I' : store -> Prop) (m : act A) st (Q Q' : A -> store -> Prop) :
  (forall s, I s -> I' s) -> (forall a s, Q a s -> Q' a s) -> wp bl I m st Q -> wp bl I' m st Q'.
Proof.
  intros HI HQ. revert st. induction m as [a|ops k IH|]; intros st; simpl; [apply HQ| |auto].
  intros [H1 H2]. split; [now apply HI|]. now apply IH.
Qed.

Lemma wp_run {A} bl (I : store -> Prop) (m : act A) st (Q : A -> store -> Prop) b :
  I st -> wp bl I m st Q ->
  match run_act b st m with
  | (st1, _, Some a) => Q a st1
  | (st1, _, None) => I st1
  end.
Proof.
  revert st b. induction m as [a|ops k IH|]; intros st b HI H; simpl in *; [exact H| |exact HI].
  destruct H as [H1 H2].
  destruct b as [[|n]|].
  - exact HI.
  - destruct (apply_ops ops st) as [st1 rs] eqn:E. cbn [fst snd] in *. now apply IH.
  - destruct (apply_ops ops st) as [st1 rs] eqn:E. cbn [fst snd] in *. now apply IH.
Qed.

(* an action proved with bl = false runs to completion when the process does not die *)
Lemma wp_total {A} (I : store -> Prop) (m : act A) st (Q : A -> store -> Prop) :
  wp false I m st Q -> exists st1 a, run_act None st m = (st1, None, Some a) /\ Q a st1.
Proof.
  revert st. induction m as [a|ops k IH|]; intros st H; simpl in *; [eauto| |discriminate].
  destruct H as [_ H2]. destruct (apply_ops ops st) as [st1 rs]. cbn [fst snd] in *. now apply IH.
Qed.
