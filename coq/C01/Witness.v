(* C01/Witness.v — non-vacuity examples (vm_compute) *)
From Verif Require Import Common.Base C01.Model C01.Spec C01.Checker C01.Harness C01.Proofs10 C01.Proofs11.

Definition cfg10 := mkCfg 10 true false.
Definition cfg2 := mkCfg 2 true false.

(* a history with three deaths, two of them inside start-up recovery (the second one inside the
   recovery that follows a death inside recovery); afterwards one id is queued, one dispatched,
   one finished *)
Definition h_ex : history :=
  [ ([Offer 1; Offer 2; Offer 3; Read; Read; Complete 0 OOk], Some 7);   (* dies in the last op's neighbourhood *)
    ([], Some 4);                                                       (* dies inside recovery *)
    ([], Some 5);                                                       (* dies inside the next recovery *)
    ([Read], None) ].

Example h_ex_events :
  accepted (snd (run_history cfg10 store0 h_ex)) = [1; 2; 3]%N /\
  finals (snd (run_history cfg10 store0 h_ex)) = [1]%N.
Proof. vm_compute. split; reflexivity. Qed.

Example h_ex_durable : durable_or_finalb (fst (run_history cfg10 store0 h_ex)) (snd (run_history cfg10 store0 h_ex)) = true.
Proof. vm_compute. reflexivity. Qed.

(* the histories on which the code BEFORE the repair lost requests (old findings F1, F2 and the
   missing read index) now keep everything durable *)
Definition h_f1 (n : nat) : history :=
  [ ([Offer 90; Read; Complete 0 OOk], None); ([Offer 1; Offer 2; Read; Read], None); ([], Some n) ].
Definition h_f2 : history :=
  [ ([Offer 90; Read; Complete 0 OOk], None); ([Offer 1; Read; Offer 2; Offer 3], None); ([], None) ].
Definition h_cold : history := [ ([Offer 1; Offer 2], None); ([], None) ].

Example old_witnesses_now_fine :
  forallb (fun h => durable_or_finalb (fst (run_history cfg10 store0 h)) (snd (run_history cfg10 store0 h)))
          [h_f1 3; h_f1 4; h_f1 5; h_f1 6; h_cold] = true /\
  durable_or_finalb (fst (run_history cfg2 store0 h_f2)) (snd (run_history cfg2 store0 h_f2)) = true.
Proof. vm_compute. split; reflexivity. Qed.

(* the refused re-put is really reached by h_f2 (capacity 2): recovery reports errCount = 1 *)
Example h_f2_refuses :
  let st := fst (run_history cfg2 store0 [ ([Offer 90; Read; Complete 0 OOk], None); ([Offer 1; Read; Offer 2; Offer 3], None) ]) in
  snd (run_act None st (initClient cfg2)) <> None /\
  match snd (run_act None st (initClient cfg2)) with Some (_, errc) => errc = 1 | None => False end.
Proof. vm_compute. split; [discriminate|reflexivity]. Qed.

(* codec hypotheses are satisfiable with non-trivial values *)
Example codec_ex :
  bytesToItemIndexArray (Some (itemIndexArrayToBytes [7; 300; 18446744073709551615]%N)) = inl [7; 300; 18446744073709551615]%N.
Proof. vm_compute. reflexivity. Qed.

(* wf_store is satisfied by the empty store and by a used one *)
Example wf_ex : wf_store store0 /\ wf_store (fst (run_history cfg10 store0 h_ex)).
Proof.
  split; unfold wf_store; vm_compute; (split; [discriminate|split; [auto; try discriminate|]]).
  - intros i [].
  - intros i H. repeat (destruct H as [<-|H]; [reflexivity|]). destruct H.
Qed.

(* hypotheses of pq_at_least_once / pq_drain_progress are satisfiable, and k > 1 is really needed:
   capacity 2, request 1 in flight while 2 and 3 refill the queue; the first drain incarnation's
   recovery cannot move 1 back (queue full), so 1 stays stored and listed; the second start moves
   it; after three drains nothing is durable and every accepted request is final. *)
Example fits_ex : fits cfg2 /\ fits cfg10 /\ fits (mkCfg 3 false false).
Proof.
  repeat split; intros r; unfold sizeof, cfg2, cfg10; cbn [reqSized capacity]; try lia.
  assert (r mod 3 < 3)%N by (apply N.mod_upper_bound; discriminate). lia.
Qed.

Definition h_refill : history :=
  [ ([Offer 90; Read; Complete 0 OOk], None); ([Offer 1; Read; Offer 2; Offer 3], None) ].

Definition all_final (c : cfg) (h : history) : bool :=
  let e := snd (run_history c store0 h) in forallb (fun r => mem r (finals e)) (accepted e).
Definition all_handed (c : cfg) (h : history) : bool :=
  let e := snd (run_history c store0 h) in forallb (fun r => mem r (handoffs e)) (accepted e).

Example refill_needs_more_than_one_drain :
  pending (fst (run_history cfg2 store0 h_refill)) = 3%nat /\
  di_of (fst (run_history cfg2 store0 h_refill)) = [1%N] /\
  durableb (fst (run_history cfg2 store0 (h_refill ++ drains 3 1))) 1 = true /\
  all_final cfg2 (h_refill ++ drains 3 1) = false /\
  all_final cfg2 (h_refill ++ drains 3 3) = true /\
  all_handed cfg2 (h_refill ++ drains 3 3) = true.
Proof. vm_compute. repeat split; reflexivity. Qed.

(* a history with deaths inside recovery followed by drains: everything accepted is handed off *)
Example h_ex_delivered : all_handed cfg10 (h_ex ++ drains 6 4) = true.
Proof. vm_compute. reflexivity. Qed.

(* pq_fifo_single_incarnation / pq_indexes_monotone are unconditional; a non-trivial instance:
   three reads in one incarnation hand out indexes 1, 2, 3 (index 0 was consumed before) *)
Example fifo_ex :
  read_idx (i_obs (incarnation cfg10 (fst (run_history cfg10 store0 [([Offer 90; Read; Complete 0 OOk], None)]))
                               [Offer 1; Offer 2; Read; Offer 3; Read; Complete 1 OFailed; Read] None)) = [1; 2; 3]%N /\
  eff (fst (run_history cfg10 store0 h_ex)) = (3, 8)%N.   (* deaths between re-put and cleanup duplicated in-flight requests *)
Proof. vm_compute. split; reflexivity. Qed.

(* hypothesis of pq_at_least_once_when_drained is reachable: after the three drains the store holds
   no body at all, so nothing is durable *)
Example drained_ex : s_items (fst (run_history cfg2 store0 (h_refill ++ drains 3 3))) = [].
Proof. vm_compute. reflexivity. Qed.

(* the retry theorems' hypotheses are satisfiable: two retryable failures, Shutdown while the second
   attempt is in the export call (2 attempts started): the Send ends as "stopped" after exactly 2 attempts and
   the queue sees a shutdown error; without a Shutdown the same Send ends by its context *)
Example retry_ex :
  send_model [ARetryable; ARetryable] (Some 2) SendCtxDone 0 = (SendStopped, 2) /\
  send_model [ARetryable; ARetryable] (Some 0) SendCtxDone 0 = (SendStopped, 1) /\
  send_model [ARetryable; ARetryable] None SendCtxDone 0 = (SendCtxDone, 2) /\
  send_model [ARetryable] (Some 0) SendNoMoreRetries 0 = (SendNoMoreRetries, 1) /\
  outcome_of_send (fst (send_model [ARetryable; ARetryable] (Some 2) SendCtxDone 0)) = OShutdown.
Proof. vm_compute. repeat split; reflexivity. Qed.

(* a hand-off in three pieces: refused, ok, interrupted by shutdown (in any completion order) is "interrupted" *)
Example split_ex :
  combine_outcomes [OFailed; OOk; OShutdown] = OShutdown /\ combine_outcomes [OShutdown; OFailed; OOk] = OShutdown /\
  combine_outcomes [OFailed; OOk] = OFailed /\ combine_outcomes [OOk; OOk] = OOk.
Proof. vm_compute. repeat split; reflexivity. Qed.

(* block_on_overflow: capacity 2, request 1 in flight, queue refilled with 2 and 3 — since the repair the recovery
   completes (the re-put is refused and kept, exactly as without block_on_overflow) and drains deliver everything *)
Definition cfg2b := mkCfg 2 true true.
Example blocking_config_recovers :
  let st := fst (run_history cfg2b store0 h_refill) in
  snd (run_act None st (initClient cfg2b)) <> None /\
  fits cfg2b /\ all_final cfg2b (h_refill ++ drains 3 3) = true.
Proof. split; [vm_compute; discriminate|]. split; [intros r; unfold sizeof; cbn; lia|vm_compute; reflexivity]. Qed.

(* an Offer that would wait returns ROfferWait and changes nothing *)
Example offer_wait_ex :
  map fst (i_obs (incarnation cfg2b store0 [Offer 1; Offer 2; Offer 3] None)) = [ROffer true; ROffer true; ROfferWait].
Proof. vm_compute. reflexivity. Qed.

(* itemDispatchingFinish with the combined and the list-only batch failing: body deleted, stale list entry kept *)
Example finish_errors_ex :
  let st := mkStore (Some 3%N) (Some 3%N) (Some [0; 1]%N) None [(0, 70); (1, 71)]%N in
  let '(st', v', cls) := finish_with_errors true false true (mkVol 3%N 3%N [0; 1]%N 0 false 1 0) 0%N st in
  s_di st' = Some [0; 1]%N /\ s_items st' = [(1, 71)]%N /\ cdi v' = [1]%N /\ cls = 2%nat.
Proof. vm_compute. repeat split; reflexivity. Qed.

(* round 5: configuration plumbing — a queue with storage 1 and the deprecated batcher option on top is still a
   persistent queue on storage 1 for its own signal/owner; hypotheses of cfg_* are satisfiable *)
Example cfg_ex :
  let q := mkQConfig true false 1 500 true (Some 1%nat) 4 None in
  let b := mkBConfig true 200 8192 0 in
  queue_of 2 7 (newQueueBatchConfig 9223372036854775807 8 q b) = QPersistent 500 true 1 2 7 1 /\
  queue_of 2 7 (newQueueBatchConfig 9223372036854775807 8 (mkQConfig false false 0 5 false (Some 1%nat) 4 None) b)
    = QMemory 9223372036854775807 true true 1.
Proof. vm_compute. split; reflexivity. Qed.

(* an oversized Offer with block_on_overflow is refused at once (size-function sizer: id 2 has size 3 > capacity 2) *)
Example too_large_ex :
  map fst (i_obs (incarnation (mkCfg 2 false true) store0 [Offer 2; Offer 3] None)) = [ROfferTooLarge; ROffer true].
Proof. vm_compute. reflexivity. Qed.

(* the clause checker on an observed history: a store that lost request 1 (accepted, not final) is rejected *)
Example checker_ex :
  clause2b (mkStore (Some 0%N) (Some 1%N) None None [(0%N, 1%N)]) [EvAccepted 1%N] = true /\
  clause2b (mkStore (Some 0%N) (Some 1%N) None None []) [EvAccepted 1%N] = false /\
  clause1b (mkStore (Some 1%N) (Some 1%N) None None []) [EvAccepted 1%N] = false.
Proof. vm_compute. repeat split; reflexivity. Qed.

(* the link theorem on non-trivial instances, down to the BYTE level (encode with the model, decode with the codecs,
   run the checker): a history with three deaths (two inside recovery) and the refill history with drains *)
Definition opc (o : op) : opcode :=
  match o with
  | Offer x => (0, x, 0)%nat
  | Read => (1, 0%N, 0)%nat
  | Complete k OOk => (2, N.of_nat k, 0)%nat
  | Complete k OFailed => (2, N.of_nat k, 1)%nat
  | Complete k OShutdown => (2, N.of_nat k, 2)%nat
  | Shutdown => (3, 0%N, 0)%nat
  end.
Definition wire (h : history) : list (list opcode * option nat) := map (fun p => (map opc (fst p), snd p)) h.

Example link_ex :
  verdict_core (observe cfg10 store0 h_ex) [] None = 0%nat /\
  length (observe cfg10 store0 h_ex) = 4%nat /\
  prop_ok (CHist 10 true false (wire h_ex) (model_hist 10 true false (wire h_ex))) = true /\
  prop_ok (CHist 2 true false (wire (h_refill ++ drains 3 3)) (model_hist 2 true false (wire (h_refill ++ drains 3 3)))) = true.
Proof. vm_compute. repeat split; reflexivity. Qed.

(* the hypothesis of the wire-level link theorem is satisfiable by a non-trivial history (three deaths, two in recovery) *)
Example run_bounded_ex : run_bounded cfg10 store0 (hist_of (wire h_ex)).
Proof. apply run_boundedb_sound. vm_compute. reflexivity. Qed.
