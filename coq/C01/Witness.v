From Verif Require Import Common.Base C01.Model.
