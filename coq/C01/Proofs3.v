(* C01/Proofs3.v — liveness half of "at least once": clean drain incarnations (read until empty,
   complete everything with success) empty the queue; a re-put refused by the capacity check
   stays listed under "di" and is moved by a LATER start, so up to 2 + |di| drain incarnations
   are needed.  Quantitative specs of complete runs (budget None), proved with the same wp
   calculus and the trivial crash invariant. *)
From Verif Require Import Common.Base C01.Model C01.Spec C01.Proofs1 C01.Proofs2.

Local Open Scope N_scope.

Definition T (_ : store) : Prop := True.

Lemma wpT_run {A} (m : act A) st (Q : A -> store -> Prop) :
  wp false T m st Q -> exists st1 a, run_act None st m = (st1, None, Some a) /\ Q a st1.
Proof. apply wp_total. Qed.

Definition rng (st : store) : N := snd (eff st) - fst (eff st).
Definition mu (st : store) : nat := length (di_of st).

(* volatile indexes = decoded stored indexes *)
Definition Cq (v : vol) (st : store) : Prop :=
  eff st = (ri v, wi v) /\ (s_wi st = None -> s_ri st = None) /\ ri v <= wi v.

Lemma Cq_si v st n : Cq v st -> Cq v (set_ikey KSi n st).
Proof. intros (A & B & C). repeat split; auto. Qed.

Lemma Cq_ext v v' st : ri v' = ri v -> wi v' = wi v -> Cq v st -> Cq v' st.
Proof. intros E1 E2 (A & B & C). unfold Cq. rewrite E1, E2. auto. Qed.

Lemma removelast_length (t : list N) : t <> [] -> S (length (removelast t)) = length t.
Proof.
  intros Ht. rewrite (app_removelast_last 0 Ht) at 2. rewrite app_length. simpl. lia.
Qed.

Lemma swap_remove_length x l : In x l -> S (length (swap_remove x l)) = length l.
Proof.
  induction l as [|y t IH]; [intros []|]. intros H. cbn [swap_remove].
  destruct (N.eqb y x) eqn:E.
  - destruct t as [|z t']; [reflexivity|]. cbn [length]. f_equal. apply (removelast_length (z :: t')). discriminate.
  - apply N.eqb_neq in E. destruct H as [H|H]; [congruence|]. cbn [length]. f_equal. now apply IH.
Qed.

Section Quant.
Variable c : cfg.

(* ---- backup / put ---- *)
Lemma q_backup {A} st (k : act A) (Q : A -> store -> Prop) v0 :
  (forall st', (st' = st \/ exists n, st' = set_ikey KSi n st) -> wp false T k st' Q) ->
  wp false T (backup c v0 k) st Q.
Proof.
  intros Hk. unfold backup. destruct (reqSized c); [apply Hk; now left|].
  cbn [wp]. split; [exact I|]. apply Hk. right. eexists. reflexivity.
Qed.

Lemma q_put v st x :
  Cq v st ->
  wp false T (putInternal c v x) st
     (fun y st' => if snd y
                   then Cq (fst y) st' /\ ri (fst y) = ri v /\ wi (fst y) = wi v + 1 /\ cdi (fst y) = cdi v /\
                        stopped (fst y) = stopped v /\ di_of st' = di_of st
                   else fst y = v /\ st' = st /\ (capacity c < qsize v + sizeof c x)%Z).
Proof.
  intros HC.
  apply (wp_put c false T (fun v' st' => Cq v' st' /\ ri v' = ri v /\ wi v' = wi v + 1 /\ cdi v' = cdi v /\
                                  stopped v' = stopped v /\ di_of st' = di_of st)).
  - intros; exact I.
  - intros v' st' n (H1 & H2). split; [now apply Cq_si|exact H2].
  - intros q. destruct HC as (A & B & C). split; [|repeat split; auto].
    split; [|split; [discriminate|simpl; lia]].
    rewrite eff_put by exact B. now rewrite A.
  - intros Ht. cbn [fst snd]. repeat split; auto. now apply Z.ltb_lt.
  - intros q st' H _ _. cbn [fst snd]. exact H.
Qed.

(* ---- recovery ---- *)
Definition P0 (v : vol) : Prop := wi v = ri v -> qsize v = 0%Z /\ cdi v = [].

Lemma q_reenqueue todo : forall v st dels errc,
  Cq v st ->
  wp false T (reenqueue c v todo dels errc) st
     (fun y st' => Cq (fst y) st' /\ ri (fst y) = ri v /\ di_of st' = di_of st /\
                   stopped (fst y) = stopped v /\ wi v <= wi (fst y) /\
                   (wi (fst y) - wi v) + N.of_nat (length (cdi (fst y))) <=
                     N.of_nat (length (cdi v)) + N.of_nat (length todo) /\
                   (fits c -> P0 v -> wi (fst y) = ri (fst y) -> cdi (fst y) = [])).
Proof.
  induction todo as [|[i val] t IH]; intros v st dels errc HC; cbn [reenqueue].
  - cbn [wp]. split; [exact I|]. rewrite apply_dels. cbn [fst].
    split; [|repeat split; auto; try lia].
    + destruct HC as (A & B & C). repeat split; auto.
    + intros _ HP Hw. now destruct (HP Hw).
  - assert (Skip : wp false T (reenqueue c v t (dels ++ [i]) errc) st
       (fun y st' => Cq (fst y) st' /\ ri (fst y) = ri v /\ di_of st' = di_of st /\
                   stopped (fst y) = stopped v /\ wi v <= wi (fst y) /\
                   (wi (fst y) - wi v) + N.of_nat (length (cdi (fst y))) <=
                     N.of_nat (length (cdi v)) + N.of_nat (length ((i, val) :: t)) /\
                   (fits c -> P0 v -> wi (fst y) = ri (fst y) -> cdi (fst y) = []))).
    { eapply wp_mono; [intros s0 Hs0; exact Hs0| |apply (IH v st (dels ++ [i]) errc HC)].
      intros y st' (H1 & H2 & H3 & H4 & H5 & H6 & H7).
      split; [exact H1|]. split; [exact H2|]. split; [exact H3|]. split; [exact H4|]. split; [exact H5|].
      split; [cbn [length]; lia|exact H7]. }
    destruct val as [[n|l|r]|]; try exact Skip. clear Skip.
    apply wp_bind. eapply wp_mono; [intros s0 Hs0; exact Hs0| |apply (q_put v st r HC)].
    intros [v' ok] st' H. cbn [fst snd] in H. destruct ok.
    + destruct H as (H1 & H2 & H3 & H4 & H5 & H6). cbn [fst snd].
      eapply wp_mono; [intros s0 Hs0; exact Hs0| |apply (IH v' st' (dels ++ [i]) errc H1)].
      intros y st2 (G1 & G2 & G3 & G4 & G5 & G6 & G7). cbn [length].
      split; [exact G1|]. split; [congruence|]. split; [congruence|]. split; [congruence|].
      split; [lia|]. split; [rewrite H4 in G6; lia|].
      intros Hf HP Hw. apply G7; auto. intros Hw'. destruct HC as (_ & _ & Hle). lia.
    + destruct H as (-> & -> & Hfull). cbn [fst snd].
      set (v2 := set_cdi v (cdi v ++ [i])).
      assert (HC2 : Cq v2 st) by (eapply Cq_ext; [| |exact HC]; reflexivity).
      eapply wp_mono; [intros s0 Hs0; exact Hs0| |apply (IH v2 st dels (S errc) HC2)].
      intros y st2 (G1 & G2 & G3 & G4 & G5 & G6 & G7). cbn [length].
      split; [exact G1|]. split; [exact G2|]. split; [exact G3|]. split; [exact G4|].
      split; [exact G5|]. split.
      { unfold v2 in G6. cbn [cdi set_cdi wi] in G6. rewrite app_length in G6. cbn [length] in G6. lia. }
      intros Hf HP Hw. apply G7; auto.
      intros Hw'. unfold v2 in Hw'. cbn [wi ri set_cdi] in Hw'. destruct (HP Hw') as [Hq _].
      specialize (Hf r). lia.
Qed.

Lemma q_initStorage st :
  wp false T (initStorage c) st
     (fun v st' => st' = st /\ eff st = (ri v, wi v) /\ cdi v = [] /\ stopped v = false /\ P0 v).
Proof.
  unfold initStorage. cbn [wp].
  change (fst (apply_ops [GetIdx KRi; GetIdx KWi] st)) with st.
  change (snd (apply_ops [GetIdx KRi; GetIdx KWi] st)) with [option_map VIdx (s_ri st); option_map VIdx (s_wi st)].
  split; [exact I|]. rewrite res_idx0, res_idx1.
  set (rw := match s_ri st with
             | Some r => match s_wi st with Some w => (r, w) | None => (0, 0) end
             | None => match s_wi st with Some w => (0, w) | None => (0, 0) end
             end).
  assert (Erw : eff st = rw) by (unfold eff, rw; destruct (s_ri st), (s_wi st); reflexivity).
  destruct rw as [r w].
  destruct (0 <? w - r) eqn:E0; cbn [andb].
  - apply N.ltb_lt in E0. destruct (negb (reqSized c)).
    + cbn [wp]. change (fst (apply_ops [GetIdx KSi] st)) with st. split; [exact I|].
      split; [reflexivity|]. split; [exact Erw|]. split; [reflexivity|]. split; [reflexivity|]. intros Hw. cbn [wi ri] in Hw. lia.
    + cbn [wp]. split; [reflexivity|]. split; [exact Erw|]. split; [reflexivity|]. split; [reflexivity|]. intros Hw. cbn [wi ri] in Hw. lia.
  - apply N.ltb_ge in E0. cbn [wp]. split; [reflexivity|]. split; [exact Erw|]. split; [reflexivity|]. split; [reflexivity|]. intros Hw. split; [cbn [qsize]; lia|reflexivity].
Qed.

Lemma combine_map_length {A B} (f : A -> B) (l : list A) : length (combine l (map f l)) = length l.
Proof. rewrite combine_length, map_length. lia. Qed.

(* the whole of initClient, quantitatively *)
Definition init_post (st : store) (y : vol * nat) (st' : store) : Prop :=
  Cq (fst y) st' /\ ri (fst y) = fst (eff st) /\ snd (eff st) <= wi (fst y) /\
  di_of st' = di_of st /\ stopped (fst y) = false /\
  (wi (fst y) - snd (eff st)) + N.of_nat (length (cdi (fst y))) <= N.of_nat (mu st) /\
  (fits c -> wi (fst y) = ri (fst y) -> cdi (fst y) = []).

Lemma q_initClient st : wf_store st -> wp false T (initClient c) st (init_post st).
Proof.
  intros (Hle & Hwn & Hdi). unfold initClient. apply wp_bind.
  eapply wp_mono; [intros s0 Hs0; exact Hs0| |apply (q_initStorage st)].
  intros v st' (-> & He & Hc & Hs & HP). rewrite He in *. cbn [fst snd] in *.
  assert (HC : Cq v st) by (repeat split; auto).
  unfold retrieveAndEnqueue. cbn [wp].
  change (fst (apply_ops [GetDi] st)) with st.
  change (snd (apply_ops [GetDi] st)) with [option_map VArr (s_di st)].
  split; [exact I|]. unfold res_arr. cbn [nth_error].
  assert (Empty : init_post st (v, 0%nat) st).
  { unfold init_post. rewrite He. cbn [fst snd]. rewrite Hc. cbn [length].
    repeat split; auto; try apply HC; lia. }
  destruct (s_di st) as [di|] eqn:Ed; cbn [option_map]; [|exact Empty].
  destruct di as [|d0 di']; [exact Empty|].
  set (di := d0 :: di') in *.
  cbn [wp]. rewrite apply_gets. cbn [fst snd]. split; [exact I|].
  eapply wp_mono; [intros s0 Hs0; exact Hs0| |apply (q_reenqueue _ v st [] 0%nat HC)].
  intros y st' (G1 & G2 & G3 & G4 & G5 & G6 & G7). unfold init_post. rewrite He. cbn [fst snd].
  split; [exact G1|]. split; [exact G2|]. split; [exact G5|]. split; [exact G3|]. split; [congruence|].
  split.
  - rewrite combine_map_length, Hc in G6. cbn [length] in G6. unfold mu, di_of. rewrite Ed. fold di. lia.
  - intros Hf. now apply G7.
Qed.

(* ---- the drain loop ---- *)
Lemma q_finish v st index :
  Cq v st ->
  wp false T (itemDispatchingFinish v index) st
     (fun v' st' => Cq v' st' /\ ri v' = ri v /\ wi v' = wi v /\ stopped v' = stopped v /\
                    qsize v' = qsize v /\
                    cdi v' = swap_remove index (cdi v) /\ di_of st' = cdi v').
Proof.
  intros (A & B & C). unfold itemDispatchingFinish. cbn [wp]. split; [exact I|].
  change (fst (apply_ops [SetDi (swap_remove index (cdi v)); DelItem index] st))
    with (fin_store st (swap_remove index (cdi v)) index).
  repeat split; auto.
Qed.

Definition gn_post (v : vol) (y : vol * option (N * N)) (st' : store) : Prop :=
  Cq (fst y) st' /\ ri (fst y) = ri v + 1 /\ wi (fst y) = wi v /\ stopped (fst y) = stopped v /\
  di_of st' = cdi (fst y) /\
  match snd y with
  | Some (i, r) => In i (cdi (fst y)) /\ length (cdi (fst y)) = S (length (cdi v))
  | None => length (cdi (fst y)) = length (cdi v)
  end.

Lemma q_getNext v st : Cq v st -> ri v < wi v -> wp false T (getNextItem v) st (gn_post v).
Proof.
  intros HC Hlt. destruct HC as (A & B & C). unfold getNextItem. cbn [wp]. split; [exact I|].
  change (fst (apply_ops [SetIdx KRi (ri (set_ri_cdi v (ri v + 1) (cdi v ++ [ri v])));
                          SetDi (cdi (set_ri_cdi v (ri v + 1) (cdi v ++ [ri v]))); GetItem (ri v)] st))
    with (next_store st v).
  change (snd (apply_ops [SetIdx KRi (ri (set_ri_cdi v (ri v + 1) (cdi v ++ [ri v])));
                          SetDi (cdi (set_ri_cdi v (ri v + 1) (cdi v ++ [ri v]))); GetItem (ri v)] st))
    with ([None; None; option_map VBody (iget (ri v) (s_items st))] : list (option val)).
  fold (next_vol v).
  destruct (eff_next st v A Hlt) as [En Hw].
  assert (HC1 : Cq (next_vol v) (next_store st v)).
  { split; [exact En|]. split; [intros H; cbn in H; congruence|cbn; lia]. }
  unfold res_body. cbn [nth_error].
  destruct (iget (ri v) (s_items st)) as [r|]; cbn [option_map].
  - cbn [wp]. unfold gn_post. cbn [fst snd]. split; [eapply Cq_ext; [| |exact HC1]; reflexivity|].
    repeat split; auto.
    + cbn. apply in_app_iff. right. now left.
    + cbn. rewrite app_length. cbn. lia.
  - apply wp_bind. eapply wp_mono; [intros s0 Hs0; exact Hs0| |apply (q_finish (next_vol v) (next_store st v) (ri v) HC1)].
    intros v2 st2 (G1 & G2 & G3 & G4 & G5 & G6 & G7). cbn [wp]. unfold gn_post. cbn [fst snd].
    split; [exact G1|]. split; [exact G2|]. split; [exact G3|]. split; [exact G4|]. split; [exact G7|].
    rewrite G6. cbn [next_vol set_ri_cdi cdi].
    assert (Hin : In (ri v) (cdi v ++ [ri v])) by (apply in_app_iff; right; now left).
    pose proof (swap_remove_length _ _ Hin) as L. rewrite app_length in L. cbn [length] in L. lia.
Qed.

Definition rl_post (v : vol) (y : vol * rres) (st' : store) : Prop :=
  Cq (fst y) st' /\ wi (fst y) = wi v /\ stopped (fst y) = stopped v /\ ri v < ri (fst y) /\
  di_of st' = cdi (fst y) /\
  match snd y with
  | RItem i r => In i (cdi (fst y)) /\ length (cdi (fst y)) = S (length (cdi v))
  | RBlock => ri (fst y) = wi (fst y) /\ length (cdi (fst y)) = length (cdi v)
  | RStoppedQ => False
  end.

Lemma q_read_loop fuel : forall v st,
  Cq v st -> (N.to_nat (wi v - ri v) <= fuel)%nat -> ri v < wi v ->
  wp false T (read_loop fuel v) st (rl_post v).
Proof.
  induction fuel as [|f IH]; intros v st HC Hf Hlt; [lia|]. cbn [read_loop].
  destruct (N.eqb_spec (ri v) (wi v)) as [Heq|Hne]; [lia|].
  apply wp_bind. eapply wp_mono; [intros s0 Hs0; exact Hs0| |apply (q_getNext v st HC Hlt)].
  intros [v1 o] st1 (G1 & G2 & G3 & G4 & G5 & G6). cbn [fst snd] in *.
  set (v2 := if N.eqb (ri v1) (wi v1) then set_q v1 0 else v1).
  assert (E1 : ri v2 = ri v1 /\ wi v2 = wi v1 /\ cdi v2 = cdi v1 /\ stopped v2 = stopped v1)
    by (unfold v2; destruct (N.eqb (ri v1) (wi v1)); auto).
  destruct E1 as (Er & Ew & Ec & Es).
  assert (HC2 : Cq v2 st1) by (eapply Cq_ext; [| |exact G1]; auto).
  destruct o as [[i r]|].
  - cbn [wp]. unfold rl_post. cbn [fst snd]. rewrite Ec. destruct G6 as [G6 G7].
    repeat split; auto; try congruence; try apply HC2; lia.
  - destruct (N.eqb_spec (ri v2) (wi v2)) as [Heq2|Hne2].
    + assert (Hd : read_loop f v2 = Done (v2, RBlock)).
      { destruct f; cbn [read_loop]; rewrite (proj2 (N.eqb_eq _ _) Heq2); reflexivity. }
      rewrite Hd. cbn [wp]. unfold rl_post. cbn [fst snd]. rewrite Ec.
      repeat split; auto; try congruence; try apply HC2; lia.
    + assert (Hlt2 : ri v2 < wi v2) by (destruct HC2 as (_ & _ & L); lia).
      eapply wp_mono; [intros s0 Hs0; exact Hs0| |apply (IH v2 st1 HC2)]; [|lia|exact Hlt2].
      intros [v3 rr] st3 (A1 & A2 & A3 & A4 & A5 & A6). unfold rl_post in *. cbn [fst snd] in *.
      split; [exact A1|]. split; [congruence|]. split; [congruence|]. split; [lia|]. split; [exact A5|].
      rewrite Ec, G6 in A6. exact A6.
Qed.

(* one drain step: Read; Complete 0 OOk (budget None), on the store only *)
Definition step_rel (v : vol) (st : store) (v' : vol) (st' : store) : Prop :=
  Cq v' st' /\ stopped v' = false /\ wi v' = wi v /\
  ((ri v = wi v /\ v' = v /\ st' = st) \/
   (ri v < ri v' /\ di_of st' = cdi v' /\ length (cdi v') = length (cdi v))).

Lemma q_onDone_ok v st i sz :
  Cq v st -> In i (cdi v) ->
  wp false T (onDone c v i sz OOk) st
     (fun v' st' => Cq v' st' /\ ri v' = ri v /\ wi v' = wi v /\ stopped v' = stopped v /\
                    di_of st' = cdi v' /\ S (length (cdi v')) = length (cdi v)).
Proof.
  intros HC Hin. unfold onDone.
  set (v1 := set_q v (Z.max 0 (qsize v - sz))).
  assert (HC1 : Cq v1 st) by (eapply Cq_ext; [| |exact HC]; reflexivity).
  apply wp_bind. eapply wp_mono; [intros s0 Hs0; exact Hs0| |apply (q_finish v1 st i HC1)].
  intros v2 st2 (G1 & G2 & G3 & G4 & G5 & G6 & G7).
  assert (L : S (length (cdi v2)) = length (cdi v)).
  { rewrite G6. cbn [v1 set_q cdi]. now apply swap_remove_length. }
  assert (D : forall st', (st' = st2 \/ exists n, st' = set_ikey KSi n st2) ->
     wp false T (Done (unref v2)) st'
       (fun v' st'0 => Cq v' st'0 /\ ri v' = ri v /\ wi v' = wi v /\ stopped v' = stopped v /\
                    di_of st'0 = cdi v' /\ S (length (cdi v')) = length (cdi v))).
  { intros st' Hst. cbn [wp].
    assert (Cq v2 st' /\ di_of st' = cdi v2) as [X Y].
    { destruct Hst as [->|(n & ->)]; [auto|]. split; [now apply Cq_si|exact G7]. }
    split; [eapply Cq_ext; [| |exact X]; reflexivity|]. repeat split; auto. }
  destruct (N.eqb (ri v2 mod 10) 0); [|apply D; now left].
  apply q_backup. exact D.
Qed.

Lemma drain_step v st evs obs rest :
  Cq v st -> stopped v = false ->
  exists v' st' evs' obs',
    run_script c None st (v, []) (Read :: Complete 0 OOk :: rest) evs obs =
    run_script c None st' (v', []) rest evs' obs' /\ step_rel v st v' st'.
Proof.
  intros HC Hs. cbn [run_script run_op]. unfold readQ. rewrite Hs.
  destruct (N.eqb_spec (ri v) (wi v)) as [Heq|Hne].
  - (* empty: Read would block, Complete has no handle *)
    assert (Hd : read_loop (N.to_nat (wi v - ri v)) v = Done (v, RBlock)).
    { destruct (N.to_nat (wi v - ri v)); cbn [read_loop]; rewrite (proj2 (N.eqb_eq _ _) Heq); reflexivity. }
    rewrite Hd. cbn [bind run_act fst snd nth_error run_op run_script].
    do 4 eexists. split; [reflexivity|]. unfold step_rel. split; [exact HC|]. split; [exact Hs|]. split; [reflexivity|]. left. auto.
  - assert (Hlt : ri v < wi v) by (destruct HC as (_ & _ & L); lia).
    pose proof (q_read_loop (N.to_nat (wi v - ri v)) v st HC (le_n _) Hlt) as HW.
    match goal with |- context [run_act None st ?mm] => set (m := mm) end.
    assert (HW2 : @wp (sstate * res)%type false T m st (fun x st' =>
       let v1 := fst (fst x) in
       Cq v1 st' /\ wi v1 = wi v /\ stopped v1 = false /\ ri v < ri v1 /\ di_of st' = cdi v1 /\
       ((snd (fst x) = [] /\ ri v1 = wi v1 /\ length (cdi v1) = length (cdi v)) \/
        (exists i sz r, snd (fst x) = [(i, sz, r)] /\ In i (cdi v1) /\ length (cdi v1) = S (length (cdi v)))))).
    { unfold m. apply wp_bind. eapply wp_mono; [intros s0 Hs0; exact Hs0| |exact HW].
      intros [v1 rr] st1 (A1 & A2 & A3 & A4 & A5 & A6). cbn [fst snd] in *.
      destruct rr as [i r| |]; cbn [wp fst snd app]; [|destruct A6|].
      - split; [exact A1|]. split; [exact A2|]. split; [congruence|]. split; [exact A4|]. split; [exact A5|]. right. exists i, (sizeof c r), r. destruct A6. auto.
      - split; [exact A1|]. split; [exact A2|]. split; [congruence|]. split; [exact A4|]. split; [exact A5|]. left. destruct A6. auto. }
    destruct (@wpT_run (sstate * res)%type m st _ HW2) as (st1 & x1 & Eq & Q1). rewrite Eq. destruct x1 as [[v1 outs1] res1].
    cbn [fst snd] in Q1. destruct Q1 as (B1 & B2 & B3 & B4 & B5 & B6).
    cbn [run_script run_op].
    destruct B6 as [(-> & B6 & B7)|(i & sz & r & -> & B6 & B7)].
    + cbn [nth_error run_act run_script fst snd].
      do 4 eexists. split; [reflexivity|]. unfold step_rel. split; [exact B1|]. split; [exact B3|]. split; [exact B2|]. right. auto.
    + cbn [nth_error].
      pose proof (q_onDone_ok v1 st1 i sz B1 B6) as HW3.
      match goal with |- context [run_act None st1 ?mm] => set (m2 := mm) end.
      assert (HW4 : @wp (sstate * res)%type false T m2 st1 (fun x st' =>
         let v2 := fst (fst x) in snd (fst x) = [] /\
         Cq v2 st' /\ ri v2 = ri v1 /\ wi v2 = wi v1 /\ stopped v2 = stopped v1 /\
         di_of st' = cdi v2 /\ S (length (cdi v2)) = length (cdi v1))).
      { unfold m2. apply wp_bind. eapply wp_mono; [intros s0 Hs0; exact Hs0| |exact HW3]. intros v2 st2 H. cbn [wp fst snd remove_nth]. auto. }
      destruct (@wpT_run (sstate * res)%type m2 st1 _ HW4) as (st2 & x2 & Eq2 & Q2). rewrite Eq2. destruct x2 as [[v2 outs2] res2].
      cbn [fst snd] in Q2. destruct Q2 as (-> & C1 & C2 & C3 & C4 & C5 & C6).
      cbn [run_script].
      do 4 eexists. split; [reflexivity|]. unfold step_rel. split; [exact C1|]. split; [congruence|]. split; [congruence|].
      right. split; [lia|]. split; [exact C5|lia].
Qed.

(* n drain steps with n >= wi - ri: the range is empty afterwards *)
Lemma drain_loop n : forall v st evs obs,
  Cq v st -> stopped v = false -> (N.to_nat (wi v - ri v) <= n)%nat ->
  let st' := i_store (run_script c None st (v, []) (drain_script n) evs obs) in
  rng st' = 0 /\
  ((ri v = wi v /\ st' = st) \/ (ri v < wi v /\ mu st' = length (cdi v))).
Proof.
  induction n as [|n IH]; intros v st evs obs HC Hs Hn; cbn [drain_script].
  - cbn [run_script i_store]. destruct HC as (A & B & C). unfold rng. rewrite A. cbn [fst snd].
    split; [lia|]. left. split; [lia|reflexivity].
  - destruct (drain_step v st evs obs (drain_script n) HC Hs) as (v' & st' & evs' & obs' & Eq & SR).
    rewrite Eq. destruct SR as (C1 & C2 & C3 & C4).
    destruct C4 as [(D1 & -> & ->)|(D1 & D2 & D3)].
    + apply IH; auto. lia.
    + assert (Hn' : (N.to_nat (wi v' - ri v') <= n)%nat) by lia.
      destruct (IH v' st' evs' obs' C1 C2 Hn') as (R1 & R2). split; [exact R1|]. right.
      assert (ri v < wi v) by (destruct C1 as (_ & _ & L); lia). split; [assumption|].
      destruct R2 as [(E1 & ->)|(E1 & E2)].
      * unfold mu. rewrite D2. exact D3.
      * rewrite E2. exact D3.
Qed.

End Quant.

(* ------------------------------------------------------------------------------------------- *)
(* one clean drain incarnation                                                                 *)
(* ------------------------------------------------------------------------------------------- *)

Lemma drain_incarnation c E st n :
  Icr E st -> fits c -> (N.to_nat (rng st) + mu st <= n)%nat ->
  let st' := i_store (incarnation c st (drain_script n) None) in
  rng st' = 0 /\ (mu st' <= mu st)%nat /\
  (rng st = 0 -> nothing_durable st' \/ (mu st' < mu st)%nat).
Proof.
  intros HI Hf Hn. unfold incarnation.
  assert (FH : fin_hand E) by apply HI.
  assert (W : wf_store st) by apply HI.
  pose proof (wp_run _ _ _ st _ None HI (spec_initClient c E FH st HI)) as R1.
  destruct (wp_total T _ st _ (q_initClient c st W)) as (st1 & [v errc] & Er & R2).
  rewrite Er in *.
  unfold init_post in R2. cbn [fst snd] in R1, R2. destruct R2 as (Q1 & Q2 & Q3 & Q4 & Q5 & Q6 & Q7).
  destruct W as (Wle & _ & _).
  assert (Hfuel : (N.to_nat (wi v - ri v) <= n)%nat) by (unfold rng, mu in *; lia).
  destruct (drain_loop c n v st1 [] [] Q1 Q5 Hfuel) as (D1 & D2).
  split; [exact D1|].
  destruct D2 as [(Heq & Est)|(Hlt & Emu)].
  - rewrite Est. split; [unfold mu; rewrite Q4; lia|]. intros _. left.
    intros r (i & Hb & [Hr|Hd]).
    + destruct Q1 as (A & _ & _). rewrite A in Hr. cbn [fst snd] in Hr. lia.
    + destruct R1 as [C _]. pose proof (c_dic _ _ _ C i Hd) as X. rewrite (Q7 Hf (eq_sym Heq)) in X.
      apply X. congruence.
  - rewrite Emu. split; [unfold mu in *; lia|]. intros Hr0. right. unfold rng, mu in *. lia.
Qed.

(* drain scripts accept nothing *)
Fixpoint no_offer (ops : list op) : bool :=
  match ops with [] => true | Offer _ :: _ => false | _ :: t => no_offer t end.

Lemma no_offer_drain n : no_offer (drain_script n) = true.
Proof. induction n; simpl; auto. Qed.

Lemma script_no_accept c ops : forall b st s evs obs,
  no_offer ops = true ->
  accepted (i_events (run_script c b st s ops evs obs)) = accepted evs.
Proof.
  induction ops as [|o ops IH]; intros b st s evs obs Hn; cbn [run_script]; [reflexivity|].
  assert (Hpre : accepted (evs ++ pre_events s o) = accepted evs).
  { rewrite accepted_app. destruct o as [x| |k oc|]; cbn [pre_events]; try now rewrite app_nil_r.
    destruct oc; try now rewrite app_nil_r.
    all: destruct (nth_error (snd s) k) as [[[? ?] ?]|]; cbn; now rewrite app_nil_r. }
  destruct (run_act b st (run_op c s o)) as [[st1 b1] [[s1 r]|]].
  - rewrite IH by (destruct o; try discriminate; exact Hn).
    rewrite accepted_app, Hpre. destruct o as [x| |k oc|]; [discriminate| | |];
      destruct r; cbn; now rewrite app_nil_r.
  - cbn [i_events]. exact Hpre.
Qed.

Lemma drain_inc_no_accept c st n b : accepted (i_events (incarnation c st (drain_script n) b)) = [].
Proof.
  unfold incarnation. destruct (run_act b st (initClient c)) as [[st1 b1] [[v errc]|]]; [|reflexivity].
  rewrite script_no_accept; [reflexivity|apply no_offer_drain].
Qed.


Lemma drains_no_accept c n k : forall st, accepted (snd (run_history c st (drains n k))) = [].
Proof.
  induction k as [|k IH]; intros st; [reflexivity|]. cbn [drains repeat run_history].
  fold (drains n k). specialize (IH (i_store (incarnation c st (drain_script n) None))).
  destruct (run_history c (i_store (incarnation c st (drain_script n) None)) (drains n k)) as [st' evs].
  cbn [snd] in *. now rewrite accepted_app, drain_inc_no_accept, IH.
Qed.

Lemma run_history_app c h1 : forall st h2,
  run_history c st (h1 ++ h2) =
  (fst (run_history c (fst (run_history c st h1)) h2),
   snd (run_history c st h1) ++ snd (run_history c (fst (run_history c st h1)) h2)).
Proof.
  induction h1 as [|[sc b] t IH]; intros st h2; cbn [app run_history].
  - cbn [fst snd]. now destruct (run_history c st h2).
  - rewrite IH. destruct (run_history c (i_store (incarnation c st sc b)) t) as [st1 e1]. cbn [fst snd].
    now rewrite app_assoc.
Qed.

(* after the first drain (range empty): every further drain shortens "di" or nothing is left *)
Lemma drains_deliver c n : fits c -> forall k st E,
  Icr E st -> rng st = 0 -> (mu st < k)%nat -> (mu st <= n)%nat ->
  forall r, In r (accepted (E ++ snd (run_history c st (drains n k)))) ->
            In r (finals (E ++ snd (run_history c st (drains n k)))).
Proof.
  intros Hf. induction k as [|k IH]; intros st E HI Hr0 Hk Hn r; [lia|].
  cbn [drains repeat run_history]. fold (drains n k).
  set (inc := incarnation c st (drain_script n) None).
  pose proof (incarnation_inv c st (drain_script n) None E HI) as HI'. fold inc in HI'.
  assert (Hn' : (N.to_nat (rng st) + mu st <= n)%nat) by lia.
  destruct (drain_incarnation c E st n HI Hf Hn') as (D1 & D2 & D3). fold inc in D1, D2, D3.
  specialize (D3 Hr0).
  destruct (run_history c (i_store inc) (drains n k)) as [st' evs] eqn:Eh. cbn [snd].
  rewrite app_assoc.
  destruct D3 as [ND|Lt].
  - (* nothing durable: everything accepted so far is final; later drains accept nothing *)
    pose proof (drains_no_accept c n k (i_store inc)) as NA. rewrite Eh in NA. cbn [snd] in NA.
    rewrite accepted_app, NA, app_nil_r, finals_app. intros Hin. apply in_app_iff. left.
    destruct HI' as (_ & G & F). destruct (G r Hin) as [Fi|D]; [exact Fi|destruct (ND r D)].
  - specialize (IH (i_store inc) (E ++ i_events inc) HI' D1). rewrite Eh in IH. cbn [snd] in IH.
    apply IH; lia.
Qed.

(* every accepted request reaches a FINAL outcome (hence, in particular, a hand-off) *)
Lemma all_final_after_drains_l c h n k :
  fits c ->
  (pending (fst (run_history c store0 h)) <= n)%nat ->
  (length (di_of (fst (run_history c store0 h))) + 2 <= k)%nat ->
  forall r, In r (accepted (snd (run_history c store0 (h ++ drains n k)))) ->
            In r (finals (snd (run_history c store0 (h ++ drains n k)))).
Proof.
  intros Hf Hn Hk r. rewrite run_history_app. cbn [snd].
  pose proof (history_inv c h store0 [] Icr_store0) as HI. cbn [app] in HI.
  set (st := fst (run_history c store0 h)) in *. set (E := snd (run_history c store0 h)) in *.
  destruct k as [|k]; [lia|]. cbn [drains repeat run_history]. fold (drains n k).
  set (inc := incarnation c st (drain_script n) None).
  pose proof (incarnation_inv c st (drain_script n) None E HI) as HI'. fold inc in HI'.
  assert (Hn' : (N.to_nat (rng st) + mu st <= n)%nat) by (unfold pending, rng, mu in *; exact Hn).
  destruct (drain_incarnation c E st n HI Hf Hn') as (D1 & D2 & _). fold inc in D1, D2.
  pose proof (drains_deliver c n Hf k (i_store inc) (E ++ i_events inc) HI' D1) as X.
  destruct (run_history c (i_store inc) (drains n k)) as [st' evs]. cbn [snd] in *.
  rewrite app_assoc. apply X; unfold mu in *; lia.
Qed.

(* first sentence of the property: at least once, for every history *)
Lemma at_least_once_l c h n k :
  fits c ->
  (pending (fst (run_history c store0 h)) <= n)%nat ->
  (length (di_of (fst (run_history c store0 h))) + 2 <= k)%nat ->
  forall r, In r (accepted (snd (run_history c store0 (h ++ drains n k)))) ->
            In r (handoffs (snd (run_history c store0 (h ++ drains n k)))).
Proof.
  intros Hf Hn Hk r Hr. apply final_was_handed_l. now apply (all_final_after_drains_l c h n k).
Qed.

Lemma drain_progress_l c h n :
  fits c ->
  let st := fst (run_history c store0 h) in
  (pending st <= n)%nat ->
  let st' := i_store (incarnation c st (drain_script n) None) in
  fst (eff st') = snd (eff st') /\
  (length (di_of st') <= length (di_of st))%nat /\
  (fst (eff st) = snd (eff st) -> nothing_durable st' \/ (length (di_of st') < length (di_of st))%nat).
Proof.
  intros Hf st Hn st'.
  pose proof (history_inv c h store0 [] Icr_store0) as HI. cbn [app] in HI. fold st in HI.
  assert (Hn' : (N.to_nat (rng st) + mu st <= n)%nat) by (unfold pending, rng, mu in *; exact Hn).
  destruct (drain_incarnation c _ st n HI Hf Hn') as (D1 & D2 & D3). fold st' in D1, D2, D3.
  pose proof (incarnation_inv c st (drain_script n) None _ HI) as ((W & _) & _). fold st' in W.
  unfold rng, mu in *. split; [lia|]. split; [exact D2|].
  intros He. apply D3. destruct HI as ((W0 & _) & _). lia.
Qed.

(* start-up recovery always completes when the process does not die (it never waits for queue space) *)
Lemma recovery_never_parks_l c st :
  wf_store st -> exists st1 v errc, run_act None st (initClient c) = (st1, None, Some (v, errc)).
Proof.
  intros W. destruct (wp_total T _ st _ (q_initClient c st W)) as (st1 & [v errc] & E & _). eauto.
Qed.
