(* C01/Proofs4.v — the stored indexes never decrease (as a restart decodes them), at any crash
   point of any history.  Same wp calculus, invariant "lower bound <= eff st". *)
From Verif Require Import Common.Base C01.Model C01.Spec C01.Proofs1 C01.Proofs2 C01.Proofs3.

Local Open Scope N_scope.

Definition eff_le (a b : N * N) : Prop := fst a <= fst b /\ snd a <= snd b.
Definition M (lb : N * N) (st : store) : Prop := eff_le lb (eff st).
Definition Mq (lb : N * N) (v : vol) (st : store) : Prop := Cq v st /\ fst lb <= ri v /\ snd lb <= wi v.

Lemma Mq_M lb v st : Mq lb v st -> M lb st.
Proof. intros ((A & _ & _) & B & C). unfold M, eff_le. rewrite A. auto. Qed.

Lemma Mq_si lb v st n : Mq lb v st -> Mq lb v (set_ikey KSi n st).
Proof. intros (A & B). split; [now apply Cq_si|exact B]. Qed.

Lemma Mq_ext lb v v' st : ri v' = ri v -> wi v' = wi v -> Mq lb v st -> Mq lb v' st.
Proof. intros E1 E2 (A & B). split; [eapply Cq_ext; eauto|]. now rewrite E1, E2. Qed.

Section Mono.
Variable c : cfg.
Variable lb : N * N.

Lemma m_backup {A} v st (k : act A) (Q : A -> store -> Prop) v0 :
  Mq lb v st -> (forall st', Mq lb v st' -> wp true (M lb) k st' Q) -> wp true (M lb) (backup c v0 k) st Q.
Proof.
  intros HM Hk. unfold backup. destruct (reqSized c); [now apply Hk|].
  cbn [wp]. pose proof (Mq_si lb v st (Z.to_N (qsize v0)) HM) as H2.
  split; [eapply Mq_M; exact H2|now apply Hk].
Qed.

Lemma m_put v st x :
  Mq lb v st -> wp true (M lb) (putInternal c v x) st (fun y st' => Mq lb (fst y) st' /\ cdi (fst y) = cdi v).
Proof.
  intros HM.
  apply (wp_put c true (M lb) (fun v' st' => Mq lb v' st' /\ cdi v' = cdi v)).
  - intros v' st' (H & _). eapply Mq_M; eauto.
  - intros v' st' n (H & E). split; [now apply Mq_si|exact E].
  - intros q. destruct HM as ((A & B & C) & D & E). split; [|reflexivity]. split; [|cbn; split; lia].
    split; [|split; [discriminate|cbn; lia]]. rewrite eff_put by exact B. now rewrite A.
  - intros _. cbn [fst]. auto.
  - intros q st' H _ _. cbn [fst]. exact H.
Qed.

Lemma m_finish v st index :
  Mq lb v st -> wp true (M lb) (itemDispatchingFinish v index) st (fun v' st' => Mq lb v' st').
Proof.
  intros HM. unfold itemDispatchingFinish. cbn [wp].
  change (fst (apply_ops [SetDi (swap_remove index (cdi v)); DelItem index] st))
    with (fin_store st (swap_remove index (cdi v)) index).
  assert (H2 : Mq lb (set_cdi v (swap_remove index (cdi v))) (fin_store st (swap_remove index (cdi v)) index)).
  { destruct HM as ((A & B & C) & D). split; [|exact D]. repeat split; auto. }
  split; [eapply Mq_M; exact H2|exact H2].
Qed.

Lemma m_getNext v st :
  Mq lb v st -> ri v < wi v -> wp true (M lb) (getNextItem v) st (fun y st' => Mq lb (fst y) st').
Proof.
  intros HM Hlt. destruct HM as ((A & B & C) & D & E). unfold getNextItem. cbn [wp].
  change (fst (apply_ops [SetIdx KRi (ri (set_ri_cdi v (ri v + 1) (cdi v ++ [ri v])));
                          SetDi (cdi (set_ri_cdi v (ri v + 1) (cdi v ++ [ri v]))); GetItem (ri v)] st))
    with (next_store st v).
  change (snd (apply_ops [SetIdx KRi (ri (set_ri_cdi v (ri v + 1) (cdi v ++ [ri v])));
                          SetDi (cdi (set_ri_cdi v (ri v + 1) (cdi v ++ [ri v]))); GetItem (ri v)] st))
    with ([None; None; option_map VBody (iget (ri v) (s_items st))] : list (option val)).
  fold (next_vol v).
  destruct (eff_next st v A Hlt) as [En Hw].
  assert (H1 : Mq lb (next_vol v) (next_store st v)).
  { split; [|cbn; split; lia]. split; [exact En|]. split; [intros H; cbn in H; congruence|cbn; lia]. }
  split; [eapply Mq_M; exact H1|].
  unfold res_body. cbn [nth_error].
  destruct (iget (ri v) (s_items st)) as [r|]; cbn [option_map].
  - cbn [wp fst]. eapply Mq_ext; [| |exact H1]; reflexivity.
  - apply wp_bind. eapply wp_mono; [intros s0 Hs0; exact Hs0| |apply (m_finish _ _ (ri v) H1)].
    intros v2 st2 H2. cbn [wp fst]. exact H2.
Qed.

Lemma m_read_loop fuel : forall v st,
  Mq lb v st -> wp true (M lb) (read_loop fuel v) st (fun y st' => Mq lb (fst y) st').
Proof.
  induction fuel as [|f IH]; intros v st HM; cbn [read_loop].
  - destruct (N.eqb (ri v) (wi v)); cbn [wp fst]; exact HM.
  - destruct (N.eqb_spec (ri v) (wi v)) as [Heq|Hne]; [cbn [wp fst]; exact HM|].
    assert (Hlt : ri v < wi v) by (destruct HM as ((_ & _ & L) & _); lia).
    apply wp_bind. eapply wp_mono; [intros s0 Hs0; exact Hs0| |apply (m_getNext v st HM Hlt)].
    intros [v1 o] st1 H1. cbn [fst snd] in *.
    set (v2 := if N.eqb (ri v1) (wi v1) then set_q v1 0 else v1).
    assert (H2 : Mq lb v2 st1).
    { unfold v2. destruct (N.eqb (ri v1) (wi v1)); [|exact H1]. eapply Mq_ext; [| |exact H1]; reflexivity. }
    destruct o as [[i r]|]; [cbn [wp fst]; exact H2|]. now apply IH.
Qed.

Lemma m_onDone v st index sz oc :
  Mq lb v st -> wp true (M lb) (onDone c v index sz oc) st (fun v' st' => Mq lb v' st').
Proof.
  intros HM. unfold onDone.
  set (v1 := set_q v (Z.max 0 (qsize v - sz))).
  assert (H1 : Mq lb v1 st) by (eapply Mq_ext; [| |exact HM]; reflexivity).
  assert (Fin : forall v2 st2, Mq lb v2 st2 ->
     wp true (M lb) (if N.eqb (ri v2 mod 10) 0 then backup c v2 (Done (unref v2)) else Done (unref v2)) st2
        (fun v' st' => Mq lb v' st')).
  { intros v2 st2 H2.
    assert (D : forall st', Mq lb v2 st' -> wp true (M lb) (Done (unref v2)) st' (fun v' st' => Mq lb v' st')).
    { intros st' H'. cbn [wp]. eapply Mq_ext; [| |exact H']; reflexivity. }
    destruct (N.eqb (ri v2 mod 10) 0); [|now apply D]. eapply m_backup; eauto. }
  destruct oc.
  - apply wp_bind. eapply wp_mono; [intros s0 Hs0; exact Hs0| |apply (m_finish v1 st index H1)].
    intros v2 st2 H2. now apply Fin.
  - apply wp_bind. eapply wp_mono; [intros s0 Hs0; exact Hs0| |apply (m_finish v1 st index H1)].
    intros v2 st2 H2. now apply Fin.
  - cbn [wp]. eapply Mq_ext; [| |exact H1]; reflexivity.
Qed.

Lemma m_run_op v outs st o :
  Mq lb v st -> wp true (M lb) (run_op c (v, outs) o) st (fun x st' => Mq lb (fst (fst x)) st').
Proof.
  intros HM. destruct o as [x| |k oc|]; cbn [run_op].
  - destruct (too_large c x); [cbn [wp fst]; exact HM|].
    destruct (would_wait c v x); [cbn [wp fst]; exact HM|].
    apply wp_bind. eapply wp_mono; [intros s0 Hs0; exact Hs0| |apply (m_put v st x HM)].
    intros y st' (H & _). cbn [wp fst]. exact H.
  - apply wp_bind. unfold readQ. destruct (stopped v); [cbn [wp fst snd]; exact HM|].
    eapply wp_mono; [intros s0 Hs0; exact Hs0| |apply (m_read_loop _ v st HM)].
    intros [v' rr] st' H. cbn [fst snd] in *. destruct rr; cbn [wp fst]; exact H.
  - destruct (nth_error outs k) as [[[i sz] r]|]; [|cbn [wp fst]; exact HM].
    apply wp_bind. eapply wp_mono; [intros s0 Hs0; exact Hs0| |apply (m_onDone v st i sz oc HM)].
    intros v' st' H. cbn [wp fst]. exact H.
  - apply wp_bind. unfold shutdownQ. eapply m_backup; [exact HM|].
    intros st' H. cbn [wp fst]. eapply Mq_ext; [| |exact H]; reflexivity.
Qed.

Lemma m_script ops : forall b st v outs evs obs,
  Mq lb v st -> M lb (i_store (run_script c b st (v, outs) ops evs obs)).
Proof.
  induction ops as [|o ops IH]; intros b st v outs evs obs HM; cbn [run_script].
  - cbn [i_store]. eapply Mq_M; eauto.
  - pose proof (wp_run _ _ _ st _ b (Mq_M _ _ _ HM) (m_run_op v outs st o HM)) as HR.
    destruct (run_act b st (run_op c (v, outs) o)) as [[st1 b1] [[[v1 outs1] r]|]].
    + cbn [fst] in HR. now apply IH.
    + cbn [i_store]. exact HR.
Qed.

Lemma m_reenqueue todo : forall v st dels errc,
  Mq lb v st -> wp true (M lb) (reenqueue c v todo dels errc) st (fun y st' => Mq lb (fst y) st').
Proof.
  induction todo as [|[i val] t IH]; intros v st dels errc HM; cbn [reenqueue].
  - cbn [wp]. rewrite apply_dels. cbn [fst].
    assert (H2 : Mq lb v (set_items (del_all dels (s_items st)) st)).
    { destruct HM as ((A & B & C) & D). split; [|exact D]. repeat split; auto. }
    split; [eapply Mq_M; exact H2|exact H2].
  - destruct val as [[n|l|r]|]; try (now apply IH).
    apply wp_bind. eapply wp_mono; [intros s0 Hs0; exact Hs0| |apply (m_put v st r HM)].
    intros [v' ok] st' (H & _). cbn [fst snd] in *. destruct ok; [now apply IH|].
    apply IH. eapply Mq_ext; [| |exact H]; reflexivity.
Qed.

Lemma m_initClient st :
  wf_store st -> M lb st -> wp true (M lb) (initClient c) st (fun y st' => Mq lb (fst y) st').
Proof.
  intros (Hle & Hwn & _) HM. unfold initClient. apply wp_bind.
  unfold initStorage. cbn [wp].
  change (fst (apply_ops [GetIdx KRi; GetIdx KWi] st)) with st.
  change (snd (apply_ops [GetIdx KRi; GetIdx KWi] st)) with [option_map VIdx (s_ri st); option_map VIdx (s_wi st)].
  split; [exact HM|]. rewrite res_idx0, res_idx1.
  set (rw := match s_ri st with
             | Some r => match s_wi st with Some w => (r, w) | None => (0, 0) end
             | None => match s_wi st with Some w => (0, w) | None => (0, 0) end
             end).
  assert (Erw : eff st = rw) by (unfold eff, rw; destruct (s_ri st), (s_wi st); reflexivity).
  destruct rw as [r w]. rewrite Erw in Hle. cbn [fst snd] in Hle.
  assert (K : forall v, ri v = r -> wi v = w ->
              wp true (M lb) (retrieveAndEnqueue c v) st (fun y st' => Mq lb (fst y) st')).
  { intros v Er Ew.
    assert (HMq : Mq lb v st).
    { unfold M, eff_le in HM. rewrite Erw in HM. cbn [fst snd] in HM. split; [|rewrite Er, Ew; exact HM].
      split; [rewrite Er, Ew; exact Erw|]. split; [exact Hwn|lia]. }
    unfold retrieveAndEnqueue. cbn [wp].
    change (fst (apply_ops [GetDi] st)) with st.
    change (snd (apply_ops [GetDi] st)) with [option_map VArr (s_di st)].
    split; [exact HM|]. unfold res_arr. cbn [nth_error].
    destruct (s_di st) as [di|]; cbn [option_map]; [|cbn [wp fst]; exact HMq].
    destruct di as [|d0 di']; [cbn [wp fst]; exact HMq|].
    cbn [wp]. rewrite apply_gets. cbn [fst snd]. split; [exact HM|]. now apply m_reenqueue. }
  destruct ((0 <? w - r) && negb (reqSized c))%bool.
  - cbn [wp]. change (fst (apply_ops [GetIdx KSi] st)) with st. split; [exact HM|]. apply K; reflexivity.
  - cbn [wp]. apply K; reflexivity.
Qed.

Lemma m_incarnation st sc b :
  wf_store st -> M lb st -> M lb (i_store (incarnation c st sc b)).
Proof.
  intros W HM. unfold incarnation.
  pose proof (wp_run _ _ _ st _ b HM (m_initClient st W HM)) as HR.
  destruct (run_act b st (initClient c)) as [[st1 b1] [[v errc]|]].
  - cbn [fst] in HR. now apply m_script.
  - cbn [i_store]. exact HR.
Qed.

End Mono.

Lemma m_history c lb h : forall st E,
  Icr E st -> M lb st -> M lb (fst (run_history c st h)).
Proof.
  induction h as [|[sc b] t IH]; intros st E HI HM; cbn [run_history]; [exact HM|].
  pose proof (incarnation_inv c st sc b E HI) as HI'.
  assert (W : wf_store st) by apply HI.
  pose proof (m_incarnation c lb st sc b W HM) as HM'.
  specialize (IH _ _ HI' HM').
  destruct (run_history c (i_store (incarnation c st sc b)) t) as [st' evs]. exact IH.
Qed.

Lemma indexes_monotone_l c h1 h2 :
  fst (eff (fst (run_history c store0 h1))) <= fst (eff (fst (run_history c store0 (h1 ++ h2)))) /\
  snd (eff (fst (run_history c store0 h1))) <= snd (eff (fst (run_history c store0 (h1 ++ h2)))).
Proof.
  rewrite run_history_app. cbn [fst].
  pose proof (history_inv c h1 store0 [] Icr_store0) as HI. cbn [app] in HI.
  apply (m_history c (eff (fst (run_history c store0 h1))) h2 _ _ HI).
  unfold M, eff_le. split; lia.
Qed.
