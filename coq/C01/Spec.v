(* C01/Spec.v — the predicates in which the property's clauses are stated (definitions only, no
   proofs): durability of a request in a store, the crash invariant, well-formed stores, the
   number of storage calls of an action. *)
From Verif Require Import Common.Base C01.Model.

(* the dispatched list as a restarted process decodes it (missing key = empty) *)
Definition di_of (st : store) : list N := match s_di st with Some l => l | None => [] end.

(* the indexes as a restarted process decodes them (initPersistentContiguousStorage): a write
   index without a read index means "nothing read yet"; no write index means a new queue *)
Definition eff (st : store) : N * N :=
  match s_ri st, s_wi st with
  | Some r, Some w => (r, w)
  | None, Some w => (0%N, w)
  | _, None => (0%N, 0%N)
  end.

(* request id [r] is durable in [st]: its body is stored under an index that a restarted process
   will look at — one in [ri, wi) or one listed under "di" whose body is still stored. *)
Definition durable (st : store) (r : N) : Prop :=
  exists i, iget i (s_items st) = Some r /\
    ((fst (eff st) <= i < snd (eff st))%N \/ In i (di_of st)).

(* executable version, for the Witness examples and the refutations *)
Fixpoint range_has (items : list (N * N)) (a : N) (n : nat) (r : N) : bool :=
  match n with
  | O => false
  | S n' => option_eqb N.eqb (iget a items) (Some r) || range_has items (a + 1)%N n' r
  end.
Definition durableb (st : store) (r : N) : bool :=
  range_has (s_items st) (fst (eff st)) (N.to_nat (snd (eff st) - fst (eff st))) r ||
  existsb (fun i => option_eqb N.eqb (iget i (s_items st)) (Some r)) (di_of st).

Definition mem (r : N) (l : list N) : bool := existsb (N.eqb r) l.

(* the second sentence of the property, as a boolean on (store, ghost events) *)
Definition durable_or_finalb (st : store) (evs : list event) : bool :=
  forallb (fun r => mem r (finals evs) || durableb st r) (accepted evs).

(* a store the queue can have written: ri <= wi (as decoded), no read index without a write index,
   the listed dispatched indexes are below ri.  The empty store is well-formed. *)
Definition wf_store (st : store) : Prop :=
  (fst (eff st) <= snd (eff st))%N /\ (s_wi st = None -> s_ri st = None) /\
  forall i, In i (di_of st) -> (i < fst (eff st))%N.

(* the crash invariant: a predicate on the DURABLE store and the ghost events only *)
Definition ghost_ok (evs : list event) (st : store) : Prop :=
  forall r, In r (accepted evs) -> In r (finals evs) \/ durable st r.
Definition fin_hand (evs : list event) : Prop :=
  forall r, In r (finals evs) -> In r (handoffs evs).
Definition Icr (evs : list event) (st : store) : Prop :=
  wf_store st /\ ghost_ok evs st /\ fin_hand evs.

(* number of storage calls of a complete run of [m] from [st] *)
Fixpoint calls {A} (m : act A) (st : store) : nat :=
  match m with
  | Done _ => O
  | Call ops k => S (calls (k (snd (apply_ops ops st))) (fst (apply_ops ops st)))
  | Block => O
  end.

(* requests pending in a store: queued ones plus listed dispatched ones *)
Definition pending (st : store) : nat :=
  N.to_nat (snd (eff st) - fst (eff st)) + length (di_of st).

(* every request fits into the empty queue (a request that does not is never accepted) *)
Definition fits (c : cfg) : Prop := forall r, (sizeof c r <= capacity c)%Z.

(* k clean drain incarnations: n times (Read; complete it with success), no death *)
Definition drains (n k : nat) : history := repeat (drain_script n, None) k.

Definition nothing_durable (st : store) : Prop := forall r, ~ durable st r.

(* the indexes handed out by the Reads of one incarnation, in order *)
Definition read_idx (obs : list (res * Z)) : list N :=
  flat_map (fun x => match fst x with RRead i _ => [i] | _ => [] end) obs.
