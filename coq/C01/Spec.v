(* C01/Spec.v — the predicates in which the property's clauses are stated (definitions only, no
   proofs): durability of a request in a store, the crash invariant, well-formed stores, the
   number of storage calls of an action, and the side condition of the _partial theorems
   ("no incarnation dies or is refused inside start-up recovery after its delete batch"). *)
From Verif Require Import Common.Base C01.Model.

(* the dispatched list as a restarted process decodes it (missing key = empty) *)
Definition di_of (st : store) : list N := match s_di st with Some l => l | None => [] end.

(* request id [r] is durable in [st]: its body is stored under an index that a restarted process
   will look at — one in [ri, wi) or one listed under "di".  (When "ri" or "wi" is missing the
   code resets both to 0, so the range is empty.) *)
Definition durable (st : store) (r : N) : Prop :=
  exists i, iget i (s_items st) = Some r /\
    ((exists a b, s_ri st = Some a /\ s_wi st = Some b /\ (a <= i < b)%N) \/ In i (di_of st)).

(* executable version, for the Witness examples and the refutations *)
Fixpoint range_has (items : list (N * N)) (a : N) (n : nat) (r : N) : bool :=
  match n with
  | O => false
  | S n' => option_eqb N.eqb (iget a items) (Some r) || range_has items (a + 1)%N n' r
  end.
Definition durableb (st : store) (r : N) : bool :=
  (match s_ri st, s_wi st with
   | Some a, Some b => range_has (s_items st) a (N.to_nat (b - a)) r
   | _, _ => false
   end) || existsb (fun i => option_eqb N.eqb (iget i (s_items st)) (Some r)) (di_of st).

Definition mem (r : N) (l : list N) : bool := existsb (N.eqb r) l.

(* the second sentence of the property, as a boolean on (store, ghost events) *)
Definition durable_or_finalb (st : store) (evs : list event) : bool :=
  forallb (fun r => mem r (finals evs) || durableb st r) (accepted evs).

(* a store on which the queue has already run: both index keys exist, ri <= wi, and the listed
   dispatched indexes are below ri *)
Definition wf_store (st : store) : Prop :=
  exists a b, s_ri st = Some a /\ s_wi st = Some b /\ (a <= b)%N /\
              forall i, In i (di_of st) -> (i < a)%N.

(* the crash invariant: a predicate on the DURABLE store and the ghost events only *)
Definition ghost_ok (evs : list event) (st : store) : Prop :=
  forall r, In r (accepted evs) -> In r (finals evs) \/ durable st r.
Definition fin_hand (evs : list event) : Prop :=
  forall r, In r (finals evs) -> In r (handoffs evs).
Definition Icr (evs : list event) (st : store) : Prop :=
  wf_store st /\ ghost_ok evs st /\ fin_hand evs.

(* number of storage calls of a complete run of [m] from [st] *)
Fixpoint calls {A} (m : act A) (st : store) : nat :=
  match m with
  | Done _ => O
  | Call ops k => S (calls (k (snd (apply_ops ops st))) (fst (apply_ops ops st)))
  end.

Definition is_get (o : sop) : bool :=
  match o with GetIdx _ | GetDi | GetItem _ => true | _ => false end.

(* number of leading storage calls that only read *)
Fixpoint ro_calls {A} (m : act A) (st : store) : nat :=
  match m with
  | Done _ => O
  | Call ops k =>
      if forallb is_get ops then S (ro_calls (k (snd (apply_ops ops st))) (fst (apply_ops ops st))) else O
  end.

(* no body is stored under any listed dispatched index (the list is stale: a previous recovery
   already moved them) — then the delete batch of recovery deletes nothing *)
Definition stale_di (st : store) : bool :=
  forallb (fun i => match iget i (s_items st) with None => true | Some _ => false end) (di_of st).

(* Side condition of the partial theorems for ONE incarnation started on [st] with budget [b]:
   start-up recovery (initClient) either
     - is cut by the death before its first mutating storage call (that call is the delete batch
       of retrieveAndEnqueueNotDispatchedReqs: everything before it only reads), or
     - runs to completion and no re-enqueue is refused (errCount = 0), or
     - finds only stale dispatched entries (nothing to delete).
   The complement is exactly the region of findings F1 (death after the delete batch, before the
   last re-put) and F2 (re-put refused by the capacity check). *)
Definition recovery_safe (c : cfg) (st : store) (b : option nat) : bool :=
  let m := initClient c in
  let completes_clean :=
    match run_act None st m with
    | (_, _, Some (_, errc)) => Nat.eqb errc 0
    | _ => false
    end in
  stale_di st ||
  match b with
  | None => completes_clean
  | Some n => if Nat.ltb n (calls m st) then Nat.leb n (ro_calls m st) else completes_clean
  end.

Fixpoint hist_safe (c : cfg) (st : store) (h : history) : Prop :=
  match h with
  | [] => True
  | (sc, b) :: t => recovery_safe c st b = true /\ hist_safe c (i_store (incarnation c st sc b)) t
  end.

Fixpoint hist_safeb (c : cfg) (st : store) (h : history) : bool :=
  match h with
  | [] => true
  | (sc, b) :: t => recovery_safe c st b && hist_safeb c (i_store (incarnation c st sc b)) t
  end.

(* requests pending in a store: queued ones plus listed dispatched ones *)
Definition pending (st : store) : nat :=
  match s_ri st, s_wi st with
  | Some a, Some b => N.to_nat (b - a) + length (di_of st)
  | _, _ => length (di_of st)
  end.
