(* C01/Properties.v — the property theorems, nothing else.  Each is closed by [exact lemma] and
   followed by Print Assumptions (captured into the evidence by the check driver).
   Model: C01/Model.v (persistent_queue.go as it is now); predicates: C01/Spec.v.
   A history is a list of (script, budget) incarnations run on the same storage contents, the
   budget being the number of storage calls after which the process dies (counted from the first
   call of Start, so deaths inside start-up recovery — also of an incarnation that is itself
   recovering from a death — are included); [run_history c store0 h] starts from the empty store. *)
From Verif Require Import Common.Base C01.Model C01.Spec C01.Proofs1 C01.Proofs2 C01.Proofs3 C01.Proofs4 C01.Proofs5 C01.Proofs6 C01.Proofs7 C01.Checker C01.Proofs8 C01.Proofs9 C01.Harness C01.Proofs10 C01.Proofs11 C01.Translated.
From Verif Require Generated.C01Queue Generated.C01Storage.
From Coq Require Import Sorted Permutation.

(* ---- codecs ---- *)
Theorem codec_roundtrip :
  (forall n, (n < 2 ^ 64)%N -> bytesToItemIndex (Some (itemIndexToBytes n)) = inl n) /\
  (forall l, Forall (fun n => (n < 2 ^ 64)%N) l -> (N.of_nat (length l) < 2 ^ 32)%N ->
             bytesToItemIndexArray (Some (itemIndexArrayToBytes l)) = inl l) /\
  (forall n, (n < 2 ^ 64)%N -> dec_req (Some (enc_req n)) = Some n).
Proof. exact (conj index_roundtrip (conj array_roundtrip req_roundtrip)). Qed.
Print Assumptions codec_roundtrip.

Theorem codec_rejects_exactly : forall buf,
  (bytesToItemIndex buf = inr ErrNotSet <-> buf = None) /\
  (bytesToItemIndex buf = inr ErrInvalid <-> exists b, buf = Some b /\ (length b < 8)%nat) /\
  (bytesToItemIndexArray buf = inr ErrInvalid <->
     exists b, buf = Some b /\ b <> [] /\
       ((length b < 4)%nat \/
        (4 <= length b)%nat /\ le_val (firstn 4 b) <> 0%N /\
        (N.of_nat (length (skipn 4 b)) < le_val (firstn 4 b) * 8)%N)).
Proof.
  exact (fun buf => conj (proj1 (index_decoder_rejects buf))
                         (conj (proj2 (index_decoder_rejects buf)) (array_decoder_rejects buf))).
Qed.
Print Assumptions codec_rejects_exactly.

(* ---- second sentence: a request disappears from storage only after a final hand-off ----
   For EVERY configuration, EVERY history (any number of incarnations, each cut at ANY storage-call
   boundary, recovery included) and every accepted request id r: r has completed a hand-off with a
   final outcome, or r is durable in the store the history leaves behind (its body is stored under
   an index in [ri, wi) or under an index listed in "di").  Every prefix of a history cut at a
   storage-call boundary is itself a history (last budget finite), so this is the invariant at
   every boundary. *)
Theorem pq_durable_or_final : forall c h r,
  In r (accepted (snd (run_history c store0 h))) ->
  In r (finals (snd (run_history c store0 h))) \/ durable (fst (run_history c store0 h)) r.
Proof. exact durable_or_final_l. Qed.
Print Assumptions pq_durable_or_final.

(* the same from any well-formed store (e.g. one written by an earlier version run) *)
Theorem pq_durable_or_final_any_store : forall c st0 h, wf_store st0 -> forall r,
  In r (accepted (snd (run_history c st0 h))) ->
  In r (finals (snd (run_history c st0 h))) \/ durable (fst (run_history c st0 h)) r.
Proof. exact durable_or_final_wf_l. Qed.
Print Assumptions pq_durable_or_final_any_store.

(* a final outcome is only ever reported for a request that was handed off *)
Theorem pq_final_was_handed_off : forall c h r,
  In r (finals (snd (run_history c store0 h))) -> In r (handoffs (snd (run_history c store0 h))).
Proof. exact final_was_handed_l. Qed.
Print Assumptions pq_final_was_handed_off.

(* a hand-off interrupted by shutdown: the completion performs no storage call, the store (body,
   "di" entry) is unchanged and no budget is consumed *)
Theorem pq_shutdown_keeps : forall c v outs k b st,
  exists s', run_act b st (run_op c (v, outs) (Complete k OShutdown)) =
             (st, b, Some (s', RComplete (match nth_error outs k with Some _ => true | None => false end))).
Proof. exact shutdown_keeps_l. Qed.
Print Assumptions pq_shutdown_keeps.

(* the store a history leaves behind is always well-formed: ri <= wi, dispatched indexes below ri *)
Theorem pq_store_wellformed : forall c h, wf_store (fst (run_history c store0 h)).
Proof. exact store_wf_l. Qed.
Print Assumptions pq_store_wellformed.

(* first sentence, safety half: whenever a history leaves nothing durable behind (the queue has
   been drained), every accepted request has been handed to the consumer at least once *)
Theorem pq_at_least_once_when_drained : forall c h,
  (forall r, ~ durable (fst (run_history c store0 h)) r) ->
  forall r, In r (accepted (snd (run_history c store0 h))) -> In r (handoffs (snd (run_history c store0 h))).
Proof. exact drained_all_handed_l. Qed.
Print Assumptions pq_at_least_once_when_drained.

(* first sentence: every accepted request is handed to the consumer at least once, in the current
   or a later incarnation — for EVERY history h (any deaths, also inside recovery, also repeated):
   after h, k clean drain incarnations (each: n times Read + successful completion, no death) hand
   off every accepted request.  n bounds the requests pending in the store h leaves behind; more
   than one drain incarnation is needed because a request whose re-put at start-up is refused by
   the capacity check stays listed under "di" and is moved back by a LATER start (at least one
   per start once the queue is empty): k >= |di| + 2.  [fits c]: every request fits into the empty
   queue (otherwise it is never accepted in the first place).  Holds for every configuration, block_on_overflow
   included (since the repair 7592c5c1e recovery never waits for space: pq_recovery_never_parks). *)
Theorem pq_at_least_once : forall c h n k,
  fits c ->
  (pending (fst (run_history c store0 h)) <= n)%nat ->
  (length (di_of (fst (run_history c store0 h))) + 2 <= k)%nat ->
  forall r, In r (accepted (snd (run_history c store0 (h ++ drains n k)))) ->
            In r (handoffs (snd (run_history c store0 (h ++ drains n k)))).
Proof. exact at_least_once_l. Qed.
Print Assumptions pq_at_least_once.

(* ... stronger: every accepted request reaches a hand-off that COMPLETES WITH A FINAL OUTCOME.  This is what makes
   "a hand-off interrupted by shutdown leaves the request stored for the next start" meaningful: the interrupted
   hand-off does not count, the request is handed off again by a later start until one hand-off is final. *)
Theorem pq_every_accepted_request_gets_a_final_handoff : forall c h n k,
  fits c ->
  (pending (fst (run_history c store0 h)) <= n)%nat ->
  (length (di_of (fst (run_history c store0 h))) + 2 <= k)%nat ->
  forall r, In r (accepted (snd (run_history c store0 (h ++ drains n k)))) ->
            In r (finals (snd (run_history c store0 (h ++ drains n k)))).
Proof. exact all_final_after_drains_l. Qed.
Print Assumptions pq_every_accepted_request_gets_a_final_handoff.

(* the hypothesis [fits] only excludes requests that can never be accepted: every ACCEPTED request fits into the
   empty queue, in every history from every store (the in-memory queue size is never negative) *)
Theorem pq_accepted_request_fits : forall c h st r,
  In r (accepted (snd (run_history c st h))) -> (sizeof c r <= capacity c)%Z.
Proof. exact accepted_fit_history_l. Qed.
Print Assumptions pq_accepted_request_fits.

(* one clean drain incarnation empties the range [ri, wi) and never lengthens "di"; started on an
   empty range it leaves nothing durable or strictly shortens "di" (progress of the retry) *)
Theorem pq_drain_progress : forall c h n,
  fits c ->
  let st := fst (run_history c store0 h) in
  (pending st <= n)%nat ->
  let st' := i_store (incarnation c st (drain_script n) None) in
  fst (eff st') = snd (eff st') /\
  (length (di_of st') <= length (di_of st))%nat /\
  (fst (eff st) = snd (eff st) -> nothing_durable st' \/ (length (di_of st') < length (di_of st))%nat).
Proof. exact drain_progress_l. Qed.
Print Assumptions pq_drain_progress.

(* the stored indexes (as a restart decodes them) never decrease, at any crash point: for every
   history h1 and every continuation h2 (any scripts, any deaths) *)
Theorem pq_indexes_monotone : forall c h1 h2,
  (fst (eff (fst (run_history c store0 h1))) <= fst (eff (fst (run_history c store0 (h1 ++ h2)))))%N /\
  (snd (eff (fst (run_history c store0 h1))) <= snd (eff (fst (run_history c store0 (h1 ++ h2)))))%N.
Proof. exact indexes_monotone_l. Qed.
Print Assumptions pq_indexes_monotone.

(* FIFO inside one incarnation: whatever the store, the script and the death point, the indexes
   handed out by Read are strictly increasing (requests leave in the order of their indexes) *)
Theorem pq_fifo_single_incarnation : forall c st sc b,
  StronglySorted N.lt (read_idx (i_obs (incarnation c st sc b))).
Proof. exact fifo_incarnation_l. Qed.
Print Assumptions pq_fifo_single_incarnation.

(* ---- third sentence, sender side: the retry sender's stop notification is STICKY and seen by every Send ----
   (send_model: retry_sender.go Send as a function of the attempt results and of the moment Shutdown is
   called — before Send, during an export attempt, during a back-off; any number of concurrent Sends see the
   same stop).  Once Shutdown has been called, a Send starts at most one more attempt ... *)
Theorem retry_at_most_one_attempt_after_stop : forall rs s tail n e k,
  send_model rs (Some s) tail n = (e, k) -> rs <> [] -> k <= Nat.max s (S n).
Proof. exact send_at_most_one_more. Qed.
Print Assumptions retry_at_most_one_attempt_after_stop.

(* ... it ends with the context error only if it ended before the shutdown, "no more retries" only if the
   retry budget is exhausted, and never with a shutdown error when there was no shutdown ... *)
Theorem retry_final_ends_are_genuine : forall rs stop tail n,
  (forall s k, stop = Some s -> send_model rs stop tail n = (SendCtxDone, k) -> rs <> [] -> k < s) /\
  (forall k, send_model rs stop tail n = (SendNoMoreRetries, k) -> tail = SendNoMoreRetries) /\
  (stop = None -> tail <> SendStopped -> fst (send_model rs stop tail n) <> SendStopped).
Proof. exact send_final_ends_genuine. Qed.
Print Assumptions retry_final_ends_are_genuine.

(* ... and a hand-off whose attempts all failed with retryable errors and that is overtaken by the shutdown
   (at whatever moment: s <= attempts available) reaches the queue as a SHUTDOWN error — the outcome for which
   the queue performs no storage call (pq_shutdown_keeps) and the request stays durable (pq_durable_or_final). *)
Theorem retry_interrupted_by_shutdown_keeps : forall rs s tail n,
  Forall (fun r => r = ARetryable) rs -> rs <> [] -> s <= n + length rs -> tail <> SendNoMoreRetries ->
  outcome_of_send (fst (send_model rs (Some s) tail n)) = OShutdown.
Proof. exact send_retryable_then_stop. Qed.
Print Assumptions retry_interrupted_by_shutdown_keeps.

(* ---- a hand-off made in several pieces (sending_queue::batch with max_size; refCountDone) ----
   The stored request's Done receives a FINAL outcome only if every piece ended with a final outcome (one piece
   interrupted by shutdown makes the whole hand-off "interrupted": the request stays stored); it receives success
   only if every piece succeeded; the order in which the pieces complete is irrelevant. *)
Theorem split_handoff_final_only_if_all_pieces_final : forall l,
  (combine_outcomes l <> OShutdown <-> Forall (fun o => o <> OShutdown) l) /\
  (combine_outcomes l = OOk <-> Forall (fun o => o = OOk) l).
Proof. exact (fun l => conj (combine_final_iff l) (combine_ok_iff l)). Qed.
Print Assumptions split_handoff_final_only_if_all_pieces_final.

Theorem split_handoff_order_irrelevant : forall l l', Permutation l l' -> combine_outcomes l = combine_outcomes l'.
Proof. exact combine_perm. Qed.
Print Assumptions split_handoff_order_irrelevant.

(* ---- block_on_overflow (repaired finding C01-RECOVERY-BLOCKS) ----
   Start-up recovery always completes when the process does not die: it never waits for queue space, whatever the
   configuration (a request that does not fit back is refused, kept stored and listed). *)
Theorem pq_recovery_never_parks : forall c st,
  wf_store st -> exists st1 v errc, run_act None st (initClient c) = (st1, None, Some (v, errc)).
Proof. exact recovery_never_parks_l. Qed.
Print Assumptions pq_recovery_never_parks.

(* documentation: on the witness of the old finding the recovery as it was before the repair (reenqueue_old: the re-put
   waits with block_on_overflow) parks, the current one completes with one refused re-put that stays listed *)
Theorem pq_old_recovery_parked_now_completes :
  let st := fst (run_history cfg_block store0 h_block) in
  run_act None st (initClient_old cfg_block) = (st, None, None) /\
  (exists st1 v, run_act None st (initClient cfg_block) = (st1, None, Some (v, 1%nat)) /\ cdi v = [1%N]).
Proof. exact old_recovery_parked_now_completes_l. Qed.
Print Assumptions pq_old_recovery_parked_now_completes.

(* ---- configuration plumbing (queue_sender.go newQueueBatchConfig, queue_batch.go newQueueBatch) ----
   A sending queue configured with a storage extension is a PERSISTENT queue on that storage, for the exporter's own
   signal and component id, with the configured capacity and block_on_overflow — also when the deprecated exporter
   batcher option is enabled on top of it (which only adds the batch settings). *)
Theorem cfg_legacy_batcher_keeps_queue_config : forall mi nc q b,
  q_enabled q = true ->
  let r := newQueueBatchConfig mi nc q b in
  q_enabled r = true /\ q_storage r = q_storage q /\ q_size r = q_size q /\ q_block r = q_block q /\
  q_sizer r = q_sizer q /\ q_wait r = q_wait q /\ q_consumers r = q_consumers q /\
  (b_enabled b = true -> q_batch r = Some (b_flush b, b_min b, b_max b)) /\
  (b_enabled b = false -> r = q).
Proof. exact legacy_batcher_keeps_queue_config. Qed.
Print Assumptions cfg_legacy_batcher_keeps_queue_config.

Theorem cfg_storage_gives_persistent_queue : forall mi nc q b sg ow s,
  q_enabled q = true -> q_storage q = Some s ->
  exists consumers, queue_of sg ow (newQueueBatchConfig mi nc q b) = QPersistent (q_size q) (q_block q) s sg ow consumers.
Proof. exact configured_storage_gives_persistent_queue. Qed.
Print Assumptions cfg_storage_gives_persistent_queue.

(* ---- the decidable clause checkers run on the OBSERVED behaviour of the implementation (C01/Checker.v, used by
   props/C01/check.py on every observed history, independently of the model's step functions) are sound and complete
   for the Prop-level clauses ---- *)
Theorem checker_clause2_sound : forall st evs,
  clause2b st evs = true <-> (forall r, In r (accepted evs) -> In r (finals evs) \/ durable st r).
Proof. exact clause2b_sound. Qed.
Print Assumptions checker_clause2_sound.

Theorem checker_clause1_sound : forall st evs,
  clause1b st evs = true <-> (nothing_durable st -> forall r, In r (accepted evs) -> In r (handoffs evs)).
Proof. exact clause1b_sound. Qed.
Print Assumptions checker_clause1_sound.

(* ---- LINK: what the model produces always passes the clause checker ----
   [observe] builds the checker's input from the model's own run the way the harness builds it from the implementation's
   (per incarnation: script, death flag, the results through code_of_res, the store).  For EVERY configuration and EVERY
   history the verdict is 0: the checker never demands more than the model delivers (no false alarm is possible on behaviour
   the model allows), and its verdicts and the theorems above are statements about the same thing.  Proved on decoded stores
   (verdict_core); the byte level adds dec_store o enc_store (identity for indexes/ids < 2^64: codec_roundtrip). *)
Theorem model_run_passes_clause_checker : forall c h, verdict_core (observe c store0 h) [] None = 0%nat.
Proof. exact model_passes_checker_l. Qed.
Print Assumptions model_run_passes_clause_checker.

(* the ghost events the checker rebuilds from the results alone ARE the model's events *)
Theorem checker_events_are_model_events : forall c st sc b,
  i_events (incarnation c st sc b) =
  obs_events sc (map code_of_res (i_obs (incarnation c st sc b))) (i_died (incarnation c st sc b)) [].
Proof. exact incarnation_events_link. Qed.
Print Assumptions checker_events_are_model_events.

(* ... and on the WIRE form, i.e. on the very case term of the correspondence run: encode the model's stores with the
   codecs as the harness prints the real bytes, decode them as the checker does, judge — the verdict is "every clause holds"
   for every configuration and every history whose stores stay within the codecs' ranges.  [run_bounded]: after every
   incarnation the stored indexes, size snapshot and request ids are < 2^64 and fewer than 2^32 entries are listed as
   dispatched (an explicit hypothesis: the model's N is unbounded, the wire form is 8-byte / 4-byte little endian). *)
Theorem model_run_passes_clause_checker_on_the_wire : forall cap rs bl h,
  run_bounded (mkCfg cap rs bl) store0 (hist_of h) ->
  prop_ok (CHist cap rs bl h (model_hist cap rs bl h)) = true.
Proof. exact model_case_passes_l. Qed.
Print Assumptions model_run_passes_clause_checker_on_the_wire.

(* ---- translator obligations (T1 re-reads the Go source on every run; see C01/Translated.v) ---- *)
Theorem t1_bytesToItemIndex_matches_go : forall buf,
  index_result_code (bytesToItemIndex buf) =
  C01Queue.go_bytesToItemIndex (buf_isnil buf) (buf_len buf) (buf_le64 buf).
Proof. exact bytesToItemIndex_matches_go_l. Qed.
Print Assumptions t1_bytesToItemIndex_matches_go.

Theorem t1_method_sets_match_go :
  map fst modelled_persistentQueue = C01Queue.ms_persistentQueue /\
  C01Queue.ms_indexDone = modelled_indexDone /\
  C01Queue.ms_refCountDone = modelled_refCountDone /\
  C01Queue.ms_retrySender = modelled_retrySender.
Proof. exact method_sets_match_go_l. Qed.
Print Assumptions t1_method_sets_match_go.

Theorem t1_storage_optypes_match_go :
  C01Storage.go_optypes = [C01Storage.go_op_Get; C01Storage.go_op_Set; C01Storage.go_op_Delete] /\
  NoDup C01Storage.go_optypes /\
  (forall o, In (sop_type o) C01Storage.go_optypes) /\
  (forall t, In t C01Storage.go_optypes -> exists o, sop_type o = t).
Proof. exact optypes_match_go_l. Qed.
Print Assumptions t1_storage_optypes_match_go.

(* itemDispatchingFinish with storage errors (its error-only fallback path: combined batch, then delete-only, then
   list-only; a failing batch applies nothing): whichever batches fail, the crash invariant is kept *)
Theorem pq_finish_storage_errors_never_lose : forall E v outs st index f1 f2 f3,
  St E v outs st -> fin_hand E ->
  (forall r, iget index (s_items st) = Some r -> In r (finals E)) ->
  Icr E (fst (fst (finish_with_errors f1 f2 f3 v index st))).
Proof. exact finish_errors_keep_invariant_l. Qed.
Print Assumptions pq_finish_storage_errors_never_lose.
