(* placeholder while the pipeline is brought up; replaced below *)
From Verif Require Import Common.Base C01.Model.
Theorem placeholder_true : True. Proof. exact I. Qed.
Print Assumptions placeholder_true.
