(* C01/Proofs11.v — the LINK theorem on the WIRE form: encode the model's stores with the codecs, decode them as the
   checker does, run the checker — verdict 0 for every configuration and history whose stores stay within the
   codecs' ranges (indexes/ids < 2^64, fewer than 2^32 dispatched entries: an explicit hypothesis, the model's N being
   unbounded). *)
From Verif Require Import Common.Base C01.Model C01.Spec C01.Proofs1 C01.Proofs2 C01.Proofs3 C01.Checker C01.Proofs8 C01.Harness C01.Proofs10.
From Coq Require Import Permutation.

(* ---- the body list keeps distinct keys in every store any action can produce ---- *)
Definition nodup_keys (st : store) : Prop := NoDup (map fst (s_items st)).

Lemma idel_keys_incl i l k : In k (map fst (idel i l)) -> In k (map fst l) /\ k <> i.
Proof.
  unfold idel. induction l as [|[j r] l IH]; simpl; [intros []|].
  destruct (N.eqb_spec i j) as [->|Hne]; simpl.
  - intros H. destruct (IH H). auto.
  - intros [<-|H]; [split; [now left|congruence]|]. destruct (IH H). auto.
Qed.

Lemma idel_nodup i l : NoDup (map fst l) -> NoDup (map fst (idel i l)).
Proof.
  unfold idel. induction l as [|[j r] l IH]; simpl; [constructor|]. intros H. inversion H; subst.
  destruct (N.eqb i j); simpl; [now apply IH|]. constructor; [|now apply IH].
  intros Hin. apply (idel_keys_incl i l j) in Hin. tauto.
Qed.

Lemma apply_op_nodup o st : nodup_keys st -> nodup_keys (fst (apply_op o st)).
Proof.
  unfold nodup_keys. destruct o as [k|k n| |l|i|i r|i]; try (destruct k); cbn; auto.
  - intros H. constructor; [|now apply idel_nodup]. intros Hin. apply idel_keys_incl in Hin. tauto.
  - apply idel_nodup.
Qed.

Lemma apply_ops_nodup ops : forall st, nodup_keys st -> nodup_keys (fst (apply_ops ops st)).
Proof.
  induction ops as [|o t IH]; intros st H; cbn [apply_ops]; [exact H|].
  pose proof (apply_op_nodup o st H) as H1. destruct (apply_op o st) as [st1 v]. cbn [fst] in H1.
  specialize (IH st1 H1). destruct (apply_ops t st1) as [st2 vs]. exact IH.
Qed.

Lemma run_act_nodup {A} (m : act A) : forall b st, nodup_keys st -> nodup_keys (fst (fst (run_act b st m))).
Proof.
  induction m as [a|ops k IH|]; intros b st H; cbn [run_act]; [exact H| |exact H].
  pose proof (apply_ops_nodup ops st H) as H1.
  destruct b as [[|n]|]; [exact H| |]; destruct (apply_ops ops st) as [st1 rs]; now apply IH.
Qed.

Lemma run_script_nodup c ops : forall b st s evs obs, nodup_keys st -> nodup_keys (i_store (run_script c b st s ops evs obs)).
Proof.
  induction ops as [|o t IH]; intros b st s evs obs H; cbn [run_script]; [exact H|].
  pose proof (run_act_nodup (run_op c s o) b st H) as H1.
  destruct (run_act b st (run_op c s o)) as [[st1 b1] [[s1 r]|]]; cbn [fst] in H1; [now apply IH|exact H1].
Qed.

Lemma incarnation_nodup c st sc b : nodup_keys st -> nodup_keys (i_store (incarnation c st sc b)).
Proof.
  intros H. unfold incarnation. pose proof (run_act_nodup (initClient c) b st H) as H1.
  destruct (run_act b st (initClient c)) as [[st1 b1] [[v e]|]]; cbn [fst] in H1; [now apply run_script_nodup|exact H1].
Qed.

(* ---- stores equal up to the order of the body list ---- *)
Definition steq (a b : store) : Prop :=
  s_ri a = s_ri b /\ s_wi a = s_wi b /\ s_di a = s_di b /\ s_si a = s_si b /\ Permutation (s_items a) (s_items b).

Lemma iget_perm i l l' : NoDup (map fst l) -> Permutation l l' -> iget i l = iget i l'.
Proof.
  intros ND P. induction P as [|[j r] l l' P IH|[j r] [k q] l|l l' l'' P1 IH1 P2 IH2].
  - reflexivity.
  - simpl. inversion ND; subst. now rewrite IH.
  - simpl. inversion ND as [|? ? Hn ND']; subst. destruct (N.eqb_spec i k) as [->|]; [|reflexivity].
    destruct (N.eqb_spec k j) as [->|]; [|reflexivity]. exfalso. apply Hn. now left.
  - rewrite IH1 by exact ND. apply IH2. eapply Permutation_NoDup; [|exact ND]. now apply Permutation_map.
Qed.

Lemma range_has_ext l l' : (forall i, iget i l = iget i l') -> forall n a r, range_has l a n r = range_has l' a n r.
Proof. intros H n. induction n as [|n IH]; intros a r; cbn [range_has]; [reflexivity|]. now rewrite H, IH. Qed.

Lemma existsb_ext' {A} (f g : A -> bool) l : (forall x, f x = g x) -> existsb f l = existsb g l.
Proof. intros H. induction l as [|x l IH]; simpl; [reflexivity|]. now rewrite H, IH. Qed.

Lemma forallb_ext' {A} (f g : A -> bool) l : (forall x, f x = g x) -> forallb f l = forallb g l.
Proof. intros H. induction l as [|x l IH]; simpl; [reflexivity|]. now rewrite H, IH. Qed.

Lemma durableb_steq a b r : nodup_keys a -> steq a b -> durableb a r = durableb b r.
Proof.
  intros ND (E1 & E2 & E3 & E4 & P). unfold durableb, eff, di_of. rewrite E1, E2, E3.
  assert (G : forall i, iget i (s_items a) = iget i (s_items b)) by (intros i; now apply iget_perm).
  rewrite (range_has_ext _ _ G). f_equal. apply existsb_ext'. intros i. now rewrite G.
Qed.

Lemma forallb_perm {A} (f : A -> bool) l l' : Permutation l l' -> forallb f l = forallb f l'.
Proof.
  induction 1; simpl; auto; try congruence. destruct (f x), (f y); reflexivity.
Qed.

Lemma clause2b_steq a b evs : nodup_keys a -> steq a b -> clause2b a evs = clause2b b evs.
Proof.
  intros ND S. unfold clause2b, durable_or_finalb. apply forallb_ext'. intros r. now rewrite (durableb_steq a b r ND S).
Qed.

Lemma clause1b_steq a b evs : nodup_keys a -> steq a b -> clause1b a evs = clause1b b evs.
Proof.
  intros ND S. unfold clause1b, no_durableb. f_equal. f_equal.
  destruct S as (E1 & E2 & E3 & E4 & P).
  rewrite (forallb_perm _ _ _ P). apply forallb_ext'. intros p.
  now rewrite (durableb_steq a b (snd p) ND (conj E1 (conj E2 (conj E3 (conj E4 P))))).
Qed.

(* ---- the codecs' ranges ---- *)
Definition bnd (n : N) : Prop := (n < 2 ^ 64)%N.
Definition obnd (o : option N) : Prop := match o with Some n => bnd n | None => True end.
Definition store_bounded (st : store) : Prop :=
  obnd (s_ri st) /\ obnd (s_wi st) /\ obnd (s_si st) /\
  (match s_di st with Some l => Forall bnd l /\ (N.of_nat (length l) < 2 ^ 32)%N | None => True end) /\
  Forall (fun p => bnd (snd p)) (s_items st).

Lemma dec_idx_opt_enc o : obnd o -> dec_idx_opt (option_map itemIndexToBytes o) = Some o.
Proof.
  destruct o as [n|]; cbn; [|reflexivity]. intros H.
  change (match bytesToItemIndex (Some (itemIndexToBytes n)) with inl n0 => Some (Some n0) | inr _ => None end = Some (Some n)).
  now rewrite (index_roundtrip n H).
Qed.

Lemma ins_sorted_perm p l : Permutation (ins_sorted p l) (p :: l).
Proof.
  induction l as [|q t IH]; simpl; [reflexivity|]. destruct (N.leb (fst p) (fst q)); [reflexivity|].
  rewrite IH. apply perm_swap.
Qed.

Lemma sort_items_perm l : Permutation (sort_items l) l.
Proof.
  unfold sort_items. induction l as [|p t IH]; simpl; [reflexivity|]. rewrite ins_sorted_perm. now constructor.
Qed.

Definition encp (p : N * N) : N * list N := (fst p, enc_req (snd p)).
Definition decp (p : N * list N) : N * N := (fst p, match dec_req (Some (snd p)) with Some x => x | None => 0%N end).

Lemma dec_enc_store st : store_bounded st ->
  exists st', (let '(r, w, d, s, items) := enc_store st in dec_store r w d s items) = Some st' /\ steq st st'.
Proof.
  intros (B1 & B2 & B3 & B4 & B5). unfold enc_store, dec_store.
  rewrite (dec_idx_opt_enc _ B1), (dec_idx_opt_enc _ B2), (dec_idx_opt_enc _ B3).
  assert (Hd : match option_map itemIndexArrayToBytes (s_di st) with
               | None => Some None
               | Some _ => match bytesToItemIndexArray (option_map itemIndexArrayToBytes (s_di st)) with
                           | inl l => Some (Some l) | inr _ => None end
               end = Some (s_di st)).
  { destruct (s_di st) as [l|]; cbn [option_map]; [|reflexivity]. destruct B4 as [F L]. now rewrite (array_roundtrip l F L). }
  rewrite Hd.
  set (S := sort_items (map (fun p => (fst p, enc_req (snd p))) (s_items st))).
  assert (PS : Permutation S (map encp (s_items st))) by apply sort_items_perm.
  assert (All : forall p, In p S -> exists r, snd p = enc_req r /\ bnd r).
  { intros p Hp. apply (Permutation_in _ PS) in Hp. apply in_map_iff in Hp as ([i r] & <- & Hin).
    exists r. split; [reflexivity|]. rewrite Forall_forall in B5. apply (B5 _ Hin). }
  assert (Ok : forallb (fun p : N * option N => match snd p with Some _ => true | None => false end)
                 (map (fun p : N * list N => (fst p, dec_req (Some (snd p)))) S) = true).
  { apply forallb_forall. intros q Hq. apply in_map_iff in Hq as (p & <- & Hp). destruct (All p Hp) as (r & E & Br).
    cbn [snd]. rewrite E, (req_roundtrip r Br). reflexivity. }
  rewrite Ok. eexists. split; [reflexivity|].
  unfold steq. cbn [s_ri s_wi s_di s_si s_items]. repeat split; auto.
  rewrite map_map. cbn [fst snd].
  change (Permutation (s_items st) (map decp S)).
  rewrite PS. rewrite map_map.
  replace (map (fun x => decp (encp x)) (s_items st)) with (s_items st); [reflexivity|].
  symmetry. rewrite <- (map_id (s_items st)) at 2. apply map_ext_in. intros [i r] Hin. unfold decp, encp. cbn [fst snd].
  rewrite Forall_forall in B5. now rewrite (req_roundtrip r (B5 _ Hin)).
Qed.

(* ---- the checker on lists of incarnations whose stores are equal up to the order of the body list ---- *)
Inductive cinc_eq : cinc -> cinc -> Prop :=
| cinc_eq_intro ops stopped rs a b : nodup_keys a -> steq a b -> cinc_eq (ops, stopped, rs, Some a) (ops, stopped, rs, Some b).

Lemma verdict_core_eq l l' : Forall2 cinc_eq l l' ->
  forall evs la lb, (match la, lb with Some a, Some b => nodup_keys a /\ steq a b | None, None => True | _, _ => False end) ->
  verdict_core l evs la = verdict_core l' evs lb.
Proof.
  induction 1 as [|x y l l' Hxy Hl IH]; intros evs la lb HL; cbn [verdict_core].
  - destruct la as [a|], lb as [b|]; try tauto. destruct HL as [ND S]. now rewrite (clause1b_steq a b evs ND S).
  - destruct Hxy as [ops stopped rs a b ND S]. rewrite (clause2b_steq a b _ ND S).
    destruct (clause2b b (evs ++ obs_events ops rs stopped [])); [|reflexivity]. apply IH. auto.
Qed.

(* the run of the model in the harness's wire form, decoded as the checker decodes an observed history *)
Definition wire_inc (sc : list op) (r : irun) : oinc :=
  (sc, i_died r, map code_of_res (i_obs r), enc_store (i_store r)).

Fixpoint observe_wire (c : cfg) (st : store) (h : history) : list oinc :=
  match h with
  | [] => []
  | (sc, b) :: t => let r := incarnation c st sc b in wire_inc sc r :: observe_wire c (i_store r) t
  end.

Fixpoint run_bounded (c : cfg) (st : store) (h : history) : Prop :=
  match h with
  | [] => True
  | (sc, b) :: t => let r := incarnation c st sc b in store_bounded (i_store r) /\ run_bounded c (i_store r) t
  end.

Lemma observe_wire_eq c h : forall st, nodup_keys st -> run_bounded c st h ->
  Forall2 cinc_eq (observe c st h) (map decode_inc (observe_wire c st h)).
Proof.
  induction h as [|[sc b] t IH]; intros st ND HB; cbn [observe observe_wire map]; [constructor|].
  destruct HB as [B1 B2]. pose proof (incarnation_nodup c st sc b ND) as ND1.
  constructor; [|now apply IH].
  unfold observe_inc, wire_inc, decode_inc.
  destruct (dec_enc_store _ B1) as (st' & E & S).
  destruct (enc_store (i_store (incarnation c st sc b))) as [[[[rr w] d] s] items]. rewrite E. now constructor.
Qed.

Lemma model_passes_checker_wire_l c h :
  run_bounded c store0 h -> obs_verdict (observe_wire c store0 h) [] None = 0%nat.
Proof.
  intros HB. unfold obs_verdict.
  assert (ND0 : nodup_keys store0) by constructor.
  rewrite <- (verdict_core_eq _ _ (observe_wire_eq c h store0 ND0 HB) [] None None I).
  apply model_passes_checker_l.
Qed.

(* ---- down to the case term of the correspondence run ---- *)
Lemma died_or_parked r : (i_died r && negb (parked r)) || parked r = i_died r.
Proof. unfold parked. destruct (i_died r), (i_budget r); reflexivity. Qed.

Lemma harness_record_is_wire c h : forall st,
  map oinc_of (combine h (map obs_of (run_history_obs c st (hist_of h)))) = observe_wire c st (hist_of h).
Proof.
  induction h as [|[sc b] t IH]; intros st; [reflexivity|].
  cbn [hist_of map run_history_obs combine observe_wire fst snd]. f_equal; [|apply IH].
  unfold oinc_of, obs_of, wire_inc. now rewrite died_or_parked.
Qed.

Lemma model_case_passes_l cap rs bl h :
  run_bounded (mkCfg cap rs bl) store0 (hist_of h) ->
  prop_ok (CHist cap rs bl h (model_hist cap rs bl h)) = true.
Proof.
  intros HB. unfold prop_ok, prop_verdict, model_hist. rewrite harness_record_is_wire.
  now rewrite (model_passes_checker_wire_l _ _ HB).
Qed.

(* executable version of the range hypothesis *)
Definition bndb (n : N) : bool := N.ltb n (2 ^ 64).
Definition obndb (o : option N) : bool := match o with Some n => bndb n | None => true end.
Definition store_boundedb (st : store) : bool :=
  obndb (s_ri st) && obndb (s_wi st) && obndb (s_si st) &&
  (match s_di st with Some l => forallb bndb l && N.ltb (N.of_nat (length l)) (2 ^ 32) | None => true end) &&
  forallb (fun p => bndb (snd p)) (s_items st).

Fixpoint run_boundedb (c : cfg) (st : store) (h : history) : bool :=
  match h with
  | [] => true
  | (sc, b) :: t => let r := incarnation c st sc b in store_boundedb (i_store r) && run_boundedb c (i_store r) t
  end.

Lemma store_boundedb_sound st : store_boundedb st = true -> store_bounded st.
Proof.
  unfold store_boundedb, store_bounded. rewrite !andb_true_iff. intros ((((A & B) & C) & D) & F).
  assert (O : forall o, obndb o = true -> obnd o) by (intros [n|]; cbn; [apply N.ltb_lt|auto]).
  repeat split; auto.
  - destruct (s_di st) as [l|]; [|exact I]. apply andb_true_iff in D as [D1 D2]. split; [|now apply N.ltb_lt].
    apply Forall_forall. intros x Hx. rewrite forallb_forall in D1. now apply N.ltb_lt, D1.
  - apply Forall_forall. intros p Hp. rewrite forallb_forall in F. now apply N.ltb_lt, (F p Hp).
Qed.

Lemma run_boundedb_sound c h : forall st, run_boundedb c st h = true -> run_bounded c st h.
Proof.
  induction h as [|[sc b] t IH]; intros st H; cbn [run_boundedb run_bounded] in *; [exact I|].
  apply andb_true_iff in H as [H1 H2]. split; [now apply store_boundedb_sound|now apply IH].
Qed.
