(* C01/Proofs6.v — the retry sender's stop notification is sticky and seen by every Send: once
   Shutdown has been called a Send starts at most one more attempt and never ends with the
   context error; "no more retries" only ends a Send whose retry budget is really exhausted. *)
From Verif Require Import Common.Base C01.Model.

Lemma send_at_most_one_more rs : forall s tail n e k,
  send_model rs (Some s) tail n = (e, k) -> rs <> [] -> k <= Nat.max s (S n).
Proof.
  induction rs as [|r t IH]; intros s tail n e k H NE; [congruence|].
  destruct r; cbn [send_model] in H; try (inversion H; subst; lia).
  destruct t as [|r2 t2].
  - destruct tail; try (inversion H; subst; lia);
      destruct (stopped_by (Some s) (S n)); inversion H; subst; lia.
  - destruct (stopped_by (Some s) (S n)) eqn:Es; [inversion H; subst; lia|].
    cbn in Es. apply Nat.leb_gt in Es.
    assert (NE2 : r2 :: t2 <> []) by discriminate.
    pose proof (IH s tail (S n) e k H NE2). lia.
Qed.

Lemma send_ctx_only_before_stop rs : forall s tail n k,
  send_model rs (Some s) tail n = (SendCtxDone, k) -> rs <> [] -> k < s.
Proof.
  induction rs as [|r t IH]; intros s tail n k H NE; [congruence|].
  destruct r; cbn [send_model] in H; try discriminate.
  destruct t as [|r2 t2].
  - destruct tail; try discriminate;
      destruct (stopped_by (Some s) (S n)) eqn:Es; inversion H; subst;
      cbn in Es; apply Nat.leb_gt in Es; exact Es.
  - destruct (stopped_by (Some s) (S n)) eqn:Es; [discriminate|].
    apply (IH s tail (S n) k H). discriminate.
Qed.

Lemma send_no_more_retries_is_budget rs : forall stop tail n k,
  send_model rs stop tail n = (SendNoMoreRetries, k) -> tail = SendNoMoreRetries.
Proof.
  induction rs as [|r t IH]; intros stop tail n k H; cbn [send_model] in H; [congruence|].
  destruct r; try discriminate.
  destruct t as [|r2 t2].
  - destruct tail; try reflexivity; destruct (stopped_by stop (S n)); inversion H.
  - destruct (stopped_by stop (S n)); [discriminate|]. eapply IH; eauto.
Qed.

(* no shutdown: a Send never reports a shutdown error (unless asked to by [tail]) *)
Lemma send_stopped_needs_stop rs : forall tail n,
  tail <> SendStopped -> fst (send_model rs None tail n) <> SendStopped.
Proof.
  induction rs as [|r t IH]; intros tail n HT; cbn [send_model]; [exact HT|].
  destruct r; cbn [fst]; try discriminate.
  destruct t as [|r2 t2].
  - destruct tail; cbn; congruence.
  - cbn [stopped_by]. now apply IH.
Qed.

(* retryable failures followed by a shutdown: the queue sees a shutdown error (keeps the request) *)
Lemma send_retryable_then_stop rs : forall s tail n,
  Forall (fun r => r = ARetryable) rs -> rs <> [] -> s <= n + length rs -> tail <> SendNoMoreRetries ->
  outcome_of_send (fst (send_model rs (Some s) tail n)) = OShutdown.
Proof.
  induction rs as [|r t IH]; intros s tail n HF NE Hs HT; [congruence|].
  inversion HF as [|? ? Hr HF']; subst. cbn [send_model].
  destruct t as [|r2 t2].
  - cbn [length] in Hs. assert (E : stopped_by (Some s) (S n) = true) by (cbn; apply Nat.leb_le; lia).
    destruct tail; try congruence; rewrite E; reflexivity.
  - destruct (stopped_by (Some s) (S n)) eqn:Es; [reflexivity|].
    apply IH; auto; [discriminate|cbn [length] in *; lia].
Qed.

Lemma send_final_ends_genuine rs stop tail n :
  (forall s k, stop = Some s -> send_model rs stop tail n = (SendCtxDone, k) -> rs <> [] -> k < s) /\
  (forall k, send_model rs stop tail n = (SendNoMoreRetries, k) -> tail = SendNoMoreRetries) /\
  (stop = None -> tail <> SendStopped -> fst (send_model rs stop tail n) <> SendStopped).
Proof.
  split; [|split].
  - intros s k -> H NE. eapply send_ctx_only_before_stop; eauto.
  - intros k H. eapply send_no_more_retries_is_budget; eauto.
  - intros -> HT. now apply send_stopped_needs_stop.
Qed.

(* ---- a hand-off made in several pieces ---- *)
From Coq Require Import Permutation.

Lemma combine_final_iff l :
  combine_outcomes l <> OShutdown <-> Forall (fun o => o <> OShutdown) l.
Proof.
  unfold combine_outcomes. destruct (existsb is_shutdown_outcome l) eqn:E.
  - split; [congruence|]. intros HF _. apply existsb_exists in E as (o & Hin & Ho).
    rewrite Forall_forall in HF. specialize (HF o Hin). destruct o; try discriminate. congruence.
  - split.
    + intros _. apply Forall_forall. intros o Hin ->.
      assert (existsb is_shutdown_outcome l = true) by (apply existsb_exists; exists OShutdown; auto). congruence.
    + intros _. destruct (existsb is_failed_outcome l); discriminate.
Qed.

Lemma combine_ok_iff l : combine_outcomes l = OOk <-> Forall (fun o => o = OOk) l.
Proof.
  unfold combine_outcomes. split.
  - intros H. apply Forall_forall. intros o Hin.
    destruct (existsb is_shutdown_outcome l) eqn:E1; [discriminate|].
    destruct (existsb is_failed_outcome l) eqn:E2; [discriminate|].
    destruct o; auto.
    + assert (existsb is_failed_outcome l = true) by (apply existsb_exists; exists OFailed; auto). congruence.
    + assert (existsb is_shutdown_outcome l = true) by (apply existsb_exists; exists OShutdown; auto). congruence.
  - intros HF. rewrite Forall_forall in HF.
    destruct (existsb is_shutdown_outcome l) eqn:E1.
    { apply existsb_exists in E1 as (o & Hin & Ho). rewrite (HF o Hin) in Ho. discriminate. }
    destruct (existsb is_failed_outcome l) eqn:E2; [|reflexivity].
    apply existsb_exists in E2 as (o & Hin & Ho). rewrite (HF o Hin) in Ho. discriminate.
Qed.

Lemma existsb_perm {A} (f : A -> bool) l l' : Permutation l l' -> existsb f l = existsb f l'.
Proof.
  induction 1; simpl; auto.
  - now rewrite IHPermutation.
  - destruct (f x), (f y); reflexivity.
  - congruence.
Qed.

Lemma combine_perm l l' : Permutation l l' -> combine_outcomes l = combine_outcomes l'.
Proof. intros P. unfold combine_outcomes. now rewrite (existsb_perm _ _ _ P), (existsb_perm is_failed_outcome _ _ P). Qed.

(* ---- configuration plumbing: the storage of the sending queue survives the deprecated batcher option ---- *)
Lemma legacy_batcher_keeps_queue_config mi nc q b :
  q_enabled q = true ->
  let r := newQueueBatchConfig mi nc q b in
  q_enabled r = true /\ q_storage r = q_storage q /\ q_size r = q_size q /\ q_block r = q_block q /\
  q_sizer r = q_sizer q /\ q_wait r = q_wait q /\ q_consumers r = q_consumers q /\
  (b_enabled b = true -> q_batch r = Some (b_flush b, b_min b, b_max b)) /\
  (b_enabled b = false -> r = q).
Proof.
  intros He. unfold newQueueBatchConfig. destruct (b_enabled b); cbn [negb]; rewrite ?He; cbn;
    repeat split; auto; discriminate.
Qed.

Lemma configured_storage_gives_persistent_queue mi nc q b sg ow s :
  q_enabled q = true -> q_storage q = Some s ->
  exists consumers, queue_of sg ow (newQueueBatchConfig mi nc q b) = QPersistent (q_size q) (q_block q) s sg ow consumers.
Proof.
  intros He Hs. destruct (legacy_batcher_keeps_queue_config mi nc q b He) as (_ & E1 & E2 & E3 & _).
  unfold queue_of. rewrite E1, Hs, E2, E3. eauto.
Qed.
