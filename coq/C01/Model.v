(* C01/Model.v — executable model of the persistent sending queue
   (exporter/exporterhelper/internal/queuebatch/persistent_queue.go), written after the Go code
   function by function, as the code is NOW (after the fix: commits 3baff54d4, f1a9a658a,
   07d4f773b that repaired the recovery defects F1/F2 and the missing-read-index reset).  No proofs here.

   Storage.  The Go code talks to a storage.Client (Get/Set/Delete/Batch over string keys and
   byte values).  The keys it ever uses are "ri", "wi", "si" (8-byte little-endian uint64), "di"
   (uint32 count + 8-byte entries) and the decimal text of an index (request body).  The model
   keeps the store in DECODED form (a record with one typed field per key class); the byte codecs
   are modelled separately below (itemIndexToBytes ...), proved to round-trip (codec_roundtrip)
   and the correspondence run compares the ENCODED model store with the real bytes and decodes
   the real bytes with the model decoders.  Every client call is one [Call] of the monad [act]:
   a visible boundary at which the process may die (run_act with a budget).

   Integers.  Indexes are unbounded N (Go: uint64; the model is exact as long as fewer than 2^64
   requests are ever written to one storage); sizes are Z (Go: int64). *)
From Verif Require Import Common.Base.

(* ---------------------------------------------------------------------------------------------
   Byte codecs (bytes are N < 256)
   --------------------------------------------------------------------------------------------- *)
Fixpoint le_bytes (k : nat) (n : N) : list N :=
  match k with
  | O => []
  | S k' => (n mod 256)%N :: le_bytes k' (n / 256)%N
  end.

Fixpoint le_val (l : list N) : N :=
  match l with
  | [] => 0%N
  | b :: t => (b + 256 * le_val t)%N
  end.

Inductive derr := ErrNotSet | ErrInvalid.

(* func itemIndexToBytes(value uint64) []byte *)
Definition itemIndexToBytes (n : N) : list N := le_bytes 8 n.

(* func bytesToItemIndex(buf []byte) (uint64, error); [None] is the nil slice of a missing key *)
Definition bytesToItemIndex (buf : option (list N)) : N + derr :=
  match buf with
  | None => inr ErrNotSet
  | Some b => if (length b <? 8)%nat then inr ErrInvalid else inl (le_val (firstn 8 b))
  end.

(* func itemIndexArrayToBytes(arr []uint64) []byte *)
Definition itemIndexArrayToBytes (l : list N) : list N :=
  le_bytes 4 (N.of_nat (length l)) ++ flat_map (le_bytes 8) l.

Fixpoint chunks8 (n : nat) (b : list N) : list N :=
  match n with
  | O => []
  | S n' => le_val (firstn 8 b) :: chunks8 n' (skipn 8 b)
  end.

(* func bytesToItemIndexArray(buf []byte) ([]uint64, error) *)
Definition bytesToItemIndexArray (buf : option (list N)) : list N + derr :=
  match buf with
  | None => inl []
  | Some [] => inl []
  | Some b =>
      if (length b <? 4)%nat then inr ErrInvalid
      else
        let size := le_val (firstn 4 b) in            (* compared in N: never build a huge nat *)
        if N.eqb size 0 then inl []
        else
          let b' := skipn 4 b in
          if N.ltb (N.of_nat (length b')) (size * 8) then inr ErrInvalid
          else inl (chunks8 (N.to_nat size) b')
  end.

(* the request encoding used by the harness (uint64, 8 bytes little endian; like the package's own tests) *)
Definition enc_req (r : N) : list N := le_bytes 8 r.
Definition dec_req (buf : option (list N)) : option N :=
  match buf with
  | None => None
  | Some b => if (length b <? 8)%nat then None else Some (le_val (firstn 8 b))
  end.

(* ---------------------------------------------------------------------------------------------
   Durable store (decoded form) and the storage.Client contract
   --------------------------------------------------------------------------------------------- *)
Record store := mkStore {
  s_ri : option N;             (* key "ri" *)
  s_wi : option N;             (* key "wi" *)
  s_di : option (list N);      (* key "di" *)
  s_si : option N;             (* key "si" *)
  s_items : list (N * N)       (* key <decimal index> -> request id (body) *)
}.

Definition store0 : store := mkStore None None None None [].

Fixpoint iget (i : N) (l : list (N * N)) : option N :=
  match l with
  | [] => None
  | (j, r) :: t => if N.eqb i j then Some r else iget i t
  end.

Definition idel (i : N) (l : list (N * N)) : list (N * N) :=
  filter (fun p => negb (N.eqb i (fst p))) l.

Definition iset (i r : N) (l : list (N * N)) : list (N * N) := (i, r) :: idel i l.

Inductive ikey := KRi | KWi | KSi.

Inductive sop :=
| GetIdx (k : ikey) | SetIdx (k : ikey) (n : N)
| GetDi | SetDi (l : list N)
| GetItem (i : N) | SetItem (i r : N) | DelItem (i : N).

Inductive val := VIdx (n : N) | VArr (l : list N) | VBody (r : N).

Definition get_ikey (k : ikey) (st : store) : option N :=
  match k with KRi => s_ri st | KWi => s_wi st | KSi => s_si st end.

Definition set_ikey (k : ikey) (n : N) (st : store) : store :=
  match k with
  | KRi => mkStore (Some n) (s_wi st) (s_di st) (s_si st) (s_items st)
  | KWi => mkStore (s_ri st) (Some n) (s_di st) (s_si st) (s_items st)
  | KSi => mkStore (s_ri st) (s_wi st) (s_di st) (Some n) (s_items st)
  end.

Definition set_items (l : list (N * N)) (st : store) : store :=
  mkStore (s_ri st) (s_wi st) (s_di st) (s_si st) l.

(* one storage operation: atomic, durable; a Get yields the value (None = key not set) *)
Definition apply_op (o : sop) (st : store) : store * option val :=
  match o with
  | GetIdx k => (st, option_map VIdx (get_ikey k st))
  | SetIdx k n => (set_ikey k n st, None)
  | GetDi => (st, option_map VArr (s_di st))
  | SetDi l => (mkStore (s_ri st) (s_wi st) (Some l) (s_si st) (s_items st), None)
  | GetItem i => (st, option_map VBody (iget i (s_items st)))
  | SetItem i r => (set_items (iset i r (s_items st)) st, None)
  | DelItem i => (set_items (idel i (s_items st)) st, None)
  end.

(* Batch applies its operations in order *)
Fixpoint apply_ops (ops : list sop) (st : store) : store * list (option val) :=
  match ops with
  | [] => (st, [])
  | o :: t =>
      let '(st1, v) := apply_op o st in
      let '(st2, vs) := apply_ops t st1 in
      (st2, v :: vs)
  end.

(* ---------------------------------------------------------------------------------------------
   The storage monad: every client call is a visible boundary
   --------------------------------------------------------------------------------------------- *)
(* [Block]: the call parks on a condition variable that nothing in a sequential incarnation can signal: no
   further storage call is ever made.  Since the repair 7592c5c1e no queue function produces it any more
   (start-up recovery used to, with block_on_overflow: see reenqueue_old in Proofs7.v); the calculus keeps it. *)
Inductive act (A : Type) : Type :=
| Done (a : A)
| Call (ops : list sop) (k : list (option val) -> act A)
| Block.
Arguments Done {A} a.
Arguments Call {A} ops k.
Arguments Block {A}.

Fixpoint bind {A B} (m : act A) (f : A -> act B) : act B :=
  match m with
  | Done a => f a
  | Call ops k => Call ops (fun rs => bind (k rs) f)
  | Block => Block
  end.

(* budget: None = the process does not die; Some n = it dies before call n+1 *)
Definition bpred (b : option nat) : option nat :=
  match b with None => None | Some n => Some (Nat.pred n) end.

Fixpoint run_act {A} (b : option nat) (st : store) (m : act A) : store * option nat * option A :=
  match m with
  | Done a => (st, b, Some a)
  | Call ops k =>
      match b with
      | Some O => (st, b, None)
      | _ => let '(st1, rs) := apply_ops ops st in run_act (bpred b) st1 (k rs)
      end
  | Block => (st, None, None)     (* no result, and no death either: the budget is dropped *)
  end.

Definition res_idx (rs : list (option val)) (k : nat) : option N :=
  match nth_error rs k with Some (Some (VIdx n)) => Some n | _ => None end.
Definition res_arr (rs : list (option val)) (k : nat) : option (list N) :=
  match nth_error rs k with Some (Some (VArr l)) => Some l | _ => None end.
Definition res_body (rs : list (option val)) (k : nat) : option N :=
  match nth_error rs k with Some (Some (VBody r)) => Some r | _ => None end.

(* ---------------------------------------------------------------------------------------------
   persistentQueue: settings and volatile state
   --------------------------------------------------------------------------------------------- *)
Record cfg := mkCfg {
  capacity : Z;            (* set.capacity *)
  reqSized : bool;         (* isRequestSized: sizer is request.RequestsSizer *)
  blockOnOverflow : bool   (* set.blockOnOverflow *)
}.

(* set.sizer.Sizeof: 1 for the requests sizer; the harness' other sizer is (id mod 3) + 1 *)
Definition sizeof (c : cfg) (r : N) : Z :=
  if reqSized c then 1%Z else (Z.of_N (r mod 3) + 1)%Z.

Record vol := mkVol {
  ri : N;              (* readIndex *)
  wi : N;              (* writeIndex *)
  cdi : list N;        (* currentlyDispatchedItems *)
  qsize : Z;           (* queueSize *)
  stopped : bool;
  refs : Z;            (* refClient *)
  closed : nat         (* number of client.Close calls (not a storage operation) *)
}.

Definition set_wi_q (v : vol) (w : N) (q : Z) : vol := mkVol (ri v) w (cdi v) q (stopped v) (refs v) (closed v).
Definition set_q (v : vol) (q : Z) : vol := mkVol (ri v) (wi v) (cdi v) q (stopped v) (refs v) (closed v).
Definition set_ri_cdi (v : vol) (r : N) (l : list N) : vol := mkVol r (wi v) l (qsize v) (stopped v) (refs v) (closed v).
Definition set_cdi (v : vol) (l : list N) : vol := mkVol (ri v) (wi v) l (qsize v) (stopped v) (refs v) (closed v).
Definition set_refs (v : vol) (z : Z) : vol := mkVol (ri v) (wi v) (cdi v) (qsize v) (stopped v) z (closed v).
Definition set_stopped (v : vol) : vol := mkVol (ri v) (wi v) (cdi v) (qsize v) true (refs v) (closed v).

(* func (pq) unrefClient *)
Definition unref (v : vol) : vol :=
  let r := (refs v - 1)%Z in
  mkVol (ri v) (wi v) (cdi v) (qsize v) (stopped v) r (if Z.eqb r 0 then S (closed v) else closed v).

(* func (pq) backupQueueSize, followed by [k] *)
Definition backup {A} (c : cfg) (v : vol) (k : act A) : act A :=
  if reqSized c then k else Call [SetIdx KSi (Z.to_N (qsize v))] (fun _ => k).

(* func (pq) initPersistentContiguousStorage (+ restoreQueueSizeFromStorage).
   riOp.Value == nil && wiOp.Value != nil: readIndex = 0 and the write index is decoded;
   otherwise a missing index means "Initializing new persistent queue": BOTH are reset. *)
Definition initStorage (c : cfg) : act vol :=
  Call [GetIdx KRi; GetIdx KWi] (fun rs =>
    let '(r, w) := match res_idx rs 0, res_idx rs 1 with
                   | Some r, Some w => (r, w)
                   | None, Some w => (0%N, w)
                   | _, None => (0%N, 0%N)
                   end in
    let qs := (w - r)%N in
    if (N.ltb 0 qs) && negb (reqSized c) then
      Call [GetIdx KSi] (fun rs2 =>
        let qs' := match res_idx rs2 0 with Some n => n | None => qs end in
        Done (mkVol r w [] (Z.of_N qs') false 1 0))
    else Done (mkVol r w [] (Z.of_N qs) false 1 0)).

(* putInternal(ctx, req, blockOnOverflow)'s loop "for queueSize+reqSize > capacity": Offer passes
   set.blockOnOverflow and then waits on hasMoreSpace instead of returning ErrQueueIsFull; recovery passes false *)
(* putInternal's first test (commit f7a3004ea): "if blockOnOverflow && reqSize > capacity { return errSizeTooLarge }" *)
Definition too_large (c : cfg) (r : N) : bool :=
  blockOnOverflow c && Z.ltb (capacity c) (sizeof c r).

Definition would_wait (c : cfg) (v : vol) (r : N) : bool :=
  blockOnOverflow c && Z.ltb (capacity c) (qsize v + sizeof c r).

(* func (pq) putInternal when it does not wait; result: true = nil, false = ErrQueueIsFull *)
Definition putInternal (c : cfg) (v : vol) (r : N) : act (vol * bool) :=
  let sz := sizeof c r in
  if Z.ltb (capacity c) (qsize v + sz) then Done (v, false)
  else
    Call [SetIdx KWi (wi v + 1); SetItem (wi v) r] (fun _ =>
      let v' := set_wi_q v (wi v + 1) (qsize v + sz) in
      if N.eqb ((wi v') mod 10) 5 then backup c v' (Done (v', true)) else Done (v', true)).

(* the loop of retrieveAndEnqueueNotDispatchedReqs over (dispatchedItems[i], retrieveBatch[i].Value),
   followed by cleanup().  [dels]: the indexes still in cleanupBatch (in order); a refused re-put
   keeps the stored copy, appends the index to currentlyDispatchedItems and drops its delete
   operation.  cleanup() is ONE Batch call even when no operation is left. *)
Fixpoint reenqueue (c : cfg) (v : vol) (ivs : list (N * option val)) (dels : list N) (errc : nat)
  : act (vol * nat) :=
  match ivs with
  | [] => Call (map DelItem dels) (fun _ => Done (v, errc))          (* cleanup() *)
  | (i, Some (VBody r)) :: t =>
      (* putInternal(ctx, req, false): recovery NEVER waits for space (no consumer is running yet); a request that
         does not fit is refused, also with block_on_overflow *)
      bind (putInternal c v r) (fun x =>
        if snd x then reenqueue c (fst x) t (dels ++ [i]) errc
        else reenqueue c (set_cdi (fst x) (cdi (fst x) ++ [i])) t dels (S errc))
  | (i, _) :: t => reenqueue c v t (dels ++ [i]) errc   (* op.Value == nil: "Failed retrieving item", continue *)
  end.

(* func (pq) retrieveAndEnqueueNotDispatchedReqs; second component: errCount (only logged in Go) *)
Definition retrieveAndEnqueue (c : cfg) (v : vol) : act (vol * nat) :=
  Call [GetDi] (fun rs =>
    match res_arr rs 0 with
    | None => Done (v, O)
    | Some [] => Done (v, O)
    | Some di =>
        Call (map GetItem di) (fun vals =>          (* retrieveBatch *)
        reenqueue c v (combine di vals) [] O)       (* re-put loop, THEN the cleanup batch *)
    end).

(* func (pq) initClient *)
Definition initClient (c : cfg) : act (vol * nat) :=
  bind (initStorage c) (retrieveAndEnqueue c).

Fixpoint swap_remove (x : N) (l : list N) : list N :=
  match l with
  | [] => []
  | y :: t =>
      if N.eqb y x then match t with [] => [] | _ => last t 0%N :: removelast t end
      else y :: swap_remove x t
  end.

(* func (pq) itemDispatchingFinish (storage calls succeed: the fallback calls are error-only) *)
Definition itemDispatchingFinish (v : vol) (index : N) : act vol :=
  let l := swap_remove index (cdi v) in
  Call [SetDi l; DelItem index] (fun _ => Done (set_cdi v l)).

(* func (pq) itemDispatchingFinish WITH storage errors (the error-only fallback path): a failing Batch
   returns an error and applies nothing.  f1: the combined batch fails; then f2: the delete-only batch
   fails ("failed deleting item from queue": error, nothing changed); else f3: the list-only batch fails
   ("failed updating currently dispatched items, but deleted item successfully").  The in-memory list is
   updated in every case.  Result class: 0 nil, 1 delete failed, 2 list update failed. *)
Definition try_ops (fail : bool) (ops : list sop) (st : store) : store * bool :=
  if fail then (st, false) else (fst (apply_ops ops st), true).

Definition finish_with_errors (f1 f2 f3 : bool) (v : vol) (index : N) (st : store) : store * vol * nat :=
  let l := swap_remove index (cdi v) in
  let v' := set_cdi v l in
  let '(st1, ok1) := try_ops f1 [SetDi l; DelItem index] st in
  if ok1 then (st1, v', O)
  else
    let '(st2, ok2) := try_ops f2 [DelItem index] st1 in
    if negb ok2 then (st2, v', 1%nat)
    else
      let '(st3, ok3) := try_ops f3 [SetDi l] st2 in
      (st3, v', if ok3 then O else 2%nat).

(* func (pq) getNextItem *)
Definition getNextItem (v : vol) : act (vol * option (N * N)) :=
  let index := ri v in
  let v1 := set_ri_cdi v (ri v + 1) (cdi v ++ [index]) in
  Call [SetIdx KRi (ri v1); SetDi (cdi v1); GetItem index] (fun rs =>
    match res_body rs 2 with
    | Some r => Done (set_refs v1 (refs v1 + 1), Some (index, r))
    | None => bind (itemDispatchingFinish v1 index) (fun v2 => Done (v2, None))
    end).

Inductive rres := RItem (index r : N) | RStoppedQ | RBlock.

(* the inner loop of Read; fuel = writeIndex - readIndex.  RBlock: the Go call would wait on
   hasMoreElements (the harness never lets it). *)
Fixpoint read_loop (fuel : nat) (v : vol) : act (vol * rres) :=
  if N.eqb (ri v) (wi v) then Done (v, RBlock)
  else match fuel with
       | O => Done (v, RBlock)
       | S f =>
           bind (getNextItem v) (fun x =>
             let v1 := fst x in
             let v2 := if N.eqb (ri v1) (wi v1) then set_q v1 0 else v1 in
             match snd x with
             | Some (i, r) => Done (v2, RItem i r)
             | None => read_loop f v2
             end)
       end.

(* func (pq) Read *)
Definition readQ (v : vol) : act (vol * rres) :=
  if stopped v then Done (v, RStoppedQ) else read_loop (N.to_nat (wi v - ri v)) v.

Inductive outcome := OOk | OFailed | OShutdown.   (* nil | other error | experr.IsShutdownErr *)

(* retry_sender.go Send: the ends of the retry loop and the class of the error the queue's Done
   callback receives (experr.IsShutdownErr is true exactly for the stopCh branch, through any
   number of %w wrappers) *)
Inductive send_end := SendOk | SendPermanent | SendNoMoreRetries | SendCtxDone | SendStopped.
Definition outcome_of_send (e : send_end) : outcome :=
  match e with
  | SendOk => OOk
  | SendStopped => OShutdown
  | SendPermanent | SendNoMoreRetries | SendCtxDone => OFailed
  end.

(* retry_sender.go Send as a function of what the export attempts return and of WHEN Shutdown is
   called.  [rs]: results of the successive attempts (the back-off between two listed attempts
   elapses); [stop = Some s]: Shutdown is called when s attempts have started (0 = before Send,
   k+1 = during attempt k or during the back-off that follows it; closing stopCh is sticky and seen
   by every Send); [tail]: what ends the back-off after the last listed attempt when nothing else
   does (SendNoMoreRetries: the max-elapsed-time test, which the code makes BEFORE it waits;
   SendCtxDone: the context).  Result: the end of Send and the number of attempts started. *)
Inductive attempt := AOk | APermanent | ARetryable.

Definition stopped_by (stop : option nat) (started : nat) : bool :=
  match stop with Some s => Nat.leb s started | None => false end.

Fixpoint send_model (rs : list attempt) (stop : option nat) (tail : send_end) (started : nat)
  : send_end * nat :=
  match rs with
  | [] => (tail, started)
  | r :: t =>
      let started' := S started in
      match r with
      | AOk => (SendOk, started')
      | APermanent => (SendPermanent, started')
      | ARetryable =>
          match t, tail with
          | [], SendNoMoreRetries => (SendNoMoreRetries, started')     (* tested before the wait *)
          | _, _ =>
              if stopped_by stop started' then (SendStopped, started')  (* <-rs.stopCh *)
              else match t with
                   | [] => (tail, started')
                   | _ => send_model t stop tail started'
                   end
          end
      end
  end.

(* default_batcher.go refCountDone / multiDone: a stored request exported in several pieces (max_size
   split) completes once, with the multierr of all piece errors; experr.IsShutdownErr of that error is
   true iff SOME piece was interrupted by shutdown, it is nil iff every piece succeeded. *)
Definition is_shutdown_outcome (o : outcome) : bool := match o with OShutdown => true | _ => false end.
Definition is_failed_outcome (o : outcome) : bool := match o with OFailed => true | _ => false end.
Definition combine_outcomes (l : list outcome) : outcome :=
  if existsb is_shutdown_outcome l then OShutdown
  else if existsb is_failed_outcome l then OFailed else OOk.

(* func (pq) onDone *)
Definition onDone (c : cfg) (v : vol) (index : N) (elSize : Z) (o : outcome) : act vol :=
  let v1 := set_q v (Z.max 0 (qsize v - elSize)) in
  match o with
  | OShutdown => Done (unref v1)
  | _ =>
      bind (itemDispatchingFinish v1 index) (fun v2 =>
        if N.eqb ((ri v2) mod 10) 0 then backup c v2 (Done (unref v2)) else Done (unref v2))
  end.

(* func (pq) Shutdown *)
Definition shutdownQ (c : cfg) (v : vol) : act vol :=
  backup c v (Done (unref (set_stopped v))).

(* ---------------------------------------------------------------------------------------------
   Scripts, incarnations, histories
   --------------------------------------------------------------------------------------------- *)
Inductive op := Offer (r : N) | Read | Complete (k : nat) (o : outcome) | Shutdown.

(* a Done handle held by a consumer: (index, size, request id) *)
Definition handle := (N * Z * N)%type.
Definition sstate := (vol * list handle)%type.

Inductive res :=
| ROffer (accepted : bool)
| ROfferWait                      (* blockOnOverflow: the call waits; the script cancels its context *)
| ROfferTooLarge                  (* blockOnOverflow and reqSize > capacity: errSizeTooLarge, nothing stored *)
| RRead (index r : N)
| RStopped
| RBlocked
| RComplete (executed : bool)
| RShutdown.

Fixpoint remove_nth {A} (k : nat) (l : list A) : list A :=
  match l, k with
  | [], _ => []
  | _ :: t, O => t
  | x :: t, S k' => x :: remove_nth k' t
  end.

Definition run_op (c : cfg) (s : sstate) (o : op) : act (sstate * res) :=
  let '(v, out) := s in
  match o with
  | Offer r =>
      if too_large c r then Done ((v, out), ROfferTooLarge)
      else if would_wait c v r then Done ((v, out), ROfferWait)
      else bind (putInternal c v r) (fun x => Done ((fst x, out), ROffer (snd x)))
  | Read =>
      bind (readQ v) (fun x =>
        match snd x with
        | RItem i r => Done ((fst x, out ++ [(i, sizeof c r, r)]), RRead i r)
        | RStoppedQ => Done ((fst x, out), RStopped)
        | RBlock => Done ((fst x, out), RBlocked)
        end)
  | Complete k oc =>
      match nth_error out k with
      | None => Done (s, RComplete false)
      | Some (i, sz, _) =>
          bind (onDone c v i sz oc) (fun v' => Done ((v', remove_nth k out), RComplete true))
      end
  | Shutdown => bind (shutdownQ c v) (fun v' => Done ((v', out), RShutdown))
  end.

(* ghost events (never read by the functions above) *)
Inductive event := EvAccepted (r : N) | EvHandoff (r : N) | EvFinal (r : N).

(* logged when the consumer calls OnDone with a final outcome, i.e. BEFORE the queue touches storage *)
Definition pre_events (s : sstate) (o : op) : list event :=
  match o with
  | Complete k oc =>
      match oc, nth_error (snd s) k with
      | OShutdown, _ => []
      | _, Some (_, _, r) => [EvFinal r]
      | _, None => []
      end
  | _ => []
  end.

(* logged when the call returns *)
Definition post_events (o : op) (r : res) : list event :=
  match o, r with
  | Offer x, ROffer true => [EvAccepted x]
  | Read, RRead _ x => [EvHandoff x]
  | _, _ => []
  end.

Record irun := mkIrun {
  i_store : store;
  i_budget : option nat;
  i_events : list event;
  i_obs : list (res * Z);      (* per completed operation: result, Size() afterwards *)
  i_died : bool;
  i_closed : nat
}.

Fixpoint run_script (c : cfg) (b : option nat) (st : store) (s : sstate) (ops : list op)
         (evs : list event) (obs : list (res * Z)) : irun :=
  match ops with
  | [] => mkIrun st b evs obs false (closed (fst s))
  | o :: t =>
      let evs1 := evs ++ pre_events s o in
      match run_act b st (run_op c s o) with
      | (st1, b1, None) => mkIrun st1 b1 evs1 obs true 0
      | (st1, b1, Some (s1, r)) =>
          run_script c b1 st1 s1 t (evs1 ++ post_events o r) (obs ++ [(r, qsize (fst s1))])
      end
  end.

(* one process incarnation: Start (initClient = recovery), then the script; budget counted from
   the first storage call of Start *)
Definition incarnation (c : cfg) (st : store) (sc : list op) (b : option nat) : irun :=
  match run_act b st (initClient c) with
  | (st1, b1, None) => mkIrun st1 b1 [] [] true 0
  | (st1, b1, Some (v, _)) => run_script c b1 st1 (v, []) sc [] []
  end.

Definition history := list (list op * option nat).

Fixpoint run_history (c : cfg) (st : store) (h : history) : store * list event :=
  match h with
  | [] => (st, [])
  | (sc, b) :: t =>
      let r := incarnation c st sc b in
      let '(st', evs) := run_history c (i_store r) t in
      (st', i_events r ++ evs)
  end.

(* per-incarnation observations, for the correspondence run *)
Fixpoint run_history_obs (c : cfg) (st : store) (h : history) : list irun :=
  match h with
  | [] => []
  | (sc, b) :: t => let r := incarnation c st sc b in r :: run_history_obs c (i_store r) t
  end.

(* the drain script: n times (Read; complete it with success) *)
Fixpoint drain_script (n : nat) : list op :=
  match n with O => [] | S n' => Read :: Complete 0 OOk :: drain_script n' end.

(* ghost sets *)
Definition accepted (evs : list event) : list N :=
  flat_map (fun e => match e with EvAccepted r => [r] | _ => [] end) evs.
Definition finals (evs : list event) : list N :=
  flat_map (fun e => match e with EvFinal r => [r] | _ => [] end) evs.
Definition handoffs (evs : list event) : list N :=
  flat_map (fun e => match e with EvHandoff r => [r] | _ => [] end) evs.

(* ---------------------------------------------------------------------------------------------
   Configuration plumbing: which queue an exporter gets
   (internal/queue_sender.go newQueueBatchConfig, queuebatch/queue_batch.go newQueueBatch)
   --------------------------------------------------------------------------------------------- *)
(* queuebatch.Config: enabled, wait_for_result, sizer (0 requests, 1 items, 2 bytes), queue_size, block_on_overflow,
   storage (None = in-memory queue; Some id = persistent queue on that storage extension), num_consumers,
   batch (flush_timeout, min_size, max_size) *)
Record qconfig := mkQConfig {
  q_enabled : bool; q_wait : bool; q_sizer : nat; q_size : Z; q_block : bool;
  q_storage : option nat; q_consumers : Z; q_batch : option (Z * Z * Z)
}.
(* BatcherConfig (the deprecated exporter batcher option): enabled, flush_timeout, min_size, max_size *)
Record bconfig := mkBConfig { b_enabled : bool; b_flush : Z; b_min : Z; b_max : Z }.

(* func newQueueBatchConfig(qCfg, bCfg); [maxint] = math.MaxInt, [ncpu] = runtime.NumCPU() *)
Definition newQueueBatchConfig (maxint ncpu : Z) (q : qconfig) (b : bconfig) : qconfig :=
  if negb (b_enabled b) then q
  else if q_enabled q then
    mkQConfig (q_enabled q) (q_wait q) (q_sizer q) (q_size q) (q_block q) (q_storage q) (q_consumers q)
              (Some (b_flush b, b_min b, b_max b))
  else
    mkQConfig true true 0 maxint true None ncpu (Some (b_flush b, b_min b, b_max b)).

(* newQueueBatch: the queue that is built (a batch configuration forces one consumer) *)
Inductive qkind :=
| QMemory (cap : Z) (wait block : bool) (consumers : Z)
| QPersistent (cap : Z) (block : bool) (storage signal owner : nat) (consumers : Z).

Definition queue_of (signal owner : nat) (q : qconfig) : qkind :=
  let consumers := match q_batch q with Some _ => 1%Z | None => q_consumers q end in
  match q_storage q with
  | None => QMemory (q_size q) (q_wait q) (q_block q) consumers
  | Some s => QPersistent (q_size q) (q_block q) s signal owner consumers
  end.
