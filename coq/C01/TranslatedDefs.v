(* C01/TranslatedDefs.v — definitions used by the translator obligations of Translated.v (this file has no proofs and
   compiles even when an obligation breaks).  Translated.v: obligations tying the hand-written model to what translator T1 reads from the
   CURRENT Go source (coq/Generated/C01Queue.v, C01Storage.v are regenerated on every run): an edit of
   the translated Go code changes the generated definitions and breaks a NAMED obligation here. *)
From Verif Require Import Common.Base C01.Model.
From Verif Require Generated.C01Queue Generated.C01Storage.
From Coq Require Import String.

Local Open Scope Z_scope.

(* ---- bytesToItemIndex (persistent_queue.go) ----
   The generated function takes what the Go code looks at: buf == nil, len(buf), binary.LittleEndian.Uint64(buf). *)
Definition index_result_code (r : N + derr) : Z * option string :=
  match r with
  | inl n => (Z.of_N n, None)
  | inr ErrNotSet => (0, Some "errValueNotSet"%string)
  | inr ErrInvalid => (0, Some "errInvalidValue"%string)
  end.

Definition buf_isnil (buf : option (list N)) : bool := match buf with None => true | Some _ => false end.
Definition buf_len (buf : option (list N)) : Z := match buf with None => 0 | Some b => Z.of_nat (List.length b) end.
Definition buf_le64 (buf : option (list N)) : Z := match buf with None => 0 | Some b => Z.of_N (le_val (firstn 8 b)) end.

(* executable comparison on one buffer, for the divergence search of props/C01/check.py *)
Definition decoder_agrees (buf : option (list N)) : bool :=
  let a := index_result_code (bytesToItemIndex buf) in
  let b := C01Queue.go_bytesToItemIndex (buf_isnil buf) (buf_len buf) (buf_le64 buf) in
  Z.eqb (fst a) (fst b) &&
  match snd a, snd b with None, None => true | Some x, Some y => String.eqb x y | _, _ => false end.
