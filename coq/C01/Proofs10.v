(* C01/Proofs10.v — LINK: what the MODEL produces always passes the clause checker.  [observe] builds the
   observed-case record from the model's own run exactly as the harness builds it from the implementation's
   (results through code_of_res, death flag, store); the checker rebuilds the ghost events from those results
   (obs_events) and must find every clause satisfied.  Proved at the level of decoded stores (verdict_core); the
   byte level adds dec_store o enc_store, which is the identity only for indexes/ids < 2^64 and fewer than 2^32
   dispatched entries (codec_roundtrip) — the model's N is unbounded. *)
From Verif Require Import Common.Base C01.Model C01.Spec C01.Proofs1 C01.Proofs2 C01.Proofs3 C01.Checker C01.Proofs8 C01.Harness.

Definition hp (h : handle) : N * N := (fst (fst h), snd h).

Lemma map_hp_remove_nth k : forall outs, map hp (remove_nth k outs) = remove_nth k (map hp outs).
Proof. induction k as [|k IH]; intros [|a l]; simpl; try reflexivity. now rewrite IH. Qed.

Lemma nth_error_map_hp outs k : nth_error (map hp outs) k = option_map hp (nth_error outs k).
Proof. apply nth_error_map. Qed.

Lemma wp_trivial {A} (m : act A) st : wp true T m st (fun _ _ => True).
Proof. revert st. induction m as [a|ops k IH|]; intros st; simpl; auto. split; [exact I|apply IH]. Qed.

(* how an operation changes the list of outstanding handles, and which results it can return *)
Definition op_shape (outs : list handle) (o : op) (outs1 : list handle) (r : res) : Prop :=
  match o with
  | Offer x => outs1 = outs /\ (r = ROffer true \/ r = ROffer false \/ r = ROfferWait \/ r = ROfferTooLarge)
  | Read => (exists i id sz, r = RRead i id /\ outs1 = outs ++ [(i, sz, id)]) \/ ((r = RStopped \/ r = RBlocked) /\ outs1 = outs)
  | Complete k oc => match nth_error outs k with
                     | None => r = RComplete false /\ outs1 = outs
                     | Some _ => r = RComplete true /\ outs1 = remove_nth k outs
                     end
  | Shutdown => r = RShutdown /\ outs1 = outs
  end.

Lemma run_op_shape c v outs st o :
  wp true T (run_op c (v, outs) o) st (fun x _ => op_shape outs o (snd (fst x)) (snd x)).
Proof.
  destruct o as [x| |k oc|]; cbn [run_op].
  - destruct (too_large c x); [cbn [wp fst snd op_shape]; auto|].
    destruct (would_wait c v x); [cbn [wp fst snd op_shape]; auto|].
    apply wp_bind. eapply wp_mono; [intros s0 Hs0; exact Hs0| |apply wp_trivial].
    intros [v' ok] st' _. cbn [wp fst snd op_shape]. destruct ok; auto.
  - apply wp_bind. eapply wp_mono; [intros s0 Hs0; exact Hs0| |apply wp_trivial].
    intros [v' rr] st' _. cbn [fst snd]. destruct rr as [i r| |]; cbn [wp fst snd op_shape]; [left; eauto|right; auto|right; auto].
  - cbn [op_shape]. destruct (nth_error outs k) as [[[i sz] r]|]; [|cbn [wp fst snd]; auto].
    apply wp_bind. eapply wp_mono; [intros s0 Hs0; exact Hs0| |apply wp_trivial].
    intros v' st' _. cbn [wp fst snd]. auto.
  - apply wp_bind. eapply wp_mono; [intros s0 Hs0; exact Hs0| |apply wp_trivial].
    intros v' st' _. cbn [wp fst snd op_shape]. auto.
Qed.

Lemma obs_events_stopped_nil ops stopped : obs_events ops [] stopped [] = [].
Proof.
  destruct ops as [|o t]; [reflexivity|]. cbn [obs_events]. destruct stopped; [|reflexivity].
  destruct o as [x| |k oc|]; try reflexivity. destruct oc; destruct k; reflexivity.
Qed.

(* the checker's reconstruction of the ghost events from the model's own results gives back the model's events *)
Lemma script_events_link c ops : forall b st v outs evs obs,
  exists rs', i_obs (run_script c b st (v, outs) ops evs obs) = obs ++ rs' /\
    i_events (run_script c b st (v, outs) ops evs obs) =
    evs ++ obs_events ops (map code_of_res rs') (i_died (run_script c b st (v, outs) ops evs obs)) (map hp outs).
Proof.
  induction ops as [|o t IH]; intros b st v outs evs obs; cbn [run_script].
  - exists []. cbn [i_obs i_events i_died map obs_events]. now rewrite !app_nil_r.
  - pose proof (wp_run true T _ st _ b I (run_op_shape c v outs st o)) as HS.
    destruct (run_act b st (run_op c (v, outs) o)) as [[st1 b1] [[[v1 outs1] r]|]].
    + cbn [fst snd] in HS. cbn [fst snd].
      destruct (IH b1 st1 v1 outs1 ((evs ++ pre_events (v, outs) o) ++ post_events o r) (obs ++ [(r, qsize v1)]))
        as (rs'' & E1 & E2).
      exists ((r, qsize v1) :: rs''). split; [rewrite E1, <- app_assoc; reflexivity|].
      rewrite E2. rewrite <- !app_assoc. f_equal.
      set (R := run_script c b1 st1 (v1, outs1) t ((evs ++ pre_events (v, outs) o) ++ post_events o r) (obs ++ [(r, qsize v1)])) in *.
      cbn [map code_of_res].
      destruct o as [x| |k oc|]; cbn [op_shape] in HS; cbn [pre_events post_events snd app].
      * destruct HS as [-> [-> | [-> | [-> | ->]]]]; cbn [obs_events code_of_res Nat.eqb N.eqb andb app]; reflexivity.
      * destruct HS as [(i & id & sz & -> & ->)|[[->| ->] ->]]; cbn [obs_events code_of_res Nat.eqb app].
        -- rewrite map_app. reflexivity.
        -- reflexivity.
        -- reflexivity.
      * cbn [obs_events code_of_res]. rewrite nth_error_map_hp.
        destruct (nth_error outs k) as [[[i sz] id]|] eqn:En; cbn [option_map hp fst snd].
        -- destruct HS as [-> ->]. rewrite map_hp_remove_nth. destruct oc; cbn [app]; reflexivity.
        -- destruct HS as [-> ->]. destruct oc; reflexivity.
      * destruct HS as [-> ->]. cbn [obs_events code_of_res]. reflexivity.
    + exists []. cbn [i_obs i_events i_died map]. rewrite app_nil_r. split; [reflexivity|]. f_equal.
      cbn [obs_events]. destruct o as [x| |k oc|]; cbn [pre_events snd]; try reflexivity.
      rewrite nth_error_map_hp. destruct oc; try reflexivity;
        destruct (nth_error outs k) as [[[i sz] id]|]; reflexivity.
Qed.

Lemma incarnation_events_link c st sc b :
  i_events (incarnation c st sc b) =
  obs_events sc (map code_of_res (i_obs (incarnation c st sc b))) (i_died (incarnation c st sc b)) [].
Proof.
  unfold incarnation. destruct (run_act b st (initClient c)) as [[st1 b1] [[v errc]|]].
  - destruct (script_events_link c sc b1 st1 v [] [] []) as (rs' & E1 & E2). rewrite E1, E2. reflexivity.
  - cbn [i_events i_obs i_died map]. now rewrite obs_events_stopped_nil.
Qed.

(* observe: the model's own run as the checker's input (decoded-store level) *)
Definition observe_inc (sc : list op) (r : irun) : cinc :=
  (sc, i_died r, map code_of_res (i_obs r), Some (i_store r)).

Fixpoint observe (c : cfg) (st : store) (h : history) : list cinc :=
  match h with
  | [] => []
  | (sc, b) :: t => let r := incarnation c st sc b in observe_inc sc r :: observe c (i_store r) t
  end.

Lemma model_passes_checker_gen c h : forall st E last,
  Icr E st -> (last = None \/ last = Some st) -> verdict_core (observe c st h) E last = 0%nat.
Proof.
  induction h as [|[sc b] t IH]; intros st E last HI HL; cbn [observe verdict_core].
  - destruct HL as [->| ->]; [reflexivity|].
    assert (C1 : clause1b st E = true).
    { apply clause1b_sound. intros ND r Hr. destruct HI as (_ & G & F). destruct (G r Hr) as [Fi|D]; [now apply F|destruct (ND r D)]. }
    now rewrite C1.
  - unfold observe_inc. rewrite <- incarnation_events_link.
    pose proof (incarnation_inv c st sc b E HI) as HI'.
    assert (C2 : clause2b (i_store (incarnation c st sc b)) (E ++ i_events (incarnation c st sc b)) = true).
    { apply clause2b_sound. apply HI'. }
    rewrite C2. apply IH; [exact HI'|now right].
Qed.

Lemma model_passes_checker_l c h : verdict_core (observe c store0 h) [] None = 0%nat.
Proof. apply model_passes_checker_gen; [exact Icr_store0|now left]. Qed.

(* the harness-level record (obs_of / oinc_of of C01/Harness.v) of the model's run is [observe] up to dec_store o enc_store *)
Lemma harness_record_is_observe sc b r :
  decode_inc (oinc_of ((sc, b), obs_of r)) =
  (map op_of sc, i_died r, map code_of_res (i_obs r),
   let '(rr, w, d, s, items) := enc_store (i_store r) in dec_store rr w d s items).
Proof.
  unfold oinc_of, obs_of, decode_inc. destruct (enc_store (i_store r)) as [[[[rr w] d] s] items].
  f_equal. f_equal. f_equal. unfold parked. destruct (i_died r), (i_budget r); reflexivity.
Qed.
