(* C01/Proofs2.v — the crash invariant Icr is preserved by every storage call of every queue
   operation (wp specs), by start-up recovery, by scripts and histories under EVERY budget. *)
From Verif Require Import Common.Base C01.Model C01.Spec C01.Proofs1.

Local Open Scope N_scope.

(* ------------------------------------------------------------------------------------------- *)
(* swap_remove                                                                                 *)
(* ------------------------------------------------------------------------------------------- *)
Lemma last_removelast_In (t : list N) i : t <> [] -> (In i (last t 0 :: removelast t) <-> In i t).
Proof.
  intros Ht. rewrite (app_removelast_last 0 Ht) at 3. rewrite in_app_iff. simpl. tauto.
Qed.

Lemma swap_remove_incl x l i : In i (swap_remove x l) -> In i l.
Proof.
  induction l as [|y t IH]; simpl; [auto|].
  destruct (N.eqb y x).
  - destruct t as [|z t']; [intros []|]. intros H. right. apply (last_removelast_In (z :: t') i); [discriminate|exact H].
  - intros [H|H]; [now left|right; auto].
Qed.

Lemma swap_remove_keep x l i : In i l -> i <> x -> In i (swap_remove x l).
Proof.
  induction l as [|y t IH]; simpl; [auto|]. intros H Hne.
  destruct (N.eqb y x) eqn:E.
  - apply N.eqb_eq in E. subst y. destruct H as [H|H]; [congruence|].
    destruct t as [|z t']; [destruct H|]. apply (last_removelast_In (z :: t') i); [discriminate|exact H].
  - destruct H as [H|H]; [now left|right; auto].
Qed.

(* ------------------------------------------------------------------------------------------- *)
(* store updates of the three mutating batches + the size snapshot                             *)
(* ------------------------------------------------------------------------------------------- *)
Definition put_store (st : store) (w x : N) : store :=
  mkStore (s_ri st) (Some (w + 1)) (s_di st) (s_si st) (iset w x (s_items st)).
Definition next_store (st : store) (v : vol) : store :=
  mkStore (Some (ri v + 1)) (s_wi st) (Some (cdi v ++ [ri v])) (s_si st) (s_items st).
Definition next_vol (v : vol) : vol := set_ri_cdi v (ri v + 1) (cdi v ++ [ri v]).
Definition fin_store (st : store) (l : list N) (index : N) : store :=
  mkStore (s_ri st) (s_wi st) (Some l) (s_si st) (idel index (s_items st)).

Ltac ssimpl := cbn [s_ri s_wi s_di s_si s_items put_store next_store fin_store set_ikey set_items
  ri wi cdi qsize stopped refs closed set_wi_q set_q set_ri_cdi set_cdi set_refs set_stopped unref next_vol fst snd] in *.

Lemma put_store_eq st w x : fst (apply_ops [SetIdx KWi (w + 1); SetItem w x] st) = put_store st w x.
Proof. reflexivity. Qed.

Lemma eff_put st w x :
  (s_wi st = None -> s_ri st = None) -> eff (put_store st w x) = (fst (eff st), w + 1).
Proof.
  unfold eff, put_store; simpl. destruct (s_ri st), (s_wi st); simpl; try reflexivity.
  intros H. discriminate (H eq_refl).
Qed.

Lemma eff_next st v :
  eff st = (ri v, wi v) -> ri v < wi v -> eff (next_store st v) = (ri v + 1, wi v) /\ s_wi st <> None.
Proof.
  unfold eff, next_store; simpl. destruct (s_ri st), (s_wi st); simpl; intros H Hlt; inversion H; subst;
    try (split; [reflexivity|discriminate]); rewrite <- H1, <- H2 in Hlt; lia.
Qed.

Lemma eff_si st n : eff (set_ikey KSi n st) = eff st.
Proof. reflexivity. Qed.
Lemma eff_fin st l index : eff (fin_store st l index) = eff st.
Proof. reflexivity. Qed.

Lemma durable_si st n r : durable (set_ikey KSi n st) r <-> durable st r.
Proof. unfold durable, di_of, eff. simpl. tauto. Qed.

(* ------------------------------------------------------------------------------------------- *)
(* the consistency relation between volatile state, outstanding handles and the store          *)
(* ------------------------------------------------------------------------------------------- *)
Record Cons (v : vol) (outs : list handle) (st : store) : Prop := mkCons {
  c_eff : eff st = (ri v, wi v);
  c_wn : s_wi st = None -> s_ri st = None;
  c_le : ri v <= wi v;
  c_cdi : forall i, In i (cdi v) -> i < ri v;
  c_di : forall i, In i (di_of st) -> i < ri v;
  c_dic : forall i, In i (di_of st) -> iget i (s_items st) <> None -> In i (cdi v);
  c_out : forall i sz r, In (i, sz, r) outs ->
            i < ri v /\ forall r', iget i (s_items st) = Some r' -> r' = r
}.

Definition St (E : list event) (v : vol) (outs : list handle) (st : store) : Prop :=
  Cons v outs st /\ ghost_ok E st.

Lemma Cons_wf v outs st : Cons v outs st -> wf_store st.
Proof. intros C. destruct C. unfold wf_store. rewrite c_eff0. simpl. auto. Qed.

Lemma St_Icr E v outs st : St E v outs st -> fin_hand E -> Icr E st.
Proof. intros [C G] F. split; [eapply Cons_wf; eauto|auto]. Qed.

Lemma Cons_ext v v' outs st :
  ri v' = ri v -> wi v' = wi v -> cdi v' = cdi v -> Cons v outs st -> Cons v' outs st.
Proof. intros E1 E2 E3 C. destruct C. constructor; rewrite ?E1, ?E2, ?E3; auto. Qed.

Lemma St_ext E v v' outs st :
  ri v' = ri v -> wi v' = wi v -> cdi v' = cdi v -> St E v outs st -> St E v' outs st.
Proof. intros E1 E2 E3 [C G]. split; [eapply Cons_ext; eauto|auto]. Qed.

Lemma St_outs E v outs outs' st : incl outs' outs -> St E v outs st -> St E v outs' st.
Proof.
  intros Hi [C G]. split; [|exact G]. destruct C. constructor; auto.
  intros i sz r H. apply (c_out0 i sz r). now apply Hi.
Qed.

Lemma ghost_ok_mono E st st' :
  (forall r, durable st r -> durable st' r \/ In r (finals E)) -> ghost_ok E st -> ghost_ok E st'.
Proof. intros H G r Hr. destruct (G r Hr) as [F|D]; [now left|]. destruct (H r D); auto. Qed.

(* a put at the write index keeps every durable request durable *)
Lemma put_durable_mono st a w x r :
  eff st = (a, w) -> (s_wi st = None -> s_ri st = None) -> a <= w ->
  (forall i, In i (di_of st) -> i < a) ->
  durable st r -> durable (put_store st w x) r.
Proof.
  intros He Hwn Hle Hdi (i & Hb & Hw). rewrite He in Hw. ssimpl.
  assert (i <> w) by (destruct Hw as [R|Hd]; [lia|specialize (Hdi _ Hd); lia]).
  exists i. split.
  - unfold put_store; ssimpl. rewrite iget_iset. destruct (N.eqb_spec i w); [congruence|exact Hb].
  - rewrite eff_put by exact Hwn. rewrite He. ssimpl.
    destruct Hw as [R|Hd]; [left; lia|right; exact Hd].
Qed.

Lemma put_durable_new st a w x :
  eff st = (a, w) -> (s_wi st = None -> s_ri st = None) -> a <= w -> durable (put_store st w x) x.
Proof.
  intros He Hwn Hle. exists w. rewrite eff_put by exact Hwn. rewrite He. ssimpl. split.
  - unfold put_store; ssimpl. now rewrite iget_iset, N.eqb_refl.
  - left. lia.
Qed.

(* ---- enqueue ---- *)
Lemma St_put E v outs st x q :
  St E v outs st ->
  St E (set_wi_q v (wi v + 1) q) outs (put_store st (wi v) x).
Proof.
  intros [C G]. destruct C. split.
  - constructor; ssimpl; auto.
    + rewrite eff_put by exact c_wn0. now rewrite c_eff0.
    + discriminate.
    + lia.
    + intros i Hi Hb. apply c_dic0; [exact Hi|]. rewrite iget_iset in Hb.
      specialize (c_di0 i Hi). destruct (N.eqb_spec i (wi v)); [lia|exact Hb].
    + intros i sz r Hin. destruct (c_out0 i sz r Hin) as [L B]. split; [exact L|].
      intros r'. rewrite iget_iset. destruct (N.eqb_spec i (wi v)); [lia|apply B].
  - apply ghost_ok_mono with (st := st); [|exact G]. intros r D. left.
    eapply put_durable_mono; eauto.
Qed.

Lemma St_si E v outs st n : St E v outs st -> St E v outs (set_ikey KSi n st).
Proof.
  intros [C G]. split.
  - destruct C. constructor; auto.
  - intros r Hr. destruct (G r Hr); [now left|right]. now apply durable_si.
Qed.

(* ---- dequeue ---- *)
Lemma St_next E v outs st :
  St E v outs st -> ri v < wi v -> St E (next_vol v) outs (next_store st v).
Proof.
  intros [C G] Hlt. destruct C. destruct (eff_next st v c_eff0 Hlt) as [En Hw]. split.
  - constructor; ssimpl; auto.
    + intros H. congruence.
    + lia.
    + intros i Hi. apply in_app_iff in Hi as [Hi|[<-|[]]]; [specialize (c_cdi0 _ Hi)|]; lia.
    + unfold di_of; ssimpl. intros i Hi. apply in_app_iff in Hi as [Hi|[<-|[]]]; [specialize (c_cdi0 _ Hi)|]; lia.
    + intros i sz r Hin. destruct (c_out0 i sz r Hin) as [L B]. split; [lia|exact B].
  - apply ghost_ok_mono with (st := st); [|exact G]. intros r (i & Hb & Hw'). left. exists i. split; [exact Hb|].
    rewrite En. rewrite c_eff0 in Hw'. ssimpl.
    destruct Hw' as [R|Hd].
    + destruct (N.eqb_spec i (ri v)) as [->|Hne].
      * right. unfold di_of; ssimpl. apply in_app_iff. right. now left.
      * left. lia.
    + right. unfold di_of; ssimpl. apply in_app_iff. left. apply c_dic0; [exact Hd|congruence].
Qed.

Lemma St_handle E v outs st i sz r :
  St E v outs st -> i < ri v -> iget i (s_items st) = Some r -> St E v (outs ++ [(i, sz, r)]) st.
Proof.
  intros [C G] L B. split; [|exact G]. destruct C. constructor; auto.
  intros i' sz' r' Hin. apply in_app_iff in Hin as [Hin|[Hin|[]]]; [now apply (c_out0 i' sz' r')|].
  inversion Hin; subst. split; [exact L|]. intros r2 H2. congruence.
Qed.

(* ---- completion ---- *)
Lemma St_finish E v outs st index :
  St E v outs st ->
  (forall r, iget index (s_items st) = Some r -> In r (finals E)) ->
  St E (set_cdi v (swap_remove index (cdi v))) outs (fin_store st (swap_remove index (cdi v)) index).
Proof.
  intros [C G] HF. destruct C. split.
  - constructor; ssimpl; auto.
    + intros i Hi. apply c_cdi0. eapply swap_remove_incl; eauto.
    + unfold di_of; ssimpl. intros i Hi. apply c_cdi0. eapply swap_remove_incl; eauto.
    + intros i sz r Hin. destruct (c_out0 i sz r Hin) as [L B]. split; [exact L|].
      intros r'. rewrite iget_idel. destruct (N.eqb i index); [discriminate|apply B].
  - apply ghost_ok_mono with (st := st); [|exact G]. intros r (i & Hb & Hw).
    destruct (N.eqb_spec i index) as [->|Hne]; [right; now apply HF|].
    left. exists i. split.
    + ssimpl. rewrite iget_idel. destruct (N.eqb_spec i index); [congruence|exact Hb].
    + rewrite eff_fin. destruct Hw as [R|Hd]; [left; exact R|right].
      unfold di_of; ssimpl. apply swap_remove_keep; [|exact Hne]. apply c_dic0; [exact Hd|congruence].
Qed.

(* ------------------------------------------------------------------------------------------- *)
(* wp specs of the queue functions; crash invariant Icr E at every storage-call boundary       *)
(* ------------------------------------------------------------------------------------------- *)
(* putInternal, generically: [P v st] is any relation preserved by the put batch and by the size
   snapshot, and implying the crash invariant *)
Lemma wp_put (c : cfg) (bl : bool) (I : store -> Prop) (P : vol -> store -> Prop) v st x (Q : vol * bool -> store -> Prop) :
  (forall v' st', P v' st' -> I st') ->
  (forall v' st' n, P v' st' -> P v' (set_ikey KSi n st')) ->
  (forall q, P (set_wi_q v (wi v + 1) q) (put_store st (wi v) x)) ->
  (Z.ltb (capacity c) (qsize v + sizeof c x) = true -> Q (v, false) st) ->
  (forall q st', P (set_wi_q v (wi v + 1) q) st' ->
                 s_items st' = iset (wi v) x (s_items st) ->
                 (forall r, durable (put_store st (wi v) x) r -> durable st' r) ->
                 Q (set_wi_q v (wi v + 1) q, true) st') ->
  wp bl I (putInternal c v x) st Q.
Proof.
  intros HI HSi HPut HQf HQt. unfold putInternal.
  destruct (Z.ltb (capacity c) (qsize v + sizeof c x)) eqn:Et; [exact (HQf eq_refl)|].
  cbn [wp]. rewrite put_store_eq.
  set (q := (qsize v + sizeof c x)%Z). set (v' := set_wi_q v (wi v + 1) q).
  specialize (HPut q). fold v' in HPut.
  split; [eapply HI; eauto|].
  destruct (N.eqb (wi v' mod 10) 5).
  - unfold backup. destruct (reqSized c); [apply HQt; auto|].
    cbn [wp]. change (fst (apply_ops [SetIdx KSi (Z.to_N (qsize v'))] (put_store st (wi v) x)))
      with (set_ikey KSi (Z.to_N (qsize v')) (put_store st (wi v) x)).
    pose proof (HSi _ _ (Z.to_N (qsize v')) HPut) as H2.
    split; [eapply HI; eauto|]. apply HQt; [exact H2|reflexivity|]. intros r Hr. now apply durable_si.
  - apply HQt; auto.
Qed.


Section Specs.
Variable c : cfg.
Variable E : list event.
Hypothesis FH : fin_hand E.

Lemma spec_backup {A} v outs st (k : act A) (Q : A -> store -> Prop) :
  St E v outs st ->
  (forall st', St E v outs st' -> wp true (Icr E) k st' Q) ->
  forall v0, wp true (Icr E) (backup c v0 k) st Q.
Proof.
  intros HS Hk v0. unfold backup. destruct (reqSized c); [now apply Hk|].
  cbn [wp]. change (fst (apply_ops [SetIdx KSi (Z.to_N (qsize v0))] st)) with (set_ikey KSi (Z.to_N (qsize v0)) st).
  pose proof (St_si E v outs st (Z.to_N (qsize v0)) HS) as HS'.
  split; [eapply St_Icr; eauto|now apply Hk].
Qed.

Lemma spec_put v outs st x :
  St E v outs st ->
  wp true (Icr E) (putInternal c v x) st
     (fun y st' => St E (fst y) outs st' /\ (snd y = true -> durable st' x)).
Proof.
  intros HS. apply (wp_put c true (Icr E) (fun v' st' => St E v' outs st')); auto.
  - intros v' st' H. eapply St_Icr; eauto.
  - intros v' st' n H. now apply St_si.
  - intros q. now apply St_put.
  - intros _. cbn [fst snd]. split; [exact HS|discriminate].
  - intros q st' H1 _ H2. cbn [fst snd]. split; [exact H1|]. intros _. apply H2.
    destruct HS as [C _]. destruct C. eapply put_durable_new; eauto.
Qed.

Lemma spec_finish v outs st index :
  St E v outs st ->
  (forall r, iget index (s_items st) = Some r -> In r (finals E)) ->
  wp true (Icr E) (itemDispatchingFinish v index) st
     (fun v' st' => St E v' outs st' /\ ri v' = ri v /\ wi v' = wi v).
Proof.
  intros HS HF. unfold itemDispatchingFinish. cbn [wp].
  change (fst (apply_ops [SetDi (swap_remove index (cdi v)); DelItem index] st))
    with (fin_store st (swap_remove index (cdi v)) index).
  pose proof (St_finish E v outs st index HS HF) as HS'.
  split; [eapply St_Icr; eauto|]. split; [exact HS'|split; reflexivity].
Qed.

Definition read_post (v : vol) (outs : list handle) (y : vol * option (N * N)) (st' : store) : Prop :=
  ri (fst y) = ri v + 1 /\ wi (fst y) = wi v /\
  match snd y with
  | Some (i, r) => i = ri v /\ forall sz, St E (fst y) (outs ++ [(i, sz, r)]) st'
  | None => St E (fst y) outs st'
  end.

Lemma spec_getNext v outs st :
  St E v outs st -> ri v < wi v ->
  wp true (Icr E) (getNextItem v) st (read_post v outs).
Proof.
  intros HS Hlt. unfold getNextItem. cbn [wp].
  change (fst (apply_ops [SetIdx KRi (ri (set_ri_cdi v (ri v + 1) (cdi v ++ [ri v])));
                          SetDi (cdi (set_ri_cdi v (ri v + 1) (cdi v ++ [ri v]))); GetItem (ri v)] st))
    with (next_store st v).
  change (snd (apply_ops [SetIdx KRi (ri (set_ri_cdi v (ri v + 1) (cdi v ++ [ri v])));
                          SetDi (cdi (set_ri_cdi v (ri v + 1) (cdi v ++ [ri v]))); GetItem (ri v)] st))
    with ([None; None; option_map VBody (iget (ri v) (s_items st))] : list (option val)).
  pose proof (St_next E v outs st HS Hlt) as HS1. fold (next_vol v).
  split; [eapply St_Icr; eauto|].
  unfold res_body. cbn [nth_error].
  destruct (iget (ri v) (s_items st)) as [r|] eqn:Eb; cbn [option_map].
  - cbn [wp]. unfold read_post. cbn [fst snd]. split; [reflexivity|split; [reflexivity|split; [reflexivity|]]].
    intros sz. apply St_handle.
    + eapply St_ext; [| | |exact HS1]; reflexivity.
    + ssimpl. lia.
    + exact Eb.
  - apply wp_bind. eapply wp_mono; [intros s Hs; exact Hs| |apply (spec_finish (next_vol v) outs (next_store st v) (ri v) HS1)].
    + intros v2 st2 (H1 & H2 & H3). cbn [wp]. unfold read_post. cbn [fst snd]. rewrite H2, H3. auto.
    + ssimpl. rewrite Eb. discriminate.
Qed.

Definition loop_post (v : vol) (outs : list handle) (y : vol * rres) (st' : store) : Prop :=
  ri v <= ri (fst y) /\ wi (fst y) = wi v /\
  match snd y with
  | RItem i r => forall sz, St E (fst y) (outs ++ [(i, sz, r)]) st'
  | _ => St E (fst y) outs st'
  end.

Lemma spec_read_loop fuel : forall v outs st,
  St E v outs st -> wp true (Icr E) (read_loop fuel v) st (loop_post v outs).
Proof.
  induction fuel as [|f IH]; intros v outs st HS; cbn [read_loop].
  - destruct (N.eqb (ri v) (wi v)); cbn [wp]; unfold loop_post; cbn [fst snd]; (split; [lia|split; [reflexivity|exact HS]]).
  - destruct (N.eqb_spec (ri v) (wi v)) as [Heq|Hne].
    + cbn [wp]. unfold loop_post; cbn [fst snd]. split; [lia|split; [reflexivity|exact HS]].
    + assert (Hlt : ri v < wi v) by (destruct HS as [C _]; destruct C; lia).
      apply wp_bind. eapply wp_mono; [intros s Hs; exact Hs| |apply (spec_getNext v outs st HS Hlt)].
      intros [v1 o] st1 (H1 & H2 & H3). cbn [fst snd] in *.
      set (v2 := if N.eqb (ri v1) (wi v1) then set_q v1 0 else v1).
      assert (E1 : ri v2 = ri v1 /\ wi v2 = wi v1 /\ cdi v2 = cdi v1)
        by (unfold v2; destruct (N.eqb (ri v1) (wi v1)); auto).
      destruct E1 as (Er & Ew & Ec).
      destruct o as [[i r]|].
      * cbn [wp]. unfold loop_post. cbn [fst snd]. destruct H3 as [_ H3]. split; [lia|split; [lia|]].
        intros sz. eapply St_ext; [| | |apply (H3 sz)]; auto.
      * eapply wp_mono; [intros s Hs; exact Hs| |apply (IH v2 outs st1)].
        -- intros [v3 rr] st3 (A1 & A2 & A3). unfold loop_post in *. cbn [fst snd] in *. split; [lia|split; [lia|exact A3]].
        -- eapply St_ext; [| | |exact H3]; auto.
Qed.

Lemma spec_onDone v outs st index sz oc :
  St E v outs st ->
  (oc <> OShutdown -> forall r, iget index (s_items st) = Some r -> In r (finals E)) ->
  wp true (Icr E) (onDone c v index sz oc) st (fun v' st' => St E v' outs st').
Proof.
  intros HS HF. unfold onDone.
  set (v1 := set_q v (Z.max 0 (qsize v - sz))).
  assert (HS1 : St E v1 outs st) by (eapply St_ext; [| | |exact HS]; reflexivity).
  assert (Fin : forall v2 st2, St E v2 outs st2 ->
     wp true (Icr E) (if N.eqb (ri v2 mod 10) 0 then backup c v2 (Done (unref v2)) else Done (unref v2)) st2
        (fun v' st' => St E v' outs st')).
  { intros v2 st2 H2.
    assert (D : forall st', St E v2 outs st' -> wp true (Icr E) (Done (unref v2)) st' (fun v' st' => St E v' outs st')).
    { intros st' H'. cbn [wp]. eapply St_ext; [| | |exact H']; reflexivity. }
    destruct (N.eqb (ri v2 mod 10) 0); [|now apply D].
    eapply spec_backup; eauto. }
  destruct oc.
  - apply wp_bind. eapply wp_mono; [intros s Hs; exact Hs| |apply (spec_finish v1 outs st index HS1)].
    + intros v2 st2 (H2 & _). now apply Fin.
    + apply HF. discriminate.
  - apply wp_bind. eapply wp_mono; [intros s Hs; exact Hs| |apply (spec_finish v1 outs st index HS1)].
    + intros v2 st2 (H2 & _). now apply Fin.
    + apply HF. discriminate.
  - cbn [wp]. eapply St_ext; [| | |exact HS1]; reflexivity.
Qed.

(* ---- start-up recovery ---- *)
(* relation during the re-put loop: [todo] = (index, value read by the retrieve batch) still to
   be processed, [dels] = indexes whose delete operation is in the cleanup batch *)
Record RCons (v : vol) (st : store) (todo : list (N * option val)) (dels : list N) : Prop := mkRCons {
  r_eff : eff st = (ri v, wi v);
  r_wn : s_wi st = None -> s_ri st = None;
  r_le : ri v <= wi v;
  r_cdi : forall i, In i (cdi v) -> i < ri v;
  r_di : forall i, In i (di_of st) -> i < ri v;
  r_cov : forall i, In i (di_of st) -> iget i (s_items st) <> None ->
            In i (cdi v) \/ In i dels \/ In i (map fst todo);
  r_todo : forall i val, In (i, val) todo ->
             i < ri v /\ val = option_map VBody (iget i (s_items st));
  r_dels : forall i r, In i dels -> iget i (s_items st) = Some r ->
             exists j, ri v <= j < wi v /\ iget j (s_items st) = Some r;
  r_dlt : forall i, In i dels -> i < ri v
}.

Definition RSt (todo : list (N * option val)) (dels : list N) (v : vol) (st : store) : Prop :=
  RCons v st todo dels /\ ghost_ok E st.

Lemma RSt_Icr todo dels v st : RSt todo dels v st -> Icr E st.
Proof.
  intros [R G]. destruct R. split; [|auto]. unfold wf_store. rewrite r_eff0. ssimpl. auto.
Qed.

Lemma RSt_si todo dels v st n : RSt todo dels v st -> RSt todo dels v (set_ikey KSi n st).
Proof.
  intros [R G]. split.
  - destruct R. constructor; auto.
  - intros r Hr. destruct (G r Hr); [now left|right]. now apply durable_si.
Qed.

Lemma RSt_put todo dels v st x q :
  RSt todo dels v st -> RSt todo dels (set_wi_q v (wi v + 1) q) (put_store st (wi v) x).
Proof.
  intros [R G]. destruct R. split.
  - constructor; ssimpl; auto.
    + rewrite eff_put by exact r_wn0. now rewrite r_eff0.
    + discriminate.
    + lia.
    + intros i Hi Hb. apply r_cov0; [exact Hi|]. rewrite iget_iset in Hb.
      specialize (r_di0 i Hi). destruct (N.eqb_spec i (wi v)); [lia|exact Hb].
    + intros i val Hin. destruct (r_todo0 i val Hin) as [L B]. split; [exact L|].
      rewrite iget_iset. destruct (N.eqb_spec i (wi v)); [lia|exact B].
    + intros i r Hi. rewrite iget_iset. specialize (r_dlt0 i Hi).
      destruct (N.eqb_spec i (wi v)); [lia|]. intros Hb.
      destruct (r_dels0 i r Hi Hb) as (j & Hj & Hbj). exists j. split; [lia|].
      rewrite iget_iset. destruct (N.eqb_spec j (wi v)); [lia|exact Hbj].
  - apply ghost_ok_mono with (st := st); [|exact G]. intros r D. left.
    eapply put_durable_mono; eauto.
Qed.

Lemma RSt_ext todo dels v v' st :
  ri v' = ri v -> wi v' = wi v -> cdi v' = cdi v -> RSt todo dels v st -> RSt todo dels v' st.
Proof.
  intros E1 E2 E3 [R G]. split; [|exact G]. destruct R. constructor; rewrite ?E1, ?E2, ?E3; auto.
Qed.

Lemma RSt_moved i val t dels v st :
  RSt ((i, val) :: t) dels v st ->
  (forall r', iget i (s_items st) = Some r' ->
              exists j, ri v <= j < wi v /\ iget j (s_items st) = Some r') ->
  RSt t (dels ++ [i]) v st.
Proof.
  intros [R G] HB. split; [|exact G]. destruct R.
  destruct (r_todo0 i val (or_introl eq_refl)) as [Li _].
  constructor; auto.
  - intros j Hj Hb. destruct (r_cov0 j Hj Hb) as [H|[H|[H|H]]]; auto.
    + right; left. apply in_app_iff. now left.
    + right; left. apply in_app_iff. right. cbn [fst] in H. subst. now left.
  - intros j val' Hin. apply r_todo0. now right.
  - intros j r Hj Hb. apply in_app_iff in Hj as [Hj|[<-|[]]]; [now apply (r_dels0 j r)|now apply HB].
  - intros j Hj. apply in_app_iff in Hj as [Hj|[<-|[]]]; [now apply r_dlt0|exact Li].
Qed.

Lemma RSt_refused i val t dels v st :
  RSt ((i, val) :: t) dels v st -> RSt t dels (set_cdi v (cdi v ++ [i])) st.
Proof.
  intros [R G]. split; [|exact G]. destruct R.
  destruct (r_todo0 i val (or_introl eq_refl)) as [Li _].
  constructor; ssimpl; auto.
  - intros j Hj. apply in_app_iff in Hj as [Hj|[<-|[]]]; [now apply r_cdi0|exact Li].
  - intros j Hj Hb. destruct (r_cov0 j Hj Hb) as [H|[H|[H|H]]]; auto.
    + left. apply in_app_iff. now left.
    + left. apply in_app_iff. right. subst. now left.
  - intros j val' Hin. apply r_todo0. now right.
Qed.

Lemma spec_reenqueue todo : forall v st dels errc,
  RSt todo dels v st ->
  wp true (Icr E) (reenqueue c v todo dels errc) st (fun y st' => St E (fst y) [] st').
Proof.
  induction todo as [|[i val] t IH]; intros v st dels errc HR; cbn [reenqueue].
  - (* cleanup() *)
    cbn [wp]. rewrite apply_dels.
    assert (HS : St E v [] (set_items (del_all dels (s_items st)) st)).
    { destruct HR as [R G]. destruct R. split.
      - constructor; auto.
        + intros j Hj Hb. change (iget j (del_all dels (s_items st)) <> None) in Hb.
          rewrite iget_del_all in Hb. destruct (existsb (N.eqb j) dels) eqn:Ex; [congruence|].
          destruct (r_cov0 j Hj Hb) as [H|[H|[]]]; [exact H|].
          apply existsb_eqb_In in H. congruence.
        + intros j sz r [].
      - apply ghost_ok_mono with (st := st); [|exact G]. intros r (j & Hb & Hw). left.
        destruct (existsb (N.eqb j) dels) eqn:Ex.
        + apply existsb_eqb_In in Ex. destruct (r_dels0 j r Ex Hb) as (k & Hk & Hbk).
          exists k. split.
          * change (iget k (del_all dels (s_items st)) = Some r). rewrite iget_del_all.
            destruct (existsb (N.eqb k) dels) eqn:Ek; [|exact Hbk].
            apply existsb_eqb_In in Ek. specialize (r_dlt0 k Ek). lia.
          * left. change (eff (set_items (del_all dels (s_items st)) st)) with (eff st). rewrite r_eff0. ssimpl. lia.
        + exists j. split.
          * change (iget j (del_all dels (s_items st)) = Some r). rewrite iget_del_all, Ex. exact Hb.
          * exact Hw. }
    split; [eapply St_Icr; eauto|exact HS].
  - assert (Hval : val = option_map VBody (iget i (s_items st))).
    { destruct HR as [R _]. destruct R. now destruct (r_todo0 i val (or_introl eq_refl)). }
    assert (Skip : iget i (s_items st) = None ->
                   wp true (Icr E) (reenqueue c v t (dels ++ [i]) errc) st (fun y st' => St E (fst y) [] st')).
    { intros Hn. apply IH. eapply RSt_moved; [exact HR|]. intros r' Hr'. congruence. }
    destruct (iget i (s_items st)) as [r|] eqn:Eb; cbn [option_map] in Hval; subst val; [|now apply Skip].
    apply wp_bind.
    apply (wp_put c true (Icr E) (RSt ((i, Some (VBody r)) :: t) dels)); auto.
    + apply RSt_Icr.
    + intros v' st' n H. now apply RSt_si.
    + intros q. now apply RSt_put.
    + (* refused: keep the stored copy, keep it listed *)
      intros _. cbn [fst snd]. apply IH. eapply RSt_refused; eauto.
    + (* accepted: the delete of the old copy joins the cleanup batch *)
      intros q st' HP Hit _. cbn [fst snd]. apply IH. eapply RSt_moved; [exact HP|].
      intros r' Hr'. exists (wi v). ssimpl.
      assert (Li : i < ri v) by (destruct HR as [R _]; destruct R; now destruct (r_todo0 i _ (or_introl eq_refl))).
      assert (Le : ri v <= wi v) by (destruct HR as [R _]; now destruct R).
      rewrite Hit in *. rewrite iget_iset in Hr'. destruct (N.eqb_spec i (wi v)); [lia|].
      rewrite iget_iset, N.eqb_refl. split; [lia|congruence].
Qed.

Lemma res_idx0 a b : res_idx [option_map VIdx a; b] 0 = a.
Proof. now destruct a. Qed.
Lemma res_idx1 a b : res_idx [a; option_map VIdx b] 1 = b.
Proof. now destruct b. Qed.

Lemma spec_initStorage st :
  Icr E st ->
  wp true (Icr E) (initStorage c) st (fun v st' => st' = st /\ eff st = (ri v, wi v) /\ cdi v = []).
Proof.
  intros HI. unfold initStorage. cbn [wp].
  change (fst (apply_ops [GetIdx KRi; GetIdx KWi] st)) with st.
  change (snd (apply_ops [GetIdx KRi; GetIdx KWi] st)) with [option_map VIdx (s_ri st); option_map VIdx (s_wi st)].
  split; [exact HI|]. rewrite res_idx0, res_idx1.
  set (rw := match s_ri st with
             | Some r => match s_wi st with Some w => (r, w) | None => (0, 0) end
             | None => match s_wi st with Some w => (0, w) | None => (0, 0) end
             end).
  assert (Erw : eff st = rw) by (unfold eff, rw; destruct (s_ri st), (s_wi st); reflexivity).
  destruct rw as [r w].
  destruct ((0 <? w - r) && negb (reqSized c))%bool.
  - cbn [wp]. change (fst (apply_ops [GetIdx KSi] st)) with st. split; [exact HI|]. auto.
  - cbn [wp]. auto.
Qed.

Lemma in_combine_map {A B} (f : A -> B) (l : list A) a b : In (a, b) (combine l (map f l)) -> In a l /\ b = f a.
Proof.
  induction l as [|x l IH]; simpl; [intros []|]. intros [H|H]; [inversion H; subst; auto|].
  destruct (IH H). auto.
Qed.

Lemma map_fst_combine_map {A B} (f : A -> B) (l : list A) : map fst (combine l (map f l)) = l.
Proof. induction l as [|x l IH]; simpl; congruence. Qed.

Lemma spec_retrieve v st :
  Icr E st -> eff st = (ri v, wi v) -> cdi v = [] ->
  wp true (Icr E) (retrieveAndEnqueue c v) st (fun y st' => St E (fst y) [] st').
Proof.
  intros HI He Hc. destruct HI as ((Hle & Hwn & Hdi) & G & _). rewrite He in *. ssimpl.
  unfold retrieveAndEnqueue. cbn [wp].
  change (fst (apply_ops [GetDi] st)) with st.
  change (snd (apply_ops [GetDi] st)) with [option_map VArr (s_di st)].
  assert (HI : Icr E st).
  { split; [|auto]. unfold wf_store. rewrite He. ssimpl. auto. }
  split; [exact HI|].
  assert (Empty : di_of st = [] -> St E v [] st).
  { intros Hd. split; [|exact G]. constructor; auto.
    - rewrite Hc. intros i [].
    - rewrite Hd. intros i [].
    - intros i sz r []. }
  unfold res_arr. cbn [nth_error].
  destruct (s_di st) as [di|] eqn:Ed; cbn [option_map].
  2:{ cbn [wp fst]. apply Empty. unfold di_of. now rewrite Ed. }
  destruct di as [|d0 di'].
  { cbn [wp fst]. apply Empty. unfold di_of. now rewrite Ed. }
  set (di := d0 :: di') in *.
  cbn [wp]. rewrite apply_gets. cbn [fst snd]. split; [exact HI|].
  apply spec_reenqueue. split; [|exact G].
  assert (Hdi' : di_of st = di) by (unfold di_of; now rewrite Ed).
  constructor; auto.
  - rewrite Hc. intros i [].
  - intros i Hi Hb. right; right. rewrite map_fst_combine_map. now rewrite <- Hdi'.
  - intros i val Hin. apply in_combine_map in Hin as [Hin ->]. split; [|reflexivity]. apply Hdi. now rewrite Hdi'.
  - intros i r [].
  - intros i [].
Qed.

Lemma spec_initClient st :
  Icr E st ->
  wp true (Icr E) (initClient c) st (fun y st' => St E (fst y) [] st').
Proof.
  intros HI. unfold initClient. apply wp_bind.
  eapply wp_mono; [intros s Hs; exact Hs| |apply (spec_initStorage st HI)].
  intros v st' (-> & He & Hc). now apply spec_retrieve.
Qed.

End Specs.

(* ------------------------------------------------------------------------------------------- *)
(* ghost events                                                                                *)
(* ------------------------------------------------------------------------------------------- *)
Lemma accepted_app a b : accepted (a ++ b) = accepted a ++ accepted b.
Proof. unfold accepted. now rewrite flat_map_app. Qed.
Lemma finals_app a b : finals (a ++ b) = finals a ++ finals b.
Proof. unfold finals. now rewrite flat_map_app. Qed.
Lemma handoffs_app a b : handoffs (a ++ b) = handoffs a ++ handoffs b.
Proof. unfold handoffs. now rewrite flat_map_app. Qed.

Definition hand_ok (E : list event) (outs : list handle) : Prop :=
  (forall i sz r, In (i, sz, r) outs -> In r (handoffs E)) /\ fin_hand E.

Definition Full (E : list event) (v : vol) (outs : list handle) (st : store) : Prop :=
  St E v outs st /\ hand_ok E outs.

Lemma Full_Icr E v outs st : Full E v outs st -> Icr E st.
Proof. intros [HS [_ F]]. eapply St_Icr; eauto. Qed.

Lemma In_remove_nth {A} (k : nat) (l : list A) x : In x (remove_nth k l) -> In x l.
Proof.
  revert k. induction l as [|a l IH]; intros k; destruct k; simpl; auto.
  intros [H|H]; [now left|right; eauto].
Qed.

Lemma St_evs E E' v outs st :
  (forall r, In r (accepted E') -> In r (accepted E)) ->
  (forall r, In r (finals E) -> In r (finals E')) ->
  St E v outs st -> St E' v outs st.
Proof.
  intros HA HFi [C G]. split; [exact C|]. intros r Hr. destruct (G r (HA r Hr)); auto.
Qed.

(* one operation: Full before => Icr at every boundary, Full after (with the op's events) *)
Lemma op_spec c E v outs st o :
  Full E v outs st ->
  Icr (E ++ pre_events (v, outs) o) st /\
  wp true (Icr (E ++ pre_events (v, outs) o)) (run_op c (v, outs) o) st
     (fun x st' => Full ((E ++ pre_events (v, outs) o) ++ post_events o (snd x)) (fst (fst x)) (snd (fst x)) st').
Proof.
  intros [HS [HO FH]]. destruct o as [x| |k oc|]; cbn [pre_events snd].
  - (* Offer *)
    rewrite app_nil_r. split; [eapply St_Icr; eauto|]. cbn [run_op].
    destruct (too_large c x).
    { cbn [wp fst snd]. unfold post_events. rewrite app_nil_r. split; [exact HS|split; auto]. }
    destruct (would_wait c v x).
    { cbn [wp fst snd]. unfold post_events. rewrite app_nil_r. split; [exact HS|split; auto]. }
    apply wp_bind. eapply wp_mono; [intros s Hs; exact Hs| |apply (spec_put c E FH v outs st x HS)].
    intros [v' ok] st' (H1 & H2). cbn [wp fst snd] in *. unfold post_events.
    destruct ok.
    + split; [split|split].
      * apply H1.
      * intros r Hr. rewrite accepted_app in Hr. rewrite finals_app. cbn in Hr. rewrite app_nil_r.
        apply in_app_iff in Hr as [Hr|[<-|[]]]; [now apply H1|right; auto].
      * intros i sz r Hin. rewrite handoffs_app. apply in_app_iff. left. eapply HO; eauto.
      * intros r. rewrite finals_app, handoffs_app. cbn. rewrite !app_nil_r. apply FH.
    + rewrite app_nil_r. split; [exact H1|split; auto].
  - (* Read *)
    rewrite app_nil_r. split; [eapply St_Icr; eauto|]. cbn [run_op].
    apply wp_bind. unfold readQ. destruct (stopped v).
    + cbn [wp fst snd]. unfold post_events. rewrite app_nil_r. split; [exact HS|split; auto].
    + eapply wp_mono; [intros s Hs; exact Hs| |apply (spec_read_loop E FH _ v outs st HS)].
      intros [v' rr] st' (_ & _ & H3). cbn [fst snd] in *. destruct rr as [i r| |]; cbn [wp fst snd]; unfold post_events.
      * split.
        -- eapply St_evs; [| |apply (H3 (sizeof c r))].
           ++ intros r0. rewrite accepted_app. cbn. now rewrite app_nil_r.
           ++ intros r0. rewrite finals_app. cbn. now rewrite app_nil_r.
        -- split.
           ++ intros i' sz' r' Hin. rewrite handoffs_app. apply in_app_iff.
              apply in_app_iff in Hin as [Hin|[Hin|[]]]; [left; eapply HO; eauto|right; inversion Hin; now left].
           ++ intros r0. rewrite finals_app, handoffs_app. cbn. rewrite app_nil_r. intros H. apply in_app_iff. left. now apply FH.
      * rewrite app_nil_r. split; [exact H3|split; auto].
      * rewrite app_nil_r. split; [exact H3|split; auto].
  - (* Complete *)
    cbn [run_op].
    destruct (nth_error outs k) as [[[i sz] r]|] eqn:En.
    2:{ assert (Ee : E ++ (match oc with OShutdown => [] | _ => [] end) = E) by (destruct oc; apply app_nil_r).
        rewrite Ee. split; [eapply St_Icr; eauto|]. cbn [wp fst snd]. unfold post_events. rewrite app_nil_r.
        split; [exact HS|split; auto]. }
    pose proof (nth_error_In _ _ En) as Hin.
    set (E1 := E ++ match oc with OShutdown => [] | _ => [EvFinal r] end).
    assert (HA : forall r0, In r0 (accepted E1) -> In r0 (accepted E)).
    { intros r0. unfold E1. rewrite accepted_app. destruct oc; cbn; now rewrite app_nil_r. }
    assert (HFi : forall r0, In r0 (finals E) -> In r0 (finals E1)).
    { intros r0 H. unfold E1. rewrite finals_app. apply in_app_iff. now left. }
    assert (HS1 : St E1 v outs st) by (eapply St_evs; eauto).
    assert (FH1 : fin_hand E1).
    { intros r0. unfold E1. rewrite finals_app, handoffs_app. intros H. apply in_app_iff in H as [H|H].
      - apply in_app_iff. left. now apply FH.
      - apply in_app_iff. left. destruct oc; cbn in H; try (destruct H as [<-|[]]; eapply HO; eauto). destruct H. }
    assert (HO1 : forall i' sz' r', In (i', sz', r') outs -> In r' (handoffs E1)).
    { intros i' sz' r' H. unfold E1. rewrite handoffs_app. apply in_app_iff. left. eapply HO; eauto. }
    replace (E ++ match oc with OShutdown => [] | _ => [EvFinal r] end) with E1 by reflexivity.
    replace (E ++ match oc with OOk => [EvFinal r] | OFailed => [EvFinal r] | OShutdown => [] end) with E1
      by (unfold E1; destruct oc; reflexivity).
    split; [eapply St_Icr; eauto|].
    apply wp_bind. eapply wp_mono; [intros s Hs; exact Hs| |apply (spec_onDone c E1 FH1 v outs st i sz oc HS1)].
    + intros v' st' H'. cbn [wp fst snd]. unfold post_events. rewrite app_nil_r. split.
      * eapply St_outs; [|exact H']. intros y Hy. eapply In_remove_nth; eauto.
      * split; [|exact FH1]. intros i' sz' r' H. apply (HO1 i' sz' r'). eapply In_remove_nth; eauto.
    + intros Hoc r0 Hb. destruct HS as [C _]. destruct (c_out _ _ _ C i sz r Hin) as [_ B].
      rewrite (B r0 Hb). unfold E1. rewrite finals_app. apply in_app_iff. right. destruct oc; try (now left). congruence.
  - (* Shutdown *)
    rewrite app_nil_r. split; [eapply St_Icr; eauto|]. cbn [run_op].
    apply wp_bind. unfold shutdownQ.
    eapply (spec_backup c E FH v outs st); [exact HS|].
    intros st' H'. cbn [wp fst snd]. unfold post_events. rewrite app_nil_r.
    split; [|split; auto]. eapply St_ext; [| | |exact H']; reflexivity.
Qed.

(* a script under ANY budget: the crash invariant holds wherever it stops *)
Lemma script_inv c ops : forall b st v outs pre evs obs,
  Full (pre ++ evs) v outs st ->
  Icr (pre ++ i_events (run_script c b st (v, outs) ops evs obs))
      (i_store (run_script c b st (v, outs) ops evs obs)).
Proof.
  induction ops as [|o ops IH]; intros b st v outs pre evs obs HF; cbn [run_script].
  - cbn [i_events i_store]. eapply Full_Icr; eauto.
  - destruct (op_spec c (pre ++ evs) v outs st o HF) as [HI HW].
    pose proof (wp_run _ _ _ st _ b HI HW) as HR.
    destruct (run_act b st (run_op c (v, outs) o)) as [[st1 b1] [[[v1 outs1] r]|]].
    + cbn [fst snd] in HR. apply IH. rewrite !app_assoc. exact HR.
    + cbn [i_events i_store]. rewrite app_assoc. exact HR.
Qed.

(* one incarnation (recovery + script) under ANY budget *)
Lemma incarnation_inv c st sc b pre :
  Icr pre st ->
  Icr (pre ++ i_events (incarnation c st sc b)) (i_store (incarnation c st sc b)).
Proof.
  intros HI. unfold incarnation.
  assert (FH : fin_hand pre) by apply HI.
  pose proof (wp_run _ _ _ st _ b HI (spec_initClient c pre FH st HI)) as HR.
  destruct (run_act b st (initClient c)) as [[st1 b1] [[v errc]|]].
  - cbn [fst] in HR. apply script_inv. rewrite app_nil_r. split; [exact HR|]. split; [intros i sz r []|exact FH].
  - cbn [i_events i_store]. now rewrite app_nil_r.
Qed.

Lemma history_inv c h : forall st pre,
  Icr pre st ->
  Icr (pre ++ snd (run_history c st h)) (fst (run_history c st h)).
Proof.
  induction h as [|[sc b] t IH]; intros st pre HI; cbn [run_history].
  - cbn [fst snd]. now rewrite app_nil_r.
  - pose proof (incarnation_inv c st sc b pre HI) as H1.
    specialize (IH _ _ H1).
    destruct (run_history c (i_store (incarnation c st sc b)) t) as [st' evs]. cbn [fst snd] in *.
    now rewrite app_assoc.
Qed.

Lemma Icr_store0 : Icr [] store0.
Proof.
  split; [|split].
  - unfold wf_store, eff. simpl. split; [lia|split; [auto|intros i []]].
  - intros r [].
  - intros r [].
Qed.

(* the second sentence of the property *)
Lemma durable_or_final_l c h :
  forall r, In r (accepted (snd (run_history c store0 h))) ->
            In r (finals (snd (run_history c store0 h))) \/ durable (fst (run_history c store0 h)) r.
Proof.
  pose proof (history_inv c h store0 [] Icr_store0) as (_ & G & _). exact G.
Qed.

Lemma durable_or_final_wf_l c st0 h : wf_store st0 ->
  forall r, In r (accepted (snd (run_history c st0 h))) ->
            In r (finals (snd (run_history c st0 h))) \/ durable (fst (run_history c st0 h)) r.
Proof.
  intros W. assert (HI : Icr [] st0) by (split; [exact W|split; intros r []]).
  pose proof (history_inv c h st0 [] HI) as (_ & G & _). exact G.
Qed.

Lemma final_was_handed_l c h :
  forall r, In r (finals (snd (run_history c store0 h))) -> In r (handoffs (snd (run_history c store0 h))).
Proof.
  pose proof (history_inv c h store0 [] Icr_store0) as (_ & _ & F). exact F.
Qed.

Lemma store_wf_l c h : wf_store (fst (run_history c store0 h)).
Proof. pose proof (history_inv c h store0 [] Icr_store0) as (W & _). exact W. Qed.

(* a completion with a shutdown error performs no storage call at all *)
Lemma shutdown_keeps_l c v outs k b st :
  exists s', run_act b st (run_op c (v, outs) (Complete k OShutdown)) = (st, b, Some (s', RComplete (match nth_error outs k with Some _ => true | None => false end))).
Proof.
  cbn [run_op]. destruct (nth_error outs k) as [[[i sz] r]|]; cbn; eauto.
Qed.

(* if nothing is durable any more, every accepted request has been handed off *)
Lemma drained_all_handed_l c h :
  (forall r, ~ durable (fst (run_history c store0 h)) r) ->
  forall r, In r (accepted (snd (run_history c store0 h))) -> In r (handoffs (snd (run_history c store0 h))).
Proof.
  intros Hn r Hr. destruct (durable_or_final_l c h r Hr) as [F|D]; [now apply final_was_handed_l|].
  destruct (Hn r D).
Qed.
