(* C01/Proofs2.v — the crash invariant Icr is preserved by every storage call of every queue
   operation (wp specs), by start-up recovery, by scripts and histories under EVERY budget. *)
From Verif Require Import Common.Base C01.Model C01.Spec C01.Proofs1.

Local Open Scope N_scope.

(* ------------------------------------------------------------------------------------------- *)
(* swap_remove                                                                                 *)
(* ------------------------------------------------------------------------------------------- *)
Lemma last_removelast_In (t : list N) i : t <> [] -> (In i (last t 0 :: removelast t) <-> In i t).
Proof.
  intros Ht. rewrite (app_removelast_last 0 Ht) at 3. rewrite in_app_iff. simpl. tauto.
Qed.

Lemma swap_remove_incl x l i : In i (swap_remove x l) -> In i l.
Proof.
  induction l as [|y t IH]; simpl; [auto|].
  destruct (N.eqb y x).
  - destruct t as [|z t']; [intros []|]. intros H. right. apply (last_removelast_In (z :: t') i); [discriminate|exact H].
  - intros [H|H]; [now left|right; auto].
Qed.

Lemma swap_remove_keep x l i : In i l -> i <> x -> In i (swap_remove x l).
Proof.
  induction l as [|y t IH]; simpl; [auto|]. intros H Hne.
  destruct (N.eqb y x) eqn:E.
  - apply N.eqb_eq in E. subst y. destruct H as [H|H]; [congruence|].
    destruct t as [|z t']; [destruct H|]. apply (last_removelast_In (z :: t') i); [discriminate|exact H].
  - destruct H as [H|H]; [now left|right; auto].
Qed.

(* ------------------------------------------------------------------------------------------- *)
(* store updates of the three mutating batches + the size snapshot                             *)
(* ------------------------------------------------------------------------------------------- *)
Definition put_store (st : store) (w x : N) : store :=
  mkStore (s_ri st) (Some (w + 1)) (s_di st) (s_si st) (iset w x (s_items st)).
Definition next_store (st : store) (v : vol) : store :=
  mkStore (Some (ri v + 1)) (s_wi st) (Some (cdi v ++ [ri v])) (s_si st) (s_items st).
Definition next_vol (v : vol) : vol := set_ri_cdi v (ri v + 1) (cdi v ++ [ri v]).
Definition fin_store (st : store) (l : list N) (index : N) : store :=
  mkStore (s_ri st) (s_wi st) (Some l) (s_si st) (idel index (s_items st)).

Lemma put_store_eq st w x : fst (apply_ops [SetIdx KWi (w + 1); SetItem w x] st) = put_store st w x.
Proof. reflexivity. Qed.

Lemma eff_put st w x :
  (s_wi st = None -> s_ri st = None) -> eff (put_store st w x) = (fst (eff st), w + 1).
Proof.
  unfold eff, put_store; simpl. destruct (s_ri st), (s_wi st); simpl; try reflexivity.
  intros H. discriminate (H eq_refl).
Qed.

Lemma eff_next st v :
  eff st = (ri v, wi v) -> ri v < wi v -> eff (next_store st v) = (ri v + 1, wi v) /\ s_wi st <> None.
Proof.
  unfold eff, next_store; simpl. destruct (s_ri st), (s_wi st); simpl; intros H Hlt; inversion H; subst;
    try (split; [reflexivity|discriminate]); rewrite <- H1, <- H2 in Hlt; lia.
Qed.

Lemma eff_si st n : eff (set_ikey KSi n st) = eff st.
Proof. reflexivity. Qed.
Lemma eff_fin st l index : eff (fin_store st l index) = eff st.
Proof. reflexivity. Qed.

Lemma durable_si st n r : durable (set_ikey KSi n st) r <-> durable st r.
Proof. unfold durable, di_of, eff. simpl. tauto. Qed.

(* ------------------------------------------------------------------------------------------- *)
(* the consistency relation between volatile state, outstanding handles and the store          *)
(* ------------------------------------------------------------------------------------------- *)
Record Cons (v : vol) (outs : list handle) (st : store) : Prop := mkCons {
  c_eff : eff st = (ri v, wi v);
  c_wn : s_wi st = None -> s_ri st = None;
  c_le : ri v <= wi v;
  c_cdi : forall i, In i (cdi v) -> i < ri v;
  c_di : forall i, In i (di_of st) -> i < ri v;
  c_dic : forall i, In i (di_of st) -> iget i (s_items st) <> None -> In i (cdi v);
  c_out : forall i sz r, In (i, sz, r) outs ->
            i < ri v /\ forall r', iget i (s_items st) = Some r' -> r' = r
}.

Definition St (E : list event) (v : vol) (outs : list handle) (st : store) : Prop :=
  Cons v outs st /\ ghost_ok E st.

Lemma Cons_wf v outs st : Cons v outs st -> wf_store st.
Proof. intros C. destruct C. unfold wf_store. rewrite c_eff0. simpl. auto. Qed.

Lemma St_Icr E v outs st : St E v outs st -> fin_hand E -> Icr E st.
Proof. intros [C G] F. split; [eapply Cons_wf; eauto|auto]. Qed.

Lemma Cons_ext v v' outs st :
  ri v' = ri v -> wi v' = wi v -> cdi v' = cdi v -> Cons v outs st -> Cons v' outs st.
Proof. intros E1 E2 E3 C. destruct C. constructor; rewrite ?E1, ?E2, ?E3; auto. Qed.

Lemma St_ext E v v' outs st :
  ri v' = ri v -> wi v' = wi v -> cdi v' = cdi v -> St E v outs st -> St E v' outs st.
Proof. intros E1 E2 E3 [C G]. split; [eapply Cons_ext; eauto|auto]. Qed.

Lemma St_outs E v outs outs' st : incl outs' outs -> St E v outs st -> St E v outs' st.
Proof.
  intros Hi [C G]. split; [|exact G]. destruct C. constructor; auto.
  intros i sz r H. apply (c_out0 i sz r). now apply Hi.
Qed.

Lemma ghost_ok_mono E st st' :
  (forall r, durable st r -> durable st' r \/ In r (finals E)) -> ghost_ok E st -> ghost_ok E st'.
Proof. intros H G r Hr. destruct (G r Hr) as [F|D]; [now left|]. destruct (H r D); auto. Qed.

(* a put at the write index keeps every durable request durable *)
Lemma put_durable_mono st a w x r :
  eff st = (a, w) -> (s_wi st = None -> s_ri st = None) -> a <= w ->
  (forall i, In i (di_of st) -> i < a) ->
  durable st r -> durable (put_store st w x) r.
Proof.
  intros He Hwn Hle Hdi (i & Hb & Hw). rewrite He in Hw. simpl in Hw.
  assert (i <> w) by (destruct Hw as [R|Hd]; [lia|specialize (Hdi _ Hd); lia]).
  exists i. split.
  - unfold put_store; simpl. rewrite iget_iset. destruct (N.eqb_spec i w); [congruence|exact Hb].
  - rewrite eff_put by exact Hwn. rewrite He. simpl.
    destruct Hw as [R|Hd]; [left; lia|right; exact Hd].
Qed.

Lemma put_durable_new st a w x :
  eff st = (a, w) -> (s_wi st = None -> s_ri st = None) -> a <= w -> durable (put_store st w x) x.
Proof.
  intros He Hwn Hle. exists w. rewrite eff_put by exact Hwn. rewrite He. simpl. split.
  - unfold put_store; simpl. now rewrite iget_iset, N.eqb_refl.
  - left. lia.
Qed.

(* ---- enqueue ---- *)
Lemma St_put E v outs st x q :
  St E v outs st ->
  St E (set_wi_q v (wi v + 1) q) outs (put_store st (wi v) x).
Proof.
  intros [C G]. destruct C. split.
  - constructor; simpl; auto.
    + rewrite eff_put by exact c_wn0. now rewrite c_eff0.
    + discriminate.
    + lia.
    + intros i Hi Hb. apply c_dic0; [exact Hi|]. rewrite iget_iset in Hb.
      specialize (c_di0 i Hi). destruct (N.eqb_spec i (wi v)); [lia|exact Hb].
    + intros i sz r Hin. destruct (c_out0 i sz r Hin) as [L B]. split; [exact L|].
      intros r'. rewrite iget_iset. destruct (N.eqb_spec i (wi v)); [lia|apply B].
  - apply ghost_ok_mono with (st := st); [|exact G]. intros r D. left.
    eapply put_durable_mono; eauto.
Qed.

Lemma St_si E v outs st n : St E v outs st -> St E v outs (set_ikey KSi n st).
Proof.
  intros [C G]. split.
  - destruct C. constructor; auto.
  - intros r Hr. destruct (G r Hr); [now left|right]. now apply durable_si.
Qed.

(* ---- dequeue ---- *)
Lemma St_next E v outs st :
  St E v outs st -> ri v < wi v -> St E (next_vol v) outs (next_store st v).
Proof.
  intros [C G] Hlt. destruct C. destruct (eff_next st v c_eff0 Hlt) as [En Hw]. split.
  - constructor; simpl; auto.
    + intros H. congruence.
    + lia.
    + intros i Hi. apply in_app_iff in Hi as [Hi|[<-|[]]]; [specialize (c_cdi0 _ Hi)|]; lia.
    + unfold di_of; simpl. intros i Hi. apply in_app_iff in Hi as [Hi|[<-|[]]]; [specialize (c_cdi0 _ Hi)|]; lia.
    + intros i sz r Hin. destruct (c_out0 i sz r Hin) as [L B]. split; [lia|exact B].
  - apply ghost_ok_mono with (st := st); [|exact G]. intros r (i & Hb & Hw'). left. exists i. split; [exact Hb|].
    rewrite En. rewrite c_eff0 in Hw'. simpl in *.
    destruct Hw' as [R|Hd].
    + destruct (N.eqb_spec i (ri v)) as [->|Hne].
      * right. unfold di_of; simpl. apply in_app_iff. right. now left.
      * left. lia.
    + right. unfold di_of; simpl. apply in_app_iff. left. apply c_dic0; [exact Hd|congruence].
Qed.

Lemma St_handle E v outs st i sz r :
  St E v outs st -> i < ri v -> iget i (s_items st) = Some r -> St E v (outs ++ [(i, sz, r)]) st.
Proof.
  intros [C G] L B. split; [|exact G]. destruct C. constructor; auto.
  intros i' sz' r' Hin. apply in_app_iff in Hin as [Hin|[Hin|[]]]; [now apply (c_out0 i' sz' r')|].
  inversion Hin; subst. split; [exact L|]. intros r2 H2. congruence.
Qed.

(* ---- completion ---- *)
Lemma St_finish E v outs st index :
  St E v outs st ->
  (forall r, iget index (s_items st) = Some r -> In r (finals E)) ->
  St E (set_cdi v (swap_remove index (cdi v))) outs (fin_store st (swap_remove index (cdi v)) index).
Proof.
  intros [C G] HF. destruct C. split.
  - constructor; simpl; auto.
    + intros i Hi. apply c_cdi0. eapply swap_remove_incl; eauto.
    + unfold di_of; simpl. intros i Hi. apply c_cdi0. eapply swap_remove_incl; eauto.
    + intros i sz r Hin. destruct (c_out0 i sz r Hin) as [L B]. split; [exact L|].
      intros r'. rewrite iget_idel. destruct (N.eqb i index); [discriminate|apply B].
  - apply ghost_ok_mono with (st := st); [|exact G]. intros r (i & Hb & Hw).
    destruct (N.eqb_spec i index) as [->|Hne]; [right; now apply HF|].
    left. exists i. split.
    + simpl. rewrite iget_idel. destruct (N.eqb_spec i index); [congruence|exact Hb].
    + rewrite eff_fin. destruct Hw as [R|Hd]; [left; exact R|right].
      unfold di_of; simpl. apply swap_remove_keep; [|exact Hne]. apply c_dic0; [exact Hd|congruence].
Qed.

(* ------------------------------------------------------------------------------------------- *)
(* wp specs of the queue functions; crash invariant Icr E at every storage-call boundary       *)
(* ------------------------------------------------------------------------------------------- *)
Section Specs.
Variable c : cfg.
Variable E : list event.
Hypothesis FH : fin_hand E.

(* putInternal, generically: [P v st] is any relation preserved by the put batch and by the size
   snapshot, and implying the crash invariant *)
Lemma wp_put (P : vol -> store -> Prop) v st x (Q : vol * bool -> store -> Prop) :
  P v st ->
  (forall v' st', P v' st' -> Icr E st') ->
  (forall v' st' n, P v' st' -> P v' (set_ikey KSi n st')) ->
  (forall q, P (set_wi_q v (wi v + 1) q) (put_store st (wi v) x)) ->
  Q (v, false) st ->
  (forall q st', P (set_wi_q v (wi v + 1) q) st' ->
                 s_items st' = iset (wi v) x (s_items st) ->
                 (forall r, durable (put_store st (wi v) x) r -> durable st' r) ->
                 Q (set_wi_q v (wi v + 1) q, true) st') ->
  wp (Icr E) (putInternal c v x) st Q.
Proof.
  intros HP HI HSi HPut HQf HQt. unfold putInternal.
  destruct (Z.ltb (capacity c) (qsize v + sizeof c x)); [exact HQf|].
  cbn [wp]. rewrite put_store_eq.
  set (q := (qsize v + sizeof c x)%Z). set (v' := set_wi_q v (wi v + 1) q).
  specialize (HPut q). fold v' in HPut.
  split; [eapply HI; eauto|].
  destruct (N.eqb (wi v' mod 10) 5).
  - unfold backup. destruct (reqSized c); [apply HQt; auto|].
    cbn [wp]. change (fst (apply_ops [SetIdx KSi (Z.to_N (qsize v'))] (put_store st (wi v) x)))
      with (set_ikey KSi (Z.to_N (qsize v')) (put_store st (wi v) x)).
    pose proof (HSi _ _ (Z.to_N (qsize v')) HPut) as H2.
    split; [eapply HI; eauto|]. apply HQt; [exact H2|reflexivity|]. intros r Hr. now apply durable_si.
  - apply HQt; auto.
Qed.

Lemma spec_backup {A} v outs st (k : act A) (Q : A -> store -> Prop) :
  St E v outs st ->
  (forall st', St E v outs st' -> wp (Icr E) k st' Q) ->
  forall v0, wp (Icr E) (backup c v0 k) st Q.
Proof.
  intros HS Hk v0. unfold backup. destruct (reqSized c); [now apply Hk|].
  cbn [wp]. change (fst (apply_ops [SetIdx KSi (Z.to_N (qsize v0))] st)) with (set_ikey KSi (Z.to_N (qsize v0)) st).
  pose proof (St_si E v outs st (Z.to_N (qsize v0)) HS) as HS'.
  split; [eapply St_Icr; eauto|now apply Hk].
Qed.

Lemma spec_put v outs st x :
  St E v outs st ->
  wp (Icr E) (putInternal c v x) st
     (fun y st' => St E (fst y) outs st' /\ (snd y = true -> durable st' x)).
Proof.
  intros HS. apply (wp_put (fun v' st' => St E v' outs st')); auto.
  - intros v' st' H. eapply St_Icr; eauto.
  - intros v' st' n H. now apply St_si.
  - intros q. now apply St_put.
  - cbn [fst snd]. split; [exact HS|discriminate].
  - intros q st' H1 _ H2. cbn [fst snd]. split; [exact H1|]. intros _. apply H2.
    destruct HS as [C _]. destruct C. eapply put_durable_new; eauto.
Qed.

Lemma spec_finish v outs st index :
  St E v outs st ->
  (forall r, iget index (s_items st) = Some r -> In r (finals E)) ->
  wp (Icr E) (itemDispatchingFinish v index) st
     (fun v' st' => St E v' outs st' /\ ri v' = ri v /\ wi v' = wi v).
Proof.
  intros HS HF. unfold itemDispatchingFinish. cbn [wp].
  change (fst (apply_ops [SetDi (swap_remove index (cdi v)); DelItem index] st))
    with (fin_store st (swap_remove index (cdi v)) index).
  pose proof (St_finish E v outs st index HS HF) as HS'.
  split; [eapply St_Icr; eauto|]. repeat split; auto; apply HS'.
Qed.

Definition read_post (v : vol) (outs : list handle) (y : vol * option (N * N)) (st' : store) : Prop :=
  ri (fst y) = ri v + 1 /\ wi (fst y) = wi v /\
  match snd y with
  | Some (i, r) => i = ri v /\ forall sz, St E (fst y) (outs ++ [(i, sz, r)]) st'
  | None => St E (fst y) outs st'
  end.

Lemma spec_getNext v outs st :
  St E v outs st -> ri v < wi v ->
  wp (Icr E) (getNextItem v) st (read_post v outs).
Proof.
  intros HS Hlt. unfold getNextItem. cbn [wp].
  change (fst (apply_ops [SetIdx KRi (ri (set_ri_cdi v (ri v + 1) (cdi v ++ [ri v])));
                          SetDi (cdi (set_ri_cdi v (ri v + 1) (cdi v ++ [ri v]))); GetItem (ri v)] st))
    with (next_store st v).
  change (snd (apply_ops [SetIdx KRi (ri (set_ri_cdi v (ri v + 1) (cdi v ++ [ri v])));
                          SetDi (cdi (set_ri_cdi v (ri v + 1) (cdi v ++ [ri v]))); GetItem (ri v)] st))
    with ([None; None; option_map VBody (iget (ri v) (s_items st))] : list (option val)).
  pose proof (St_next E v outs st HS Hlt) as HS1. fold (next_vol v).
  split; [eapply St_Icr; eauto|].
  unfold res_body. cbn [nth_error].
  destruct (iget (ri v) (s_items st)) as [r|] eqn:Eb; cbn [option_map].
  - cbn [wp]. unfold read_post. cbn [fst snd]. repeat split; auto.
    intros sz. apply St_handle.
    + eapply St_ext; [| | |exact HS1]; reflexivity.
    + simpl. lia.
    + exact Eb.
  - apply wp_bind. eapply wp_mono; [intros s Hs; exact Hs| |apply (spec_finish (next_vol v) outs (next_store st v) (ri v) HS1)].
    + intros v2 st2 (H1 & H2 & H3). cbn [wp]. unfold read_post. cbn [fst snd]. rewrite H2, H3. auto.
    + simpl. rewrite Eb. discriminate.
Qed.

Definition loop_post (v : vol) (outs : list handle) (y : vol * rres) (st' : store) : Prop :=
  ri v <= ri (fst y) /\ wi (fst y) = wi v /\
  match snd y with
  | RItem i r => forall sz, St E (fst y) (outs ++ [(i, sz, r)]) st'
  | _ => St E (fst y) outs st'
  end.

Lemma spec_read_loop fuel : forall v outs st,
  St E v outs st -> wp (Icr E) (read_loop fuel v) st (loop_post v outs).
Proof.
  induction fuel as [|f IH]; intros v outs st HS; cbn [read_loop].
  - destruct (N.eqb (ri v) (wi v)); cbn [wp]; unfold loop_post; cbn [fst snd]; repeat split; auto; lia.
  - destruct (N.eqb_spec (ri v) (wi v)) as [Heq|Hne].
    + cbn [wp]. unfold loop_post; cbn [fst snd]; repeat split; auto; lia.
    + assert (Hlt : ri v < wi v) by (destruct HS as [C _]; destruct C; lia).
      apply wp_bind. eapply wp_mono; [intros s Hs; exact Hs| |apply (spec_getNext v outs st HS Hlt)].
      intros [v1 o] st1 (H1 & H2 & H3). cbn [fst snd] in *.
      set (v2 := if N.eqb (ri v1) (wi v1) then set_q v1 0 else v1).
      assert (E1 : ri v2 = ri v1 /\ wi v2 = wi v1 /\ cdi v2 = cdi v1)
        by (unfold v2; destruct (N.eqb (ri v1) (wi v1)); auto).
      destruct E1 as (Er & Ew & Ec).
      destruct o as [[i r]|].
      * cbn [wp]. unfold loop_post. cbn [fst snd]. destruct H3 as [_ H3]. repeat split; try lia.
        intros sz. eapply St_ext; [| | |apply (H3 sz)]; auto.
      * eapply wp_mono; [intros s Hs; exact Hs| |apply (IH v2 outs st1)].
        -- intros [v3 rr] st3 (A1 & A2 & A3). unfold loop_post in *. cbn [fst snd] in *. repeat split; auto; lia.
        -- eapply St_ext; [| | |exact H3]; auto.
Qed.

Lemma spec_onDone v outs st index sz oc :
  St E v outs st ->
  (oc <> OShutdown -> forall r, iget index (s_items st) = Some r -> In r (finals E)) ->
  wp (Icr E) (onDone c v index sz oc) st (fun v' st' => St E v' outs st').
Proof.
  intros HS HF. unfold onDone.
  set (v1 := set_q v (Z.max 0 (qsize v - sz))).
  assert (HS1 : St E v1 outs st) by (eapply St_ext; [| | |exact HS]; reflexivity).
  assert (Fin : forall v2 st2, St E v2 outs st2 ->
     wp (Icr E) (if N.eqb (ri v2 mod 10) 0 then backup c v2 (Done (unref v2)) else Done (unref v2)) st2
        (fun v' st' => St E v' outs st')).
  { intros v2 st2 H2.
    assert (D : forall st', St E v2 outs st' -> wp (Icr E) (Done (unref v2)) st' (fun v' st' => St E v' outs st')).
    { intros st' H'. cbn [wp]. eapply St_ext; [| | |exact H']; reflexivity. }
    destruct (N.eqb (ri v2 mod 10) 0); [|now apply D].
    eapply spec_backup; eauto. }
  destruct oc.
  - apply wp_bind. eapply wp_mono; [intros s Hs; exact Hs| |apply (spec_finish v1 outs st index HS1)].
    + intros v2 st2 (H2 & _). now apply Fin.
    + apply HF. discriminate.
  - apply wp_bind. eapply wp_mono; [intros s Hs; exact Hs| |apply (spec_finish v1 outs st index HS1)].
    + intros v2 st2 (H2 & _). now apply Fin.
    + apply HF. discriminate.
  - cbn [wp]. eapply St_ext; [| | |exact HS1]; reflexivity.
Qed.

(* ---- start-up recovery ---- *)
(* relation during the re-put loop: [todo] = (index, value read by the retrieve batch) still to
   be processed, [dels] = indexes whose delete operation is in the cleanup batch *)
Record RCons (v : vol) (st : store) (todo : list (N * option val)) (dels : list N) : Prop := mkRCons {
  r_eff : eff st = (ri v, wi v);
  r_wn : s_wi st = None -> s_ri st = None;
  r_le : ri v <= wi v;
  r_cdi : forall i, In i (cdi v) -> i < ri v;
  r_di : forall i, In i (di_of st) -> i < ri v;
  r_cov : forall i, In i (di_of st) -> iget i (s_items st) <> None ->
            In i (cdi v) \/ In i dels \/ In i (map fst todo);
  r_todo : forall i val, In (i, val) todo ->
             i < ri v /\ val = option_map VBody (iget i (s_items st));
  r_dels : forall i r, In i dels -> iget i (s_items st) = Some r ->
             exists j, ri v <= j < wi v /\ iget j (s_items st) = Some r;
  r_dlt : forall i, In i dels -> i < ri v
}.

Definition RSt (todo : list (N * option val)) (dels : list N) (v : vol) (st : store) : Prop :=
  RCons v st todo dels /\ ghost_ok E st.

Lemma RSt_Icr todo dels v st : RSt todo dels v st -> Icr E st.
Proof.
  intros [R G]. destruct R. split; [|auto]. unfold wf_store. rewrite r_eff0. simpl. auto.
Qed.

Lemma RSt_si todo dels v st n : RSt todo dels v st -> RSt todo dels v (set_ikey KSi n st).
Proof.
  intros [R G]. split.
  - destruct R. constructor; auto.
  - intros r Hr. destruct (G r Hr); [now left|right]. now apply durable_si.
Qed.

Lemma RSt_put todo dels v st x q :
  RSt todo dels v st -> RSt todo dels (set_wi_q v (wi v + 1) q) (put_store st (wi v) x).
Proof.
  intros [R G]. destruct R. split.
  - constructor; simpl; auto.
    + rewrite eff_put by exact r_wn0. now rewrite r_eff0.
    + discriminate.
    + lia.
    + intros i Hi Hb. apply r_cov0; [exact Hi|]. rewrite iget_iset in Hb.
      specialize (r_di0 i Hi). destruct (N.eqb_spec i (wi v)); [lia|exact Hb].
    + intros i val Hin. destruct (r_todo0 i val Hin) as [L B]. split; [exact L|].
      rewrite iget_iset. destruct (N.eqb_spec i (wi v)); [lia|exact B].
    + intros i r Hi. rewrite iget_iset. specialize (r_dlt0 i Hi).
      destruct (N.eqb_spec i (wi v)); [lia|]. intros Hb.
      destruct (r_dels0 i r Hi Hb) as (j & Hj & Hbj). exists j. split; [lia|].
      rewrite iget_iset. destruct (N.eqb_spec j (wi v)); [lia|exact Hbj].
  - apply ghost_ok_mono with (st := st); [|exact G]. intros r D. left.
    eapply put_durable_mono; eauto.
Qed.

Lemma RSt_ext todo dels v v' st :
  ri v' = ri v -> wi v' = wi v -> cdi v' = cdi v -> RSt todo dels v st -> RSt todo dels v' st.
Proof.
  intros E1 E2 E3 [R G]. split; [|exact G]. destruct R. constructor; rewrite ?E1, ?E2, ?E3; auto.
Qed.

End Specs.
