(* C01/Proofs9.v — every ACCEPTED request fits into the empty queue (sizeof <= capacity): the queue size kept in
   memory is never negative, so passing putInternal's capacity test implies it.  (Shows that the hypothesis [fits] of
   the liveness theorems only concerns requests that can never be accepted.) *)
From Verif Require Import Common.Base C01.Model C01.Spec C01.Proofs1 C01.Proofs2 C01.Proofs3.

Local Open Scope Z_scope.

Lemma sizeof_pos c r : 1 <= sizeof c r.
Proof. unfold sizeof. pose proof (N2Z.is_nonneg (r mod 3)). destruct (reqSized c); lia. Qed.

Section Fits.
Variable c : cfg.

Lemma g_backup {A} st (k : act A) (Q : A -> store -> Prop) v0 :
  (forall st', wp true T k st' Q) -> wp true T (backup c v0 k) st Q.
Proof. intros Hk. unfold backup. destruct (reqSized c); [apply Hk|]. cbn [wp]. split; [exact I|apply Hk]. Qed.

Lemma g_put v st x : 0 <= qsize v ->
  wp true T (putInternal c v x) st
     (fun y _ => 0 <= qsize (fst y) /\ (snd y = true -> sizeof c x <= capacity c)).
Proof.
  intros Hq. unfold putInternal. pose proof (sizeof_pos c x) as Hp.
  destruct (Z.ltb_spec (capacity c) (qsize v + sizeof c x)) as [L|L].
  - cbn [wp fst snd]. split; [exact Hq|discriminate].
  - cbn [wp]. split; [exact I|].
    set (v' := set_wi_q v (wi v + 1)%N (qsize v + sizeof c x)).
    assert (D : forall st', wp true T (Done (v', true)) st'
              (fun y _ => 0 <= qsize (fst y) /\ (snd y = true -> sizeof c x <= capacity c))).
    { intros st'. cbn [wp fst snd]. split; [cbn; lia|intros _; lia]. }
    destruct (N.eqb (wi v' mod 10) 5); [apply g_backup; exact D|apply D].
Qed.

Lemma g_finish v st index :
  wp true T (itemDispatchingFinish v index) st (fun v' _ => qsize v' = qsize v).
Proof. unfold itemDispatchingFinish. cbn [wp]. split; [exact I|reflexivity]. Qed.

Lemma g_getNext v st : wp true T (getNextItem v) st (fun y _ => qsize (fst y) = qsize v).
Proof.
  unfold getNextItem. cbn [wp]. split; [exact I|].
  destruct (res_body _ 2) as [r|].
  - cbn [wp fst]. reflexivity.
  - apply wp_bind. eapply wp_mono; [intros s0 Hs0; exact Hs0| |apply g_finish].
    intros v2 st2 H2. cbn [wp fst]. rewrite H2. reflexivity.
Qed.

Lemma g_read_loop fuel : forall v st, 0 <= qsize v ->
  wp true T (read_loop fuel v) st (fun y _ => 0 <= qsize (fst y)).
Proof.
  induction fuel as [|f IH]; intros v st Hq; cbn [read_loop].
  - destruct (N.eqb (ri v) (wi v)); cbn [wp fst]; exact Hq.
  - destruct (N.eqb (ri v) (wi v)); [cbn [wp fst]; exact Hq|].
    apply wp_bind. eapply wp_mono; [intros s0 Hs0; exact Hs0| |apply (g_getNext v st)].
    intros [v1 o] st1 H1. cbn [fst snd] in *.
    set (v2 := if N.eqb (ri v1) (wi v1) then set_q v1 0 else v1).
    assert (H2 : 0 <= qsize v2) by (unfold v2; destruct (N.eqb (ri v1) (wi v1)); cbn; lia).
    destruct o as [[i r]|]; [cbn [wp fst]; exact H2|now apply IH].
Qed.

Lemma g_onDone v st index sz oc :
  wp true T (onDone c v index sz oc) st (fun v' _ => 0 <= qsize v').
Proof.
  unfold onDone. set (v1 := set_q v (Z.max 0 (qsize v - sz))).
  assert (H1 : 0 <= qsize v1) by (cbn; lia).
  assert (Fin : forall v2 st2, 0 <= qsize v2 ->
     wp true T (if N.eqb (ri v2 mod 10) 0 then backup c v2 (Done (unref v2)) else Done (unref v2)) st2
        (fun v' _ => 0 <= qsize v')).
  { intros v2 st2 E. destruct (N.eqb (ri v2 mod 10) 0); [apply g_backup; intros|]; cbn [wp]; exact E. }
  destruct oc.
  - apply wp_bind. eapply wp_mono; [intros s0 Hs0; exact Hs0| |apply (g_finish v1 st index)].
    intros v2 st2 H2. cbn beta in H2. apply Fin. lia.
  - apply wp_bind. eapply wp_mono; [intros s0 Hs0; exact Hs0| |apply (g_finish v1 st index)].
    intros v2 st2 H2. cbn beta in H2. apply Fin. lia.
  - cbn [wp]. exact H1.
Qed.

Lemma g_run_op v outs st o : 0 <= qsize v ->
  wp true T (run_op c (v, outs) o) st
     (fun x _ => 0 <= qsize (fst (fst x)) /\
                 forall r, In (EvAccepted r) (post_events o (snd x)) -> sizeof c r <= capacity c).
Proof.
  intros Hq. destruct o as [x| |k oc|]; cbn [run_op].
  - destruct (too_large c x); [cbn [wp fst snd]; split; [exact Hq|intros r []]|].
    destruct (would_wait c v x); [cbn [wp fst snd]; split; [exact Hq|intros r []]|].
    apply wp_bind. eapply wp_mono; [intros s0 Hs0; exact Hs0| |apply (g_put v st x Hq)].
    intros [v' ok] st' (H1 & H2). cbn [wp fst snd] in *. split; [exact H1|].
    destruct ok; cbn; [intros r [E|[]]; inversion E; subst; auto|intros r []].
  - apply wp_bind. unfold readQ. destruct (stopped v); [cbn [wp fst snd]; split; [exact Hq|intros r []]|].
    eapply wp_mono; [intros s0 Hs0; exact Hs0| |apply (g_read_loop _ v st Hq)].
    intros [v' rr] st' H. cbn [fst snd] in *. destruct rr; cbn [wp fst snd]; (split; [exact H|]); intros r0 Hr; cbn in Hr; intuition discriminate.
  - destruct (nth_error outs k) as [[[i sz] r]|]; [|cbn [wp fst snd]; split; [exact Hq|intros r []]].
    apply wp_bind. eapply wp_mono; [intros s0 Hs0; exact Hs0| |apply (g_onDone v st i sz oc)].
    intros v' st' H. cbn [wp fst snd]. split; [exact H|intros r0 []].
  - apply wp_bind. unfold shutdownQ. apply g_backup. intros st'. cbn [wp fst snd]. split; [cbn; exact Hq|intros r []].
Qed.

Definition all_fit (evs : list event) : Prop := forall r, In r (accepted evs) -> sizeof c r <= capacity c.

Lemma accepted_In evs r : In r (accepted evs) <-> In (EvAccepted r) evs.
Proof.
  unfold accepted. rewrite in_flat_map. split.
  - intros (e & He & Hr). destruct e as [x|x|x]; cbn in Hr; [destruct Hr as [<-|[]]; exact He|destruct Hr|destruct Hr].
  - intros H. exists (EvAccepted r). split; [exact H|now left].
Qed.

Lemma pre_events_no_accept s o r : ~ In (EvAccepted r) (pre_events s o).
Proof.
  destruct o as [x| |k oc|]; cbn; auto. destruct oc; cbn; auto;
    destruct (nth_error (snd s) k) as [[[? ?] ?]|]; cbn; intuition discriminate.
Qed.

Lemma g_script ops : forall b st v outs evs obs,
  0 <= qsize v -> all_fit evs -> all_fit (i_events (run_script c b st (v, outs) ops evs obs)).
Proof.
  induction ops as [|o ops IH]; intros b st v outs evs obs Hq HA; cbn [run_script]; [exact HA|].
  assert (HA1 : all_fit (evs ++ pre_events (v, outs) o)).
  { intros r Hr. apply accepted_In in Hr. apply in_app_iff in Hr as [Hr|Hr]; [apply HA; now apply accepted_In|].
    destruct (pre_events_no_accept _ _ _ Hr). }
  pose proof (wp_run true T _ st _ b I (g_run_op v outs st o Hq)) as HR.
  destruct (run_act b st (run_op c (v, outs) o)) as [[st1 b1] [[[v1 outs1] r]|]]; [|exact HA1].
  cbn [fst snd] in HR. destruct HR as [H1 H2]. apply IH; [exact H1|].
  intros r0 Hr. apply accepted_In in Hr. apply in_app_iff in Hr as [Hr|Hr]; [apply HA1; now apply accepted_In|now apply H2].
Qed.

Lemma g_reenqueue todo : forall v st dels errc, 0 <= qsize v ->
  wp true T (reenqueue c v todo dels errc) st (fun y _ => 0 <= qsize (fst y)).
Proof.
  induction todo as [|[i val] t IH]; intros v st dels errc Hq; cbn [reenqueue].
  - cbn [wp fst]. split; [exact I|exact Hq].
  - destruct val as [[n|l|r]|]; try (now apply IH).
    apply wp_bind. eapply wp_mono; [intros s0 Hs0; exact Hs0| |apply (g_put v st r Hq)].
    intros [v' ok] st' (H1 & _). cbn [fst snd] in *. destruct ok; apply IH; [exact H1|cbn; exact H1].
Qed.

Lemma g_initClient st : wp true T (initClient c) st (fun y _ => 0 <= qsize (fst y)).
Proof.
  unfold initClient. apply wp_bind. unfold initStorage. cbn [wp]. split; [exact I|].
  set (rs := snd (apply_ops [GetIdx KRi; GetIdx KWi] st)).
  destruct (match res_idx rs 0 with Some r => match res_idx rs 1 with Some w => (r, w) | None => (0%N, 0%N) end
            | None => match res_idx rs 1 with Some w => (0%N, w) | None => (0%N, 0%N) end end) as [r w] eqn:E.
  assert (K : forall v st', 0 <= qsize v -> wp true T (retrieveAndEnqueue c v) st' (fun y _ => 0 <= qsize (fst y))).
  { intros v st' Hq. unfold retrieveAndEnqueue. cbn [wp]. split; [exact I|].
    destruct (res_arr _ 0) as [[|d0 di]|]; try (cbn [wp fst]; exact Hq).
    cbn [wp]. split; [exact I|]. now apply g_reenqueue. }
  replace (match res_idx rs 0 with Some r0 => match res_idx rs 1 with Some w0 => (r0, w0) | None => (0%N, 0%N) end
            | None => match res_idx rs 1 with Some w0 => (0%N, w0) | None => (0%N, 0%N) end end) with (r, w)
    by (symmetry; exact E).
  destruct ((0 <? w - r)%N && negb (reqSized c))%bool.
  - cbn [wp]. split; [exact I|]. apply K. cbn. destruct (res_idx _ 0); lia.
  - cbn [wp]. apply K. cbn. lia.
Qed.

Lemma accepted_fit_incarnation st sc b : all_fit (i_events (incarnation c st sc b)).
Proof.
  unfold incarnation.
  pose proof (wp_run true T _ st _ b I (g_initClient st)) as HR.
  destruct (run_act b st (initClient c)) as [[st1 b1] [[v errc]|]]; [|intros r []].
  cbn [fst] in HR. apply g_script; [exact HR|intros r []].
Qed.

End Fits.

Lemma accepted_fit_history_l c h : forall st r,
  In r (accepted (snd (run_history c st h))) -> (sizeof c r <= capacity c)%Z.
Proof.
  induction h as [|[sc b] t IH]; intros st r; cbn [run_history]; [intros []|].
  specialize (IH (i_store (incarnation c st sc b)) r).
  destruct (run_history c (i_store (incarnation c st sc b)) t) as [st' evs]. cbn [snd] in *.
  rewrite accepted_app. intros H. apply in_app_iff in H as [H|H]; [now apply (accepted_fit_incarnation c st sc b)|now apply IH].
Qed.
