(* C01/Checker.v — decidable checkers of the property's clauses over the OBSERVED behaviour of the
   implementation (definitions only; soundness w.r.t. the Prop-level clauses is proved in Proofs8.v).
   Nothing here runs the model's step functions: the ghost events are rebuilt from the results the real queue
   returned, the store is the real bytes decoded with the codecs. *)
From Verif Require Import Common.Base C01.Model C01.Spec.

(* observed result of one operation: (tag, a, b, Size()) — see C01/Harness.v *)
Definition orescode := (nat * N * N * Z)%type.

(* events of one incarnation from the script and the OBSERVED results; [stopped]: the incarnation died or parked, the
   operation after the last result was in progress (a completion with a final outcome has then been reported by the
   consumer: EvFinal is logged before the queue touches the storage) *)
Fixpoint obs_events (ops : list op) (rs : list orescode) (stopped : bool) (outs : list (N * N)) : list event :=
  match ops with
  | [] => []
  | o :: t =>
      match rs with
      | [] =>
          if stopped then
            match o with
            | Complete k oc =>
                match oc, nth_error outs k with
                | OShutdown, _ => []
                | _, Some (_, r) => [EvFinal r]
                | _, None => []
                end
            | _ => []
            end
          else []
      | (tag, a, b, _) :: rt =>
          match o with
          | Offer x =>
              (if Nat.eqb tag 0 && N.eqb a 1 then [EvAccepted x] else []) ++ obs_events t rt stopped outs
          | Read =>
              if Nat.eqb tag 1 then EvHandoff b :: obs_events t rt stopped (outs ++ [(a, b)])
              else obs_events t rt stopped outs
          | Complete k oc =>
              match nth_error outs k with
              | Some (_, r) =>
                  (match oc with OShutdown => [] | _ => [EvFinal r] end) ++ obs_events t rt stopped (remove_nth k outs)
              | None => obs_events t rt stopped outs
              end
          | Shutdown => obs_events t rt stopped outs
          end
      end
  end.

(* the real store bytes decoded with the codecs *)
Definition obytes := option (list N).
Definition dec_idx_opt (b : obytes) : option (option N) :=
  match b with
  | None => Some None
  | Some _ => match bytesToItemIndex b with inl n => Some (Some n) | inr _ => None end
  end.
Definition dec_store (r w d s : obytes) (items : list (N * list N)) : option store :=
  match dec_idx_opt r, dec_idx_opt w, dec_idx_opt s with
  | Some r', Some w', Some s' =>
      match (match d with None => Some None
                     | Some _ => match bytesToItemIndexArray d with inl l => Some (Some l) | inr _ => None end end) with
      | Some d' =>
          let its := map (fun p => (fst p, dec_req (Some (snd p)))) items in
          if forallb (fun p => match snd p with Some _ => true | None => false end) its
          then Some (mkStore r' w' d' s' (map (fun p => (fst p, match snd p with Some x => x | None => 0%N end)) its))
          else None
      | None => None
      end
  | _, _, _ => None
  end.

(* clause 2 on a store and the events so far *)
Definition clause2b (st : store) (evs : list event) : bool := durable_or_finalb st evs.

(* clause 1, safety half: if nothing is durable any more, everything accepted has been handed off *)
Definition no_durableb (st : store) : bool := forallb (fun p => negb (durableb st (snd p))) (s_items st).
Definition clause1b (st : store) (evs : list event) : bool :=
  negb (no_durableb st) || forallb (fun r => mem r (handoffs evs)) (accepted evs).

(* an observed history: per incarnation (script, stopped, results, store).  Result: 0 every clause holds at every
   incarnation boundary; 1 clause 1 violated at the end; 2 clause 2 violated; 9 the store bytes do not decode.
   [verdict_core] works on decoded stores; [obs_verdict] decodes the real bytes first. *)
Definition cinc := (list op * bool * list orescode * option store)%type.

Fixpoint verdict_core (h : list cinc) (evs : list event) (last : option store) : nat :=
  match h with
  | [] => match last with Some st => if clause1b st evs then 0 else 1 | None => 0 end
  | (ops, stopped, rs, ost) :: t =>
      let evs' := evs ++ obs_events ops rs stopped [] in
      match ost with
      | None => 9
      | Some st => if clause2b st evs' then verdict_core t evs' (Some st) else 2
      end
  end.

Definition oinc := (list op * bool * list orescode * (obytes * obytes * obytes * obytes * list (N * list N)))%type.

Definition decode_inc (x : oinc) : cinc :=
  let '(ops, stopped, rs, (r, w, d, s, items)) := x in (ops, stopped, rs, dec_store r w d s items).

Definition obs_verdict (h : list oinc) (evs : list event) (last : option store) : nat :=
  verdict_core (map decode_inc h) evs last.
