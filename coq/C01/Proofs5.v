(* C01/Proofs5.v — FIFO inside one incarnation: the indexes handed out by Read are strictly
   increasing (whatever the store, the script and the death point). *)
From Verif Require Import Common.Base C01.Model C01.Spec C01.Proofs1 C01.Proofs2 C01.Proofs3.
From Coq Require Import Sorted.

Local Open Scope N_scope.

Lemma read_idx_app a b : read_idx (a ++ b) = read_idx a ++ read_idx b.
Proof. unfold read_idx. now rewrite flat_map_app. Qed.

Section Fifo.
Variable c : cfg.

Lemma f_backup {A} st (k : act A) (Q : A -> store -> Prop) v0 :
  (forall st', wp true T k st' Q) -> wp true T (backup c v0 k) st Q.
Proof. intros Hk. unfold backup. destruct (reqSized c); [apply Hk|]. cbn [wp]. split; [exact I|apply Hk]. Qed.

Lemma f_put v st x : wp true T (putInternal c v x) st (fun y _ => ri (fst y) = ri v).
Proof.
  apply (wp_put c true T (fun v' _ => ri v' = ri v)).
  - intros; exact I.
  - auto.
  - reflexivity.
  - reflexivity.
  - intros q st' H _ _. exact H.
Qed.

Lemma f_finish v st index : wp true T (itemDispatchingFinish v index) st (fun v' _ => ri v' = ri v).
Proof. unfold itemDispatchingFinish. cbn [wp]. split; [exact I|reflexivity]. Qed.

Lemma f_getNext v st :
  wp true T (getNextItem v) st
     (fun y _ => ri (fst y) = ri v + 1 /\ match snd y with Some (i, _) => i = ri v | None => True end).
Proof.
  unfold getNextItem. cbn [wp]. split; [exact I|].
  destruct (res_body _ 2) as [r|].
  - cbn [wp fst snd]. split; reflexivity.
  - apply wp_bind. eapply wp_mono; [intros s0 Hs0; exact Hs0| |apply f_finish].
    intros v2 st2 H2. cbn [wp fst snd]. rewrite H2. split; [reflexivity|exact I].
Qed.

Lemma f_read_loop fuel : forall v st,
  wp true T (read_loop fuel v) st
     (fun y _ => ri v <= ri (fst y) /\ match snd y with RItem i _ => ri v <= i < ri (fst y) | _ => True end).
Proof.
  induction fuel as [|f IH]; intros v st; cbn [read_loop].
  - destruct (N.eqb (ri v) (wi v)); cbn [wp fst snd]; (split; [lia|exact I]).
  - destruct (N.eqb (ri v) (wi v)); [cbn [wp fst snd]; split; [lia|exact I]|].
    apply wp_bind. eapply wp_mono; [intros s0 Hs0; exact Hs0| |apply (f_getNext v st)].
    intros [v1 o] st1 (H1 & H2). cbn [fst snd] in *.
    set (v2 := if N.eqb (ri v1) (wi v1) then set_q v1 0 else v1).
    assert (Er : ri v2 = ri v1) by (unfold v2; destruct (N.eqb (ri v1) (wi v1)); reflexivity).
    destruct o as [[i r]|].
    + cbn [wp fst snd]. subst i. lia.
    + eapply wp_mono; [intros s0 Hs0; exact Hs0| |apply (IH v2 st1)].
      intros [v3 rr] st3 (A1 & A2). cbn [fst snd] in *. split; [lia|]. destruct rr; auto. lia.
Qed.

Lemma f_onDone v st index sz oc : wp true T (onDone c v index sz oc) st (fun v' _ => ri v' = ri v).
Proof.
  unfold onDone. set (v1 := set_q v (Z.max 0 (qsize v - sz))).
  assert (Fin : forall v2 st2, ri v2 = ri v ->
     wp true T (if N.eqb (ri v2 mod 10) 0 then backup c v2 (Done (unref v2)) else Done (unref v2)) st2
        (fun v' _ => ri v' = ri v)).
  { intros v2 st2 E. destruct (N.eqb (ri v2 mod 10) 0); [apply f_backup; intros|]; cbn [wp]; exact E. }
  destruct oc.
  - apply wp_bind. eapply wp_mono; [intros s0 Hs0; exact Hs0| |apply (f_finish v1 st index)].
    intros v2 st2 H2. now apply Fin.
  - apply wp_bind. eapply wp_mono; [intros s0 Hs0; exact Hs0| |apply (f_finish v1 st index)].
    intros v2 st2 H2. now apply Fin.
  - cbn [wp]. reflexivity.
Qed.

Lemma f_run_op v outs st o :
  wp true T (run_op c (v, outs) o) st
     (fun x _ => ri v <= ri (fst (fst x)) /\
                 match snd x with RRead i _ => ri v <= i < ri (fst (fst x)) | _ => True end).
Proof.
  destruct o as [x| |k oc|]; cbn [run_op].
  - destruct (too_large c x); [cbn [wp fst snd]; split; [lia|exact I]|].
    destruct (would_wait c v x); [cbn [wp fst snd]; split; [lia|exact I]|].
    apply wp_bind. eapply wp_mono; [intros s0 Hs0; exact Hs0| |apply (f_put v st x)].
    intros y st' H. cbn beta in H. cbn [wp fst snd]. split; [lia|exact I].
  - apply wp_bind. unfold readQ. destruct (stopped v); [cbn [wp fst snd]; split; [lia|exact I]|].
    eapply wp_mono; [intros s0 Hs0; exact Hs0| |apply (f_read_loop _ v st)].
    intros [v' rr] st' (H1 & H2). cbn [fst snd] in *. destruct rr; cbn [wp fst snd]; (split; [lia|auto]).
  - destruct (nth_error outs k) as [[[i sz] r]|]; [|cbn [wp fst snd]; split; [lia|exact I]].
    apply wp_bind. eapply wp_mono; [intros s0 Hs0; exact Hs0| |apply (f_onDone v st i sz oc)].
    intros v' st' H. cbn beta in H. cbn [wp fst snd]. split; [lia|exact I].
  - apply wp_bind. unfold shutdownQ. apply f_backup. intros st'. cbn [wp fst snd]. split; [cbn; lia|exact I].
Qed.

Definition fifo_inv (v : vol) (obs : list (res * Z)) : Prop :=
  StronglySorted N.lt (read_idx obs) /\ Forall (fun i => i < ri v) (read_idx obs).

Lemma sorted_snoc l i : StronglySorted N.lt l -> Forall (fun j => j < i) l -> StronglySorted N.lt (l ++ [i]).
Proof.
  induction 1 as [|a l Hs IH Ha]; intros Hf; cbn [app]; [repeat constructor|].
  inversion Hf; subst. constructor; [now apply IH|].
  apply Forall_app. split; [exact Ha|]. constructor; [assumption|constructor].
Qed.

Lemma f_script ops : forall b st v outs evs obs,
  fifo_inv v obs -> StronglySorted N.lt (read_idx (i_obs (run_script c b st (v, outs) ops evs obs))).
Proof.
  induction ops as [|o ops IH]; intros b st v outs evs obs [HS HF]; cbn [run_script]; [exact HS|].
  pose proof (wp_run true T _ st _ b I (f_run_op v outs st o)) as HR.
  destruct (run_act b st (run_op c (v, outs) o)) as [[st1 b1] [[[v1 outs1] r]|]]; [|exact HS].
  cbn [fst snd] in HR. destruct HR as [H1 H2]. apply IH. unfold fifo_inv. rewrite read_idx_app.
  assert (HF1 : Forall (fun i => i < ri v1) (read_idx obs)).
  { eapply Forall_impl; [|exact HF]. intros a Ha. cbn beta in Ha. lia. }
  destruct r as [a| | |i x| | |e|]; cbn [read_idx flat_map fst app]; rewrite ?app_nil_r; try (split; assumption).
  split.
  - apply sorted_snoc; [exact HS|]. eapply Forall_impl; [|exact HF]. intros a Ha. cbn beta in Ha. lia.
  - apply Forall_app. split; [exact HF1|]. constructor; [lia|constructor].
Qed.

Lemma fifo_incarnation_l st sc b :
  StronglySorted N.lt (read_idx (i_obs (incarnation c st sc b))).
Proof.
  unfold incarnation. destruct (run_act b st (initClient c)) as [[st1 b1] [[v errc]|]]; [|constructor].
  apply f_script. split; constructor.
Qed.

End Fifo.
