(* C01/Translated.v — obligations tying the hand-written model to what translator T1 reads from the
   CURRENT Go source (coq/Generated/C01Queue.v, C01Storage.v are regenerated on every run): an edit of
   the translated Go code changes the generated definitions and breaks a NAMED obligation here. *)
From Verif Require Import Common.Base C01.Model.
From Verif Require Generated.C01Queue Generated.C01Storage.
From Verif Require Export C01.TranslatedDefs.
From Coq Require Import String.

Local Open Scope Z_scope.

Lemma bytesToItemIndex_matches_go_l buf :
  index_result_code (bytesToItemIndex buf) =
  C01Queue.go_bytesToItemIndex (buf_isnil buf) (buf_len buf) (buf_le64 buf).
Proof.
  unfold C01Queue.go_bytesToItemIndex, bytesToItemIndex. destruct buf as [b|]; cbn [buf_isnil buf_len buf_le64]; [|reflexivity].
  destruct (Nat.ltb_spec (List.length b) 8) as [L|L].
  - assert (E : (Z.of_nat (List.length b) <? 8) = true) by (apply Z.ltb_lt; lia). now rewrite E.
  - assert (E : (Z.of_nat (List.length b) <? 8) = false) by (apply Z.ltb_ge; lia). now rewrite E.
Qed.

Lemma capacity_matches_go_l c : C01Queue.go_pq_Capacity (capacity c) = capacity c.
Proof. reflexivity. Qed.

(* ---- method sets: every method of the queue types is one the model accounts for ----
   (Go method, model definition or the reason it needs none) *)
Definition modelled_persistentQueue : list (string * string) :=
  [ ("Capacity", "capacity (cfg)"); ("Offer", "run_op Offer"); ("Read", "readQ / read_loop"); ("Shutdown", "shutdownQ");
    ("Size", "qsize (observed after every operation)"); ("Start", "initClient (toStorageClient is the harness host)");
    ("backupQueueSize", "backup"); ("getNextItem", "getNextItem"); ("initClient", "initClient");
    ("initPersistentContiguousStorage", "initStorage"); ("itemDispatchingFinish", "itemDispatchingFinish");
    ("onDone", "onDone"); ("putInternal", "putInternal / would_wait"); ("restoreQueueSizeFromStorage", "initStorage");
    ("retrieveAndEnqueueNotDispatchedReqs", "retrieveAndEnqueue / reenqueue"); ("unrefClient", "unref") ]%string.

Definition modelled_indexDone : list string := ["OnDone"; "reset"]%string.        (* OnDone = onDone with the stored index/size; reset: pool bookkeeping *)
Definition modelled_refCountDone : list string := ["OnDone"]%string.              (* combine_outcomes *)
Definition modelled_retrySender : list string := ["Send"; "Shutdown"; "Start"]%string. (* send_model; Shutdown = the sticky stop; Start: no-op *)

Lemma method_sets_match_go_l :
  map fst modelled_persistentQueue = C01Queue.ms_persistentQueue /\
  C01Queue.ms_indexDone = modelled_indexDone /\
  C01Queue.ms_refCountDone = modelled_refCountDone /\
  C01Queue.ms_retrySender = modelled_retrySender.
Proof. repeat split; reflexivity. Qed.

(* ---- storage operation types: the model's storage operations cover exactly the OpTypes that exist ---- *)
Definition sop_type (o : sop) : Z :=
  match o with
  | GetIdx _ | GetDi | GetItem _ => C01Storage.go_op_Get
  | SetIdx _ _ | SetDi _ | SetItem _ _ => C01Storage.go_op_Set
  | DelItem _ => C01Storage.go_op_Delete
  end.

Lemma optypes_match_go_l :
  C01Storage.go_optypes = [C01Storage.go_op_Get; C01Storage.go_op_Set; C01Storage.go_op_Delete] /\
  NoDup C01Storage.go_optypes /\
  (forall o, In (sop_type o) C01Storage.go_optypes) /\
  (forall t, In t C01Storage.go_optypes -> exists o, sop_type o = t).
Proof.
  split; [reflexivity|]. split.
  - repeat constructor; cbn; intuition discriminate.
  - split.
    + intros o. destruct o; cbn; auto.
    + intros t [<-|[<-|[<-|[]]]]; [exists GetDi|exists (SetDi [])|exists (DelItem 0%N)]; reflexivity.
Qed.
