(* C11/ProofsLink.v — the clause checker (C11/Harness.v prop_code) accepts what the MODEL produces: for every input
   the observation built from the model's own run, encoded the way the harness encodes the implementation's, has
   prop_code = 0.  Together with ProofsPropOk.v (checker <-> Prop-level clause) the checker's verdicts and the
   theorems are statements about the same thing; a checker that demanded more than the model delivers could not be
   proved here. *)
From Verif Require Import Common.Base Generated.StatusTable C11.Model C11.Diagram C11.Proofs C11.ProofsConc
  C11.ProofsRepair C11.ProofsTie C11.ProofsRound4 C11.Harness C11.ProofsPropOk.

(* the harness' wire encoding of events decodes back *)
Lemma obs_events_evZ : forall es, obs_events (evZ es) = Some es.
Proof.
  induction es as [|[i s] es IH]; [reflexivity|].
  unfold obs_events, evZ in *. cbn [map map_opt fst snd]. rewrite status_of_Z_roundtrip_l. cbn [option_map].
  rewrite IH. reflexivity.
Qed.

(* ---- kinds 0 (reporter scripts), 2 (lifecycle scripts), 3 (concurrent reports): events ---- *)
Lemma link_reporter_l : forall ls x, prop_code (0, (x, evZ (snd (rep_run [] ls)))) = 0.
Proof.
  intros ls x. unfold prop_code. cbn [fst snd]. rewrite obs_events_evZ.
  apply paths_ok_sound_l. intros i. apply reporter_path_l.
Qed.

Lemma link_lifecycle_l : forall os x, prop_code (2, (x, evZ (lc_events os))) = 0.
Proof.
  intros os x. unfold prop_code. cbn [fst snd]. rewrite obs_events_evZ.
  apply paths_ok_sound_l. intros i. apply lifecycle_path_l.
Qed.

Lemma link_concurrent_l : forall pre conc out x,
  In out (conc_outcomes pre conc) -> prop_code (3, (x, evZ out)) = 0.
Proof.
  intros pre conc out x I. unfold prop_code. cbn [fst snd]. rewrite obs_events_evZ.
  apply paths_ok_sound_l. intros i. eapply conc_path_l; exact I.
Qed.

(* ---- kind 7 (instance identities) ---- *)
Lemma iget_in : forall m k ps, iget k m = Some ps -> In (k, ps) m.
Proof.
  induction m as [|[k' v] m IH]; intros k ps H; simpl in H; [discriminate|].
  destruct (Z.eqb k k') eqn:E.
  - apply Z.eqb_eq in E. subst k'. inversion H; subst. simpl; auto.
  - right. apply IH. exact H.
Qed.

Lemma names_in_pairs m k p : names m k p = true -> In (k, p) (inst_pairs m).
Proof.
  unfold names, inst_pairs. destruct (iget k m) as [ps|] eqn:G; [|discriminate]. intros H.
  apply existsb_exists in H as (q & Hq & E). apply Nat.eqb_eq in E. subst q.
  apply in_flat_map. exists (k, ps). split; [now apply iget_in|].
  cbn [fst snd]. apply in_map_iff. exists p. auto.
Qed.

Lemma link_instances_l : forall os, inst_code os (pairsZ (inst_pairs (inst_run os))) = 0.
Proof.
  intros os. apply inst_code_spec_l. intros o p Ho Hp.
  unfold pairsZ. apply in_map_iff. exists (ikey o, p). split; [reflexivity|].
  apply names_in_pairs. now apply instance_names_every_pipeline_l.
Qed.

(* ---- kinds 1 / 4 (shared component: reports forwarded to the hosts) ---- *)
Definition wrapS (p : nat * status) : nat * report := (fst p, RStatus (snd p)).
Definition unwrapS (p : nat * report) : nat * status :=
  (fst p, match snd p with RStatus s => s | RAutoOK => OK end).

Definition only_status (L : list (nat * report)) : Prop := Forall (fun p => exists s, snd p = RStatus s) L.

Lemma only_status_wrap L : only_status L -> L = map wrapS (map unwrapS L).
Proof.
  induction 1 as [|[i r] L [s E] _ IH]; [reflexivity|]. cbn [map]. rewrite <- IH.
  cbn [snd] in E. subst r. reflexivity.
Qed.

Lemma only_status_map_i i (es : list status) : only_status (map (fun e => (i, RStatus e)) es).
Proof. apply Forall_forall. intros p H. apply in_map_iff in H as (e & <- & _). simpl; eauto. Qed.

Lemma only_status_map_e e (is : list nat) : only_status (map (fun i => (i, RStatus e)) is).
Proof. apply Forall_forall. intros p H. apply in_map_iff in H as (k & <- & _). simpl; eauto. Qed.

Lemma sc_run_only_status : forall os h, only_status (sc_run h os).
Proof.
  induction os as [|o os IH]; intros h; [constructor|]. cbn [sc_run].
  destruct o; cbn [sc_step]; apply Forall_app; split; try apply IH;
    [apply only_status_map_i|apply only_status_map_e].
Qed.

Lemma sc2_run_only_status : forall os h, only_status (sc2_run h os).
Proof.
  induction os as [|o os IH]; intros h; [constructor|]. cbn [sc2_run].
  destruct o; cbn [sc2_step]; apply Forall_app; split; try apply IH;
    [apply only_status_map_i|apply only_status_map_e].
Qed.

Lemma obs_events_repZ_wrap : forall rs, obs_events (repZ (map wrapS rs)) = Some rs.
Proof.
  induction rs as [|[i s] rs IH]; [reflexivity|].
  unfold obs_events, repZ, wrapS in *. cbn [map map_opt fst snd]. rewrite status_of_Z_roundtrip_l. cbn [option_map].
  rewrite IH. reflexivity.
Qed.

(* the diagram acceptor behind the hosts is the reporter's state machine (table_is_diagram) *)
Lemma accept_run_req : forall rs m1 m2, (forall k, rget k m1 = rget k m2) ->
  forall k, rget k (accept_run m1 rs) = rget k (fst (rep_run m2 (map wrapS rs))).
Proof.
  induction rs as [|[i s] rs IH]; intros m1 m2 R k; [apply R|].
  cbn [accept_run map wrapS fst snd rep_run rep_step fsm_step]. unfold transition.
  rewrite table_is_diagram_l, <- (R i).
  destruct (diagram (rget i m1) s) eqn:D.
  - specialize (IH (rset i s m1) (rset i s m2)).
    destruct (rep_run (rset i s m2) (map wrapS rs)) as [f e]. cbn [fst] in *. apply IH.
    intros q. destruct (Nat.eq_dec i q) as [->|N]; [now rewrite !rget_rset_same|rewrite !rget_rset_other by exact N; apply R].
  - specialize (IH m1 (rset i (rget i m1) m2)).
    destruct (rep_run (rset i (rget i m1) m2) (map wrapS rs)) as [f e]. cbn [fst] in *. apply IH.
    intros q. destruct (Nat.eq_dec i q) as [->|N]; [rewrite rget_rset_same; reflexivity|rewrite rget_rset_other by exact N; apply R].
Qed.

Lemma accept_state L k : only_status L ->
  rget k (accept_run [] (map unwrapS L)) = fst (fsm_run SNone (proj_reports k L)).
Proof.
  intros O. rewrite (accept_run_req _ [] [] (fun _ => eq_refl)). rewrite <- (only_status_wrap L O).
  rewrite rep_run_state. reflexivity.
Qed.

Lemma in_fst_proj_nonempty k : forall L : list (nat * report), In k (map fst L) -> proj_reports k L <> [].
Proof.
  induction L as [|[i r] L IH]; intros I; [destruct I|]. rewrite proj_reports_cons.
  destruct (Nat.eqb i k) eqn:E; [discriminate|]. destruct I as [I|I]; [simpl in I; subst; rewrite Nat.eqb_refl in E; discriminate|auto].
Qed.

(* every instance that was handed anything holds the status determined by ONE report list *)
Lemma shared_code_zero L (rsn : list report) :
  only_status L ->
  (forall k, In k (map fst L) -> proj_reports k L = rsn) ->
  shared_code (map unwrapS L) = 0.
Proof.
  intros O H. apply shared_code_spec_l. intros a b Ia Ib.
  assert (F : map fst (map unwrapS L) = map fst L) by (rewrite map_map; apply map_ext; intros [? ?]; reflexivity).
  rewrite F in Ia, Ib. rewrite !accept_state by exact O. now rewrite (H a Ia), (H b Ib).
Qed.

Lemma shared_code_zero_st L (st : status) :
  only_status L ->
  (forall k, In k (map fst L) -> fst (fsm_run SNone (proj_reports k L)) = st) ->
  shared_code (map unwrapS L) = 0.
Proof.
  intros O H. apply shared_code_spec_l. intros a b Ia Ib.
  assert (F : map fst (map unwrapS L) = map fst L) by (rewrite map_map; apply map_ext; intros [? ?]; reflexivity).
  rewrite F in Ia, Ib. rewrite !accept_state by exact O. now rewrite (H a Ia), (H b Ib).
Qed.

(* who is handed anything: only attached instances *)
Lemma sc_run_targets (P : nat -> Prop) : forall os h,
  (forall k, In k (sources h) -> P k) -> (forall k, In k (attached os) -> P k) ->
  forall k, In k (map fst (sc_run h os)) -> P k.
Proof.
  induction os as [|o os IH]; intros h Hs Ha k I; [destruct I|].
  cbn [sc_run] in I. destruct o as [a|e]; cbn [sc_step] in I; rewrite map_app, in_app_iff in I; destruct I as [I|I].
  - rewrite map_map in I. apply in_map_iff in I as (x & <- & _). apply Ha. simpl; auto.
  - eapply IH; [| |exact I]; cbn [sources].
    + intros q Hq. apply in_app_iff in Hq as [Hq|[<-|[]]]; [auto|apply Ha; simpl; auto].
    + intros q Hq. apply Ha. simpl; auto.
  - rewrite map_map in I. apply in_map_iff in I as (x & <- & Hx). auto.
  - eapply IH; [| |exact I]; cbn [sources]; auto.
Qed.

Lemma sc2_run_targets (P : nat -> Prop) : forall os h,
  (forall k, In k (sources2 h) -> P k) -> (forall k, In k (attached os) -> P k) ->
  forall k, In k (map fst (sc2_run h os)) -> P k.
Proof.
  induction os as [|o os IH]; intros h Hs Ha k I; [destruct I|].
  cbn [sc2_run] in I. destruct o as [a|e]; cbn [sc2_step] in I; rewrite map_app, in_app_iff in I; destruct I as [I|I].
  - rewrite map_map in I. apply in_map_iff in I as (x & <- & _). apply Ha. simpl; auto.
  - eapply IH; [| |exact I]; cbn [sources2].
    + intros q Hq. apply in_app_iff in Hq as [Hq|[<-|[]]]; [auto|apply Ha; simpl; auto].
    + intros q Hq. apply Ha. simpl; auto.
  - rewrite map_map in I. apply in_map_iff in I as (x & <- & Hx). auto.
  - eapply IH; [| |exact I]; cbn [sources2]; auto.
Qed.

Lemma attached_reports es : attached (map ScReport es) = [].
Proof. induction es; simpl; auto. Qed.

Lemma attached_shape i j es es' k :
  In k (attached (ScAttach i :: map ScReport es ++ ScAttach j :: map ScReport es')) -> k = i \/ k = j.
Proof.
  unfold attached. cbn [flat_map]. rewrite flat_map_app. cbn [flat_map].
  fold (attached (map ScReport es)). fold (attached (map ScReport es')). rewrite !attached_reports.
  simpl. intuition.
Qed.

(* kind 1, the faithful model, under exactly the guards of shared_delivers_all_partial *)
Lemma link_shared_l : forall i j es es' x,
  i <> j -> length es <= ring_cap ->
  let os := ScAttach i :: map ScReport es ++ ScAttach j :: map ScReport es' in
  prop_code (1, (x, repZ (sc_run shared0 os))) = 0.
Proof.
  intros i j es es' x N Len os. unfold prop_code. cbn [fst snd].
  pose proof (sc_run_only_status os shared0) as O.
  rewrite (only_status_wrap _ O), obs_events_repZ_wrap.
  apply (shared_code_zero_st _ (fst (fsm_run SNone (map RStatus (es ++ es')))) O).
  intros k I. destruct (shared_reports i j es es' N Len) as [Hi Hj]. fold os in Hi, Hj.
  assert (K : k = i \/ k = j).
  { eapply (sc_run_targets (fun q => q = i \/ q = j) os shared0); [intros q []| |exact I].
    intros q Hq. now apply (attached_shape i j es es'). }
  destruct K as [->| ->]; [now rewrite Hi|now rewrite Hj].
Qed.

(* ... and WITHOUT the guard the faithful model fails the checker (finding S3): the checker and the refuted theorem agree *)
Lemma link_shared_refuted_l :
  exists os, prop_code (1, ([], repZ (sc_run shared0 os))) = 8.
Proof.
  exists (ScAttach 0 :: map ScReport s3_witness_es ++ ScAttach 1 :: map ScReport [RecoverableError; Stopping; Stopped]).
  vm_compute. reflexivity.
Qed.

(* kind 4, the repaired model: no guard *)
Lemma link_shared_repaired_l : forall i j es es' x,
  i <> j ->
  let os := ScAttach i :: map ScReport es ++ ScAttach j :: map ScReport es' in
  prop_code (4, (x, repZ (sc2_run shared2_0 os))) = 0.
Proof.
  intros i j es es' x N os. unfold prop_code. cbn [fst snd].
  pose proof (sc2_run_only_status os shared2_0) as O.
  rewrite (only_status_wrap _ O), obs_events_repZ_wrap.
  set (cur := fst (fsm_run SNone (map RStatus es))).
  apply (shared_code_zero_st _ (fst (fsm_run cur (map RStatus es'))) O).
  intros k I. destruct (repaired_reports i j es es' N) as [Hi Hj]. fold os cur in Hi, Hj.
  assert (K : k = i \/ k = j).
  { eapply (sc2_run_targets (fun q => q = i \/ q = j) os shared2_0); [intros q []| |exact I].
    intros q Hq. now apply (attached_shape i j es es'). }
  destruct K as [->| ->].
  - rewrite Hi, map_app, fsm_run_app. fold cur.
    destruct (fsm_run SNone (map RStatus es)) as [c1 e1] eqn:R. assert (C : cur = c1) by (unfold cur; try rewrite R; reflexivity).
    rewrite <- C. destruct (fsm_run cur (map RStatus es')); reflexivity.
  - rewrite Hj, map_app, fsm_run_app, canon_path_run. destruct (fsm_run cur (map RStatus es')); reflexivity.
Qed.

(* kind 6 (reports issued concurrently by a shared component) uses the same clause checker as kind 1 *)
Lemma link_shared_conc_l : forall i j es es' x,
  i <> j -> length es <= ring_cap ->
  let os := ScAttach i :: map ScReport es ++ ScAttach j :: map ScReport es' in
  prop_code (6, (x, repZ (sc_run shared0 os))) = 0.
Proof. intros i j es es' x N Len. exact (link_shared_l i j es es' x N Len). Qed.

(* ---- kind 5 (watcher deliveries; the harness keys a delivery by watcher * 100 + instance) ---- *)
Definition keyed (D : list (nat * (nat * status))) : list (nat * status) :=
  map (fun d => (fst d * 100 + fst (snd d), snd (snd d))) D.

Lemma delivZ_keyed D : delivZ D = evZ (keyed D).
Proof. unfold delivZ, evZ, keyed. rewrite map_map. reflexivity. Qed.

Lemma key_eqb w i key : i < 100 ->
  Nat.eqb (w * 100 + i) key = Nat.eqb w (key / 100) && Nat.eqb i (key mod 100).
Proof.
  intros B. destruct (Nat.eqb (w * 100 + i) key) eqn:E.
  - apply Nat.eqb_eq in E. subst key.
    assert (D : (w * 100 + i) / 100 = w) by (symmetry; apply (Nat.div_unique _ 100 w i); [exact B|lia]).
    assert (M : (w * 100 + i) mod 100 = i) by (symmetry; apply (Nat.mod_unique _ 100 w i); [exact B|lia]).
    rewrite D, M, !Nat.eqb_refl. reflexivity.
  - symmetry. apply andb_false_iff.
    destruct (Nat.eqb w (key / 100)) eqn:E1; [|auto]. right.
    destruct (Nat.eqb i (key mod 100)) eqn:E2; [|reflexivity]. exfalso.
    apply Nat.eqb_eq in E1, E2. apply Nat.eqb_neq in E. apply E.
    rewrite E1, E2. pose proof (Nat.div_mod key 100). lia.
Qed.

Lemma keyed_proj key : forall D, Forall (fun d => fst (snd d) < 100) D ->
  proj_events key (keyed D) = proj_events (key mod 100) (seen_by (key / 100) D).
Proof.
  induction 1 as [|[w [i s]] D B _ IH]; [reflexivity|]. cbn [fst snd] in B.
  unfold keyed in *. cbn [map fst snd]. rewrite proj_events_cons, (key_eqb w i key B).
  unfold seen_by in *. cbn [filter fst].
  destruct (Nat.eqb w (key / 100)) eqn:E1; cbn [andb map snd].
  - rewrite proj_events_cons. destruct (Nat.eqb i (key mod 100)); [f_equal|]; exact IH.
  - exact IH.
Qed.

Lemma deliveries_bound ws evs : Forall (fun e => fst e < 100) evs ->
  Forall (fun d : nat * (nat * status) => fst (snd d) < 100) (watcher_deliveries ws evs).
Proof.
  intros F. apply Forall_forall. intros d I. unfold watcher_deliveries in I.
  apply in_flat_map in I as (e & He & Hd). unfold notify in Hd. apply in_map_iff in Hd as (w & <- & _).
  cbn [snd]. rewrite Forall_forall in F. now apply F.
Qed.

Lemma link_watchers_l : forall ws ls x,
  NoDup ws -> Forall (fun e => fst e < 100) (snd (rep_run [] ls)) ->
  prop_code (5, (x, delivZ (watcher_deliveries ws (snd (rep_run [] ls))))) = 0.
Proof.
  intros ws ls x ND B. unfold prop_code. cbn [fst snd]. rewrite delivZ_keyed, obs_events_evZ.
  apply paths_ok_sound_l. intros key.
  rewrite keyed_proj by (now apply deliveries_bound).
  destruct (in_dec Nat.eq_dec (key / 100) ws) as [I|NI].
  - rewrite watcher_sees_all_l by assumption. apply reporter_path_l.
  - rewrite non_watcher_sees_nothing_l by assumption. exact I.
Qed.

(* ---- kinds 1 / 6 beyond the two-instance shape: ANY number of instances, attaching at any moments, as long as every
   attach happens while the ring still holds the whole history (at most ring_cap reports since the first attach) ---- *)
Fixpoint sc_reports (os : list sc_op) : list status :=
  match os with
  | [] => []
  | ScReport e :: r => e :: sc_reports r
  | ScAttach _ :: r => sc_reports r
  end.

(* n = number of reports made so far (since the first attach) *)
Fixpoint attach_ok (n : nat) (os : list sc_op) : Prop :=
  match os with
  | [] => True
  | ScReport _ :: r => attach_ok (S n) r
  | ScAttach _ :: r => n <= ring_cap /\ attach_ok n r
  end.

Lemma nodup_app_l {A} : forall (l1 l2 : list A), NoDup (l1 ++ l2) -> NoDup l1.
Proof.
  induction l1 as [|x l1 IH]; intros l2 H; [constructor|].
  simpl in H. inversion H; subst. constructor; [intros I; apply H2; apply in_app_iff; auto|eapply IH; eauto].
Qed.

Lemma proj_reports_hist_same a (hist : list status) :
  proj_reports a (map (fun e => (a, RStatus e)) hist) = map RStatus hist.
Proof. apply proj_reports_map_same. Qed.

Lemma sc_run_general : forall os h hist,
  sources h <> [] ->
  (length hist <= ring_cap -> ring h = hist) ->
  attach_ok (length hist) os ->
  NoDup (sources h ++ attached os) ->
  forall k,
    (In k (sources h) -> proj_reports k (sc_run h os) = map RStatus (sc_reports os)) /\
    (In k (attached os) -> proj_reports k (sc_run h os) = map RStatus (hist ++ sc_reports os)).
Proof.
  induction os as [|o os IH]; intros h hist NE R OK ND k.
  - split; [reflexivity|intros []].
  - destruct o as [a|e].
    + (* a late instance attaches: the ring is the whole history *)
      cbn [attach_ok] in OK. destruct OK as [Len OK]. pose proof (R Len) as Rh.
      cbn [sc_run sc_step sc_reports].
      set (h' := {| sources := sources h ++ [a]; ring := ring h |}). rewrite Rh.
      assert (ND' : NoDup (sources h' ++ attached os)).
      { cbn [sources h']. rewrite <- app_assoc. exact ND. }
      assert (NE' : sources h' <> []) by (cbn [sources h']; destruct (sources h); discriminate).
      specialize (IH h' hist NE' R OK ND').
      assert (Na : ~ In a (sources h)).
      { intros I. cbn [attached flat_map app] in ND. apply NoDup_remove_2 in ND. apply ND. apply in_app_iff. auto. }
      assert (Na2 : ~ In a (attached os)).
      { intros I. cbn [attached flat_map app] in ND. apply NoDup_remove_2 in ND. apply ND. apply in_app_iff. auto. }
      rewrite proj_reports_app. split.
      * intros I. assert (N : a <> k) by (intros ->; auto).
        rewrite (proj_reports_map_other k a) by (intros E; apply N; auto). cbn [app].
        destruct (IH k) as [H1 _]. apply H1. cbn [sources h']. apply in_app_iff. auto.
      * cbn [attached flat_map app]. intros [<-|I].
        -- rewrite proj_reports_hist_same. destruct (IH a) as [H1 _].
           rewrite H1 by (cbn [sources h']; apply in_app_iff; simpl; auto). now rewrite map_app.
        -- assert (N : a <> k) by (intros ->; auto).
           rewrite (proj_reports_map_other k a) by (intros E; apply N; auto). cbn [app].
           destruct (IH k) as [_ H2]. apply H2. exact I.
    + (* a report: fanned out to the attached instances, pushed on the ring *)
      cbn [attach_ok] in OK. cbn [sc_run sc_step sc_reports attached flat_map app] in *.
      destruct (sources h) as [|s0 ss] eqn:S; [congruence|]. rewrite <- S in *.
      set (h' := {| sources := sources h; ring := ring_push (ring h) e |}).
      assert (R' : length (hist ++ [e]) <= ring_cap -> ring h' = hist ++ [e]).
      { intros L. rewrite app_length in L. simpl in L. cbn [ring h']. rewrite R by lia.
        unfold ring_push. rewrite app_length. simpl.
        destruct (Nat.leb (length hist + 1) ring_cap) eqn:E; [reflexivity|apply Nat.leb_gt in E; lia]. }
      assert (OK' : attach_ok (length (hist ++ [e])) os) by (rewrite app_length; simpl; rewrite Nat.add_1_r; exact OK).
      specialize (IH h' (hist ++ [e]) NE R' OK' ND).
      assert (NDs : NoDup (sources h)) by (eapply nodup_app_l; exact ND).
      rewrite proj_reports_app. split.
      * intros I. rewrite (proj_reports_fan k e (sources h) NDs I). destruct (IH k) as [H1 _].
        cbn [sources h'] in H1. rewrite (H1 I). reflexivity.
      * intros I.
        assert (NI : ~ In k (sources h)).
        { intros Is. clear - ND Is I. induction (sources h) as [|x l IHl]; [destruct Is|].
          simpl in ND. inversion ND; subst. destruct Is as [->|Is]; [apply H1; apply in_app_iff; auto|auto]. }
        rewrite (proj_reports_fan_notin k e (sources h) NI). destruct (IH k) as [_ H2].
        rewrite (H2 I), <- app_assoc. reflexivity.
Qed.

Lemma link_shared_general_l : forall i os x,
  NoDup (i :: attached os) -> attach_ok 0 os ->
  prop_code (1, (x, repZ (sc_run shared0 (ScAttach i :: os)))) = 0 /\
  prop_code (6, (x, repZ (sc_run shared0 (ScAttach i :: os)))) = 0.
Proof.
  intros i os x ND OK.
  assert (G : shared_code (map unwrapS (sc_run shared0 (ScAttach i :: os))) = 0).
  { pose proof (sc_run_only_status (ScAttach i :: os) shared0) as O.
    apply (shared_code_zero _ (map RStatus (sc_reports os)) O). intros k I.
    assert (K : In k (attached (ScAttach i :: os))).
    { eapply (sc_run_targets (fun q => In q (attached (ScAttach i :: os))) (ScAttach i :: os) shared0); [intros q []|auto|exact I]. }
    cbn [sc_run sc_step shared0 sources ring map app].
    pose proof (sc_run_general os {| sources := [i]; ring := [] |} [] ltac:(discriminate) (fun _ => eq_refl) OK ND k) as [H1 H2].
    cbn [attached flat_map app] in K. destruct K as [<-|K]; [apply H1; simpl; auto|apply H2; exact K]. }
  pose proof (sc_run_only_status (ScAttach i :: os) shared0) as O.
  split; unfold prop_code; cbn [fst snd]; rewrite (only_status_wrap _ O), obs_events_repZ_wrap; exact G.
Qed.
