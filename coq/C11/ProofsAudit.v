(* C11/ProofsAudit.v — round-5 clause audit: theorems for clauses that were only stated at the level of one
   state machine, and reachability of the hypotheses other theorems assume. *)
From Verif Require Import Common.Base Generated.StatusTable C11.Model C11.Diagram C11.Proofs C11.ProofsConc C11.ProofsRound4.

(* ---- "changes nothing": a silent report is invisible to every later report of every instance ---- *)
Definition req (m1 m2 : rstate) : Prop := forall k, rget k m1 = rget k m2.

Lemma rep_step_req m1 m2 l : req m1 m2 ->
  snd (rep_step m1 l) = snd (rep_step m2 l) /\ req (fst (rep_step m1 l)) (fst (rep_step m2 l)).
Proof.
  intros R. destruct l as [i r]. cbn [rep_step]. rewrite (R i).
  destruct (fsm_step (rget i m2) r) as [c e]. cbn [fst snd]. split; [reflexivity|].
  intros k. destruct (Nat.eq_dec i k) as [->|N].
  - now rewrite !rget_rset_same.
  - rewrite !rget_rset_other by exact N. apply R.
Qed.

Lemma rep_run_req : forall ls m1 m2, req m1 m2 -> snd (rep_run m1 ls) = snd (rep_run m2 ls).
Proof.
  induction ls as [|l ls IH]; intros m1 m2 R; [reflexivity|].
  cbn [rep_run]. destruct (rep_step_req m1 m2 l R) as [E R'].
  destruct (rep_step m1 l) as [a1 e1]. destruct (rep_step m2 l) as [a2 e2]. cbn [fst snd] in *. subst e2.
  specialize (IH a1 a2 R'). destruct (rep_run a1 ls) as [f1 x1]. destruct (rep_run a2 ls) as [f2 x2].
  cbn [snd] in *. now subst x2.
Qed.

Lemma rep_run_app : forall l1 l2 m,
  rep_run m (l1 ++ l2) =
  let '(m1, e1) := rep_run m l1 in let '(m2, e2) := rep_run m1 l2 in (m2, e1 ++ e2).
Proof.
  induction l1 as [|l l1 IH]; intros l2 m; simpl.
  - destruct (rep_run m l2); reflexivity.
  - destruct (rep_step m l) as [m' e]. rewrite IH.
    destruct (rep_run m' l1) as [m1 e1]. destruct (rep_run m1 l2) as [m2 e2]. destruct e; reflexivity.
Qed.

Lemma silent_report_invisible : forall ls1 ls2 i r,
  snd (fsm_step (rget i (fst (rep_run [] ls1))) r) = None ->
  snd (rep_run [] (ls1 ++ (i, r) :: ls2)) = snd (rep_run [] (ls1 ++ ls2)).
Proof.
  intros ls1 ls2 i r S. rewrite !rep_run_app.
  destruct (rep_run [] ls1) as [m1 e1]. cbn [fst] in S. cbn [rep_run rep_step].
  destruct (fsm_step (rget i m1) r) as [c e] eqn:F. cbn [snd] in S. subst e.
  apply fsm_step_silent in F. subst c.
  assert (R : req (rset i (rget i m1) m1) m1).
  { intros k. destruct (Nat.eq_dec i k) as [->|N]; [apply rget_rset_same|now apply rget_rset_other]. }
  pose proof (rep_run_req ls2 _ _ R) as E.
  destruct (rep_run (rset i (rget i m1) m1) ls2) as [f1 x1]. destruct (rep_run m1 ls2) as [f2 x2].
  cbn [snd] in *. now subst x2.
Qed.

Lemma illegal_report_invisible_l : forall ls1 ls2 i s,
  diagram (rget i (fst (rep_run [] ls1))) s = false ->
  snd (rep_run [] (ls1 ++ (i, RStatus s) :: ls2)) = snd (rep_run [] (ls1 ++ ls2)).
Proof.
  intros ls1 ls2 i s D. apply silent_report_invisible. now rewrite (illegal_noop_l _ _ D).
Qed.

Lemma late_auto_ok_invisible_l : forall ls1 ls2 i,
  rget i (fst (rep_run [] ls1)) <> Starting ->
  snd (rep_run [] (ls1 ++ (i, RAutoOK) :: ls2)) = snd (rep_run [] (ls1 ++ ls2)).
Proof.
  intros ls1 ls2 i N. apply silent_report_invisible.
  destruct (auto_ok_l (rget i (fst (rep_run [] ls1)))) as [_ H]. now rewrite (H N).
Qed.

(* ---- the automatic OK at the level of the lifecycle scripts (StartAll / Extensions.Start) ---- *)
Lemma lifecycle_auto_ok_l : forall os i,
  lc_events (os ++ [LcStartOk i]) =
  lc_events os ++ (if status_eqb (last (proj_events i (lc_events os)) SNone) Starting then [(i, OK)] else []).
Proof.
  intros os i. unfold lc_events. rewrite map_app, rep_run_app. cbn [map lc_report].
  pose proof (auto_ok_linearised_l (map lc_report os) i) as A.
  destruct (rep_run [] (map lc_report os)) as [m1 e1]. cbn [fst snd] in *.
  cbn [rep_run]. destruct (rep_step m1 (i, RAutoOK)) as [m2 e]. cbn [snd] in *. subst e.
  destruct (status_eqb (last (proj_events i e1) SNone) Starting); reflexivity.
Qed.

(* ---- reachability of the hypotheses of shared_fanout_uniform ---- *)
Lemma sc_final_sources : forall os h, sources (sc_final h os) = sources h ++ attached os.
Proof.
  induction os as [|o os IH]; intros h; simpl; [now rewrite app_nil_r|].
  rewrite IH. destruct o; simpl; [now rewrite <- app_assoc|reflexivity].
Qed.

Lemma sc_run_app : forall o1 o2 h, sc_run h (o1 ++ o2) = sc_run h o1 ++ sc_run (sc_final h o1) o2.
Proof.
  induction o1 as [|o o1 IH]; intros o2 h; simpl; [reflexivity|].
  destruct (sc_step h o) as [h' ls] eqn:S. cbn [fst]. rewrite IH, app_assoc. reflexivity.
Qed.

Lemma shared_fanout_reachable_l : forall os es k,
  NoDup (attached os) -> In k (attached os) ->
  sc_run shared0 (os ++ map ScReport es) = sc_run shared0 os ++ sc_run (sc_final shared0 os) (map ScReport es) /\
  proj_reports k (sc_run (sc_final shared0 os) (map ScReport es)) = map RStatus es.
Proof.
  intros os es k ND I. split; [apply sc_run_app|].
  apply shared_fanout_uniform_l; rewrite sc_final_sources; simpl; assumption.
Qed.
