(* C11/Witness.v — non-vacuity examples and concrete evaluations. *)
From Verif Require Import Common.Base Generated.StatusTable C11.Model C11.Diagram C11.Proofs C11.ProofsConc C11.ProofsRepair C11.ProofsRound4 C11.ProofsAudit C11.Harness C11.ProofsLink.

(* a non-trivial report sequence: illegal reports interleaved with legal ones *)
Example ex_run :
  events_of [RStatus OK; RStatus Starting; RStatus Starting; RAutoOK; RAutoOK; RStatus RecoverableError;
             RStatus PermanentError; RStatus OK; RStatus Stopping; RStatus Stopped; RStatus Starting]
  = [Starting; OK; RecoverableError; PermanentError; Stopping; Stopped].
Proof. vm_compute. reflexivity. Qed.

(* hypotheses of illegal_report_is_noop / shared_delivers_all_partial are satisfiable *)
Example ex_illegal : diagram PermanentError OK = false. Proof. reflexivity. Qed.
Example ex_shared :
  let os := ScAttach 0 :: map ScReport [Starting; OK] ++ ScAttach 1 :: map ScReport [Stopping; Stopped] in
  proj_events 1 (sc_events os) = [Starting; OK; Stopping; Stopped] /\ 0 <> 1 /\ length [Starting; OK] <= ring_cap.
Proof. vm_compute. repeat split; try discriminate. lia. Qed.

(* every status is reachable as a delivered event, so the path theorem is not about an empty set *)
Example ex_all_reachable : forall s, s <> SNone -> exists rs, In s (events_of rs).
Proof.
  intros s N. destruct s; try congruence.
  - exists [RStatus Starting]; vm_compute; auto.
  - exists [RStatus Starting; RAutoOK]; vm_compute; auto.
  - exists [RStatus Starting; RStatus RecoverableError]; vm_compute; auto.
  - exists [RStatus Starting; RStatus PermanentError]; vm_compute; auto.
  - exists [RStatus Starting; RStatus FatalError]; vm_compute; auto.
  - exists [RStatus Starting; RStatus Stopping]; vm_compute; auto.
  - exists [RStatus Starting; RStatus Stopping; RStatus Stopped]; vm_compute; tauto.
Qed.

(* lifecycle: a component that reports RecoverableError during its own Start gets NO automatic OK;
   one that reports nothing does *)
Example ex_lifecycle :
  lc_events [LcStartBegin 1; LcReport 1 RecoverableError; LcStartOk 1; LcStartBegin 0; LcStartOk 0;
             LcStopBegin 0; LcStopOk 0; LcStopBegin 1; LcStopErr 1]
  = [(1, Starting); (1, RecoverableError); (0, Starting); (0, OK); (0, Stopping); (0, Stopped);
     (1, Stopping); (1, PermanentError)].
Proof. vm_compute. reflexivity. Qed.

(* concurrently issued reports: from Starting, the automatic OK racing with the component's own
   RecoverableError has exactly two outcomes (OK won: Starting, OK, RecoverableError; the component
   won: Starting, RecoverableError) — the set is neither empty nor a singleton *)
Example ex_conc_outcomes :
  conc_outcomes [(0, RStatus Starting)] [(0, RAutoOK); (0, RStatus RecoverableError)]
  = [[(0, Starting); (0, OK); (0, RecoverableError)]; [(0, Starting); (0, RecoverableError)]].
Proof. vm_compute. reflexivity. Qed.

(* three concurrent reports have 3! orderings *)
Example ex_perms : length (perms [1; 2; 3]) = 6 /\ In [2; 3; 1] (perms [1; 2; 3]).
Proof. vm_compute. tauto. Qed.

(* auto_ok_in_any_linearisation: both branches occur *)
Example ex_auto_ok_branches :
  snd (rep_step (fst (rep_run [] [(0, RStatus Starting); (1, RStatus Starting)])) (0, RAutoOK)) = Some (0, OK) /\
  snd (rep_step (fst (rep_run [] [(0, RStatus Starting); (0, RStatus RecoverableError)])) (0, RAutoOK)) = None.
Proof. vm_compute. auto. Qed.

(* the S3 witness under the proposed repair: six events before the late attach, and the late instance is
   delivered Starting, OK and then everything the first instance is *)
Example ex_repaired_s3 :
  let os := ScAttach 0 :: map ScReport s3_witness_es ++ ScAttach 1 :: map ScReport [RecoverableError; Stopping; Stopped] in
  proj_events 1 (sc2_events os) = [Starting; OK; RecoverableError; Stopping; Stopped] /\
  proj_events 1 (sc_events os) = [].
Proof. vm_compute. auto. Qed.

(* watchers: hypotheses satisfiable, and the statement is about a non-empty delivery list *)
Example ex_watchers :
  NoDup [0; 2] /\ In 2 [0; 2] /\
  watcher_deliveries [0; 2] [(1, Starting); (1, OK)] = [(0, (1, Starting)); (2, (1, Starting)); (0, (1, OK)); (2, (1, OK))].
Proof. repeat split; try (vm_compute; auto; fail). repeat constructor; simpl; intuition discriminate. Qed.

(* instance identities: receiver 0 used by traces/1 and traces/2 is ONE node naming both pipelines; a
   connector used twice names all four ends *)
Example ex_instances :
  inst_pairs (inst_run [IRecv 1 0; IExp 1 0; IRecv 2 0; IExp 2 1; IConn 1 12 0; IConn 2 11 0])
  = [(1000%Z, 1); (1000%Z, 2); (3000%Z, 1); (3100%Z, 2); (4001%Z, 1); (4001%Z, 12); (4001%Z, 2); (4001%Z, 11)].
Proof. vm_compute. reflexivity. Qed.

(* shared_fanout_uniform: hypotheses satisfiable on a non-trivial state *)
Example ex_fanout :
  NoDup (sources {| sources := [0; 1; 2]; ring := [Starting] |}) /\ In 1 [0; 1; 2].
Proof. split; [repeat constructor; simpl; intuition discriminate|simpl; auto]. Qed.

(* round 5: hypotheses of the audit theorems are satisfiable on non-trivial histories *)
Example ex_illegal_invisible :
  diagram (rget 0 (fst (rep_run [] [(0, RStatus Starting); (1, RStatus Starting); (0, RStatus PermanentError)]))) OK = false /\
  rget 0 (fst (rep_run [] [(0, RStatus Starting); (0, RStatus RecoverableError)])) <> Starting.
Proof. split; vm_compute; congruence. Qed.

Example ex_fanout_reachable :
  let os := [ScAttach 0; ScReport Starting; ScAttach 2; ScReport OK; ScAttach 1] in
  NoDup (attached os) /\ In 2 (attached os) /\ sources (sc_final shared0 os) = [0; 2; 1].
Proof. vm_compute. repeat split; auto. repeat constructor; simpl; intuition discriminate. Qed.

(* the clause checkers are not constantly 0: each code is produced by some observation *)
Example ex_clause_codes :
  paths_code [] [(0, Starting); (0, OK)] = 0 /\ paths_code [] [(0, OK)] = 1 /\
  paths_code [] [(0, Starting); (0, Starting)] = 2 /\
  paths_code [] [(0, Starting); (0, PermanentError); (0, OK)] = 3 /\
  paths_code [] [(0, Starting); (0, FatalError); (0, Stopping)] = 4 /\
  paths_code [] [(0, Starting); (0, OK); (0, Starting)] = 5 /\
  paths_code [] [(0, Starting); (0, OK); (0, Stopped)] = 6 /\
  shared_code [(0, Starting); (1, OK)] = 8 /\ shared_code [(0, Starting); (1, Starting)] = 0 /\
  inst_code [IRecv 1 0; IRecv 2 0] [(1, 1000%Z)] = 9.
Proof. vm_compute. repeat split. Qed.

(* the link theorems are about non-trivial observations: a model run with 6 events over two instances and two watchers *)
Example ex_link_nonvacuous :
  let ls := [(0, RStatus Starting); (1, RStatus Starting); (0, RAutoOK); (1, RStatus RecoverableError); (1, RAutoOK); (0, RStatus Stopping)] in
  length (snd (rep_run [] ls)) = 5 /\ NoDup [0; 3] /\ Forall (fun e => fst e < 100) (snd (rep_run [] ls)) /\
  length (delivZ (watcher_deliveries [0; 3] (snd (rep_run [] ls)))) = 10 /\
  prop_code (5, ([], delivZ (watcher_deliveries [0; 3] (snd (rep_run [] ls))))) = 0 /\
  prop_code (5, ([], [(300, StatusOK)])) = 1.
Proof. vm_compute. repeat split; try reflexivity; repeat constructor; simpl; try lia; intuition discriminate. Qed.

(* checker_accepts_shared_model_general: four instances attaching at different moments within the ring *)
Example ex_link_general :
  let os := [ScReport Starting; ScAttach 1; ScReport OK; ScAttach 2; ScReport RecoverableError; ScReport OK; ScAttach 3; ScReport Stopping] in
  NoDup (0 :: attached os) /\ attach_ok 0 os /\ length (sc_run shared0 (ScAttach 0 :: os)) = 20.
Proof. vm_compute. repeat split; try lia. repeat constructor; simpl; intuition discriminate. Qed.

(* round 7: a configuration naming extension 2 twice; the order has it once *)
Example ex_ext_ids : ext_ids [2; 0; 2; 1; 2] = [0; 1; 2] /\ order_ok [2; 0; 2; 1; 2] [1; 2; 0] [2; 0] = true /\
  order_ok [2; 0; 2; 1; 2] [2; 0; 2; 1] [2; 0] = false.
Proof. vm_compute. auto. Qed.
