(* C11/ProofsOrder.v — round 7: the order in which extensions are notified contains every configured extension exactly
   once, however often service::extensions names it; this discharges the NoDup hypothesis of the watcher theorems for
   the order the code builds, and makes "each accepted event is handed to each watcher exactly once" a theorem about
   configurations. *)
From Coq Require Import Permutation.
From Verif Require Import Common.Base Generated.StatusTable C11.Model C11.Diagram C11.Proofs C11.ProofsRepair C11.Harness.

Lemma ext_ids_nodup_l : forall cfg, NoDup (ext_ids cfg).
Proof. intros cfg. apply NoDup_nodup. Qed.

Lemma ext_ids_in_l : forall cfg x, In x (ext_ids cfg) <-> In x cfg.
Proof. intros cfg x. apply nodup_In. Qed.

(* any enumeration of the map's keys (the topological order is one) *)
Lemma order_watchers_nodup (isw : nat -> bool) cfg order :
  Permutation (ext_ids cfg) order -> NoDup (filter isw order).
Proof. intros P. apply NoDup_filter. eapply Permutation_NoDup; [exact P|apply ext_ids_nodup_l]. Qed.

(* every watcher extension named (once or several times) in the configuration is handed every accepted event exactly
   once, in order — hence, per instance, a path of the diagram *)
Lemma configured_watcher_sees_all_l : forall (isw : nat -> bool) cfg order w evs,
  Permutation (ext_ids cfg) order -> In w cfg -> isw w = true ->
  seen_by w (watcher_deliveries (filter isw order) evs) = evs.
Proof.
  intros isw cfg order w evs P I W. apply watcher_sees_all_l.
  - eapply order_watchers_nodup; exact P.
  - apply filter_In. split; [|exact W]. eapply Permutation_in; [exact P|]. now apply ext_ids_in_l.
Qed.

Lemma configured_watcher_path_l : forall (isw : nat -> bool) cfg order w ls i,
  Permutation (ext_ids cfg) order -> In w cfg -> isw w = true ->
  path SNone (proj_events i (seen_by w (watcher_deliveries (filter isw order) (snd (rep_run [] ls))))).
Proof.
  intros isw cfg order w ls i P I W. rewrite (configured_watcher_sees_all_l isw cfg order w _ P I W). apply reporter_path_l.
Qed.

(* a watcher that occurs TWICE in the notification order is handed every event twice: the NoDup is necessary *)
Lemma duplicate_in_order_refuted_l :
  exists ws w evs, In w ws /\ ~ path SNone (proj_events 0 (seen_by w (watcher_deliveries ws evs))) /\ path SNone (proj_events 0 evs).
Proof.
  exists [1; 1], 1, [(0, Starting); (0, OK)]. split; [simpl; auto|]. split; [|simpl; auto].
  vm_compute. intuition discriminate.
Qed.

(* the boolean order check used by the correspondence (Harness.order_ok) means what it says *)
Lemma nodupb_spec : forall l, nodupb l = true <-> NoDup l.
Proof.
  induction l as [|x r IH]; simpl; [split; [constructor|auto]|].
  rewrite andb_true_iff, negb_true_iff, IH. split.
  - intros [E N]. constructor; [|exact N]. intros I.
    assert (existsb (Nat.eqb x) r = true) by (apply existsb_exists; exists x; split; [exact I|apply Nat.eqb_refl]). congruence.
  - intros H. inversion H; subst. split; [|assumption].
    destruct (existsb (Nat.eqb x) r) eqn:E; [|reflexivity]. apply existsb_exists in E as (y & Hy & Ey).
    apply Nat.eqb_eq in Ey. subst y. contradiction.
Qed.
