(* C11/Model.v — executable model of component status reporting.
   Code modelled: service/internal/status/status.go (fsm.transition, reporter.ReportStatus,
   reporter.ReportOKIfStarting), internal/sharedcomponent/sharedcomponent.go (hostWrapper.Report,
   hostWrapper.addSource, the ring of 5).  The transition TABLE is not written here: it is
   Generated/StatusTable.v, regenerated from the Go map literal on every run (translator T1). *)
From Verif Require Import Common.Base Generated.StatusTable.

Inductive status := SNone | Starting | OK | RecoverableError | PermanentError | FatalError | Stopping | Stopped.

Definition all_status : list status :=
  [SNone; Starting; OK; RecoverableError; PermanentError; FatalError; Stopping; Stopped].

(* The numeric values are the generated constants (so a renumbering in Go is followed). *)
Definition Z_of_status (s : status) : Z :=
  match s with
  | SNone => StatusNone | Starting => StatusStarting | OK => StatusOK
  | RecoverableError => StatusRecoverableError | PermanentError => StatusPermanentError
  | FatalError => StatusFatalError | Stopping => StatusStopping | Stopped => StatusStopped
  end.

Definition status_eqb (a b : status) : bool :=
  match a, b with
  | SNone, SNone | Starting, Starting | OK, OK | RecoverableError, RecoverableError
  | PermanentError, PermanentError | FatalError, FatalError | Stopping, Stopping | Stopped, Stopped => true
  | _, _ => false
  end.

Definition status_of_Z (z : Z) : option status :=
  find (fun s => Z.eqb (Z_of_status s) z) all_status.

(* m.transitions[cur][new] : two nested Go map lookups; a missing outer key yields a nil inner
   map in which every lookup fails. *)
Fixpoint lookupZ {A} (k : Z) (l : list (Z * A)) : option A :=
  match l with
  | [] => None
  | (k', v) :: r => if Z.eqb k k' then Some v else lookupZ k r
  end.

Definition allowed (a b : status) : bool :=
  match lookupZ (Z_of_status a) fsm_transitions with
  | Some tos => existsb (Z.eqb (Z_of_status b)) tos
  | None => false
  end.

(* ---- one FSM (one component instance) ----------------------------------------------------- *)
Inductive report := RStatus (s : status) | RAutoOK.   (* ReportStatus / ReportOKIfStarting *)

(* fsm.transition: returns the new current status and the emitted event, if any. *)
Definition transition (cur s : status) : status * option status :=
  if allowed cur s then (s, Some s) else (cur, None).

Definition fsm_step (cur : status) (r : report) : status * option status :=
  match r with
  | RStatus s => transition cur s
  | RAutoOK => if status_eqb cur Starting then transition cur OK else (cur, None)
  end.

Fixpoint fsm_run (cur : status) (rs : list report) : status * list status :=
  match rs with
  | [] => (cur, [])
  | r :: rs' =>
      let '(cur', e) := fsm_step cur r in
      let '(fin, es) := fsm_run cur' rs' in
      (fin, match e with Some s => s :: es | None => es end)
  end.

Definition events_of (rs : list report) : list status := snd (fsm_run SNone rs).

(* ---- the reporter: one FSM per instance, every report atomic under the reporter's mutex ---- *)
Definition rstate := list (nat * status).        (* fsmMap, association list instance -> current *)

Fixpoint rget (i : nat) (m : rstate) : status :=
  match m with
  | [] => SNone                                   (* componentFSM creates a fresh FSM in StatusNone *)
  | (j, s) :: r => if Nat.eqb i j then s else rget i r
  end.

Fixpoint rset (i : nat) (s : status) (m : rstate) : rstate :=
  match m with
  | [] => [(i, s)]
  | (j, t) :: r => if Nat.eqb i j then (j, s) :: r else (j, t) :: rset i s r
  end.

Definition rep_step (m : rstate) (l : nat * report) : rstate * option (nat * status) :=
  let '(i, r) := l in
  let '(cur', e) := fsm_step (rget i m) r in
  (rset i cur' m, match e with Some s => Some (i, s) | None => None end).

Fixpoint rep_run (m : rstate) (ls : list (nat * report)) : rstate * list (nat * status) :=
  match ls with
  | [] => (m, [])
  | l :: ls' =>
      let '(m', e) := rep_step m l in
      let '(fin, es) := rep_run m' ls' in
      (fin, match e with Some x => x :: es | None => es end)
  end.

Definition proj_reports (i : nat) (ls : list (nat * report)) : list report :=
  map snd (filter (fun l => Nat.eqb (fst l) i) ls).
Definition proj_events (i : nat) (es : list (nat * status)) : list status :=
  map snd (filter (fun l => Nat.eqb (fst l) i) es).

(* ---- shared component (hostWrapper) --------------------------------------------------------
   sources: the instances attached so far (each backed by its own FSM in the reporter);
   ring: the last [ring_cap] events reported while at least one source was attached, oldest first. *)
Definition ring_cap : nat := 5.

Record shared := { sources : list nat; ring : list status }.
Definition shared0 : shared := {| sources := []; ring := [] |}.

Definition ring_push (r : list status) (e : status) : list status :=
  let r' := r ++ [e] in
  if Nat.leb (length r') ring_cap then r' else tl r'.

Inductive sc_op := ScAttach (i : nat) | ScReport (e : status).

(* the reports that reach the reporter as a consequence of one shared-component operation *)
Definition sc_step (h : shared) (o : sc_op) : shared * list (nat * report) :=
  match o with
  | ScReport e =>
      ({| sources := sources h;
          ring := match sources h with [] => ring h | _ => ring_push (ring h) e end |},
       map (fun i => (i, RStatus e)) (sources h))
  | ScAttach i =>
      ({| sources := sources h ++ [i]; ring := ring h |},
       map (fun e => (i, RStatus e)) (ring h))
  end.

Fixpoint sc_run (h : shared) (os : list sc_op) : list (nat * report) :=
  match os with
  | [] => []
  | o :: os' => let '(h', ls) := sc_step h o in ls ++ sc_run h' os'
  end.

(* events delivered to watchers by a shared-component script *)
Definition sc_events (os : list sc_op) : list (nat * status) := snd (rep_run [] (sc_run shared0 os)).

(* ---- lifecycle brackets: graph.StartAll/ShutdownAll and Extensions.Start/Shutdown ------------
   What the service itself reports around a component's own Start/Shutdown (during which the
   component may report anything through its host):
     Start:    ReportStatus Starting; comp.Start — error: ReportStatus PermanentError (and abort)
                                                 — nil:   ReportOKIfStarting
     Shutdown: ReportStatus Stopping; comp.Shutdown — error: ReportStatus PermanentError
                                                    — nil:   ReportStatus Stopped              *)
Inductive lc_op :=
| LcStartBegin (i : nat) | LcReport (i : nat) (s : status) | LcStartOk (i : nat) | LcStartErr (i : nat)
| LcStopBegin (i : nat) | LcStopOk (i : nat) | LcStopErr (i : nat).

Definition lc_report (o : lc_op) : nat * report :=
  match o with
  | LcStartBegin i => (i, RStatus Starting)
  | LcReport i s => (i, RStatus s)
  | LcStartOk i => (i, RAutoOK)
  | LcStartErr i => (i, RStatus PermanentError)
  | LcStopBegin i => (i, RStatus Stopping)
  | LcStopOk i => (i, RStatus Stopped)
  | LcStopErr i => (i, RStatus PermanentError)
  end.

Definition lc_events (os : list lc_op) : list (nat * status) := snd (rep_run [] (map lc_report os)).

(* ---- concurrently issued reports ------------------------------------------------------------------
   Reports that overlap in real time may take effect in any order, but each one takes effect
   ATOMICALLY (reporter.mu is held across lookup, decision, transition and delivery): the possible
   outcomes of issuing the reports [conc] concurrently after the sequential prefix [pre] are the
   sequential runs over the orderings of [conc].  (Harness conc validates this on the real reporter.) *)
Fixpoint insert_all {A} (x : A) (l : list A) : list (list A) :=
  match l with
  | [] => [[x]]
  | y :: r => (x :: y :: r) :: map (cons y) (insert_all x r)
  end.

Fixpoint perms {A} (l : list A) : list (list A) :=
  match l with
  | [] => [[]]
  | x :: r => flat_map (insert_all x) (perms r)
  end.

Definition conc_outcomes (pre conc : list (nat * report)) : list (list (nat * status)) :=
  map (fun p => snd (rep_run [] (pre ++ p))) (perms conc).

(* A NON-atomic automatic OK, for contrast (this is NOT what the code does; it is what a
   check-then-act implementation of ReportOKIfStarting would do): the status is read in one
   critical section ([NaCheck]) and OK is reported in a second one ([NaAct]) if the status read
   was Starting.  [na_run] executes a schedule of such half-steps and ordinary atomic reports;
   [seen] remembers, per instance, what the pending check has read. *)
Inductive na_op := NaAtomic (i : nat) (r : report) | NaCheck (i : nat) | NaAct (i : nat).

Fixpoint na_run (m : rstate) (seen : rstate) (os : list na_op) : list (nat * status) :=
  match os with
  | [] => []
  | NaAtomic i r :: os' =>
      let '(m', e) := rep_step m (i, r) in
      match e with Some x => x :: na_run m' seen os' | None => na_run m' seen os' end
  | NaCheck i :: os' => na_run m (rset i (rget i m) seen) os'
  | NaAct i :: os' =>
      if status_eqb (rget i seen) Starting
      then let '(m', e) := rep_step m (i, RStatus OK) in
           match e with Some x => x :: na_run m' seen os' | None => na_run m' seen os' end
      else na_run m seen os'
  end.

(* ---- extensions status path: Extensions.NotifyComponentStatusChange ---------------------------------
   service.Host.NotifyComponentStatusChange hands every event ACCEPTED by the reporter (the reporter's
   callback, still under reporter.mu) to Extensions.NotifyComponentStatusChange, which walks
   extensionIDs (start order) and calls ComponentStatusChanged(source, event) on every extension that
   implements componentstatus.Watcher — started or not.  [watchers] = those extensions, in order. *)
Definition notify (watchers : list nat) (e : nat * status) : list (nat * (nat * status)) :=
  map (fun w => (w, e)) watchers.

Definition watcher_deliveries (watchers : list nat) (evs : list (nat * status)) : list (nat * (nat * status)) :=
  flat_map (notify watchers) evs.

(* what watcher w was delivered, in order *)
Definition seen_by (w : nat) (ds : list (nat * (nat * status))) : list (nat * status) :=
  map snd (filter (fun d => Nat.eqb (fst d) w) ds).

(* ---- PROPOSED REPAIR of finding S3 (NOT the code as it is — props/C11/NOTES.md has the patch) ------
   hostWrapper drops the ring; it tracks the status its instances hold ([cur2]: it applies the same
   transition rule to every report it fans out while at least one source is attached) and a late
   instance is replayed the CANONICAL path from None to that status: Starting first, then the
   current status (through Stopping if the current status is Stopped). *)
Definition canon_path (c : status) : list status :=
  match c with
  | SNone => []
  | Starting => [Starting]
  | Stopped => [Starting; Stopping; Stopped]
  | c => [Starting; c]
  end.

Record shared2 := { sources2 : list nat; cur2 : status }.
Definition shared2_0 : shared2 := {| sources2 := []; cur2 := SNone |}.

Definition sc2_step (h : shared2) (o : sc_op) : shared2 * list (nat * report) :=
  match o with
  | ScReport e =>
      ({| sources2 := sources2 h;
          cur2 := match sources2 h with [] => cur2 h | _ => fst (transition (cur2 h) e) end |},
       map (fun i => (i, RStatus e)) (sources2 h))
  | ScAttach i =>
      ({| sources2 := sources2 h ++ [i]; cur2 := cur2 h |},
       map (fun e => (i, RStatus e)) (canon_path (cur2 h)))
  end.

Fixpoint sc2_run (h : shared2) (os : list sc_op) : list (nat * report) :=
  match os with
  | [] => []
  | o :: os' => let '(h', ls) := sc2_step h o in ls ++ sc2_run h' os'
  end.

Definition sc2_events (os : list sc_op) : list (nat * status) := snd (rep_run [] (sc2_run shared2_0 os)).

(* ---- a faulting watcher: commit-then-notify vs notify-then-commit ---------------------------------------
   fsm.transition sets m.current BEFORE it calls onTransition.  If a watcher faults (panics) during the
   delivery and the reporting goroutine survives (reporter.mu is released by the deferred Unlock), the
   state machine has already moved: a fault changes nothing in [fsm_step] — the harness runs part of its
   scripts with a watcher that panics after recording and the model is the SAME function.  For contrast
   (NOT the code): notify-then-commit, where a faulting delivery leaves the status stale. *)
Definition fsm_step_notify_first (cur : status) (rf : report * bool) : status * option status :=
  let '(c', e) := fsm_step cur (fst rf) in ((if snd rf then cur else c'), e).

Fixpoint fsm_run_notify_first (cur : status) (rs : list (report * bool)) : list status :=
  match rs with
  | [] => []
  | rf :: rs' =>
      let '(cur', e) := fsm_step_notify_first cur rf in
      match e with Some s => s :: fsm_run_notify_first cur' rs' | None => fsm_run_notify_first cur' rs' end
  end.

(* ---- instance identities: Graph.createReceiver / createProcessor / createExporter / createConnector ------
   g.instanceIDs maps a node to the InstanceID its status is reported under.  A receiver / exporter node is
   shared by all pipelines of one signal that name the component, a connector node by all pairs of
   pipelines of one (exporter signal, receiver signal) pair: when the node already exists the pipeline(s)
   are ADDED to its InstanceID (WithPipelines returns a new InstanceID, which is stored back); otherwise a
   new InstanceID naming the pipeline(s) is stored.  Pipelines are nats (signal * 10 + name, < 30), components c < 10; a key (a binary
   integer: kind * 1000 + component * 100 + scope) identifies the node.  (A processor node is per pipeline; creating the same one twice panics in AddNode,
   so it never meets an existing entry and the union below is never exercised for it.) *)
Inductive inst_op :=
| IRecv (p c : nat) | IProc (p c : nat) | IExp (p c : nat) | IConn (pe pr c : nat).

Definition psignal (p : nat) : nat := Nat.div p 10.

Definition ikey (o : inst_op) : Z :=
  (match o with
   | IRecv p c => 1000 + Z.of_nat c * 100 + Z.of_nat (psignal p)
   | IProc p c => 2000 + Z.of_nat c * 100 + Z.of_nat p
   | IExp p c => 3000 + Z.of_nat c * 100 + Z.of_nat (psignal p)
   | IConn pe pr c => 4000 + Z.of_nat c * 100 + Z.of_nat (psignal pe) * 10 + Z.of_nat (psignal pr)
   end)%Z.

Definition ipipes (o : inst_op) : list nat :=
  match o with
  | IRecv p _ | IProc p _ | IExp p _ => [p]
  | IConn pe pr _ => [pe; pr]
  end.

Definition imap := list (Z * list nat).

Fixpoint iget (k : Z) (m : imap) : option (list nat) :=
  match m with
  | [] => None
  | (k', v) :: r => if Z.eqb k k' then Some v else iget k r
  end.

Fixpoint iset (k : Z) (v : list nat) (m : imap) : imap :=
  match m with
  | [] => [(k, v)]
  | (k', v') :: r => if Z.eqb k k' then (k', v) :: r else (k', v') :: iset k v r
  end.

(* addPipelines: the set of pipelines (sorted + compacted in Go; a duplicate-free list here) *)
Definition addp (ps : list nat) (p : nat) : list nat := if existsb (Nat.eqb p) ps then ps else ps ++ [p].

Definition inst_step (m : imap) (o : inst_op) : imap :=
  match iget (ikey o) m with
  | Some ps => iset (ikey o) (fold_left addp (ipipes o) ps) m        (* WithPipelines, stored back *)
  | None => iset (ikey o) (fold_left addp (ipipes o) []) m            (* NewInstanceID *)
  end.

Definition inst_run (os : list inst_op) : imap := fold_left inst_step os [].

Definition names (m : imap) (k : Z) (p : nat) : bool :=
  match iget k m with Some ps => existsb (Nat.eqb p) ps | None => false end.

Definition inst_pairs (m : imap) : list (Z * nat) := flat_map (fun kv => map (fun p => (fst kv, p)) (snd kv)) m.

(* the state of the shared component after a script (sc_run only returns the forwarded reports) *)
Fixpoint sc_final (h : shared) (os : list sc_op) : shared :=
  match os with
  | [] => h
  | o :: os' => sc_final (fst (sc_step h o)) os'
  end.

Definition attached (os : list sc_op) : list nat :=
  flat_map (fun o => match o with ScAttach i => [i] | ScReport _ => [] end) os.

(* ---- the order in which extensions are started / stopped / notified: extensions.New + computeOrder ---------------
   New stores every configured ID in extMap (a map: a repeated ID overwrites its entry) and computeOrder builds the
   order from the KEYS of that map (topological sort; without dependencies the order among the keys is unspecified):
   every configured extension appears in the order exactly once, however often service::extensions names it. *)
Definition ext_ids (cfg : list nat) : list nat := nodup Nat.eq_dec cfg.
