(* C11/ProofsRound4.v — (1) notify-then-commit is refuted by a faulting watcher; (2) the InstanceID of a
   node names every pipeline the component was configured in; (3) the shared component hands every report
   to every attached instance, in the same order. *)
From Verif Require Import Common.Base Generated.StatusTable C11.Model C11.Diagram C11.Proofs.

(* ---- (1) ---- *)
Lemma notify_first_refuted_l :
  exists rs, ~ path SNone (fsm_run_notify_first SNone rs) /\
             path SNone (events_of (map fst rs)).
Proof.
  exists [(RStatus Starting, false); (RStatus OK, false); (RStatus PermanentError, true);
          (RStatus PermanentError, false); (RStatus RecoverableError, false)].
  split; [|apply fsm_run_path]. vm_compute. intuition discriminate.
Qed.

(* ---- (2) instance identities ---- *)
Lemma iget_iset_same k v : forall m, iget k (iset k v m) = Some v.
Proof.
  induction m as [|[k' v'] m IH]; simpl.
  - now rewrite Z.eqb_refl.
  - destruct (Z.eqb k k') eqn:E; simpl; rewrite E; auto.
Qed.

Lemma iget_iset_other k k2 v : k <> k2 -> forall m, iget k2 (iset k v m) = iget k2 m.
Proof.
  intros N. induction m as [|[k' v'] m IH]; simpl.
  - destruct (Z.eqb k2 k) eqn:E; [apply Z.eqb_eq in E; congruence|reflexivity].
  - destruct (Z.eqb k k') eqn:E; simpl.
    + apply Z.eqb_eq in E; subst k'.
      destruct (Z.eqb k2 k) eqn:E2; [apply Z.eqb_eq in E2; congruence|reflexivity].
    + destruct (Z.eqb k2 k'); auto.
Qed.

Lemma addp_keeps ps p q : existsb (Nat.eqb q) ps = true -> existsb (Nat.eqb q) (addp ps p) = true.
Proof.
  intros H. unfold addp. destruct (existsb (Nat.eqb p) ps); [exact H|].
  rewrite existsb_app, H. reflexivity.
Qed.

Lemma addp_adds ps p : existsb (Nat.eqb p) (addp ps p) = true.
Proof.
  unfold addp. destruct (existsb (Nat.eqb p) ps) eqn:E; [exact E|].
  rewrite existsb_app. simpl. rewrite Nat.eqb_refl. now rewrite orb_true_r.
Qed.

Lemma fold_addp_keeps q : forall l ps,
  existsb (Nat.eqb q) ps = true -> existsb (Nat.eqb q) (fold_left addp l ps) = true.
Proof. induction l as [|a l IH]; intros ps H; simpl; [exact H|]. apply IH. now apply addp_keeps. Qed.

Lemma fold_addp_adds q : forall l ps, In q l -> existsb (Nat.eqb q) (fold_left addp l ps) = true.
Proof.
  induction l as [|a l IH]; intros ps I; simpl; [destruct I|].
  destruct I as [->|I]; [apply fold_addp_keeps, addp_adds|apply IH; exact I].
Qed.

Lemma inst_step_mono m o k p : names m k p = true -> names (inst_step m o) k p = true.
Proof.
  unfold names, inst_step. intros H.
  destruct (Z.eq_dec (ikey o) k) as [<-|N].
  - destruct (iget (ikey o) m) as [ps|] eqn:G; [|discriminate].
    rewrite iget_iset_same. now apply fold_addp_keeps.
  - destruct (iget (ikey o) m); rewrite iget_iset_other by exact N; exact H.
Qed.

Lemma inst_step_own m o p : In p (ipipes o) -> names (inst_step m o) (ikey o) p = true.
Proof.
  unfold names, inst_step. intros I.
  destruct (iget (ikey o) m); rewrite iget_iset_same; now apply fold_addp_adds.
Qed.

Lemma inst_fold_mono k p : forall os m, names m k p = true -> names (fold_left inst_step os m) k p = true.
Proof. induction os as [|o os IH]; intros m H; simpl; [exact H|]. apply IH. now apply inst_step_mono. Qed.

Lemma instance_names_every_pipeline_l : forall os o p,
  In o os -> In p (ipipes o) -> names (inst_run os) (ikey o) p = true.
Proof.
  unfold inst_run. intros os. generalize (@nil (Z * list nat)).
  induction os as [|a os IH]; intros m o p I P; [destruct I|].
  simpl. destruct I as [->|I].
  - apply inst_fold_mono. now apply inst_step_own.
  - now apply IH.
Qed.

(* ---- (3) the shared component fans every report out to every attached instance ---- *)
Lemma proj_reports_fan_notin k e : forall srcs, ~ In k srcs ->
  proj_reports k (map (fun i => (i, RStatus e)) srcs) = [].
Proof.
  induction srcs as [|a srcs IH]; intros N; [reflexivity|].
  cbn [map]. rewrite proj_reports_cons.
  destruct (Nat.eqb a k) eqn:E.
  - apply Nat.eqb_eq in E. subst a. exfalso. apply N. simpl; auto.
  - apply IH. intros H. apply N. simpl; auto.
Qed.

Lemma proj_reports_fan k e : forall srcs, NoDup srcs -> In k srcs ->
  proj_reports k (map (fun i => (i, RStatus e)) srcs) = [RStatus e].
Proof.
  induction srcs as [|a srcs IH]; intros ND I; [destruct I|].
  inversion ND as [|? ? NI ND']; subst. cbn [map]. rewrite proj_reports_cons.
  destruct (Nat.eq_dec a k) as [->|NE].
  - rewrite Nat.eqb_refl. f_equal. now apply proj_reports_fan_notin.
  - destruct I as [->|I]; [congruence|].
    destruct (Nat.eqb a k) eqn:E; [apply Nat.eqb_eq in E; congruence|]. now apply IH.
Qed.

Lemma shared_fanout_uniform_l : forall h es k,
  NoDup (sources h) -> In k (sources h) ->
  proj_reports k (sc_run h (map ScReport es)) = map RStatus es.
Proof.
  intros h es k ND I.
  rewrite sc_run_reports by (intros E; rewrite E in I; destruct I).
  rewrite (map_ext _ (fun e => [RStatus e])) by (intros e; now apply proj_reports_fan).
  apply concat_map_single.
Qed.
