(* C11/ProofsPropOk.v — the decidable clause checkers of C11/Harness.v (run over the OBSERVED behaviour of the
   implementation, independent of the model's step functions) are equivalent to the Prop-level clauses. *)
From Verif Require Import Common.Base Generated.StatusTable C11.Model C11.Diagram C11.Proofs C11.Harness.

Lemma paths_code_spec : forall es m,
  paths_code m es = 0 <-> forall i, path (rget i m) (proj_events i es).
Proof.
  induction es as [|[k s] r IH]; intros m.
  - simpl. split; auto.
  - cbn [paths_code]. destruct (diagram (rget k m) s) eqn:D.
    + rewrite IH. split; intros H i.
      * rewrite proj_events_cons. destruct (Nat.eqb k i) eqn:E.
        -- apply Nat.eqb_eq in E; subst i. simpl. split; [exact D|].
           specialize (H k). now rewrite rget_rset_same in H.
        -- assert (N : k <> i) by (intros ->; rewrite Nat.eqb_refl in E; discriminate).
           specialize (H i). now rewrite rget_rset_other in H.
      * specialize (H i). rewrite proj_events_cons in H. destruct (Nat.eqb k i) eqn:E.
        -- apply Nat.eqb_eq in E; subst i. rewrite rget_rset_same. simpl in H. tauto.
        -- assert (N : k <> i) by (intros ->; rewrite Nat.eqb_refl in E; discriminate).
           now rewrite rget_rset_other.
    + split.
      * intros H. exfalso.
        repeat match type of H with context [if ?b then _ else _] => destruct b end; discriminate.
      * intros H. exfalso. specialize (H k). rewrite proj_events_cons, Nat.eqb_refl in H.
        simpl in H. destruct H as [H _]. congruence.
Qed.

(* clause "the sequence delivered for each instance is a path of the diagram" (begins with Starting, never repeats,
   leaves PermanentError only to Stopping, nothing after FatalError / Stopped) *)
Lemma paths_ok_sound_l : forall es, paths_code [] es = 0 <-> forall i, path SNone (proj_events i es).
Proof. intros es. apply (paths_code_spec es []). Qed.

Lemma pairNZ_eqb_eq (a b : nat * Z) : pairNZ_eqb a b = true <-> a = b.
Proof.
  destruct a as [a1 a2], b as [b1 b2]. unfold pairNZ_eqb. cbn [fst snd].
  rewrite andb_true_iff, Nat.eqb_eq, Z.eqb_eq. split; [intros [-> ->]; reflexivity|intros E; inversion E; auto].
Qed.

(* clause "a shared component delivers its status to every instance it represents": the state machines behind all
   hosts that were handed anything hold the same status *)
Lemma shared_code_spec_l : forall rs,
  shared_code rs = 0 <->
  forall i j, In i (map fst rs) -> In j (map fst rs) ->
              rget i (accept_run [] rs) = rget j (accept_run [] rs).
Proof.
  intros rs. unfold shared_code. destruct rs as [|[i0 s0] r]; [simpl; split; [intros _ i j []|auto]|].
  set (all := (i0, s0) :: r). set (m := accept_run [] all).
  destruct (forallb (fun i => status_eqb (rget i m) (rget i0 m)) (map fst all)) eqn:F.
  - split; [|reflexivity]. intros _ i j Hi Hj.
    rewrite forallb_forall in F.
    pose proof (F i Hi) as A. pose proof (F j Hj) as B.
    apply status_eqb_eq in A. apply status_eqb_eq in B. congruence.
  - split; [discriminate|]. intros H. exfalso.
    assert (T : forallb (fun i => status_eqb (rget i m) (rget i0 m)) (map fst all) = true).
    { apply forallb_forall. intros i Hi. apply status_eqb_eq. apply H; [exact Hi|simpl; auto]. }
    congruence.
Qed.

(* clause "... every instance it represents", identity level: every pipeline a component is used in is named *)
Lemma inst_code_spec_l : forall os obs,
  inst_code os obs = 0 <-> forall o p, In o os -> In p (ipipes o) -> In (p, ikey o) obs.
Proof.
  intros os obs. unfold inst_code.
  destruct (forallb (fun o => forallb (fun p => existsb (pairNZ_eqb (p, ikey o)) obs) (ipipes o)) os) eqn:F.
  - split; [|reflexivity]. intros _ o p Ho Hp.
    rewrite forallb_forall in F. specialize (F o Ho). rewrite forallb_forall in F. specialize (F p Hp).
    apply existsb_exists in F as (x & Hx & E). apply pairNZ_eqb_eq in E. now subst x.
  - split; [discriminate|]. intros H. exfalso.
    assert (T : forallb (fun o => forallb (fun p => existsb (pairNZ_eqb (p, ikey o)) obs) (ipipes o)) os = true).
    { apply forallb_forall. intros o Ho. apply forallb_forall. intros p Hp.
      apply existsb_exists. exists (p, ikey o). split; [now apply H|now apply pairNZ_eqb_eq]. }
    congruence.
Qed.
