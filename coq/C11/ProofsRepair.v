(* C11/ProofsRepair.v — (1) every status watcher extension sees, per instance, a path of the diagram;
   (2) the proposed repair of finding S3 delivers the shared component's status to every instance,
   with no bound on the number of reports before a late attach. *)
From Verif Require Import Common.Base Generated.StatusTable C11.Model C11.Diagram C11.Proofs.

(* ---- watchers ---- *)
Lemma seen_by_app w d1 d2 : seen_by w (d1 ++ d2) = seen_by w d1 ++ seen_by w d2.
Proof. unfold seen_by. now rewrite filter_app, map_app. Qed.

Lemma seen_notify_notin w e : forall ws, ~ In w ws -> seen_by w (notify ws e) = [].
Proof.
  induction ws as [|a ws IH]; intros N; [reflexivity|].
  unfold seen_by, notify in *. cbn [map filter fst].
  destruct (Nat.eqb a w) eqn:E.
  - apply Nat.eqb_eq in E. subst a. exfalso. apply N. simpl; auto.
  - apply IH. intros H. apply N. simpl; auto.
Qed.

Lemma seen_notify_in w e : forall ws, NoDup ws -> In w ws -> seen_by w (notify ws e) = [e].
Proof.
  induction ws as [|a ws IH]; intros ND I; [destruct I|].
  inversion ND as [|? ? NI ND']; subst.
  change (notify (a :: ws) e) with ([(a, e)] ++ notify ws e). rewrite seen_by_app.
  destruct (Nat.eq_dec a w) as [->|NE].
  - rewrite (seen_notify_notin w e ws NI). unfold seen_by. cbn [filter fst]. rewrite Nat.eqb_refl. reflexivity.
  - destruct I as [->|I]; [congruence|].
    rewrite (IH ND' I). unfold seen_by. cbn [filter fst].
    destruct (Nat.eqb a w) eqn:E; [apply Nat.eqb_eq in E; congruence|reflexivity].
Qed.

Lemma watcher_sees_all_l : forall ws w evs, NoDup ws -> In w ws ->
  seen_by w (watcher_deliveries ws evs) = evs.
Proof.
  intros ws w evs ND I. induction evs as [|e evs IH]; [reflexivity|].
  unfold watcher_deliveries in *. cbn [flat_map]. rewrite seen_by_app, IH, (seen_notify_in w e ws ND I). reflexivity.
Qed.

Lemma non_watcher_sees_nothing_l : forall ws w evs, ~ In w ws -> seen_by w (watcher_deliveries ws evs) = [].
Proof.
  intros ws w evs N. induction evs as [|e evs IH]; [reflexivity|].
  unfold watcher_deliveries in *. cbn [flat_map]. rewrite seen_by_app, IH, (seen_notify_notin w e ws N). reflexivity.
Qed.

Lemma watcher_path_l : forall ws w ls i, NoDup ws -> In w ws ->
  path SNone (proj_events i (seen_by w (watcher_deliveries ws (snd (rep_run [] ls))))).
Proof. intros ws w ls i ND I. rewrite watcher_sees_all_l by assumption. apply reporter_path_l. Qed.

(* ---- the repaired shared component ---- *)
Lemma canon_path_run : forall c, fsm_run SNone (map RStatus (canon_path c)) = (c, canon_path c).
Proof. intros c; destruct c; vm_compute; reflexivity. Qed.

Lemma canon_path_is_path : forall c, path SNone (canon_path c).
Proof. intros c; destruct c; simpl; auto. Qed.

Lemma canon_path_starts : forall c, c <> SNone -> exists r, canon_path c = Starting :: r.
Proof. intros c N; destruct c; try congruence; simpl; eauto. Qed.

Lemma fsm_run_status_cons cur e rs :
  fst (fsm_run cur (RStatus e :: rs)) = fst (fsm_run (fst (transition cur e)) rs).
Proof.
  cbn [fsm_run fsm_step]. destruct (transition cur e) as [c' ev]. cbn [fst].
  destruct (fsm_run c' rs) as [f es]. reflexivity.
Qed.

(* plain reports while at least one source is attached: fanned out to every source, and the wrapper's
   tracked status moves exactly like an instance's state machine *)
Lemma sc2_run_reports_app : forall es h rest,
  sources2 h <> [] ->
  sc2_run h (map ScReport es ++ rest) =
  concat (map (fun e => map (fun i => (i, RStatus e)) (sources2 h)) es) ++
  sc2_run {| sources2 := sources2 h; cur2 := fst (fsm_run (cur2 h) (map RStatus es)) |} rest.
Proof.
  induction es as [|e es IH]; intros h rest NE.
  - simpl. destruct h; reflexivity.
  - cbn [map app sc2_run sc2_step concat]. rewrite <- app_assoc. f_equal.
    destruct (sources2 h) as [|s0 ss] eqn:S; [congruence|].
    rewrite IH by (cbn [sources2]; congruence). cbn [sources2 cur2].
    rewrite fsm_run_status_cons. reflexivity.
Qed.

Lemma proj_reports_concat_in k (srcs : list nat) (es : list status) :
  proj_reports k (concat (map (fun e => map (fun i => (i, RStatus e)) srcs) es)) =
  concat (map (fun e => proj_reports k (map (fun i => (i, RStatus e)) srcs)) es).
Proof.
  induction es as [|e es IH]; [reflexivity|]. cbn [map concat]. rewrite proj_reports_app, IH. reflexivity.
Qed.

Lemma repaired_reports i j es es' :
  i <> j ->
  let os := ScAttach i :: map ScReport es ++ ScAttach j :: map ScReport es' in
  let cur := fst (fsm_run SNone (map RStatus es)) in
  proj_reports i (sc2_run shared2_0 os) = map RStatus (es ++ es') /\
  proj_reports j (sc2_run shared2_0 os) = map RStatus (canon_path cur ++ es').
Proof.
  intros N os cur. subst os.
  cbn [sc2_run sc2_step shared2_0 sources2 cur2 canon_path map app].
  rewrite sc2_run_reports_app by (cbn [sources2]; congruence). cbn [sources2 cur2]. fold cur.
  cbn [sc2_run sc2_step sources2 cur2].
  pose proof (sc2_run_reports_app es' {| sources2 := [i] ++ [j]; cur2 := cur |} []) as R.
  rewrite app_nil_r in R. rewrite R by (cbn [sources2]; discriminate). clear R.
  cbn [sources2 cur2 sc2_run]. rewrite app_nil_r.
  assert (Ei : forall e, proj_reports i (map (fun k => (k, RStatus e)) [i]) = [RStatus e]).
  { intros e. unfold proj_reports. simpl. now rewrite Nat.eqb_refl. }
  assert (Ej : forall e, proj_reports j (map (fun k => (k, RStatus e)) [i]) = []).
  { intros e. unfold proj_reports. simpl. destruct (Nat.eqb i j) eqn:E; [apply Nat.eqb_eq in E; congruence|reflexivity]. }
  assert (Eij : forall e, proj_reports i (map (fun k => (k, RStatus e)) ([i] ++ [j])) = [RStatus e]).
  { intros e. unfold proj_reports. simpl. rewrite Nat.eqb_refl.
    destruct (Nat.eqb j i) eqn:E; [apply Nat.eqb_eq in E; congruence|reflexivity]. }
  assert (Eji : forall e, proj_reports j (map (fun k => (k, RStatus e)) ([i] ++ [j])) = [RStatus e]).
  { intros e. unfold proj_reports. simpl. rewrite Nat.eqb_refl.
    destruct (Nat.eqb i j) eqn:E; [apply Nat.eqb_eq in E; congruence|reflexivity]. }
  split.
  - rewrite !proj_reports_app, !proj_reports_concat_in.
    rewrite (proj_reports_map_other i j) by exact N.
    rewrite (map_ext _ _ Ei), (map_ext _ _ Eij), !concat_map_single, map_app. reflexivity.
  - rewrite !proj_reports_app, !proj_reports_concat_in.
    rewrite (proj_reports_map_same j).
    rewrite (map_ext _ _ Ej), (map_ext _ _ Eji), concat_map_nil, !concat_map_single, map_app. reflexivity.
Qed.

(* the full theorem for the repair: no bound on the number of reports before the late attach *)
Lemma repaired_delivers_all_l i j es es' :
  i <> j ->
  let os := ScAttach i :: map ScReport es ++ ScAttach j :: map ScReport es' in
  let cur := fst (fsm_run SNone (map RStatus es)) in
  proj_events i (sc2_events os) = events_of (map RStatus es) ++ snd (fsm_run cur (map RStatus es')) /\
  proj_events j (sc2_events os) = canon_path cur ++ snd (fsm_run cur (map RStatus es')) /\
  path SNone (canon_path cur) /\ last (canon_path cur) SNone = cur.
Proof.
  intros N os cur. unfold sc2_events. rewrite !rep_run_proj. cbn [rget].
  destruct (repaired_reports i j es es' N) as [Hi Hj]. fold os cur in Hi, Hj.
  rewrite Hi, Hj, !map_app. unfold events_of. rewrite !fsm_run_app, canon_path_run.
  fold cur. destruct (fsm_run SNone (map RStatus es)) as [c1 e1] eqn:R1.
  assert (C : cur = c1) by (unfold cur; try rewrite R1; reflexivity). rewrite <- C.
  destruct (fsm_run cur (map RStatus es')) as [c2 e2]. cbn [snd].
  repeat split; try reflexivity.
  - apply canon_path_is_path.
  - destruct cur; reflexivity.
Qed.
