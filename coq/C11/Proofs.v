(* C11/Proofs.v — lemmas behind C11/Properties.v. *)
From Verif Require Import Common.Base Generated.StatusTable C11.Model C11.Diagram.

(* ---- the translated table is the documented diagram (64 cases, re-checked on every run) ---- *)
Lemma table_is_diagram_l : forall a b, allowed a b = diagram a b.
Proof. intros a b; destruct a, b; vm_compute; reflexivity. Qed.

(* ---- one FSM ---- *)
Lemma transition_emits cur s cur' e :
  transition cur s = (cur', Some e) -> allowed cur s = true /\ cur' = s /\ e = s.
Proof. unfold transition. destruct (allowed cur s) eqn:A; intros H; inversion H; auto. Qed.

Lemma transition_silent cur s cur' :
  transition cur s = (cur', None) -> allowed cur s = false /\ cur' = cur.
Proof. unfold transition. destruct (allowed cur s) eqn:A; intros H; inversion H; auto. Qed.

Lemma status_eqb_eq a b : status_eqb a b = true <-> a = b.
Proof. destruct a, b; simpl; split; congruence. Qed.

Lemma fsm_step_emits cur r cur' e :
  fsm_step cur r = (cur', Some e) -> diagram cur e = true /\ cur' = e.
Proof.
  destruct r as [s|]; simpl.
  - intros H. apply transition_emits in H as (A & -> & ->). rewrite <- table_is_diagram_l. auto.
  - destruct (status_eqb cur Starting); [|discriminate].
    intros H. apply transition_emits in H as (A & -> & ->). rewrite <- table_is_diagram_l. auto.
Qed.

Lemma fsm_step_silent cur r cur' : fsm_step cur r = (cur', None) -> cur' = cur.
Proof.
  destruct r as [s|]; simpl.
  - intros H. apply transition_silent in H. tauto.
  - destruct (status_eqb cur Starting); [|congruence].
    intros H. apply transition_silent in H. tauto.
Qed.

Lemma fsm_run_path : forall rs cur, path cur (snd (fsm_run cur rs)).
Proof.
  induction rs as [|r rs IH]; intros cur; simpl; [exact I|].
  destruct (fsm_step cur r) as [cur' e] eqn:S.
  specialize (IH cur'). destruct (fsm_run cur' rs) as [fin es]. simpl in *.
  destruct e as [s|].
  - apply fsm_step_emits in S as [D ->]. simpl. auto.
  - apply fsm_step_silent in S as ->. exact IH.
Qed.

Lemma fsm_run_app : forall r1 r2 cur,
  fsm_run cur (r1 ++ r2) =
  let '(c1, e1) := fsm_run cur r1 in let '(c2, e2) := fsm_run c1 r2 in (c2, e1 ++ e2).
Proof.
  induction r1 as [|r r1 IH]; intros r2 cur; simpl.
  - destruct (fsm_run cur r2); reflexivity.
  - destruct (fsm_step cur r) as [cur' e]. rewrite IH.
    destruct (fsm_run cur' r1) as [c1 e1]. destruct (fsm_run c1 r2) as [c2 e2].
    destruct e; reflexivity.
Qed.

(* what a path of the diagram means, in the property's own words *)
Lemma path_first cur e es : path cur (e :: es) -> diagram cur e = true.
Proof. simpl; tauto. Qed.

Lemma path_consecutive : forall es cur l1 a b l2,
  path cur es -> cur :: es = l1 ++ a :: b :: l2 -> diagram a b = true.
Proof.
  induction es as [|e es IH]; intros cur l1 a b l2 P E.
  - destruct l1 as [|x [|y l1]]; simpl in E; inversion E.
  - destruct l1 as [|x l1]; simpl in E; inversion E; subst.
    + simpl in P; tauto.
    + simpl in P. destruct P as [_ P]. eapply IH; eauto.
Qed.

Lemma diagram_facts a b : diagram a b = true ->
  a <> b /\ (a = SNone -> b = Starting) /\ (b = Starting -> a = SNone) /\
  (a = PermanentError -> b = Stopping) /\ a <> FatalError /\ a <> Stopped /\ b <> SNone.
Proof. destruct a, b; simpl; intros H; try discriminate; repeat split; congruence. Qed.

(* ---- the reporter ---- *)
Lemma rget_rset_same i s m : rget i (rset i s m) = s.
Proof.
  induction m as [|[j t] m IH]; simpl.
  - now rewrite Nat.eqb_refl.
  - destruct (Nat.eqb i j) eqn:E; simpl; rewrite E; auto.
Qed.

Lemma rget_rset_other i k s m : i <> k -> rget k (rset i s m) = rget k m.
Proof.
  intros N. induction m as [|[j t] m IH]; simpl.
  - destruct (Nat.eqb k i) eqn:E; [apply Nat.eqb_eq in E; congruence|reflexivity].
  - destruct (Nat.eqb i j) eqn:E; simpl.
    + apply Nat.eqb_eq in E; subst j.
      destruct (Nat.eqb k i) eqn:E2; [apply Nat.eqb_eq in E2; congruence|reflexivity].
    + destruct (Nat.eqb k j); auto.
Qed.

Lemma proj_reports_cons i k r ls :
  proj_reports i ((k, r) :: ls) = if Nat.eqb k i then r :: proj_reports i ls else proj_reports i ls.
Proof. unfold proj_reports. cbn [filter fst]. destruct (Nat.eqb k i); reflexivity. Qed.

Lemma proj_events_cons i k s es :
  proj_events i ((k, s) :: es) = if Nat.eqb k i then s :: proj_events i es else proj_events i es.
Proof. unfold proj_events. cbn [filter fst]. destruct (Nat.eqb k i); reflexivity. Qed.

Lemma rep_run_proj : forall ls m i,
  proj_events i (snd (rep_run m ls)) = snd (fsm_run (rget i m) (proj_reports i ls)).
Proof.
  induction ls as [|[k r] ls IH]; intros m i; [reflexivity|].
  cbn [rep_run rep_step].
  destruct (fsm_step (rget k m) r) as [cur' e] eqn:S.
  specialize (IH (rset k cur' m) i).
  destruct (rep_run (rset k cur' m) ls) as [fin es]. cbn [snd] in IH.
  rewrite proj_reports_cons.
  destruct (Nat.eqb k i) eqn:E.
  - apply Nat.eqb_eq in E; subst k. cbn [fsm_run]. rewrite S.
    rewrite rget_rset_same in IH.
    destruct (fsm_run cur' (proj_reports i ls)) as [f2 e2]. cbn [snd] in IH.
    destruct e as [s|]; cbn [snd].
    + rewrite proj_events_cons, Nat.eqb_refl. f_equal. exact IH.
    + exact IH.
  - assert (N : k <> i) by (intros ->; rewrite Nat.eqb_refl in E; discriminate).
    rewrite rget_rset_other in IH by exact N.
    destruct e as [s|]; cbn [snd].
    + rewrite proj_events_cons, E. exact IH.
    + exact IH.
Qed.

(* ---- shared component ---- *)
Lemma proj_reports_app i l1 l2 : proj_reports i (l1 ++ l2) = proj_reports i l1 ++ proj_reports i l2.
Proof. unfold proj_reports. now rewrite filter_app, map_app. Qed.

Lemma proj_reports_map_same i (es : list status) :
  proj_reports i (map (fun e => (i, RStatus e)) es) = map RStatus es.
Proof. induction es as [|e es IH]; [reflexivity|]. unfold proj_reports in *. simpl. rewrite Nat.eqb_refl. simpl. now rewrite IH. Qed.

Lemma proj_reports_map_other i j (es : list status) : i <> j ->
  proj_reports i (map (fun e => (j, RStatus e)) es) = [].
Proof.
  intros N. induction es as [|e es IH]; [reflexivity|]. unfold proj_reports in *. simpl.
  destruct (Nat.eqb j i) eqn:E; [apply Nat.eqb_eq in E; congruence|exact IH].
Qed.

(* reports reaching instance k from a run of plain reports, for a given set of sources *)
Lemma sc_run_reports : forall es h k,
  sources h <> [] ->
  proj_reports k (sc_run h (map ScReport es)) =
  concat (map (fun e => proj_reports k (map (fun i => (i, RStatus e)) (sources h))) es).
Proof.
  induction es as [|e es IH]; intros h k NE; [reflexivity|].
  cbn [map sc_run sc_step]. rewrite proj_reports_app. cbn [concat]. f_equal.
  rewrite IH; [reflexivity|exact NE].
Qed.

Fixpoint ring_after (r : list status) (es : list status) : list status :=
  match es with [] => r | e :: es' => ring_after (ring_push r e) es' end.

Lemma sc_run_ring_app : forall es h rest,
  sources h <> [] ->
  sc_run h (map ScReport es ++ rest) =
  sc_run h (map ScReport es) ++ sc_run {| sources := sources h; ring := ring_after (ring h) es |} rest.
Proof.
  induction es as [|e es IH]; intros h rest NE.
  - simpl. destruct h; reflexivity.
  - cbn [map app sc_run sc_step]. rewrite <- app_assoc. f_equal.
    destruct (sources h) eqn:S; [congruence|].
    rewrite IH by (simpl; congruence). reflexivity.
Qed.

Lemma ring_after_short : forall es r, length r + length es <= ring_cap -> ring_after r es = r ++ es.
Proof.
  induction es as [|e es IH]; intros r L; simpl in *; [now rewrite app_nil_r|].
  unfold ring_push. rewrite app_length. simpl.
  destruct (Nat.leb (length r + 1) ring_cap) eqn:E.
  - rewrite IH; [now rewrite <- app_assoc|]. rewrite app_length; simpl; lia.
  - apply Nat.leb_gt in E. lia.
Qed.

Lemma concat_map_single {A B} (f : A -> B) (l : list A) : concat (map (fun x => [f x]) l) = map f l.
Proof. induction l; simpl; congruence. Qed.

Lemma concat_map_nil {A B} (l : list A) : concat (map (fun _ => @nil B) l) = [].
Proof. induction l; simpl; auto. Qed.

Lemma shared_reports i j es es' :
  i <> j -> length es <= ring_cap ->
  let os := ScAttach i :: map ScReport es ++ ScAttach j :: map ScReport es' in
  proj_reports i (sc_run shared0 os) = map RStatus (es ++ es') /\
  proj_reports j (sc_run shared0 os) = map RStatus (es ++ es').
Proof.
  intros N L os. subst os.
  cbn [sc_run sc_step shared0 sources ring map app].
  rewrite sc_run_ring_app by (simpl; congruence).
  cbn [sources ring]. rewrite ring_after_short by (simpl; lia). cbn [app].
  cbn [sc_run sc_step sources ring].
  assert (Ei : forall e, proj_reports i (map (fun k => (k, RStatus e)) [i]) = [RStatus e]).
  { intros e. unfold proj_reports. simpl. now rewrite Nat.eqb_refl. }
  assert (Ej : forall e, proj_reports j (map (fun k => (k, RStatus e)) [i]) = []).
  { intros e. unfold proj_reports. simpl. destruct (Nat.eqb i j) eqn:E; [apply Nat.eqb_eq in E; congruence|reflexivity]. }
  assert (Eij : forall e, proj_reports i (map (fun k => (k, RStatus e)) ([i] ++ [j])) = [RStatus e]).
  { intros e. unfold proj_reports. simpl. rewrite Nat.eqb_refl.
    destruct (Nat.eqb j i) eqn:E; [apply Nat.eqb_eq in E; congruence|reflexivity]. }
  assert (Eji : forall e, proj_reports j (map (fun k => (k, RStatus e)) ([i] ++ [j])) = [RStatus e]).
  { intros e. unfold proj_reports. simpl. rewrite Nat.eqb_refl.
    destruct (Nat.eqb i j) eqn:E; [apply Nat.eqb_eq in E; congruence|reflexivity]. }
  split.
  - rewrite !proj_reports_app, !sc_run_reports by (simpl; congruence). cbn [sources].
    rewrite (proj_reports_map_other i j) by exact N.
    rewrite (map_ext _ _ Ei), (map_ext _ _ Eij), !concat_map_single, map_app. reflexivity.
  - rewrite !proj_reports_app, !sc_run_reports by (simpl; congruence). cbn [sources].
    rewrite (proj_reports_map_same j).
    rewrite (map_ext _ _ Ej), (map_ext _ _ Eji), concat_map_nil, !concat_map_single, map_app. reflexivity.
Qed.

Lemma shared_delivers_all_l i j es es' :
  i <> j -> length es <= ring_cap ->
  let os := ScAttach i :: map ScReport es ++ ScAttach j :: map ScReport es' in
  proj_events j (sc_events os) = proj_events i (sc_events os) /\
  proj_events i (sc_events os) = events_of (map RStatus (es ++ es')).
Proof.
  intros N L os. unfold sc_events. rewrite !rep_run_proj. cbn [rget].
  destruct (shared_reports i j es es' N L) as [Hi Hj]. fold os in Hi, Hj.
  rewrite Hi, Hj. split; reflexivity.
Qed.

Lemma auto_ok_l : forall cur,
  (cur = Starting -> fsm_step cur RAutoOK = (OK, Some OK)) /\
  (cur <> Starting -> fsm_step cur RAutoOK = (cur, None)).
Proof.
  intros cur; split.
  - intros ->. vm_compute. reflexivity.
  - intros N. simpl. destruct (status_eqb cur Starting) eqn:E; [apply status_eqb_eq in E; congruence|reflexivity].
Qed.

Lemma reporter_path_l : forall ls i, path SNone (proj_events i (snd (rep_run [] ls))).
Proof. intros ls i. rewrite rep_run_proj. apply fsm_run_path. Qed.

Definition s3_witness_es : list status := [Starting; OK; RecoverableError; OK; RecoverableError; OK].

Lemma shared_refuted_l : exists i j es es',
  i <> j /\
  let os := ScAttach i :: map ScReport es ++ ScAttach j :: map ScReport es' in
  proj_events j (sc_events os) <> proj_events i (sc_events os) /\ proj_events j (sc_events os) = [].
Proof.
  exists 0, 1, s3_witness_es, [RecoverableError; Stopping; Stopped].
  split; [discriminate|]. cbv zeta. split; vm_compute; [discriminate|reflexivity].
Qed.

Lemma illegal_noop_l : forall cur s, diagram cur s = false -> fsm_step cur (RStatus s) = (cur, None).
Proof. intros cur s H. simpl. unfold transition. now rewrite table_is_diagram_l, H. Qed.

(* the automatic OK appended to ANY report history: delivered iff the instance is still in Starting *)
Lemma auto_ok_after_l : forall rs,
  events_of (rs ++ [RAutoOK]) =
  events_of rs ++ (if status_eqb (fst (fsm_run SNone rs)) Starting then [OK] else []).
Proof.
  intros rs. unfold events_of. rewrite fsm_run_app.
  destruct (fsm_run SNone rs) as [c1 e1]. cbn [fst snd fsm_run].
  destruct (status_eqb c1 Starting) eqn:E.
  - apply status_eqb_eq in E. subst c1. vm_compute fsm_step. reflexivity.
  - cbn [fsm_step]. rewrite E. reflexivity.
Qed.

Lemma lifecycle_path_l : forall os i, path SNone (proj_events i (lc_events os)).
Proof. intros os i. apply reporter_path_l. Qed.
