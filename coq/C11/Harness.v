(* C11/Harness.v — comparison functions used by the generated correspondence files
   (work/C11/Cases_k.v): model output vs. the events recorded from the Go implementation. *)
From Verif Require Import Common.Base Generated.StatusTable C11.Model C11.Diagram.

(* wire form: statuses as the Go numeric values; report 8 = ReportOKIfStarting *)
Definition rep_of_Z (z : Z) : option report :=
  if Z.eqb z 8 then Some RAutoOK else option_map RStatus (status_of_Z z).

Fixpoint map_opt {A B} (f : A -> option B) (l : list A) : option (list B) :=
  match l with
  | [] => Some []
  | x :: xs => match f x, map_opt f xs with Some y, Some ys => Some (y :: ys) | _, _ => None end
  end.

Definition evZ (es : list (nat * status)) : list (nat * Z) := map (fun p => (fst p, Z_of_status (snd p))) es.

Definition pairNZ_eqb (a b : nat * Z) : bool := Nat.eqb (fst a) (fst b) && Z.eqb (snd a) (snd b).

(* case kind 1: a reporter script (instance, report) list, observed (instance, status) events *)
Definition check_reporter (c : list (nat * Z) * list (nat * Z)) : bool :=
  let '(ls, obs) := c in
  match map_opt (fun p => option_map (fun r => (fst p, r)) (rep_of_Z (snd p))) ls with
  | Some ls' => list_eqb pairNZ_eqb (evZ (snd (rep_run [] ls'))) obs
  | None => false
  end.

(* case kind 2: shared-component script; op = (0, i) attach instance i | (1, s) report status s *)
Definition scop_of (p : nat * Z) : option sc_op :=
  match fst p with
  | 0 => Some (ScAttach (Z.to_nat (snd p)))
  | _ => option_map ScReport (status_of_Z (snd p))
  end.

Definition repZ (ls : list (nat * report)) : list (nat * Z) :=
  map (fun p => (fst p, match snd p with RStatus s => Z_of_status s | RAutoOK => 8%Z end)) ls.

(* observed = the reports forwarded to the attached hosts (the reporter behind each host is
   covered by case kind 0; sc_events = rep_run after sc_run composes the two) *)
Definition check_shared (c : list (nat * Z) * list (nat * Z)) : bool :=
  let '(os, obs) := c in
  match map_opt scop_of os with
  | Some os' => list_eqb pairNZ_eqb (repZ (sc_run shared0 os')) obs
  | None => false
  end.

(* case kind 2: lifecycle script as observed around graph.StartAll/ShutdownAll (and the extensions'
   twin): (i, 100) Start of node i begins | (i, s<8) node i reports s through its host |
   (i, 101) Start returned nil | (i, 102) Start returned an error | (i, 103) Shutdown begins |
   (i, 104) Shutdown returned nil | (i, 105) Shutdown returned an error *)
Definition lcop_of (p : nat * Z) : option lc_op :=
  let i := fst p in
  if Z.eqb (snd p) 100 then Some (LcStartBegin i) else
  if Z.eqb (snd p) 101 then Some (LcStartOk i) else
  if Z.eqb (snd p) 102 then Some (LcStartErr i) else
  if Z.eqb (snd p) 103 then Some (LcStopBegin i) else
  if Z.eqb (snd p) 104 then Some (LcStopOk i) else
  if Z.eqb (snd p) 105 then Some (LcStopErr i) else
  option_map (LcReport i) (status_of_Z (snd p)).

Definition check_lifecycle (c : list (nat * Z) * list (nat * Z)) : bool :=
  let '(os, obs) := c in
  match map_opt lcop_of os with
  | Some os' => list_eqb pairNZ_eqb (evZ (lc_events os')) obs
  | None => false
  end.

(* case kind 3: concurrently issued reports.  script = prefix ++ [(0, 200)] ++ concurrent; the
   prefix was executed sequentially, the reports after the separator were issued concurrently (one
   goroutine each, all overlapping in real time).  The observed events must be one of the outcomes
   of the atomic model: the sequential run of the prefix followed by SOME ordering of the
   concurrent reports. *)
Fixpoint split_conc (ls : list (nat * Z)) : list (nat * Z) * list (nat * Z) :=
  match ls with
  | [] => ([], [])
  | p :: r => if Z.eqb (snd p) 200 then ([], r) else let '(a, b) := split_conc r in (p :: a, b)
  end.

Definition reps_of (ls : list (nat * Z)) : option (list (nat * report)) :=
  map_opt (fun p => option_map (fun r => (fst p, r)) (rep_of_Z (snd p))) ls.

Definition check_conc (c : list (nat * Z) * list (nat * Z)) : bool :=
  let '(ls, obs) := c in
  let '(pre, conc) := split_conc ls in
  match reps_of pre, reps_of conc with
  | Some pre', Some conc' =>
      existsb (fun out => list_eqb pairNZ_eqb (evZ out) obs) (conc_outcomes pre' conc')
  | _, _ => false
  end.

(* case kind 4: the PROPOSED repair of the shared component (a copy of the patched hostWrapper that lives
   in the harness, see props/C11/NOTES.md); same script and observation encoding as kind 1 *)
Definition check_shared2 (c : list (nat * Z) * list (nat * Z)) : bool :=
  let '(os, obs) := c in
  match map_opt scop_of os with
  | Some os' => list_eqb pairNZ_eqb (repZ (sc2_run shared2_0 os')) obs
  | None => false
  end.

(* case kind 5: Extensions.NotifyComponentStatusChange.  script = [(w, 300) for every watcher extension w, in
   start order] ++ lifecycle script (kind 2); observed = every ComponentStatusChanged call in order,
   (watcher * 100 + source instance, status) *)
Definition tagged (t : Z) (ls : list (nat * Z)) : list nat := map fst (filter (fun p => Z.eqb (snd p) t) ls).

Definition split_watchers (ls : list (nat * Z)) : list nat * list (nat * Z) :=
  (tagged 300 ls, filter (fun p => negb (Z.eqb (snd p) 300 || Z.eqb (snd p) 301 || Z.eqb (snd p) 302)) ls).

Definition delivZ (ds : list (nat * (nat * status))) : list (nat * Z) :=
  map (fun d => (fst d * 100 + fst (snd d), Z_of_status (snd (snd d)))) ds.

Fixpoint nodupb (l : list nat) : bool :=
  match l with [] => true | x :: r => negb (existsb (Nat.eqb x) r) && nodupb r end.
Definition inclb (a b : list nat) : bool := forallb (fun x => existsb (Nat.eqb x) b) a.

(* (c, 301) = service::extensions as configured (duplicates included), (o, 302) = the order extensions.New computed,
   (w, 300) = the watcher extensions in that order.  The order must be a duplicate-free enumeration of the configured
   set (= Model.ext_ids cfg up to the unspecified order among map keys); the watchers are taken from it. *)
Definition order_ok (cfg order ws : list nat) : bool :=
  nodupb order && inclb order (ext_ids cfg) && inclb (ext_ids cfg) order && nodupb ws && inclb ws order.

Definition check_watchers (c : list (nat * Z) * list (nat * Z)) : bool :=
  let '(ls, obs) := c in
  let '(ws, sc) := split_watchers ls in
  match map_opt lcop_of sc with
  | Some os' => order_ok (tagged 301 ls) (tagged 302 ls) ws &&
                list_eqb pairNZ_eqb (delivZ (watcher_deliveries ws (lc_events os'))) obs
  | None => false
  end.

(* case kind 6: reports issued CONCURRENTLY by a shared component.  script = sequential ops (kind-1
   encoding) ++ [(9, 0)] ++ the concurrent reports; observed = every report forwarded to a host, in global
   arrival order.  Each report is fanned out to all attached instances atomically (hostWrapper.lock), so the
   observation must be the model's run for SOME ordering of the concurrent reports. *)
Fixpoint split_at9 (ls : list (nat * Z)) : list (nat * Z) * list (nat * Z) :=
  match ls with
  | [] => ([], [])
  | p :: r => if Nat.eqb (fst p) 9 then ([], r) else let '(a, b) := split_at9 r in (p :: a, b)
  end.

Definition check_shared_conc (c : list (nat * Z) * list (nat * Z)) : bool :=
  let '(ls, obs) := c in
  let '(pre, conc) := split_at9 ls in
  match map_opt scop_of pre, map_opt scop_of conc with
  | Some pre', Some conc' =>
      existsb (fun p => list_eqb pairNZ_eqb (repZ (sc_run shared0 (pre' ++ p))) obs) (perms conc')
  | _, _ => false
  end.

(* case kind 7: instance identities built by Graph.createNodes / createConnector.  script = the create calls in
   the order they were made: (pipeline, kind * 1000 + component) for receiver (1) / processor (2) / exporter (3),
   (exporter pipeline, 4000000 + receiver pipeline * 1000 + component) for a connector; observed = every
   (pipeline named by the node's InstanceID, node key) pair, as a set (the key sits in the Z slot: no big unary nat). *)
Definition instop_of (p : nat * Z) : option inst_op :=
  let z := snd p in
  if Z.leb 4000000 z then
    Some (IConn (fst p) (Z.to_nat (Z.div (z - 4000000) 1000)) (Z.to_nat (Z.modulo z 1000)))
  else match Z.div z 1000 with
       | 1%Z => Some (IRecv (fst p) (Z.to_nat (Z.modulo z 1000)))
       | 2%Z => Some (IProc (fst p) (Z.to_nat (Z.modulo z 1000)))
       | 3%Z => Some (IExp (fst p) (Z.to_nat (Z.modulo z 1000)))
       | _ => None
       end.

Definition pairsZ (l : list (Z * nat)) : list (nat * Z) := map (fun q => (snd q, fst q)) l.   (* (pipeline, node key) *)
Definition incl_b (a b : list (nat * Z)) : bool := forallb (fun x => existsb (pairNZ_eqb x) b) a.

Definition check_instances (c : list (nat * Z) * list (nat * Z)) : bool :=
  let '(ls, obs) := c in
  match map_opt instop_of ls with
  | Some os => let m := pairsZ (inst_pairs (inst_run os)) in incl_b m obs && incl_b obs m
  | None => false
  end.

Definition check_case (c : nat * (list (nat * Z) * list (nat * Z))) : bool :=
  match fst c with
  | 0 => check_reporter (snd c)
  | 1 => check_shared (snd c)
  | 2 => check_lifecycle (snd c)
  | 3 => check_conc (snd c)
  | 4 => check_shared2 (snd c)
  | 5 => check_watchers (snd c)
  | 6 => check_shared_conc (snd c)
  | _ => check_instances (snd c)
  end.

(* ---- decidable checkers of the property's clauses over the OBSERVED behaviour ---------------------------
   They use only the hand-written diagram (C11/Diagram.v), never the model's step functions, so they are an
   oracle that does not trust the model; C11/ProofsPropOk.v proves them equivalent to the Prop-level clauses.
   prop_code = 0: every clause holds on this observation; otherwise the first violated clause:
     1 does not begin with Starting | 2 repeats the current status | 3 leaves PermanentError other than to Stopping
     4 an event follows FatalError / Stopped | 5 Starting again | 6 another edge that is not in the diagram
     7 observation does not decode | 8 instances of one shared component end in different statuses
     9 a pipeline the component is used in is not named by its InstanceID *)
Fixpoint paths_code (m : rstate) (es : list (nat * status)) : nat :=
  match es with
  | [] => 0
  | (i, s) :: r =>
      let a := rget i m in
      if diagram a s then paths_code (rset i s m) r
      else if status_eqb a SNone then 1
      else if status_eqb a s then 2
      else if status_eqb a PermanentError then 3
      else if status_eqb a FatalError || status_eqb a Stopped then 4
      else if status_eqb s Starting then 5
      else 6
  end.

Definition obs_events (obs : list (nat * Z)) : option (list (nat * status)) :=
  map_opt (fun p => option_map (fun s => (fst p, s)) (status_of_Z (snd p))) obs.

(* what the state machines BEHIND the hosts of a shared component accept (diagram acceptor per instance) *)
Fixpoint accept_run (m : rstate) (rs : list (nat * status)) : rstate :=
  match rs with
  | [] => m
  | (i, s) :: r => accept_run (if diagram (rget i m) s then rset i s m else m) r
  end.

Definition shared_code (rs : list (nat * status)) : nat :=
  let m := accept_run [] rs in
  match rs with
  | [] => 0
  | (i0, _) :: _ => if forallb (fun i => status_eqb (rget i m) (rget i0 m)) (map fst rs) then 0 else 8
  end.

Definition inst_code (os : list inst_op) (obs : list (nat * Z)) : nat :=
  if forallb (fun o => forallb (fun p => existsb (pairNZ_eqb (p, ikey o)) obs) (ipipes o)) os then 0 else 9.

Definition prop_code (c : nat * (list (nat * Z) * list (nat * Z))) : nat :=
  let '(ls, obs) := snd c in
  match fst c with
  | 0 | 2 | 3 | 5 => match obs_events obs with Some es => paths_code [] es | None => 7 end
  | 1 | 4 | 6 => match obs_events obs with Some rs => shared_code rs | None => 7 end
  | _ => match map_opt instop_of ls with Some os => inst_code os obs | None => 7 end
  end.

Definition prop_ok (c : nat * (list (nat * Z) * list (nat * Z))) : bool := Nat.eqb (prop_code c) 0.

(* (a, b) pairs on which the table translated from the current source and the documented diagram differ *)
Definition table_diff : list (Z * Z) :=
  flat_map (fun a => flat_map (fun b => if Bool.eqb (allowed a b) (diagram a b) then []
                                        else [(Z_of_status a, Z_of_status b)]) all_status) all_status.

(* model outputs, for replay files *)
Definition model_out (c : nat * (list (nat * Z) * list (nat * Z))) : option (list (nat * Z)) :=
  match fst c with
  | 0 => option_map (fun ls' => evZ (snd (rep_run [] ls')))
           (map_opt (fun p => option_map (fun r => (fst p, r)) (rep_of_Z (snd p))) (fst (snd c)))
  | 1 => option_map (fun os' => repZ (sc_run shared0 os')) (map_opt scop_of (fst (snd c)))
  | 2 => option_map (fun os' => evZ (lc_events os')) (map_opt lcop_of (fst (snd c)))
  | 3 => (* concurrent reports: the outcome of the launch order (the other orderings are legal too) *)
         let '(pre, conc) := split_conc (fst (snd c)) in
         match reps_of pre, reps_of conc with
         | Some pre', Some conc' => Some (evZ (snd (rep_run [] (pre' ++ conc'))))
         | _, _ => None
         end
  | 4 => option_map (fun os' => repZ (sc2_run shared2_0 os')) (map_opt scop_of (fst (snd c)))
  | 5 => let '(ws, sc) := split_watchers (fst (snd c)) in
         option_map (fun os' => delivZ (watcher_deliveries ws (lc_events os'))) (map_opt lcop_of sc)
  | 6 => (* the launch order of the concurrent reports (other orderings are legal too) *)
         let '(pre, conc) := split_at9 (fst (snd c)) in
         match map_opt scop_of pre, map_opt scop_of conc with
         | Some pre', Some conc' => Some (repZ (sc_run shared0 (pre' ++ conc')))
         | _, _ => None
         end
  | _ => option_map (fun os => pairsZ (inst_pairs (inst_run os))) (map_opt instop_of (fst (snd c)))
  end.
