(* C11/ProofsTie.v — obligations that tie the hand-written pieces of Model.v to definitions GENERATED from
   the current Go source on every run (Generated/StatusTable.v by translator T1, Generated/C11Ring.v by a
   run of the current code).  An edit of the Go source changes the generated file and breaks the named
   obligation here, not only a correspondence case. *)
From Verif Require Import Common.Base Generated.StatusTable Generated.C11Ring C11.Model.

(* the ring of the shared component has the length the code allocates *)
Lemma ring_cap_is_code_l : ring_cap = ring_len.
Proof. vm_compute. reflexivity. Qed.

(* the hand-written enumeration [status] is exactly the set of Go constants of type Status, in order *)
Lemma status_enum_is_code_l : map Z_of_status all_status = all_status_consts.
Proof. vm_compute. reflexivity. Qed.

Lemma status_of_Z_roundtrip_l : forall s, status_of_Z (Z_of_status s) = Some s.
Proof. intros s; destruct s; vm_compute; reflexivity. Qed.

(* the translated table has one row per Go constant and mentions only Go constants *)
Lemma table_covers_enum_l :
  map fst fsm_transitions = all_status_consts /\
  forallb (fun row => forallb (fun z => existsb (Z.eqb z) all_status_consts) (snd row)) fsm_transitions = true.
Proof. split; vm_compute; reflexivity. Qed.
