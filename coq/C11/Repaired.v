(* C11/Repaired.v — finding S3, the REPAIRED shared component (work/C11/fix/S3.diff; NOT the code as it is: Model.v
   sc_step stays faithful to the ring of 5).  The repaired behaviour is Model.sc2_step (hostWrapper keeps the last event
   its sources accepted and brings a late source to the current status along Starting, [Stopping,] current); the names
   below are the `_repaired` view of it, and the `_refuted` statement of the faithful model becomes a full theorem. *)
From Verif Require Import Common.Base Generated.StatusTable C11.Model C11.Diagram C11.Proofs C11.ProofsConc C11.ProofsRepair.

Definition sc_step_repaired := sc2_step.
Definition sc_run_repaired := sc2_run.
Definition sc_events_repaired := sc2_events.

Lemma last_app_nonempty {A} (a : A) : forall l1 l2 d, last (l1 ++ a :: l2) d = last (a :: l2) d.
Proof.
  induction l1 as [|x l1 IH]; intros l2 d; [reflexivity|].
  change ((x :: l1) ++ a :: l2) with (x :: (l1 ++ a :: l2)).
  destruct (l1 ++ a :: l2) eqn:E; [destruct l1; discriminate|]. rewrite <- E. cbn [last]. rewrite E. rewrite <- E. apply IH.
Qed.

Lemma last_app_same {A} (l1 l2 t : list A) d : last l1 d = last l2 d -> last (l1 ++ t) d = last (l2 ++ t) d.
Proof.
  intros H. destruct t as [|a t]; [now rewrite !app_nil_r|]. now rewrite !last_app_nonempty.
Qed.

Lemma path_last_not_none : forall es c d, path c es -> es <> [] -> last es d <> SNone.
Proof.
  induction es as [|e es IH]; intros c d P NE; [congruence|].
  simpl in P. destruct P as [D P]. destruct es as [|x r].
  - simpl. destruct c, e; simpl in D; congruence.
  - change (last (e :: x :: r) d) with (last (x :: r) d). eapply IH; [exact P|discriminate].
Qed.

Lemma path_starts : forall es, path SNone es -> es <> [] -> exists r, es = Starting :: r.
Proof.
  intros [|e r] P NE; [congruence|]. simpl in P. destruct P as [D _]. destruct e; try discriminate. eauto.
Qed.

(* shared_delivers_all for the repaired code, unrestricted: whatever was reported before the late attach (any number of
   reports, legal or not) and after it, the late instance j and the first instance i hold the SAME status at the end,
   j's events are a path of the diagram, and they begin with Starting whenever i was delivered anything at all
   (the refuted statement of the faithful model — i has events, j has none — is impossible). *)
Theorem shared_delivers_all_repaired : forall i j es es',
  i <> j ->
  let os := ScAttach i :: map ScReport es ++ ScAttach j :: map ScReport es' in
  last (proj_events j (sc_events_repaired os)) SNone = last (proj_events i (sc_events_repaired os)) SNone /\
  path SNone (proj_events j (sc_events_repaired os)) /\
  (proj_events i (sc_events_repaired os) <> [] -> exists r, proj_events j (sc_events_repaired os) = Starting :: r).
Proof.
  intros i j es es' N os.
  destruct (repaired_delivers_all_l i j es es' N) as (Hi & Hj & P & L). fold os in Hi, Hj.
  unfold sc_events_repaired. set (cur := fst (fsm_run SNone (map RStatus es))) in *.
  assert (Same : last (proj_events j (sc2_events os)) SNone = last (proj_events i (sc2_events os)) SNone).
  { rewrite Hi, Hj. apply last_app_same. rewrite L. unfold events_of, cur. apply fsm_run_last. }
  assert (Pj : path SNone (proj_events j (sc2_events os))) by apply reporter_path_l.
  assert (Pi : path SNone (proj_events i (sc2_events os))) by apply reporter_path_l.
  split; [exact Same|split; [exact Pj|]].
  intros NE. apply path_starts; [exact Pj|].
  intros E. rewrite E in Same. simpl in Same.
  apply (path_last_not_none _ SNone SNone Pi NE). now rewrite <- Same.
Qed.
