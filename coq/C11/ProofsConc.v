(* C11/ProofsConc.v — concurrently issued reports: the orderings enumerated by [perms] are exactly
   the permutations; the current status of an instance is its last delivered event; the automatic
   OK in any linearisation; a check-then-act automatic OK is NOT linearisable. *)
From Coq Require Import Permutation.
From Verif Require Import Common.Base Generated.StatusTable C11.Model C11.Diagram C11.Proofs.

(* ---- perms = all permutations ---- *)
Lemma insert_all_perm {A} (x : A) : forall l l', In l' (insert_all x l) -> Permutation (x :: l) l'.
Proof.
  induction l as [|y r IH]; intros l' H; simpl in H.
  - destruct H as [<-|[]]. apply Permutation_refl.
  - destruct H as [<-|H]; [apply Permutation_refl|].
    apply in_map_iff in H as (l'' & <- & H').
    eapply perm_trans; [apply perm_swap|]. apply perm_skip. apply IH; exact H'.
Qed.

Lemma insert_all_mid {A} (x : A) : forall p1 p2, In (p1 ++ x :: p2) (insert_all x (p1 ++ p2)).
Proof.
  induction p1 as [|a p1 IH]; intros p2; simpl.
  - destruct p2; simpl; auto.
  - right. apply in_map. apply IH.
Qed.

Lemma perms_sound {A} : forall (l p : list A), In p (perms l) -> Permutation l p.
Proof.
  induction l as [|x r IH]; intros p H; simpl in H.
  - destruct H as [<-|[]]. apply perm_nil.
  - apply in_flat_map in H as (q & Hq & Hp).
    eapply perm_trans; [apply perm_skip; apply IH; exact Hq|].
    apply insert_all_perm; exact Hp.
Qed.

Lemma perms_complete {A} : forall (l p : list A), Permutation l p -> In p (perms l).
Proof.
  induction l as [|x r IH]; intros p H.
  - apply Permutation_nil in H. subst p. simpl; auto.
  - assert (I : In x p) by (eapply Permutation_in; [exact H|simpl; auto]).
    apply in_split in I as (p1 & p2 & ->).
    apply Permutation_cons_app_inv in H.
    simpl. apply in_flat_map. exists (p1 ++ p2). split; [apply IH; exact H|apply insert_all_mid].
Qed.

Lemma conc_outcomes_spec_l : forall pre conc out,
  In out (conc_outcomes pre conc) <->
  exists p, Permutation conc p /\ out = snd (rep_run [] (pre ++ p)).
Proof.
  intros pre conc out. unfold conc_outcomes. rewrite in_map_iff. split.
  - intros (p & <- & H). exists p. split; [apply perms_sound; exact H|reflexivity].
  - intros (p & H & ->). exists p. split; [reflexivity|apply perms_complete; exact H].
Qed.

(* ---- the current status of an instance is its last delivered event ---- *)
Lemma last_nonempty_default {A} : forall (es : list A) a d d', last (a :: es) d = last (a :: es) d'.
Proof.
  induction es as [|b es IH]; intros a d d'; [reflexivity|].
  change (last (b :: es) d = last (b :: es) d'). apply IH.
Qed.

Lemma last_cons_default {A} (s : A) : forall es d, last (s :: es) d = last es s.
Proof.
  intros [|a es] d; [reflexivity|].
  change (last (a :: es) d = last (a :: es) s). apply last_nonempty_default.
Qed.

Lemma fsm_run_last : forall rs cur, fst (fsm_run cur rs) = last (snd (fsm_run cur rs)) cur.
Proof.
  induction rs as [|r rs IH]; intros cur; [reflexivity|].
  cbn [fsm_run]. destruct (fsm_step cur r) as [cur' e] eqn:S.
  specialize (IH cur'). destruct (fsm_run cur' rs) as [fin es]. cbn [fst snd] in *.
  destruct e as [s|].
  - apply fsm_step_emits in S as [_ ->]. rewrite last_cons_default. exact IH.
  - apply fsm_step_silent in S as ->. exact IH.
Qed.

Lemma rep_run_state : forall ls m i,
  rget i (fst (rep_run m ls)) = fst (fsm_run (rget i m) (proj_reports i ls)).
Proof.
  induction ls as [|[k r] ls IH]; intros m i; [reflexivity|].
  cbn [rep_run rep_step].
  destruct (fsm_step (rget k m) r) as [cur' e] eqn:S.
  specialize (IH (rset k cur' m) i).
  destruct (rep_run (rset k cur' m) ls) as [fin es]. cbn [fst] in *.
  rewrite proj_reports_cons.
  destruct (Nat.eqb k i) eqn:E.
  - apply Nat.eqb_eq in E; subst k. cbn [fsm_run]. rewrite S.
    rewrite rget_rset_same in IH.
    destruct (fsm_run cur' (proj_reports i ls)) as [f2 e2]. cbn [fst] in *. exact IH.
  - assert (N : k <> i) by (intros ->; rewrite Nat.eqb_refl in E; discriminate).
    rewrite rget_rset_other in IH by exact N. exact IH.
Qed.

Lemma current_is_last_event_l : forall ls i,
  rget i (fst (rep_run [] ls)) = last (proj_events i (snd (rep_run [] ls))) SNone.
Proof.
  intros ls i. rewrite rep_run_state, rep_run_proj. cbn [rget]. apply fsm_run_last.
Qed.

(* ---- the automatic OK after ANY linearised history ---- *)
Lemma auto_ok_linearised_l : forall hist i,
  snd (rep_step (fst (rep_run [] hist)) (i, RAutoOK)) =
  if status_eqb (last (proj_events i (snd (rep_run [] hist))) SNone) Starting then Some (i, OK) else None.
Proof.
  intros hist i. rewrite <- current_is_last_event_l.
  cbn [rep_step]. set (cur := rget i (fst (rep_run [] hist))).
  destruct (auto_ok_l cur) as [Y N].
  destruct (status_eqb cur Starting) eqn:E.
  - apply status_eqb_eq in E. rewrite (Y E). reflexivity.
  - assert (NE : cur <> Starting) by (intros H; apply status_eqb_eq in H; congruence).
    rewrite (N NE). reflexivity.
Qed.

(* ---- a check-then-act automatic OK ---- *)
(* executed without anything in between, the two halves ARE the automatic OK ... *)
Lemma na_atomic_l : forall m seen i,
  na_run m seen [NaCheck i; NaAct i] =
  match snd (rep_step m (i, RAutoOK)) with Some x => [x] | None => [] end.
Proof.
  intros m seen i. cbn [na_run]. rewrite rget_rset_same.
  cbn [rep_step fsm_step].
  destruct (status_eqb (rget i m) Starting); [|reflexivity].
  destruct (transition (rget i m) OK) as [c e]. destruct e; reflexivity.
Qed.

(* ... but with a report of the component between them the outcome is one that NO ordering of
   atomic reports has: Starting, RecoverableError, OK. *)
Lemma na_refuted_l :
  exists pre i s,
    let out := snd (rep_run [] pre) ++
               na_run (fst (rep_run [] pre)) [] [NaCheck i; NaAtomic i (RStatus s); NaAct i] in
    out = [(i, Starting); (i, RecoverableError); (i, OK)] /\
    ~ In out (conc_outcomes pre [(i, RAutoOK); (i, RStatus s)]).
Proof.
  exists [(0, RStatus Starting)], 0, RecoverableError. cbv zeta. split.
  - vm_compute. reflexivity.
  - vm_compute. intros [H|[H|[]]]; discriminate.
Qed.

(* every possible outcome of concurrently issued reports is, per instance, a path of the diagram *)
Lemma conc_path_l : forall pre conc out i,
  In out (conc_outcomes pre conc) -> path SNone (proj_events i out).
Proof.
  intros pre conc out i H. apply conc_outcomes_spec_l in H as (p & _ & ->). apply reporter_path_l.
Qed.
