(* C11/Diagram.v — the DOCUMENTED state diagram, written by hand from docs/component-status.md
   (section "Status" / the state diagram): the specification side of table_is_diagram. *)
From Verif Require Import Common.Base C11.Model.

Definition diagram (a b : status) : bool :=
  match a, b with
  (* lifecycle *)
  | SNone, Starting => true
  | Starting, (OK | RecoverableError | PermanentError | FatalError | Stopping) => true
  (* runtime *)
  | OK, (RecoverableError | PermanentError | FatalError | Stopping) => true
  | RecoverableError, (OK | PermanentError | FatalError | Stopping) => true
  (* PermanentError is permanent at run time: the only way out is shutdown *)
  | PermanentError, Stopping => true
  (* shutdown: errors may still be reported while stopping *)
  | Stopping, (RecoverableError | PermanentError | FatalError | Stopped) => true
  (* FatalError and Stopped are final *)
  | _, _ => false
  end.

(* a sequence of events is a path of the diagram starting from [cur] *)
Fixpoint path (cur : status) (es : list status) : Prop :=
  match es with
  | [] => True
  | e :: es' => diagram cur e = true /\ path e es'
  end.

Fixpoint pathb (cur : status) (es : list status) : bool :=
  match es with
  | [] => true
  | e :: es' => diagram cur e && pathb e es'
  end.
