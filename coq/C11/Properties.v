(* C11/Properties.v — the property theorems, nothing else.  Each is closed by [exact lemma]
   and followed by Print Assumptions (captured into the evidence by the check driver). *)
From Coq Require Import Permutation.
From Verif Require Import Common.Base Generated.StatusTable C11.Model C11.Diagram C11.Proofs C11.ProofsConc C11.ProofsRepair C11.ProofsTie C11.ProofsRound4 C11.ProofsAudit C11.Harness C11.ProofsPropOk C11.ProofsLink C11.Repaired C11.ProofsOrder.
From Verif Require Import Generated.C11Ring.

(* The transition table read from the Go source IS the documented diagram (instance obligation,
   re-checked against the regenerated table on every run). *)
Theorem table_is_diagram : forall a b, allowed a b = diagram a b.
Proof. exact table_is_diagram_l. Qed.

(* For every finite sequence of reports (all eight statuses from service or component, and the
   automatic OK), the events delivered for one instance form a path of the diagram from None. *)
Theorem events_follow_diagram : forall rs, path SNone (events_of rs).
Proof. exact (fun rs => fsm_run_path rs SNone). Qed.

(* ... in the property's words: consecutive delivered events a, b (with None as the virtual
   predecessor of the first) satisfy: a <> b; the first is Starting and Starting never recurs;
   PermanentError is left only to Stopping; nothing follows FatalError or Stopped. *)
Theorem events_in_words : forall rs l1 a b l2,
  SNone :: events_of rs = l1 ++ a :: b :: l2 ->
  a <> b /\ (a = SNone -> b = Starting) /\ (b = Starting -> a = SNone) /\
  (a = PermanentError -> b = Stopping) /\ a <> FatalError /\ a <> Stopped /\ b <> SNone.
Proof.
  exact (fun rs l1 a b l2 E =>
           diagram_facts a b (path_consecutive (events_of rs) SNone l1 a b l2 (fsm_run_path rs SNone) E)).
Qed.

(* A report that would be an illegal transition changes nothing and emits nothing. *)
Theorem illegal_report_is_noop : forall cur s,
  diagram cur s = false -> fsm_step cur (RStatus s) = (cur, None).
Proof. exact illegal_noop_l. Qed.

(* The automatic OK is emitted only if the component is still in Starting. *)
Theorem auto_ok_only_from_starting : forall cur,
  (cur = Starting -> fsm_step cur RAutoOK = (OK, Some OK)) /\
  (cur <> Starting -> fsm_step cur RAutoOK = (cur, None)).
Proof. exact auto_ok_l. Qed.

(* ... and for ANY report history followed by the automatic OK (what StartAll / Extensions.Start do
   after a component's own Start returned nil, whatever the component reported meanwhile): OK is
   delivered exactly when the instance is still in Starting, otherwise nothing is. *)
Theorem auto_ok_after_any_history : forall rs,
  events_of (rs ++ [RAutoOK]) =
  events_of rs ++ (if status_eqb (fst (fsm_run SNone rs)) Starting then [OK] else []).
Proof. exact auto_ok_after_l. Qed.

(* The reports the service issues around component Start/Shutdown (graph.StartAll/ShutdownAll,
   Extensions.Start/Shutdown), interleaved with whatever the components report themselves, for any
   number of instances in any order: every instance still sees a path of the diagram. *)
Theorem lifecycle_events_follow_diagram : forall os i, path SNone (proj_events i (lc_events os)).
Proof. exact lifecycle_path_l. Qed.

(* Any interleaving of reports for any number of instances (each report atomic under the
   reporter's mutex): the events of instance i are the sequential FSM run of i's own reports. *)
Theorem interleaving_irrelevant : forall ls i,
  proj_events i (snd (rep_run [] ls)) = events_of (proj_reports i ls).
Proof. exact (fun ls i => rep_run_proj ls [] i). Qed.

Theorem reporter_events_follow_diagram : forall ls i, path SNone (proj_events i (snd (rep_run [] ls))).
Proof. exact reporter_path_l. Qed.

(* Shared component: every represented instance sees a diagram path, whatever the script. *)
Theorem shared_events_follow_diagram : forall os i, path SNone (proj_events i (sc_events os)).
Proof. exact (fun os i => reporter_path_l (sc_run shared0 os) i). Qed.

(* Shared component delivers its status to a late-attached instance — proved for at most
   [ring_cap] = 5 events reported before the late attach (the code keeps a ring of 5). *)
Theorem shared_delivers_all_partial : forall i j es es',
  i <> j -> length es <= ring_cap ->
  let os := ScAttach i :: map ScReport es ++ ScAttach j :: map ScReport es' in
  proj_events j (sc_events os) = proj_events i (sc_events os) /\
  proj_events i (sc_events os) = events_of (map RStatus (es ++ es')).
Proof. exact shared_delivers_all_l. Qed.

(* The unrestricted statement is FALSE of the faithful model (finding S3): six events before the
   late attach and the late instance never sees Starting, hence reports nothing at all. *)
Theorem shared_delivers_all_refuted : exists i j es es',
  i <> j /\
  let os := ScAttach i :: map ScReport es ++ ScAttach j :: map ScReport es' in
  proj_events j (sc_events os) <> proj_events i (sc_events os) /\ proj_events j (sc_events os) = [].
Proof. exact shared_refuted_l. Qed.

(* ---- reports for the same instance arriving concurrently -------------------------------------------
   Reports issued concurrently (any number, any instances, the automatic OK included) after a
   sequential prefix: the outcomes the model allows (the ones the concurrency harness accepts)
   are exactly the sequential runs over ALL permutations of the concurrent reports, each report
   taking effect atomically. *)
Theorem concurrent_outcomes_are_linearisations : forall pre conc out,
  In out (conc_outcomes pre conc) <->
  exists p, Permutation conc p /\ out = snd (rep_run [] (pre ++ p)).
Proof. exact conc_outcomes_spec_l. Qed.

(* ... every one of them is, for every instance, a path of the diagram. *)
Theorem concurrent_events_follow_diagram : forall pre conc out i,
  In out (conc_outcomes pre conc) -> path SNone (proj_events i out).
Proof. exact conc_path_l. Qed.

(* The status the reporter holds for an instance is always the last event it delivered for it. *)
Theorem current_status_is_last_event : forall ls i,
  rget i (fst (rep_run [] ls)) = last (proj_events i (snd (rep_run [] ls))) SNone.
Proof. exact current_is_last_event_l. Qed.

(* The automatic OK, wherever it falls in the linearisation of reports from any number of
   goroutines (hist = everything that took effect before it, for this and other instances):
   it delivers OK exactly when the LAST event delivered for the instance is Starting — never after
   a status the component reported for itself in the meantime. *)
Theorem auto_ok_in_any_linearisation : forall hist i,
  snd (rep_step (fst (rep_run [] hist)) (i, RAutoOK)) =
  if status_eqb (last (proj_events i (snd (rep_run [] hist))) SNone) Starting then Some (i, OK) else None.
Proof. exact auto_ok_linearised_l. Qed.

(* Why atomicity is an assumption worth validating: an automatic OK done as check-then-act (status
   read in one critical section, OK reported in a second one) coincides with the automatic OK when
   nothing runs between its halves ... *)
Theorem check_then_act_uninterrupted_is_auto_ok : forall m seen i,
  na_run m seen [NaCheck i; NaAct i] =
  match snd (rep_step m (i, RAutoOK)) with Some x => [x] | None => [] end.
Proof. exact na_atomic_l. Qed.

(* ... but is NOT linearisable: with one report of the component between the halves the watchers
   see Starting, RecoverableError, OK, which no ordering of the two atomic reports produces. *)
Theorem check_then_act_auto_ok_refuted :
  exists pre i s,
    let out := snd (rep_run [] pre) ++
               na_run (fst (rep_run [] pre)) [] [NaCheck i; NaAtomic i (RStatus s); NaAct i] in
    out = [(i, Starting); (i, RecoverableError); (i, OK)] /\
    ~ In out (conc_outcomes pre [(i, RAutoOK); (i, RStatus s)]).
Proof. exact na_refuted_l. Qed.

(* ---- status watchers (Extensions.NotifyComponentStatusChange) -----------------------------------------
   Every status-watcher extension (ws = the watcher extensions in start order, without repetition) is
   delivered exactly the events the reporter accepted, in order, whether it has been started or not ... *)
Theorem watcher_sees_every_event : forall ws w evs, NoDup ws -> In w ws ->
  seen_by w (watcher_deliveries ws evs) = evs.
Proof. exact watcher_sees_all_l. Qed.

(* ... hence what ANY watcher sees for ANY instance, for any reports in any interleaving, is a path of the diagram. *)
Theorem watchers_see_diagram_paths : forall ws w ls i, NoDup ws -> In w ws ->
  path SNone (proj_events i (seen_by w (watcher_deliveries ws (snd (rep_run [] ls))))).
Proof. exact watcher_path_l. Qed.

(* ---- the PROPOSED repair of finding S3 (sc2_*: not the code as it is; props/C11/NOTES.md) -----------------
   shared_delivers_all at full strength — NO bound on the reports before the late attach, any reports
   (legal or not) before and after: with cur = the status instance i holds at the moment j attaches,
   i is delivered its events so far and then the events of es' from cur; j is delivered the canonical path
   from None to cur (begins with Starting, ends in cur: both instances now hold the SAME status) and then
   exactly the same events as i. *)
Theorem shared_repaired_delivers_all : forall i j es es',
  i <> j ->
  let os := ScAttach i :: map ScReport es ++ ScAttach j :: map ScReport es' in
  let cur := fst (fsm_run SNone (map RStatus es)) in
  proj_events i (sc2_events os) = events_of (map RStatus es) ++ snd (fsm_run cur (map RStatus es')) /\
  proj_events j (sc2_events os) = canon_path cur ++ snd (fsm_run cur (map RStatus es')) /\
  path SNone (canon_path cur) /\ last (canon_path cur) SNone = cur.
Proof. exact repaired_delivers_all_l. Qed.

(* ---- ties to definitions generated from the current source ------------------------------------------------ *)
Theorem ring_cap_is_code : ring_cap = ring_len.
Proof. exact ring_cap_is_code_l. Qed.

Theorem status_enum_is_code : map Z_of_status all_status = all_status_consts.
Proof. exact status_enum_is_code_l. Qed.

Theorem table_covers_enum :
  map fst fsm_transitions = all_status_consts /\
  forallb (fun row => forallb (fun z => existsb (Z.eqb z) all_status_consts) (snd row)) fsm_transitions = true.
Proof. exact table_covers_enum_l. Qed.

(* ---- round 4 ------------------------------------------------------------------------------------------
   The shared component hands EVERY report to EVERY attached instance, in the order the reports took
   effect (one critical section per report): each attached instance k gets exactly the report list es —
   so the state machines of the instances of one component cannot diverge.  (Reports issued concurrently
   take effect in some order; harness sharedrace validates on the real hostWrapper that the fan-out of one
   report is not interleaved with another's.) *)
Theorem shared_fanout_uniform : forall h es k,
  NoDup (sources h) -> In k (sources h) ->
  proj_reports k (sc_run h (map ScReport es)) = map RStatus es.
Proof. exact shared_fanout_uniform_l. Qed.

(* The InstanceID stored for a node names every pipeline in which the component was configured, whatever
   the order of the create calls (Graph.createReceiver / createProcessor / createExporter / createConnector):
   status watchers attribute events to pipelines through it. *)
Theorem instance_names_every_pipeline : forall os o p,
  In o os -> In p (ipipes o) -> names (inst_run os) (ikey o) p = true.
Proof. exact instance_names_every_pipeline_l. Qed.

(* fsm.transition commits the new status BEFORE it notifies, so a watcher that faults during the delivery
   cannot leave a stale status behind (the model is the same function with or without a fault).  The
   opposite order is refuted: with one faulting delivery the watchers are handed PermanentError twice and
   then RecoverableError after PermanentError. *)
Theorem notify_before_commit_refuted :
  exists rs, ~ path SNone (fsm_run_notify_first SNone rs) /\ path SNone (events_of (map fst rs)).
Proof. exact notify_first_refuted_l. Qed.

(* ---- round 5: clause audit -----------------------------------------------------------------------------------
   "A report that would be an illegal transition changes NOTHING": at the level of the whole reporter and of
   everything that happens afterwards — deleting the illegal report from ANY history (any instances, any
   interleaving) leaves the delivered events unchanged ... *)
Theorem illegal_report_is_invisible : forall ls1 ls2 i s,
  diagram (rget i (fst (rep_run [] ls1))) s = false ->
  snd (rep_run [] (ls1 ++ (i, RStatus s) :: ls2)) = snd (rep_run [] (ls1 ++ ls2)).
Proof. exact illegal_report_invisible_l. Qed.

(* ... and so does an automatic OK that comes when the instance is no longer in Starting. *)
Theorem late_auto_ok_is_invisible : forall ls1 ls2 i,
  rget i (fst (rep_run [] ls1)) <> Starting ->
  snd (rep_run [] (ls1 ++ (i, RAutoOK) :: ls2)) = snd (rep_run [] (ls1 ++ ls2)).
Proof. exact late_auto_ok_invisible_l. Qed.

(* "the automatic OK after a successful start": at the level of StartAll / Extensions.Start scripts, after ANY
   lifecycle history of any number of components, the nil return of Start delivers OK exactly when the last event
   delivered for that instance is Starting. *)
Theorem lifecycle_auto_ok : forall os i,
  lc_events (os ++ [LcStartOk i]) =
  lc_events os ++ (if status_eqb (last (proj_events i (lc_events os)) SNone) Starting then [(i, OK)] else []).
Proof. exact lifecycle_auto_ok_l. Qed.

(* The hypotheses of shared_fanout_uniform hold in every state reached by a script in which every instance attaches
   once (Component.Start is called once per instance): after ANY such script every attached instance is handed
   exactly the reports that follow, in order. *)
Theorem shared_fanout_reachable : forall os es k,
  NoDup (attached os) -> In k (attached os) ->
  sc_run shared0 (os ++ map ScReport es) = sc_run shared0 os ++ sc_run (sc_final shared0 os) (map ScReport es) /\
  proj_reports k (sc_run (sc_final shared0 os) (map ScReport es)) = map RStatus es.
Proof. exact shared_fanout_reachable_l. Qed.

(* ---- round 5: the clause checkers run over the OBSERVED behaviour are the clauses --------------------------- *)
Theorem clause_checker_paths_sound : forall es,
  paths_code [] es = 0 <-> forall i, path SNone (proj_events i es).
Proof. exact paths_ok_sound_l. Qed.

Theorem clause_checker_shared_sound : forall rs,
  shared_code rs = 0 <->
  forall i j, In i (map fst rs) -> In j (map fst rs) -> rget i (accept_run [] rs) = rget j (accept_run [] rs).
Proof. exact shared_code_spec_l. Qed.

Theorem clause_checker_instances_sound : forall os obs,
  inst_code os obs = 0 <-> forall o p, In o os -> In p (ipipes o) -> In (p, ikey o) obs.
Proof. exact inst_code_spec_l. Qed.

(* ---- the clause checker accepts what the MODEL produces (C11/ProofsLink.v) ------------------------------------
   observe = the harness' encoding (evZ / repZ / delivZ / pairsZ) applied to the model's own run.  Guards: exactly
   those of the theorems about the respective model piece; `fst e < 100` is a guard of the ENCODING of kind 5 (the
   harness keys a delivery by watcher * 100 + instance), not of the model. *)
Theorem checker_accepts_reporter_model : forall ls x, prop_code (0, (x, evZ (snd (rep_run [] ls)))) = 0.
Proof. exact link_reporter_l. Qed.

Theorem checker_accepts_lifecycle_model : forall os x, prop_code (2, (x, evZ (lc_events os))) = 0.
Proof. exact link_lifecycle_l. Qed.

Theorem checker_accepts_concurrent_model : forall pre conc out x,
  In out (conc_outcomes pre conc) -> prop_code (3, (x, evZ out)) = 0.
Proof. exact link_concurrent_l. Qed.

Theorem checker_accepts_watcher_model : forall ws ls x,
  NoDup ws -> Forall (fun e => fst e < 100) (snd (rep_run [] ls)) ->
  prop_code (5, (x, delivZ (watcher_deliveries ws (snd (rep_run [] ls))))) = 0.
Proof. exact link_watchers_l. Qed.

Theorem checker_accepts_instances_model : forall os, inst_code os (pairsZ (inst_pairs (inst_run os))) = 0.
Proof. exact link_instances_l. Qed.

(* the shared component: under the guards of shared_delivers_all_partial the faithful model passes ... *)
Theorem checker_accepts_shared_model_partial : forall i j es es' x,
  i <> j -> length es <= ring_cap ->
  let os := ScAttach i :: map ScReport es ++ ScAttach j :: map ScReport es' in
  prop_code (1, (x, repZ (sc_run shared0 os))) = 0 /\ prop_code (6, (x, repZ (sc_run shared0 os))) = 0.
Proof. exact (fun i j es es' x N L => conj (link_shared_l i j es es' x N L) (link_shared_conc_l i j es es' x N L)). Qed.

(* ... for ANY number of instances attaching at any moments, as long as every attach happens while the ring still holds
   the whole history (attach_ok: at most ring_cap reports since the first attach; NoDup: each instance attaches once) ... *)
Theorem checker_accepts_shared_model_general : forall i os x,
  NoDup (i :: attached os) -> attach_ok 0 os ->
  prop_code (1, (x, repZ (sc_run shared0 (ScAttach i :: os)))) = 0 /\
  prop_code (6, (x, repZ (sc_run shared0 (ScAttach i :: os)))) = 0.
Proof. exact link_shared_general_l. Qed.

(* ... without them it does NOT (finding S3: the checker's verdict 8 and shared_delivers_all_refuted are the same fact) ... *)
Theorem checker_rejects_shared_model_refuted : exists os, prop_code (1, ([], repZ (sc_run shared0 os))) = 8.
Proof. exact link_shared_refuted_l. Qed.

(* ... and the REPAIRED model passes without any guard. *)
Theorem checker_accepts_shared_repaired_model : forall i j es es' x,
  i <> j ->
  let os := ScAttach i :: map ScReport es ++ ScAttach j :: map ScReport es' in
  prop_code (4, (x, repZ (sc2_run shared2_0 os))) = 0.
Proof. exact link_shared_repaired_l. Qed.

(* finding S3 repaired (C11/Repaired.v; work/C11/fix/S3.diff): the refuted statement becomes a theorem *)
Theorem shared_delivers_all_repaired_full : forall i j es es',
  i <> j ->
  let os := ScAttach i :: map ScReport es ++ ScAttach j :: map ScReport es' in
  last (proj_events j (sc_events_repaired os)) SNone = last (proj_events i (sc_events_repaired os)) SNone /\
  path SNone (proj_events j (sc_events_repaired os)) /\
  (proj_events i (sc_events_repaired os) <> [] -> exists r, proj_events j (sc_events_repaired os) = Starting :: r).
Proof. exact shared_delivers_all_repaired. Qed.

(* ---- round 7: the notification order built by extensions.New / computeOrder --------------------------------------
   ext_ids cfg = the keys of extMap: every configured extension exactly once, however often service::extensions
   names it; [order] = any enumeration of them (the topological order is one). *)
Theorem extension_order_is_duplicate_free : forall cfg, NoDup (ext_ids cfg) /\ forall x, In x (ext_ids cfg) <-> In x cfg.
Proof. exact (fun cfg => conj (ext_ids_nodup_l cfg) (ext_ids_in_l cfg)). Qed.

(* ... so every watcher extension named in the configuration (once or several times) is handed every accepted event
   EXACTLY ONCE, in order (this removes the NoDup hypothesis of watcher_sees_every_event for the order the code builds) ... *)
Theorem configured_watcher_sees_every_event_once : forall (isw : nat -> bool) cfg order w evs,
  Permutation (ext_ids cfg) order -> In w cfg -> isw w = true ->
  seen_by w (watcher_deliveries (filter isw order) evs) = evs.
Proof. exact configured_watcher_sees_all_l. Qed.

Theorem configured_watchers_see_diagram_paths : forall (isw : nat -> bool) cfg order w ls i,
  Permutation (ext_ids cfg) order -> In w cfg -> isw w = true ->
  path SNone (proj_events i (seen_by w (watcher_deliveries (filter isw order) (snd (rep_run [] ls))))).
Proof. exact configured_watcher_path_l. Qed.

(* ... and the duplicate-freeness is necessary: a watcher occurring twice in the order sees Starting, Starting, OK, OK. *)
Theorem duplicate_in_notification_order_refuted :
  exists ws w evs, In w ws /\ ~ path SNone (proj_events 0 (seen_by w (watcher_deliveries ws evs))) /\ path SNone (proj_events 0 evs).
Proof. exact duplicate_in_order_refuted_l. Qed.

Print Assumptions table_is_diagram.
Print Assumptions events_follow_diagram.
Print Assumptions events_in_words.
Print Assumptions illegal_report_is_noop.
Print Assumptions auto_ok_only_from_starting.
Print Assumptions interleaving_irrelevant.
Print Assumptions reporter_events_follow_diagram.
Print Assumptions shared_events_follow_diagram.
Print Assumptions shared_delivers_all_partial.
Print Assumptions shared_delivers_all_refuted.
Print Assumptions auto_ok_after_any_history.
Print Assumptions lifecycle_events_follow_diagram.
Print Assumptions concurrent_outcomes_are_linearisations.
Print Assumptions concurrent_events_follow_diagram.
Print Assumptions current_status_is_last_event.
Print Assumptions auto_ok_in_any_linearisation.
Print Assumptions check_then_act_uninterrupted_is_auto_ok.
Print Assumptions check_then_act_auto_ok_refuted.
Print Assumptions watcher_sees_every_event.
Print Assumptions watchers_see_diagram_paths.
Print Assumptions shared_repaired_delivers_all.
Print Assumptions ring_cap_is_code.
Print Assumptions status_enum_is_code.
Print Assumptions table_covers_enum.
Print Assumptions shared_fanout_uniform.
Print Assumptions instance_names_every_pipeline.
Print Assumptions notify_before_commit_refuted.
Print Assumptions illegal_report_is_invisible.
Print Assumptions late_auto_ok_is_invisible.
Print Assumptions lifecycle_auto_ok.
Print Assumptions shared_fanout_reachable.
Print Assumptions clause_checker_paths_sound.
Print Assumptions clause_checker_shared_sound.
Print Assumptions clause_checker_instances_sound.
Print Assumptions checker_accepts_reporter_model.
Print Assumptions checker_accepts_lifecycle_model.
Print Assumptions checker_accepts_concurrent_model.
Print Assumptions checker_accepts_watcher_model.
Print Assumptions checker_accepts_instances_model.
Print Assumptions checker_accepts_shared_model_partial.
Print Assumptions checker_rejects_shared_model_refuted.
Print Assumptions checker_accepts_shared_repaired_model.
Print Assumptions shared_delivers_all_repaired_full.
Print Assumptions checker_accepts_shared_model_general.
Print Assumptions extension_order_is_duplicate_free.
Print Assumptions configured_watcher_sees_every_event_once.
Print Assumptions configured_watchers_see_diagram_paths.
Print Assumptions duplicate_in_notification_order_refuted.
