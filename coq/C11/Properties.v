(* C11/Properties.v — the property theorems, nothing else.  Each is closed by [exact lemma]
   and followed by Print Assumptions (captured into the evidence by the check driver). *)
From Verif Require Import Common.Base Generated.StatusTable C11.Model C11.Diagram C11.Proofs.

(* The transition table read from the Go source IS the documented diagram (instance obligation,
   re-checked against the regenerated table on every run). *)
Theorem table_is_diagram : forall a b, allowed a b = diagram a b.
Proof. exact table_is_diagram_l. Qed.

(* For every finite sequence of reports (all eight statuses from service or component, and the
   automatic OK), the events delivered for one instance form a path of the diagram from None. *)
Theorem events_follow_diagram : forall rs, path SNone (events_of rs).
Proof. exact (fun rs => fsm_run_path rs SNone). Qed.

(* ... in the property's words: consecutive delivered events a, b (with None as the virtual
   predecessor of the first) satisfy: a <> b; the first is Starting and Starting never recurs;
   PermanentError is left only to Stopping; nothing follows FatalError or Stopped. *)
Theorem events_in_words : forall rs l1 a b l2,
  SNone :: events_of rs = l1 ++ a :: b :: l2 ->
  a <> b /\ (a = SNone -> b = Starting) /\ (b = Starting -> a = SNone) /\
  (a = PermanentError -> b = Stopping) /\ a <> FatalError /\ a <> Stopped /\ b <> SNone.
Proof.
  exact (fun rs l1 a b l2 E =>
           diagram_facts a b (path_consecutive (events_of rs) SNone l1 a b l2 (fsm_run_path rs SNone) E)).
Qed.

(* A report that would be an illegal transition changes nothing and emits nothing. *)
Theorem illegal_report_is_noop : forall cur s,
  diagram cur s = false -> fsm_step cur (RStatus s) = (cur, None).
Proof. exact illegal_noop_l. Qed.

(* The automatic OK is emitted only if the component is still in Starting. *)
Theorem auto_ok_only_from_starting : forall cur,
  (cur = Starting -> fsm_step cur RAutoOK = (OK, Some OK)) /\
  (cur <> Starting -> fsm_step cur RAutoOK = (cur, None)).
Proof. exact auto_ok_l. Qed.

(* ... and for ANY report history followed by the automatic OK (what StartAll / Extensions.Start do
   after a component's own Start returned nil, whatever the component reported meanwhile): OK is
   delivered exactly when the instance is still in Starting, otherwise nothing is. *)
Theorem auto_ok_after_any_history : forall rs,
  events_of (rs ++ [RAutoOK]) =
  events_of rs ++ (if status_eqb (fst (fsm_run SNone rs)) Starting then [OK] else []).
Proof. exact auto_ok_after_l. Qed.

(* The reports the service issues around component Start/Shutdown (graph.StartAll/ShutdownAll,
   Extensions.Start/Shutdown), interleaved with whatever the components report themselves, for any
   number of instances in any order: every instance still sees a path of the diagram. *)
Theorem lifecycle_events_follow_diagram : forall os i, path SNone (proj_events i (lc_events os)).
Proof. exact lifecycle_path_l. Qed.

(* Any interleaving of reports for any number of instances (each report atomic under the
   reporter's mutex): the events of instance i are the sequential FSM run of i's own reports. *)
Theorem interleaving_irrelevant : forall ls i,
  proj_events i (snd (rep_run [] ls)) = events_of (proj_reports i ls).
Proof. exact (fun ls i => rep_run_proj ls [] i). Qed.

Theorem reporter_events_follow_diagram : forall ls i, path SNone (proj_events i (snd (rep_run [] ls))).
Proof. exact reporter_path_l. Qed.

(* Shared component: every represented instance sees a diagram path, whatever the script. *)
Theorem shared_events_follow_diagram : forall os i, path SNone (proj_events i (sc_events os)).
Proof. exact (fun os i => reporter_path_l (sc_run shared0 os) i). Qed.

(* Shared component delivers its status to a late-attached instance — proved for at most
   [ring_cap] = 5 events reported before the late attach (the code keeps a ring of 5). *)
Theorem shared_delivers_all_partial : forall i j es es',
  i <> j -> length es <= ring_cap ->
  let os := ScAttach i :: map ScReport es ++ ScAttach j :: map ScReport es' in
  proj_events j (sc_events os) = proj_events i (sc_events os) /\
  proj_events i (sc_events os) = events_of (map RStatus (es ++ es')).
Proof. exact shared_delivers_all_l. Qed.

(* The unrestricted statement is FALSE of the faithful model (finding S3): six events before the
   late attach and the late instance never sees Starting, hence reports nothing at all. *)
Theorem shared_delivers_all_refuted : exists i j es es',
  i <> j /\
  let os := ScAttach i :: map ScReport es ++ ScAttach j :: map ScReport es' in
  proj_events j (sc_events os) <> proj_events i (sc_events os) /\ proj_events j (sc_events os) = [].
Proof. exact shared_refuted_l. Qed.

Print Assumptions table_is_diagram.
Print Assumptions events_follow_diagram.
Print Assumptions events_in_words.
Print Assumptions illegal_report_is_noop.
Print Assumptions auto_ok_only_from_starting.
Print Assumptions interleaving_irrelevant.
Print Assumptions reporter_events_follow_diagram.
Print Assumptions shared_events_follow_diagram.
Print Assumptions shared_delivers_all_partial.
Print Assumptions shared_delivers_all_refuted.
Print Assumptions auto_ok_after_any_history.
Print Assumptions lifecycle_events_follow_diagram.
