(* C04/Proofs6.v — logs / traces / profiles, BOTH sizers, every weight function:
   (a) the memoised size is exact after every merge and split (pure algebra of removedSize: no hypothesis);
   (b) every request cut off by split() is within max_size (the reservation arithmetic
       capacity - (DeltaSize capacity - capacity) - header is sound against the nested length prefixes). *)
From Verif Require Import Common.Base C04.Model C04.Proofs C04.Proofs2.
From Coq Require Import Permutation.
Local Open Scope Z_scope.

(* ---------------------------------------------------------------------------------------- *)
(* (a) exact accounting of removedSize                                                        *)
(* ---------------------------------------------------------------------------------------- *)
Section WalkExact.
  Context {A : Type}.
  Variable sz : sizer.
  Variable csize : A -> Z.
  Variable part : option (A -> Z -> A * A * Z).
  Variable keep_ext : A -> bool.
  Hypothesis part_exact : forall ex, part = Some ex -> forall c cap e rest er,
    ex c cap = (e, rest, er) -> csize rest = csize c - er.

  Lemma walk_exact : forall l cap rm d k rm',
    walk sz csize part keep_ext l cap rm = (d, k, rm') ->
    sumZf (fun c => delta sz (csize c)) k = sumZf (fun c => delta sz (csize c)) l - (rm' - rm).
  Proof.
    induction l as [|c l IH]; intros cap rm d k rm' Hw; cbn [walk] in Hw.
    - inversion Hw; subst. cbn [sumZf]. lia.
    - cbn [sumZf]. destruct (cap =? 0).
      + destruct (walk sz csize part keep_ext l cap rm) as [[d0 k0] rm0] eqn:E.
        inversion Hw; subst. pose proof (IH _ _ _ _ _ E). cbn [sumZf]. lia.
      + destruct (delta sz (csize c) >? cap).
        * destruct part as [ex|] eqn:Epart.
          -- destruct (ex c cap) as [[e rest] er] eqn:Eex.
             pose proof (part_exact ex eq_refl c cap e rest er Eex) as Hr.
             destruct (walk sz csize (Some ex) keep_ext l 0 _) as [[d0 k0] rm0] eqn:E.
             inversion Hw; subst. pose proof (IH _ _ _ _ _ E). cbn [sumZf]. rewrite Hr. lia.
          -- destruct (walk sz csize None keep_ext l 0 rm) as [[d0 k0] rm0] eqn:E.
             inversion Hw; subst. pose proof (IH _ _ _ _ _ E). cbn [sumZf]. lia.
        * destruct (walk sz csize part keep_ext l (cap - delta sz (csize c)) _) as [[d0 k0] rm0] eqn:E.
          inversion Hw; subst. pose proof (IH _ _ _ _ _ E). lia.
  Qed.
End WalkExact.

Lemma extract_scope_exact w sz s cap e rest er :
  extract_scope w sz s cap = (e, rest, er) -> scope_size w sz rest = scope_size w sz s - er.
Proof.
  unfold extract_scope. intros H.
  destruct (walk sz (item_size w sz) None (fun _ => true) (sitems s) _ 0) as [[d k] rm] eqn:E.
  inversion H; subst; clear H.
  pose proof (walk_exact sz (item_size w sz) None (fun _ => true) (fun ex Hex => ltac:(discriminate Hex)) _ _ _ _ _ _ E) as Hx.
  unfold scope_size; cbn [shdr sitems]. lia.
Qed.

Lemma extract_res_exact w sz r cap e rest er :
  extract_res w sz r cap = (e, rest, er) -> res_size w sz rest = res_size w sz r - er.
Proof.
  unfold extract_res. intros H.
  destruct (walk sz (scope_size w sz) (Some (extract_scope w sz)) scope_nonempty (rscopes r) _ 0) as [[d k] rm] eqn:E.
  inversion H; subst; clear H.
  assert (Hp : forall ex, Some (extract_scope w sz) = Some ex -> forall c cap0 e0 rest0 er0,
            ex c cap0 = (e0, rest0, er0) -> scope_size w sz rest0 = scope_size w sz c - er0).
  { intros ex Hex; inversion Hex; subst. intros. eapply extract_scope_exact; eauto. }
  pose proof (walk_exact sz (scope_size w sz) (Some (extract_scope w sz)) scope_nonempty Hp _ _ _ _ _ _ E) as Hx.
  unfold res_size; cbn [rhdr rscopes]. lia.
Qed.

(* size of a payload as the sum over its resources (what the bytes sizer computes; for the count sizer the
   same number, written differently) *)
Definition psum (w : item -> Z) (sz : sizer) (p : payload) : Z := sumZf (fun r => delta sz (res_size w sz r)) p.

Lemma extract_payload_exact w sz p cap d k rm :
  extract_payload w sz p cap = (d, k, rm) -> psum w sz k = psum w sz p - rm.
Proof.
  unfold extract_payload. intros E.
  assert (Hp : forall ex, Some (extract_res w sz) = Some ex -> forall c cap0 e0 rest0 er0,
            ex c cap0 = (e0, rest0, er0) -> res_size w sz rest0 = res_size w sz c - er0).
  { intros ex Hex; inversion Hex; subst. intros. eapply extract_res_exact; eauto. }
  pose proof (walk_exact sz (res_size w sz) (Some (extract_res w sz)) res_nonempty Hp _ _ _ _ _ _ E) as Hx.
  unfold psum. lia.
Qed.

Lemma payload_size_psum w sz p : payload_size w sz p = psum w sz p.
Proof.
  destruct sz; [|reflexivity]. unfold payload_size, psum, items_of. cbn [delta].
  induction p as [|r p IH]; [reflexivity|]. cbn [map concat sumZf]. rewrite sumZf_app, IH. f_equal.
  unfold res_size, items_of_res. cbn [hdr delta]. induction (rscopes r) as [|s l IHs]; [reflexivity|].
  cbn [map concat sumZf]. rewrite sumZf_app, IHs. unfold scope_size. cbn [hdr delta item_size].
  change (fun i : item => w i) with w. lia.
Qed.

Lemma psum_app w sz p q : psum w sz (p ++ q) = psum w sz p + psum w sz q.
Proof. apply sumZf_app. Qed.

(* the memo of a request is unknown (-1) or its recomputed size *)
Definition memo_ok (w : item -> Z) (sz : sizer) (r : req) : Prop := rcached r = -1 \/ rcached r = payload_size w sz (rp r).
Definition memo_ok_opt (w : item -> Z) (sz : sizer) (b : option req) : Prop := match b with Some r => memo_ok w sz r | None => True end.

Lemma memo_req_size w sz r : memo_ok w sz r -> req_size w sz r = payload_size w sz (rp r).
Proof.
  unfold memo_ok, req_size. intros [H|H]; rewrite H.
  - reflexivity.
  - destruct (payload_size w sz (rp r) =? -1) eqn:E; [apply Z.eqb_eq in E; lia|reflexivity].
Qed.

Lemma split_loop_memo : forall fuel w sz max p acc out,
  Forall (memo_ok w sz) acc ->
  split_loop fuel w sz max p (psum w sz p) acc = Some out -> Forall (memo_ok w sz) out.
Proof.
  induction fuel as [|f IH]; intros w sz max p acc out Hacc H; cbn [split_loop] in H.
  - destruct (psum w sz p >? max); [discriminate|]. inversion H; subst. apply Forall_app. split; [exact Hacc|].
    constructor; [|constructor]. right. cbn. symmetry. apply payload_size_psum.
  - destruct (psum w sz p >? max).
    + destruct (extract_payload w sz p max) as [[d k] rm] eqn:E.
      pose proof (extract_payload_exact _ _ _ _ _ _ _ E) as Hk. rewrite <- Hk in H.
      destruct (rm <=? 0).
      * destruct (first_weight w (items_of k) =? 0).
        -- inversion H; subst. apply Forall_app. split; [exact Hacc|]. constructor; [|constructor].
           right. cbn. symmetry. apply payload_size_psum.
        -- destruct (extract_payload w Items k (first_weight w (items_of k))) as [[d1 k1] rm1].
           rewrite payload_size_psum in H. eapply IH; [|exact H].
           apply Forall_app. split; [exact Hacc|]. constructor; [|constructor]. left. reflexivity.
      * eapply IH; [|exact H]. apply Forall_app. split; [exact Hacc|]. constructor; [|constructor]. left. reflexivity.
    + inversion H; subst. apply Forall_app. split; [exact Hacc|].
      constructor; [|constructor]. right. cbn. symmetry. apply payload_size_psum.
Qed.

Lemma merged_memo w sz a b : memo_ok w sz a -> memo_ok_opt w sz b -> memo_ok w sz (merged w sz a b).
Proof.
  intros Ha Hb. destruct b as [b|]; [|exact Ha]. simpl in Hb. right. cbn [merged rcached rp].
  rewrite (memo_req_size _ _ _ Ha), (memo_req_size _ _ _ Hb), !payload_size_psum, psum_app. reflexivity.
Qed.

Lemma cached_size_exact_all_l : forall w sz max a b out,
  memo_ok w sz a -> memo_ok_opt w sz b -> merge_split w sz max a b = Some out -> Forall (memo_ok w sz) out.
Proof.
  intros w sz max a b out Ha Hb H. unfold merge_split in H.
  pose proof (merged_memo w sz a b Ha Hb) as Hm.
  destruct (max =? 0).
  - inversion H; subst. constructor; [exact Hm|constructor].
  - rewrite (memo_req_size _ _ _ Hm), payload_size_psum in H. eapply split_loop_memo; [|exact H]. constructor.
Qed.

(* ---------------------------------------------------------------------------------------- *)
(* (b) what split() cuts off fits into max_size                                               *)
(* ---------------------------------------------------------------------------------------- *)
(* the reservation: a child whose own size is at most capacity - (DeltaSize capacity - capacity) occupies at most
   capacity once it is length-prefixed in its parent *)
Lemma delta_reserve sz x cap : 0 <= x -> x <= cap - (delta sz cap - cap) -> delta sz x <= cap.
Proof.
  intros Hx H. destruct sz; cbn [delta] in *; [lia|].
  pose proof (sov_pos0 cap). pose proof (sov_mono x cap Hx ltac:(lia)). lia.
Qed.

Lemma walk_cap0 {A} sz (cs : A -> Z) part keep : forall l rm d k rm',
  walk sz cs part keep l 0 rm = (d, k, rm') -> d = [].
Proof.
  induction l as [|c l IH]; intros rm d k rm' E; cbn [walk] in E.
  - inversion E; reflexivity.
  - change (0 =? 0) with true in E. cbn iota in E.
    destruct (walk sz cs part keep l 0 rm) as [[d0 k0] rm0] eqn:E0. inversion E; subst. eapply IH; eauto.
Qed.

Section WalkCap.
  Context {A : Type}.
  Variable sz : sizer.
  Variable csize : A -> Z.
  Variable part : option (A -> Z -> A * A * Z).
  Variable keep_ext : A -> bool.
  Variable Q : A -> Prop.
  Hypothesis Q_nn : forall c, Q c -> 0 <= delta sz (csize c).
  Hypothesis part_cap : forall ex, part = Some ex -> forall c cap e rest er,
    Q c -> ex c cap = (e, rest, er) -> keep_ext e = true -> 0 <= delta sz (csize e) /\ delta sz (csize e) <= cap.

  Lemma walk_cap : forall l cap rm d k rm',
    Forall Q l -> walk sz csize part keep_ext l cap rm = (d, k, rm') ->
    d = [] \/ (0 <= cap /\ 0 <= sumZf (fun c => delta sz (csize c)) d /\ sumZf (fun c => delta sz (csize c)) d <= cap).
  Proof.
    induction l as [|c l IH]; intros cap rm d k rm' HQ Hw; cbn [walk] in Hw.
    - inversion Hw; subst. now left.
    - inversion HQ as [|? ? Qc Ql]; subst. pose proof (Q_nn c Qc) as Hc.
      destruct (cap =? 0) eqn:E0.
      + apply Z.eqb_eq in E0. subst cap.
        destruct (walk sz csize part keep_ext l 0 rm) as [[d0 k0] rm0] eqn:E.
        inversion Hw; subst. left. eapply walk_cap0; eauto.
      + destruct (delta sz (csize c) >? cap) eqn:Es.
        * destruct part as [ex|] eqn:Epart.
          -- destruct (ex c cap) as [[e rest] er] eqn:Eex.
             destruct (walk sz csize (Some ex) keep_ext l 0 _) as [[d0 k0] rm0] eqn:E.
             inversion Hw; subst. pose proof (walk_cap0 _ _ _ _ _ _ _ _ _ E) as Hd0. subst d0.
             destruct (keep_ext e) eqn:Ek; [|now left].
             destruct (part_cap ex eq_refl c cap e rest er Qc Eex Ek) as [A0 A1].
             right. cbn [app sumZf]. lia.
          -- destruct (walk sz csize None keep_ext l 0 rm) as [[d0 k0] rm0] eqn:E.
             inversion Hw; subst. left. eapply walk_cap0; eauto.
        * rewrite Z.gtb_ltb in Es. apply Z.ltb_ge in Es.
          destruct (walk sz csize part keep_ext l (cap - delta sz (csize c)) _) as [[d0 k0] rm0] eqn:E.
          inversion Hw; subst. right. cbn [sumZf].
          destruct (IH _ _ _ _ _ Ql E) as [->|[B0 [B1 B2]]]; cbn [sumZf]; lia.
  Qed.
End WalkCap.

Lemma item_nn w sz (c : item) : wf_i w sz c -> 0 <= delta sz (item_size w sz c).
Proof. intros [A B]. lia. Qed.
Lemma scope_nn w sz c : wf_s w sz c -> 0 <= delta sz (scope_size w sz c).
Proof. intros H. destruct (wf_s_size _ _ _ H) as [A _]. pose proof (delta_ge sz _ A). lia. Qed.
Lemma res_nn w sz c : wf_r w sz c -> 0 <= delta sz (res_size w sz c).
Proof. intros H. destruct (wf_r_size _ _ _ H) as [A _]. pose proof (delta_ge sz _ A). lia. Qed.

Lemma extract_scope_cap w sz s cap e rest er :
  wf_s w sz s -> extract_scope w sz s cap = (e, rest, er) -> scope_nonempty e = true ->
  0 <= delta sz (scope_size w sz e) /\ delta sz (scope_size w sz e) <= cap.
Proof.
  unfold extract_scope. intros [Hh Hi] H Hne.
  destruct (walk sz (item_size w sz) None (fun _ => true) (sitems s) _ 0) as [[d k] rm] eqn:E.
  inversion H; subst; clear H.
  destruct (walk_cap sz (item_size w sz) None (fun _ => true) (wf_i w sz) (item_nn w sz)
              (fun ex Hex => ltac:(discriminate Hex)) _ _ _ _ _ _ Hi E) as [->|[B0 [B1 B2]]]; [discriminate Hne|].
  unfold inner_cap, scope_size in *. cbn [shdr sitems sumZf] in *.
  set (S := sumZf (fun c => delta sz (item_size w sz c)) d) in *.
  assert (Hx : 0 <= hdr sz (shdr s) + S) by lia.
  pose proof (delta_ge sz _ Hx). split; [lia|]. apply delta_reserve; lia.
Qed.

Lemma extract_res_cap w sz r cap e rest er :
  wf_r w sz r -> extract_res w sz r cap = (e, rest, er) -> res_nonempty e = true ->
  0 <= delta sz (res_size w sz e) /\ delta sz (res_size w sz e) <= cap.
Proof.
  unfold extract_res. intros [Hh Hs] H Hne.
  destruct (walk sz (scope_size w sz) (Some (extract_scope w sz)) scope_nonempty (rscopes r) _ 0) as [[d k] rm] eqn:E.
  inversion H; subst; clear H.
  assert (Hpart : forall ex, Some (extract_scope w sz) = Some ex -> forall c cap0 e0 rest0 er0,
            wf_s w sz c -> ex c cap0 = (e0, rest0, er0) -> scope_nonempty e0 = true ->
            0 <= delta sz (scope_size w sz e0) /\ delta sz (scope_size w sz e0) <= cap0).
  { intros ex Hex; inversion Hex; subst. intros. eapply extract_scope_cap; eauto. }
  destruct (walk_cap sz (scope_size w sz) (Some (extract_scope w sz)) scope_nonempty (wf_s w sz) (scope_nn w sz)
              Hpart _ _ _ _ _ _ Hs E) as [->|[B0 [B1 B2]]]; [discriminate Hne|].
  unfold inner_cap, res_size in *. cbn [rhdr rscopes sumZf] in *.
  set (S := sumZf (fun c => delta sz (scope_size w sz c)) d) in *.
  assert (Hx : 0 <= hdr sz (rhdr r) + S) by lia.
  pose proof (delta_ge sz _ Hx). split; [lia|]. apply delta_reserve; lia.
Qed.

Lemma payload_size_nil w sz : payload_size w sz [] = 0.
Proof. destruct sz; reflexivity. Qed.

Lemma extract_payload_cap w sz p cap d k rm :
  wf_p w sz p -> 0 <= cap -> extract_payload w sz p cap = (d, k, rm) -> payload_size w sz d <= cap.
Proof.
  unfold extract_payload. rewrite payload_size_nil, Z.sub_0_r. intros Hwf Hcap E.
  assert (Hpart : forall ex, Some (extract_res w sz) = Some ex -> forall c cap0 e0 rest0 er0,
            wf_r w sz c -> ex c cap0 = (e0, rest0, er0) -> res_nonempty e0 = true ->
            0 <= delta sz (res_size w sz e0) /\ delta sz (res_size w sz e0) <= cap0).
  { intros ex Hex; inversion Hex; subst. intros. eapply extract_res_cap; eauto. }
  rewrite payload_size_psum. unfold psum.
  destruct (walk_cap sz (res_size w sz) (Some (extract_res w sz)) res_nonempty (wf_r w sz) (res_nn w sz)
              Hpart _ _ _ _ _ _ Hwf E) as [->|[B0 [B1 B2]]]; [cbn; lia|lia].
Qed.

(* a request cut out by the count sizer because nothing fitted: the first item of what was left (with the item-less
   units in front of it) *)
Definition isolated (w : item -> Z) (q : req) : Prop :=
  exists k k1 rm, first_weight w (items_of k) <> 0 /\
    extract_payload w Items k (first_weight w (items_of k)) = (rp q, k1, rm).

(* the last request of a split that stopped: nothing could be removed and no item is left *)
Definition itemless_remainder (w : item -> Z) (sz : sizer) (max : Z) (last : req) : Prop :=
  first_weight w (items_of (rp last)) = 0 /\
  exists p0 d0 rm0, extract_payload w sz p0 max = (d0, rp last, rm0) /\ rm0 <= 0.

Lemma split_loop_bound : forall fuel w sz max p cached acc out,
  wf_p w sz p -> 0 <= max ->
  split_loop fuel w sz max p cached acc = Some out ->
  exists ds last, out = acc ++ ds ++ [last] /\
    Forall (fun q => payload_size w sz (rp q) <= max \/ isolated w q) ds /\
    (rcached last <= max \/ itemless_remainder w sz max last).
Proof.
  induction fuel as [|f IH]; intros w sz max p cached acc out Hwf Hmax H; cbn [split_loop] in H.
  - destruct (cached >? max) eqn:Eg; [discriminate|]. rewrite Z.gtb_ltb in Eg. apply Z.ltb_ge in Eg.
    inversion H; subst. exists [], {| rp := p; rcached := cached |}. cbn. auto.
  - destruct (cached >? max) eqn:Eg.
    + destruct (extract_payload w sz p max) as [[d k] rm] eqn:E.
      destruct (extract_payload_perm _ _ _ _ _ _ _ _ Hwf E) as [_ Hwk].
      pose proof (extract_payload_cap _ _ _ _ _ _ _ Hwf Hmax E) as Hd.
      destruct (rm <=? 0) eqn:Eb.
      * apply Z.leb_le in Eb. destruct (first_weight w (items_of k) =? 0) eqn:En.
        -- apply Z.eqb_eq in En. inversion H; subst. exists [], {| rp := k; rcached := cached - rm |}. cbn [app].
           split; [reflexivity|]. split; [constructor|]. right. split; [exact En|]. exists p, d, rm. cbn [rp]. auto.
        -- apply Z.eqb_neq in En.
           destruct (extract_payload w Items k (first_weight w (items_of k))) as [[d1 k1] rm1] eqn:E1.
           destruct (extract_payload_perm _ _ _ _ _ _ _ _ Hwk E1) as [_ Hwk1].
           destruct (IH _ _ _ _ _ _ _ Hwk1 Hmax H) as [ds [last [Ho [Hf Hl]]]].
           exists ({| rp := d1; rcached := -1 |} :: ds), last. rewrite Ho, <- app_assoc. split; [reflexivity|].
           split; [constructor; [right; exists k, k1, rm1; cbn [rp]; auto|exact Hf]|exact Hl].
      * destruct (IH _ _ _ _ _ _ _ Hwk Hmax H) as [ds [last [Ho [Hf Hl]]]].
        exists ({| rp := d; rcached := -1 |} :: ds), last. rewrite Ho, <- app_assoc. split; [reflexivity|].
        split; [constructor; [left; exact Hd|exact Hf]|exact Hl].
    + rewrite Z.gtb_ltb in Eg. apply Z.ltb_ge in Eg.
      inversion H; subst. exists [], {| rp := p; rcached := cached |}. cbn. auto.
Qed.

Lemma batch_size_bound_all_l : forall w sz max a b out,
  wf_p w sz (rp a) -> wf_opt w sz b -> 1 <= max ->
  merge_split w sz max a b = Some out ->
  exists ds last, out = ds ++ [last] /\
    Forall (fun q => payload_size w sz (rp q) <= max \/ isolated w q) ds /\
    (rcached last <= max \/ itemless_remainder w sz max last).
Proof.
  intros w sz max a b out Ha Hb Hmax H. unfold merge_split in H.
  assert (Hw : wf_p w sz (rp (merged w sz a b))).
  { destruct b; simpl; [|exact Ha]. unfold wf_p. apply Forall_app. split; assumption. }
  destruct (max =? 0) eqn:E0; [apply Z.eqb_eq in E0; lia|].
  assert (H0 : 0 <= max) by lia.
  destruct (split_loop_bound _ _ _ _ _ _ _ _ Hw H0 H) as [ds [last [Ho Hr]]].
  exists ds, last. split; [exact Ho|exact Hr].
Qed.

(* unit weights (logs, traces): a request cut out by the count sizer holds EXACTLY ONE item *)
Lemma first_weight_unit l : first_weight w_unit l <> 0 -> first_weight w_unit l = 1 /\ l <> [].
Proof. destruct l; cbn; [congruence|]. intros _. split; [reflexivity|discriminate]. Qed.

Lemma isolated_unit_one q : isolated w_unit q -> count (rp q) = 1.
Proof.
  intros [k [k1 [rm [Hn E]]]]. destruct (first_weight_unit _ Hn) as [H1 Hne]. rewrite H1 in E.
  assert (H01 : 0 <= 1) by lia.
  destruct (extract_payload_items _ _ _ _ _ H01 E) as [_ [Hd _]].
  rewrite <- T_count, Hd. assert (1 <= T k) by (rewrite T_count; unfold count; destruct (items_of k); [congruence|cbn [length]; lia]). lia.
Qed.

(* metrics, bytes sizer (since 9e189f99b) *)
(* the fragment cut out of a metric now fits where it is put: for every capacity and every list of points *)
Lemma fragment_fits_l : forall m cap e rest er,
  wf_metric Bytes m -> extract_metric Bytes m cap = (e, rest, er) -> mpts e <> [] ->
  delta Bytes (metric_size Bytes e) <= cap.
Proof.
  intros m cap e rest er [H1 [H2 Hp]] H Hne. unfold extract_metric in H. destruct (mkind m =? 0) eqn:Ek.
  - inversion H; subst. cbn in Hne. congruence.
  - destruct (walk Bytes (point_size Bytes) None (fun _ => true) (mpts m) _ 0) as [[d k] rm] eqn:E.
    inversion H; subst; clear H. cbn [mpts] in Hne.
    assert (Qnn : forall c : item, wf_item Bytes c -> 0 <= delta Bytes (point_size Bytes c)) by (intros c [A B]; lia).
    destruct (walk_cap Bytes (point_size Bytes) None (fun _ => true) (wf_item Bytes) Qnn
                (fun ex Hex => ltac:(discriminate Hex)) _ _ _ _ _ _ Hp E) as [->|[B0 [B1 B2]]]; [congruence|].
    unfold metric_size; cbn [mkind mhdr mdhdr mpts]. rewrite Ek.
    set (S := sumZf (fun c => delta Bytes (point_size Bytes c)) d) in *.
    unfold inner_cap, metric_size in B0, B2. cbn [mkind mhdr mdhdr mpts sumZf hdr] in B0, B2. rewrite Ek in B0, B2.
    cbn [hdr delta] in *. replace (0 + 0) with 0 in * by reflexivity. replace (0 + S) with S by lia.
    assert (E0 : sov 0 = 1) by reflexivity. rewrite E0 in *.
    pose proof (sov_pos0 cap) as Pc. pose proof (sov_pos0 S) as Ps.
    assert (HS : S <= cap - 2 - 2 * sov cap) by lia.
    assert (Hle : S <= cap) by lia.
    pose proof (sov_mono S cap B1 Hle) as M1.
    assert (Hy : 0 <= 1 + S + sov S) by lia.
    assert (Hy2 : 1 + S + sov S <= cap) by lia.
    pose proof (sov_mono (1 + S + sov S) cap Hy Hy2) as M2. replace (0 + (1 + S + sov S)) with (1 + S + sov S) by lia. lia.
Qed.

(* ---------------------------------------------------------------------------------------- *)
(* (c) termination of the repaired split loop (logs / traces: unit weights)                   *)
(* ---------------------------------------------------------------------------------------- *)
(* what is left after an extraction is not larger than what was there, measured with ANY sizer *)
Section WalkMono.
  Context {A : Type}.
  Variable sz : sizer.
  Variable csize : A -> Z.
  Variable part : option (A -> Z -> A * A * Z).
  Variable keep_ext : A -> bool.
  Variable g : A -> Z.
  Variable P : A -> Prop.
  Hypothesis part_mono : forall ex, part = Some ex -> forall c cap e rest er,
    P c -> ex c cap = (e, rest, er) -> g rest <= g c /\ P rest.

  Lemma walk_mono : forall l cap rm d k rm',
    Forall P l -> walk sz csize part keep_ext l cap rm = (d, k, rm') ->
    (forall c, P c -> 0 <= g c) -> sumZf g k <= sumZf g l /\ Forall P k.
  Proof.
    induction l as [|c l IH]; intros cap rm d k rm' HP Hw Hnn; cbn [walk] in Hw.
    - inversion Hw; subst. split; [lia|constructor].
    - inversion HP as [|? ? Pc Pl]; subst. pose proof (Hnn c Pc) as Hc. cbn [sumZf].
      destruct (cap =? 0).
      + destruct (walk sz csize part keep_ext l cap rm) as [[d0 k0] rm0] eqn:E.
        inversion Hw; subst. destruct (IH _ _ _ _ _ Pl E Hnn). cbn [sumZf]. split; [lia|constructor; assumption].
      + destruct (delta sz (csize c) >? cap).
        * destruct part as [ex|] eqn:Epart.
          -- destruct (ex c cap) as [[e rest] er] eqn:Eex.
             destruct (part_mono ex eq_refl c cap e rest er Pc Eex) as [Hg Pr].
             destruct (walk sz csize (Some ex) keep_ext l 0 _) as [[d0 k0] rm0] eqn:E.
             inversion Hw; subst. destruct (IH _ _ _ _ _ Pl E Hnn). cbn [sumZf]. split; [lia|constructor; assumption].
          -- destruct (walk sz csize None keep_ext l 0 rm) as [[d0 k0] rm0] eqn:E.
             inversion Hw; subst. destruct (IH _ _ _ _ _ Pl E Hnn). cbn [sumZf]. split; [lia|constructor; assumption].
        * destruct (walk sz csize part keep_ext l (cap - delta sz (csize c)) _) as [[d0 k0] rm0] eqn:E.
          inversion Hw; subst. destruct (IH _ _ _ _ _ Pl E Hnn). split; [lia|assumption].
  Qed.
End WalkMono.

Lemma delta_le sz x y : 0 <= x -> x <= y -> delta sz x <= delta sz y.
Proof. intros Hx Hxy. pose proof (delta_mono sz x y Hx Hxy). lia. Qed.

Lemma extract_scope_mono w sz szx s cap e rest er :
  wf_s w sz s -> extract_scope w szx s cap = (e, rest, er) ->
  delta sz (scope_size w sz rest) <= delta sz (scope_size w sz s) /\ wf_s w sz rest.
Proof.
  unfold extract_scope. intros [Hh Hi] H.
  destruct (walk szx (item_size w szx) None (fun _ => true) (sitems s) _ 0) as [[d k] rm] eqn:E.
  inversion H; subst; clear H.
  destruct (walk_mono szx (item_size w szx) None (fun _ => true) (fun i => delta sz (item_size w sz i)) (wf_i w sz)
              (fun ex Hex => ltac:(discriminate Hex)) _ _ _ _ _ _ Hi E (item_nn w sz)) as [Hm Hk].
  assert (Hwr : wf_s w sz {| sctx := sctx s; shdr := shdr s; sitems := k |}) by (split; assumption).
  split; [|exact Hwr]. destruct (wf_s_size _ _ _ Hwr) as [A _]. apply delta_le; [exact A|].
  unfold scope_size; cbn [shdr sitems]. lia.
Qed.

Lemma extract_res_mono w sz szx r cap e rest er :
  wf_r w sz r -> extract_res w szx r cap = (e, rest, er) ->
  delta sz (res_size w sz rest) <= delta sz (res_size w sz r) /\ wf_r w sz rest.
Proof.
  unfold extract_res. intros [Hh Hs] H.
  destruct (walk szx (scope_size w szx) (Some (extract_scope w szx)) scope_nonempty (rscopes r) _ 0) as [[d k] rm] eqn:E.
  inversion H; subst; clear H.
  assert (Hp : forall ex, Some (extract_scope w szx) = Some ex -> forall c cap0 e0 rest0 er0,
            wf_s w sz c -> ex c cap0 = (e0, rest0, er0) ->
            delta sz (scope_size w sz rest0) <= delta sz (scope_size w sz c) /\ wf_s w sz rest0).
  { intros ex Hex; inversion Hex; subst. intros. eapply extract_scope_mono; eauto. }
  destruct (walk_mono szx (scope_size w szx) (Some (extract_scope w szx)) scope_nonempty (fun c => delta sz (scope_size w sz c)) (wf_s w sz)
              Hp _ _ _ _ _ _ Hs E (scope_nn w sz)) as [Hm Hk].
  assert (Hwr : wf_r w sz {| rctx := rctx r; rhdr := rhdr r; rscopes := k |}) by (split; assumption).
  split; [|exact Hwr]. destruct (wf_r_size _ _ _ Hwr) as [A _]. apply delta_le; [exact A|].
  unfold res_size; cbn [rhdr rscopes]. lia.
Qed.

Lemma extract_payload_mono w sz szx p cap d k rm :
  wf_p w sz p -> extract_payload w szx p cap = (d, k, rm) -> psum w sz k <= psum w sz p.
Proof.
  unfold extract_payload. intros Hwf E.
  assert (Hp : forall ex, Some (extract_res w szx) = Some ex -> forall c cap0 e0 rest0 er0,
            wf_r w sz c -> ex c cap0 = (e0, rest0, er0) ->
            delta sz (res_size w sz rest0) <= delta sz (res_size w sz c) /\ wf_r w sz rest0).
  { intros ex Hex; inversion Hex; subst. intros. eapply extract_res_mono; eauto. }
  exact (proj1 (walk_mono szx (res_size w szx) (Some (extract_res w szx)) res_nonempty (fun c => delta sz (res_size w sz c)) (wf_r w sz)
              Hp _ _ _ _ _ _ Hwf E (res_nn w sz))).
Qed.

Lemma items_split_length w sz szx p cap d k rm :
  wf_p w sz p -> extract_payload w szx p cap = (d, k, rm) ->
  (length (items_of d) + length (items_of k) = length (items_of p))%nat.
Proof.
  intros Hwf E. destruct (extract_payload_perm _ _ _ _ _ _ _ _ Hwf E) as [Hp _].
  apply Permutation_length in Hp. rewrite app_length in Hp. rewrite !items_iflat, !map_length. exact Hp.
Qed.

(* logs / traces: the loop started on an exact memo always returns *)
Lemma split_loop_total_unit : forall fuel sz max p acc,
  wf_p w_unit sz p -> (Z.to_nat (psum w_unit sz p - max) + length (items_of p) < fuel)%nat ->
  exists out, split_loop fuel w_unit sz max p (psum w_unit sz p) acc = Some out.
Proof.
  induction fuel as [|f IH]; intros sz max p acc Hwf Hf; [lia|]. cbn [split_loop].
  destruct (psum w_unit sz p >? max) eqn:Eg; [|eauto]. rewrite Z.gtb_ltb in Eg. apply Z.ltb_lt in Eg.
  destruct (extract_payload w_unit sz p max) as [[d k] rm] eqn:E.
  destruct (extract_payload_perm _ _ _ _ _ _ _ _ Hwf E) as [_ Hwk].
  pose proof (extract_payload_exact _ _ _ _ _ _ _ E) as Hk.
  pose proof (extract_payload_removed _ _ _ _ _ _ _ Hwf E) as Hrm.
  pose proof (items_split_length _ _ _ _ _ _ _ _ Hwf E) as Hlen.
  destruct (rm <=? 0) eqn:Eb.
  - apply Z.leb_le in Eb. assert (rm = 0) by lia. subst rm. rewrite Z.sub_0_r in *.
    destruct (first_weight w_unit (items_of k) =? 0) eqn:En; [eauto|]. apply Z.eqb_neq in En.
    destruct (first_weight_unit _ En) as [H1 Hne]. rewrite H1.
    destruct (extract_payload w_unit Items k 1) as [[d1 k1] rm1] eqn:E1.
    pose proof (extract_payload_mono _ _ _ _ _ _ _ _ Hwk E1) as Hm.
    pose proof (items_split_length _ _ _ _ _ _ _ _ Hwk E1) as Hlen1.
    assert (H01 : 0 <= 1) by lia.
    destruct (extract_payload_items _ _ _ _ _ H01 E1) as [_ [Hd1 _]].
    assert (HT : 1 <= T k) by (rewrite T_count; unfold count; destruct (items_of k); [congruence|cbn [length]; lia]).
    rewrite Z.min_l in Hd1 by lia. rewrite T_count in Hd1. unfold count in Hd1.
    destruct (extract_payload_perm _ _ _ _ _ _ _ _ Hwk E1) as [_ Hwk1].
    rewrite payload_size_psum. apply IH; [exact Hwk1|]. lia.
  - apply Z.leb_gt in Eb. rewrite <- Hk. apply IH; [exact Hwk|]. lia.
Qed.

Lemma merge_split_total_unit sz max a b :
  wf_p w_unit sz (rp a) -> wf_opt w_unit sz b -> memo_ok w_unit sz a -> memo_ok_opt w_unit sz b ->
  exists out, merge_split w_unit sz max a b = Some out.
Proof.
  intros Ha Hb Ma Mb. unfold merge_split. destruct (max =? 0); [eauto|].
  pose proof (merged_memo w_unit sz a b Ma Mb) as Hm.
  assert (Hw : wf_p w_unit sz (rp (merged w_unit sz a b))).
  { destruct b; simpl; [|exact Ha]. unfold wf_p. apply Forall_app. split; assumption. }
  rewrite (memo_req_size _ _ _ Hm), payload_size_psum. apply split_loop_total_unit; [exact Hw|]. unfold fuel_of. lia.
Qed.

(* ---------------------------------------------------------------------------------------- *)
(* (d) the size bound in the property's wording (logs / traces: one item = one record / span) *)
(* ---------------------------------------------------------------------------------------- *)
Lemma split_loop_last_exact : forall fuel w sz max p acc out,
  split_loop fuel w sz max p (psum w sz p) acc = Some out ->
  exists front last, out = front ++ [last] /\ rcached last = payload_size w sz (rp last).
Proof.
  induction fuel as [|f IH]; intros w sz max p acc out H; cbn [split_loop] in H.
  - destruct (psum w sz p >? max); [discriminate|]. inversion H; subst. eexists; eexists. split; [reflexivity|].
    cbn. symmetry. apply payload_size_psum.
  - destruct (psum w sz p >? max).
    + destruct (extract_payload w sz p max) as [[d k] rm] eqn:E.
      pose proof (extract_payload_exact _ _ _ _ _ _ _ E) as Hk. rewrite <- Hk in H.
      destruct (rm <=? 0).
      * destruct (first_weight w (items_of k) =? 0).
        -- inversion H; subst. eexists; eexists. split; [reflexivity|]. cbn. symmetry. apply payload_size_psum.
        -- destruct (extract_payload w Items k (first_weight w (items_of k))) as [[d1 k1] rm1].
           rewrite payload_size_psum in H. eapply IH; exact H.
      * eapply IH; exact H.
    + inversion H; subst. eexists; eexists. split; [reflexivity|]. cbn. symmetry. apply payload_size_psum.
Qed.

(* every request that MergeSplit returns is within max_size (true, recomputed size in the active unit) or holds
   exactly ONE record / span (the unit that does not fit alone, isolated by ffc8e5fcc); only the LAST request may
   also be above max_size while holding NO item: item-less containers (resources / scopes without records) that do
   not fit — there is nothing the split could isolate *)
Lemma batch_size_bound_unit_l : forall sz max a b out,
  wf_p w_unit sz (rp a) -> wf_opt w_unit sz b -> memo_ok w_unit sz a -> memo_ok_opt w_unit sz b -> 1 <= max ->
  merge_split w_unit sz max a b = Some out ->
  exists ds last, out = ds ++ [last] /\
    Forall (fun q => payload_size w_unit sz (rp q) <= max \/ count (rp q) = 1) ds /\
    (payload_size w_unit sz (rp last) <= max \/ (count (rp last) = 0 /\ itemless_remainder w_unit sz max last)).
Proof.
  intros sz max a b out Ha Hb Ma Mb Hmax H.
  destruct (batch_size_bound_all_l _ _ _ _ _ _ Ha Hb Hmax H) as [ds [last [Ho [Hds Hl]]]].
  exists ds, last. split; [exact Ho|]. split.
  - eapply Forall_impl; [|exact Hds]. intros q [Hq|Hq]; [now left|right; now apply isolated_unit_one].
  - destruct Hl as [Hl|Hl].
    + left. unfold merge_split in H. destruct (max =? 0) eqn:E0; [apply Z.eqb_eq in E0; lia|].
      pose proof (merged_memo w_unit sz a b Ma Mb) as Hm.
      rewrite (memo_req_size _ _ _ Hm), payload_size_psum in H.
      destruct (split_loop_last_exact _ _ _ _ _ _ _ H) as [front [last' [Ho' Hex]]].
      rewrite Ho in Ho'. apply app_inj_tail in Ho'. destruct Ho' as [_ <-]. lia.
    + right. split; [|exact Hl]. destruct Hl as [Hz _]. unfold count.
      destruct (items_of (rp last)); [reflexivity|cbn in Hz; discriminate].
Qed.
