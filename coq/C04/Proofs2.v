(* C04/Proofs2.v — the items sizer: exact accounting of the RemoveIf walk, hence termination, size bound,
   all-but-last-full and exact cached size of split (logs / traces, and metrics). *)
From Verif Require Import Common.Base C04.Model C04.Proofs.
Local Open Scope Z_scope.

Lemma sumZf_app {A} (f : A -> Z) l1 l2 : sumZf f (l1 ++ l2) = sumZf f l1 + sumZf f l2.
Proof. induction l1 as [|x l IH]; simpl; lia. Qed.

Lemma sumZf_ones {A} (l : list A) : sumZf (fun _ => 1) l = Z.of_nat (length l).
Proof. induction l as [|x l IH]; [reflexivity|]. cbn [sumZf length]. rewrite IH. lia. Qed.

Lemma sumZf_ext {A} (f g : A -> Z) l : (forall x, f x = g x) -> sumZf f l = sumZf g l.
Proof. intros H. induction l as [|x l IH]; simpl; [reflexivity|now rewrite H, IH]. Qed.

Lemma sumZf_concat {A B} (f : B -> Z) (g : A -> list B) (l : list A) :
  sumZf f (concat (map g l)) = sumZf (fun a => sumZf f (g a)) l.
Proof. induction l as [|x l IH]; simpl; [reflexivity|]. now rewrite sumZf_app, IH. Qed.

Section WalkItems.
  Context {A : Type}.
  Variable csize : A -> Z.
  Variable part : option (A -> Z -> A * A * Z).
  Variable keep_ext : A -> bool.
  Hypothesis cs_nonneg : forall c, 0 <= csize c.
  Hypothesis part_spec :
    match part with
    | None => forall c, csize c = 1
    | Some ex => forall c cap, 0 < cap -> cap < csize c ->
        exists e rest, ex c cap = (e, rest, cap) /\ csize e = cap /\ csize rest = csize c - cap /\ keep_ext e = true
    end.

  Lemma tot_nonneg l : 0 <= sumZf csize l.
  Proof. apply sumZf_nonneg. intros; apply cs_nonneg. Qed.

  Lemma walk_items : forall l cap rm d k rm', 0 <= cap ->
    walk Items csize part keep_ext l cap rm = (d, k, rm') ->
    rm' = rm + Z.min cap (sumZf csize l) /\ sumZf csize d = Z.min cap (sumZf csize l) /\
    sumZf csize k = sumZf csize l - Z.min cap (sumZf csize l).
  Proof.
    induction l as [|c l IH]; intros cap rm d k rm' Hcap Hw; cbn [walk] in Hw.
    - inversion Hw; subst. cbn [sumZf]. lia.
    - pose proof (tot_nonneg l) as Hl. pose proof (cs_nonneg c) as Hc. cbn [sumZf].
      destruct (cap =? 0) eqn:E0.
      + apply Z.eqb_eq in E0. subst cap.
        destruct (walk Items csize part keep_ext l 0 rm) as [[d0 k0] rm0] eqn:E.
        inversion Hw; subst. destruct (IH _ _ _ _ _ (Z.le_refl 0) E) as [H1 [H2 H3]]. cbn [sumZf]. lia.
      + apply Z.eqb_neq in E0. cbn [delta] in Hw.
        destruct (csize c >? cap) eqn:Es.
        * rewrite Z.gtb_ltb in Es. apply Z.ltb_lt in Es.
          destruct part as [ex|] eqn:Epart.
          -- destruct (part_spec c cap ltac:(lia) Es) as [e [rest [Hex [He [Hrest Hkeep]]]]].
             rewrite Hex in Hw.
             destruct (walk Items csize (Some ex) keep_ext l 0 _) as [[d0 k0] rm0] eqn:E.
             inversion Hw; subst. destruct (IH _ _ _ _ _ (Z.le_refl 0) E) as [H1 [H2 H3]].
             rewrite Hkeep. cbn [app sumZf]. lia.
          -- rewrite part_spec in Es. lia.
        * rewrite Z.gtb_ltb in Es. apply Z.ltb_ge in Es.
          destruct (walk Items csize part keep_ext l (cap - csize c) (rm + csize c)) as [[d0 k0] rm0] eqn:E.
          inversion Hw; subst. assert (Hc' : 0 <= cap - csize c) by lia. destruct (IH _ _ _ _ _ Hc' E) as [H1 [H2 H3]]. cbn [sumZf]. lia.
  Qed.
End WalkItems.

(* ---------------------------------------------------------------------------------------- *)
(* logs / traces                                                                             *)
(* ---------------------------------------------------------------------------------------- *)
Definition count (p : payload) : Z := Z.of_nat (length (items_of p)).
Definition T (p : payload) : Z := sumZf (res_size w_unit Items) p.

Lemma scope_size_items s : scope_size w_unit Items s = Z.of_nat (length (sitems s)).
Proof. unfold scope_size. cbn [hdr delta item_size w_unit]. rewrite sumZf_ones. lia. Qed.

Lemma res_size_items r : res_size w_unit Items r = Z.of_nat (length (items_of_res r)).
Proof.
  unfold res_size, items_of_res. cbn [hdr delta]. induction (rscopes r) as [|s l IH]; [reflexivity|].
  cbn [sumZf map concat]. rewrite app_length, Nat2Z.inj_add, scope_size_items. lia.
Qed.

Lemma T_count p : T p = count p.
Proof.
  unfold T, count, items_of. induction p as [|r p IH]; [reflexivity|].
  cbn [sumZf map concat]. rewrite app_length, Nat2Z.inj_add, res_size_items. lia.
Qed.

Lemma T_app p q : T (p ++ q) = T p + T q.
Proof. apply sumZf_app. Qed.

Lemma inner_cap_items cap h : inner_cap Items cap h = cap - h.
Proof. unfold inner_cap. cbn [delta]. lia. Qed.

Lemma item_size_items_nonneg (i : item) : 0 <= item_size w_unit Items i.
Proof. unfold item_size, w_unit. lia. Qed.

Lemma extract_scope_items s cap : 0 < cap -> cap < scope_size w_unit Items s ->
  exists e rest, extract_scope w_unit Items s cap = (e, rest, cap) /\ scope_size w_unit Items e = cap /\
                 scope_size w_unit Items rest = scope_size w_unit Items s - cap /\ scope_nonempty e = true.
Proof.
  intros H0 H1. unfold extract_scope. rewrite inner_cap_items.
  assert (Hh : scope_size w_unit Items {| sctx := sctx s; shdr := shdr s; sitems := [] |} = 0) by reflexivity.
  rewrite Hh, Z.sub_0_r.
  destruct (walk Items (item_size w_unit Items) None (fun _ => true) (sitems s) cap 0) as [[d k] rm] eqn:E.
  destruct (walk_items (item_size w_unit Items) None (fun _ => true) item_size_items_nonneg (fun _ => eq_refl)
              _ _ _ _ _ _ (Z.lt_le_incl _ _ H0) E) as [Hrm [Hd Hk]].
  assert (Hs : scope_size w_unit Items s = sumZf (item_size w_unit Items) (sitems s)).
  { reflexivity. }
  rewrite Hs in H1. rewrite Z.min_l in * by lia.
  eexists; eexists. split; [rewrite Hrm; reflexivity|].
  unfold scope_size at 1 2. cbn [hdr delta sitems]. rewrite Hs.
  change (fun i : item => item_size w_unit Items i) with (item_size w_unit Items).
  split; [lia|]. split; [lia|].
  unfold scope_nonempty; cbn [sitems]. destruct d; [cbn in Hd; lia|reflexivity].
Qed.

Lemma scope_size_items_nonneg s : 0 <= scope_size w_unit Items s.
Proof. rewrite scope_size_items. lia. Qed.

Lemma res_size_items_nonneg r : 0 <= res_size w_unit Items r.
Proof. rewrite res_size_items. lia. Qed.

Lemma extract_res_items r cap : 0 < cap -> cap < res_size w_unit Items r ->
  exists e rest, extract_res w_unit Items r cap = (e, rest, cap) /\ res_size w_unit Items e = cap /\
                 res_size w_unit Items rest = res_size w_unit Items r - cap /\ res_nonempty e = true.
Proof.
  intros H0 H1. unfold extract_res. rewrite inner_cap_items.
  assert (Hh : res_size w_unit Items {| rctx := rctx r; rhdr := rhdr r; rscopes := [] |} = 0) by reflexivity.
  rewrite Hh, Z.sub_0_r.
  destruct (walk Items (scope_size w_unit Items) (Some (extract_scope w_unit Items)) scope_nonempty (rscopes r) cap 0) as [[d k] rm] eqn:E.
  destruct (walk_items (scope_size w_unit Items) (Some (extract_scope w_unit Items)) scope_nonempty scope_size_items_nonneg extract_scope_items
              _ _ _ _ _ _ (Z.lt_le_incl _ _ H0) E) as [Hrm [Hd Hk]].
  assert (Hs : res_size w_unit Items r = sumZf (scope_size w_unit Items) (rscopes r)).
  { reflexivity. }
  rewrite Hs in H1. rewrite Z.min_l in * by lia.
  eexists; eexists. split; [rewrite Hrm; reflexivity|].
  unfold res_size at 1 2. cbn [hdr delta rscopes]. rewrite Hs.
  change (fun s : scope => scope_size w_unit Items s) with (scope_size w_unit Items).
  split; [lia|]. split; [lia|].
  unfold res_nonempty; cbn [rscopes]. destruct d; [cbn in Hd; lia|reflexivity].
Qed.

Lemma extract_payload_items p cap d k rm : 0 <= cap ->
  extract_payload w_unit Items p cap = (d, k, rm) ->
  rm = Z.min cap (T p) /\ T d = Z.min cap (T p) /\ T k = T p - Z.min cap (T p).
Proof.
  intros H0 E. unfold extract_payload in E. change (payload_size w_unit Items []) with 0 in E. rewrite Z.sub_0_r in E.
  destruct (walk_items (res_size w_unit Items) (Some (extract_res w_unit Items)) res_nonempty res_size_items_nonneg extract_res_items
              _ _ _ _ _ _ H0 E) as [Hrm [Hd Hk]].
  unfold T. lia.
Qed.

Lemma T_nonneg p : 0 <= T p.
Proof. rewrite T_count. unfold count. lia. Qed.

(* the shape of what split returns under the items sizer *)
Definition full_batch (max : Z) (r : req) : Prop := count (rp r) = max /\ rcached r = -1.

Lemma split_loop_items : forall fuel max p acc, 1 <= max -> T p - max < Z.of_nat fuel ->
  exists ds last, split_loop fuel w_unit Items max p (T p) acc = Some (acc ++ ds ++ [last]) /\
                  Forall (full_batch max) ds /\ count (rp last) <= max /\ rcached last = count (rp last).
Proof.
  induction fuel as [|f IH]; intros max p acc Hmax Hf; cbn [split_loop]; destruct (T p >? max) eqn:Eg;
    rewrite Z.gtb_ltb in Eg;
    try (apply Z.ltb_ge in Eg; exists [], {| rp := p; rcached := T p |}; cbn [app rp rcached]; rewrite <- T_count; auto).
  - apply Z.ltb_lt in Eg. lia.
  - apply Z.ltb_lt in Eg.
    destruct (extract_payload w_unit Items p max) as [[d k] rm] eqn:E.
    assert (H0m : 0 <= max) by lia.
    destruct (extract_payload_items _ _ _ _ _ H0m E) as [Hrm [Hd Hk]].
    rewrite Z.min_l in * by lia. subst rm. rewrite <- Hk.
    assert (Eb : (max <=? 0) = false) by (apply Z.leb_gt; lia). rewrite Eb.
    assert (Hfk : T k - max < Z.of_nat f) by lia.
    destruct (IH max k (acc ++ [{| rp := d; rcached := -1 |}]) Hmax Hfk) as [ds [last [Hs [Hfull [Hl Hc]]]]].
    exists ({| rp := d; rcached := -1 |} :: ds), last. rewrite Hs, <- app_assoc. split; [reflexivity|].
    split; [|auto]. constructor; [|exact Hfull]. split; [cbn; rewrite <- T_count; exact Hd|reflexivity].
Qed.

(* a request whose size, as the items sizer sees it (memo or recomputed), is its number of items *)
Definition size_ok (r : req) : Prop := req_size w_unit Items r = count (rp r).
Definition size_ok_opt (b : option req) : Prop := match b with Some r => size_ok r | None => True end.

Lemma count_app p q : count (p ++ q) = count p + count q.
Proof. rewrite <- !T_count. apply T_app. Qed.

Lemma merged_size_ok a b : size_ok a -> size_ok_opt b -> size_ok (merged w_unit Items a b).
Proof.
  intros Ha Hb. destruct b as [b|]; [|exact Ha]. unfold size_ok, merged in *. cbn [rp rcached req_size] in *.
  simpl in Hb. rewrite count_app.
  assert (0 <= count (rp a)) by (unfold count; lia). assert (0 <= count (rp b)) by (unfold count; lia).
  unfold req_size at 1. cbn [rcached]. rewrite Ha, Hb.
  destruct (count (rp a) + count (rp b) =? -1) eqn:E; [apply Z.eqb_eq in E; lia|reflexivity].
Qed.

Lemma lt_fuel c max n : c - max < Z.of_nat (fuel_of c max n).
Proof. unfold fuel_of. lia. Qed.

Lemma merge_split_items_l : forall max a b, 1 <= max -> size_ok a -> size_ok_opt b ->
  exists ds last, merge_split w_unit Items max a b = Some (ds ++ [last]) /\
                  Forall (full_batch max) ds /\ count (rp last) <= max /\ rcached last = count (rp last).
Proof.
  intros max a b Hmax Ha Hb. unfold merge_split.
  pose proof (merged_size_ok a b Ha Hb) as Hm. unfold size_ok in Hm.
  destruct (max =? 0) eqn:E0; [apply Z.eqb_eq in E0; lia|].
  rewrite Hm, <- T_count.
  destruct (split_loop_items (fuel_of (T (rp (merged w_unit Items a b))) max (length (items_of (rp (merged w_unit Items a b))))) max (rp (merged w_unit Items a b)) [] Hmax) as [ds [last H]].
  { apply lt_fuel. }
  exists ds, last. exact H.
Qed.

(* a request whose memo is unknown satisfies size_ok (LogRecordCount / SpanCount is the number of items) *)
Lemma fresh_size_ok p : size_ok {| rp := p; rcached := -1 |}.
Proof.
  unfold size_ok, req_size. cbn [rcached rp]. change (-1 =? -1) with true. cbn [payload_size].
  unfold count. induction (items_of p) as [|i l IH]; [reflexivity|]. cbn [sumZf length]. rewrite IH. unfold w_unit. lia.
Qed.

(* metrics                                                                                   *)
(* ---------------------------------------------------------------------------------------- *)
Definition mcount (p : mpayload) : Z := Z.of_nat (length (mpoints_of p)).
Definition MT (p : mpayload) : Z := sumZf (mres_size Items) p.

Lemma point_size_items_nonneg (i : item) : 0 <= point_size Items i.
Proof. cbn. lia. Qed.

Lemma metric_size_items m : metric_size Items m = Z.of_nat (length (mpoints_of_metric m)).
Proof.
  unfold metric_size, mpoints_of_metric. destruct (mkind m =? 0); [reflexivity|].
  cbn [hdr delta point_size]. rewrite sumZf_ones. lia.
Qed.

Lemma mscope_size_items s : mscope_size Items s = Z.of_nat (length (concat (map mpoints_of_metric (msmetrics s)))).
Proof.
  unfold mscope_size. cbn [hdr delta]. induction (msmetrics s) as [|m l IH]; [reflexivity|].
  cbn [sumZf map concat]. rewrite app_length, Nat2Z.inj_add, metric_size_items. lia.
Qed.

Lemma mres_size_items r : mres_size Items r = Z.of_nat (length (mpoints_of_res r)).
Proof.
  unfold mres_size, mpoints_of_res. cbn [hdr delta]. induction (mrscopes r) as [|s l IH]; [reflexivity|].
  cbn [sumZf map concat]. rewrite app_length, Nat2Z.inj_add, mscope_size_items. lia.
Qed.

Lemma MT_count p : MT p = mcount p.
Proof.
  unfold MT, mcount, mpoints_of. induction p as [|r p IH]; [reflexivity|].
  cbn [sumZf map concat]. rewrite app_length, Nat2Z.inj_add, mres_size_items. lia.
Qed.

Lemma metric_size_items_nonneg m : 0 <= metric_size Items m.
Proof. rewrite metric_size_items. lia. Qed.
Lemma mscope_size_items_nonneg s : 0 <= mscope_size Items s.
Proof. rewrite mscope_size_items. lia. Qed.
Lemma mres_size_items_nonneg r : 0 <= mres_size Items r.
Proof. rewrite mres_size_items. lia. Qed.

Lemma extract_metric_items m cap : 0 < cap -> cap < metric_size Items m ->
  exists e rest, extract_metric Items m cap = (e, rest, cap) /\ metric_size Items e = cap /\
                 metric_size Items rest = metric_size Items m - cap /\ metric_keep Items e = true.
Proof.
  intros H0 H1. unfold extract_metric. unfold metric_size in H1. destruct (mkind m =? 0) eqn:Ek.
  - cbn [hdr] in H1. lia.
  - rewrite inner_cap_items.
    assert (Hh : metric_size Items {| mid := 0; mkind := mkind m; mhdr := 0; mdhdr := 0; mpts := [] |} = 0).
    { unfold metric_size; cbn [mkind]. rewrite Ek. reflexivity. }
    rewrite Hh, Z.sub_0_r. cbn [delta]. replace (cap - (cap - cap - 0)) with cap by lia.
    destruct (walk Items (point_size Items) None (fun _ => true) (mpts m) cap 0) as [[d k] rm] eqn:E.
    destruct (walk_items (point_size Items) None (fun _ => true) point_size_items_nonneg (fun _ => eq_refl)
                _ _ _ _ _ _ (Z.lt_le_incl _ _ H0) E) as [Hrm [Hd Hk]].
    assert (Hs : hdr Items (mhdr m) + delta Items (hdr Items (mdhdr m) + sumZf (fun i => delta Items (point_size Items i)) (mpts m))
                 = sumZf (point_size Items) (mpts m)) by reflexivity.
    rewrite Hs in H1. rewrite Z.min_l in * by lia.
    eexists; eexists. split; [rewrite Hrm; reflexivity|].
    unfold metric_keep, metric_size. cbn [mkind mhdr mdhdr mpts]. rewrite Ek.
    change (hdr Items 0 + delta Items (hdr Items 0 + sumZf (fun i => delta Items (point_size Items i)) d)) with (sumZf (point_size Items) d).
    change (hdr Items (mhdr m) + delta Items (hdr Items (mdhdr m) + sumZf (fun i => delta Items (point_size Items i)) k)) with (sumZf (point_size Items) k).
    rewrite Hs. split; [lia|]. split; [lia|]. apply Z.gtb_lt. lia.
Qed.

Lemma extract_mscope_items s cap : 0 < cap -> cap < mscope_size Items s ->
  exists e rest, extract_mscope Items s cap = (e, rest, cap) /\ mscope_size Items e = cap /\
                 mscope_size Items rest = mscope_size Items s - cap /\ mscope_nonempty e = true.
Proof.
  intros H0 H1. unfold extract_mscope. rewrite inner_cap_items.
  assert (Hh : mscope_size Items {| msctx := msctx s; mshdr := mshdr s; msmetrics := [] |} = 0) by reflexivity.
  rewrite Hh, Z.sub_0_r.
  destruct (walk Items (metric_size Items) (Some (extract_metric Items)) (metric_keep Items) (msmetrics s) cap 0) as [[d k] rm] eqn:E.
  destruct (walk_items (metric_size Items) (Some (extract_metric Items)) (metric_keep Items) metric_size_items_nonneg extract_metric_items
              _ _ _ _ _ _ (Z.lt_le_incl _ _ H0) E) as [Hrm [Hd Hk]].
  assert (Hs : mscope_size Items s = sumZf (metric_size Items) (msmetrics s)) by reflexivity.
  rewrite Hs in H1. rewrite Z.min_l in * by lia.
  eexists; eexists. split; [rewrite Hrm; reflexivity|].
  unfold mscope_size at 1 2. cbn [hdr delta msmetrics]. rewrite Hs.
  change (fun m : metric => metric_size Items m) with (metric_size Items).
  split; [lia|]. split; [lia|].
  unfold mscope_nonempty; cbn [msmetrics]. destruct d; [cbn in Hd; lia|reflexivity].
Qed.

Lemma extract_mres_items r cap : 0 < cap -> cap < mres_size Items r ->
  exists e rest, extract_mres Items r cap = (e, rest, cap) /\ mres_size Items e = cap /\
                 mres_size Items rest = mres_size Items r - cap /\ mres_nonempty e = true.
Proof.
  intros H0 H1. unfold extract_mres. rewrite inner_cap_items.
  assert (Hh : mres_size Items {| mrctx := mrctx r; mrhdr := mrhdr r; mrscopes := [] |} = 0) by reflexivity.
  rewrite Hh, Z.sub_0_r.
  destruct (walk Items (mscope_size Items) (Some (extract_mscope Items)) mscope_nonempty (mrscopes r) cap 0) as [[d k] rm] eqn:E.
  destruct (walk_items (mscope_size Items) (Some (extract_mscope Items)) mscope_nonempty mscope_size_items_nonneg extract_mscope_items
              _ _ _ _ _ _ (Z.lt_le_incl _ _ H0) E) as [Hrm [Hd Hk]].
  assert (Hs : mres_size Items r = sumZf (mscope_size Items) (mrscopes r)) by reflexivity.
  rewrite Hs in H1. rewrite Z.min_l in * by lia.
  eexists; eexists. split; [rewrite Hrm; reflexivity|].
  unfold mres_size at 1 2. cbn [hdr delta mrscopes]. rewrite Hs.
  change (fun s : mscope => mscope_size Items s) with (mscope_size Items).
  split; [lia|]. split; [lia|].
  unfold mres_nonempty; cbn [mrscopes]. destruct d; [cbn in Hd; lia|reflexivity].
Qed.

Lemma extract_mpayload_items p cap d k rm : 0 <= cap ->
  extract_mpayload Items p cap = (d, k, rm) ->
  rm = Z.min cap (MT p) /\ MT d = Z.min cap (MT p) /\ MT k = MT p - Z.min cap (MT p).
Proof.
  intros H0 E. unfold extract_mpayload in E. change (mpayload_size Items []) with 0 in E. rewrite Z.sub_0_r in E.
  destruct (walk_items (mres_size Items) (Some (extract_mres Items)) mres_nonempty mres_size_items_nonneg extract_mres_items
              _ _ _ _ _ _ H0 E) as [Hrm [Hd Hk]].
  unfold MT. lia.
Qed.

Lemma MT_nonneg p : 0 <= MT p.
Proof. rewrite MT_count. unfold mcount. lia. Qed.

Definition mfull_batch (max : Z) (r : mreq) : Prop := mcount (mrp r) = max /\ mrcached r = -1.

Lemma msplit_loop_items : forall fuel max p acc, 1 <= max -> MT p - max < Z.of_nat fuel ->
  exists ds last, msplit_loop fuel Items max p (MT p) acc = Some (acc ++ ds ++ [last]) /\
                  Forall (mfull_batch max) ds /\ mcount (mrp last) <= max /\ mrcached last = mcount (mrp last).
Proof.
  induction fuel as [|f IH]; intros max p acc Hmax Hf; cbn [msplit_loop]; destruct (MT p >? max) eqn:Eg;
    rewrite Z.gtb_ltb in Eg;
    try (apply Z.ltb_ge in Eg; exists [], {| mrp := p; mrcached := MT p |}; cbn [app mrp mrcached]; rewrite <- MT_count; auto).
  - apply Z.ltb_lt in Eg. lia.
  - apply Z.ltb_lt in Eg.
    destruct (extract_mpayload Items p max) as [[d k] rm] eqn:E.
    assert (H0m : 0 <= max) by lia.
    destruct (extract_mpayload_items _ _ _ _ _ H0m E) as [Hrm [Hd Hk]].
    rewrite Z.min_l in * by lia. subst rm. rewrite <- Hk.
    assert (Eb : (max <=? 0) = false) by (apply Z.leb_gt; lia). rewrite Eb.
    assert (Hfk : MT k - max < Z.of_nat f) by lia.
    destruct (IH max k (acc ++ [{| mrp := d; mrcached := -1 |}]) Hmax Hfk) as [ds [last [Hs [Hfull [Hl Hc]]]]].
    exists ({| mrp := d; mrcached := -1 |} :: ds), last. rewrite Hs, <- app_assoc. split; [reflexivity|].
    split; [|auto]. constructor; [|exact Hfull]. split; [cbn; rewrite <- MT_count; exact Hd|reflexivity].
Qed.

Definition msize_ok (r : mreq) : Prop := mreq_size Items r = mcount (mrp r).
Definition msize_ok_opt (b : option mreq) : Prop := match b with Some r => msize_ok r | None => True end.

Lemma mcount_app p q : mcount (p ++ q) = mcount p + mcount q.
Proof. rewrite <- !MT_count. apply sumZf_app. Qed.

Lemma mmerged_size_ok a b : msize_ok a -> msize_ok_opt b -> msize_ok (mmerged Items a b).
Proof.
  intros Ha Hb. destruct b as [b|]; [|exact Ha]. unfold msize_ok, mmerged in *. cbn [mrp mrcached mreq_size] in *.
  simpl in Hb. rewrite mcount_app.
  assert (0 <= mcount (mrp a)) by (unfold mcount; lia). assert (0 <= mcount (mrp b)) by (unfold mcount; lia).
  unfold mreq_size at 1. cbn [mrcached]. rewrite Ha, Hb.
  destruct (mcount (mrp a) + mcount (mrp b) =? -1) eqn:E; [apply Z.eqb_eq in E; lia|reflexivity].
Qed.

Lemma mmerge_split_items_l : forall max a b, 1 <= max -> msize_ok a -> msize_ok_opt b ->
  exists ds last, mmerge_split Items max a b = Some (ds ++ [last]) /\
                  Forall (mfull_batch max) ds /\ mcount (mrp last) <= max /\ mrcached last = mcount (mrp last).
Proof.
  intros max a b Hmax Ha Hb. unfold mmerge_split.
  pose proof (mmerged_size_ok a b Ha Hb) as Hm. unfold msize_ok in Hm.
  destruct (max =? 0) eqn:E0; [apply Z.eqb_eq in E0; lia|].
  rewrite Hm, <- MT_count.
  destruct (msplit_loop_items (fuel_of (MT (mrp (mmerged Items a b))) max (length (mpoints_of (mrp (mmerged Items a b))))) max (mrp (mmerged Items a b)) [] Hmax) as [ds [last H]].
  { apply lt_fuel. }
  exists ds, last. exact H.
Qed.

Definition munit_weights (p : mpayload) : Prop := Forall (fun i => icnt i = 1) (mpoints_of p).

Lemma mfresh_size_ok p : munit_weights p -> msize_ok {| mrp := p; mrcached := -1 |}.
Proof.
  intros H. unfold msize_ok, mreq_size. cbn [mrcached mrp]. change (-1 =? -1) with true. cbn [mpayload_size].
  unfold mcount, munit_weights in *. induction H as [|i l Hi Hl IH]; [reflexivity|].
  cbn [sumZf length]. rewrite IH, Hi. lia.
Qed.

(* max_size = 0: no split at all, for both sizers and every signal *)
Lemma merge_split_max0 w sz a b : merge_split w sz 0 a b = Some [merged w sz a b].
Proof. reflexivity. Qed.
Lemma mmerge_split_max0 sz a b : mmerge_split sz 0 a b = Some [mmerged sz a b].
Proof. reflexivity. Qed.
