(* C04/Proofs4.v — refutation witnesses (evaluated with vm_compute on the faithful model; the same inputs are
   replayed on the implementation by the correspondence run: they are cases recorded from the real code). *)
From Verif Require Import Common.Base C04.Model C04.Harness.
Local Open Scope Z_scope.

(* C04-OVERSIZED-REMAINDER: logs, bytes sizer, max_size 30, a 70-byte record followed by a
   3-byte record: nothing can be removed (rmSize = 0), split stops at once and the single returned request measures 101 bytes and holds BOTH records *)
Definition f5_req : req :=
  {| rcached := -1;
     rp := [ {| rctx := 1; rhdr := 10; rscopes :=
              [ {| sctx := 1; shdr := 10; sitems := [ {| iid := 1; iraw := 70; icnt := 1 |}; {| iid := 2; iraw := 3; icnt := 1 |} ] |} ] |} ] |}.

Definition summary (w : item -> Z) (sz : sizer) (o : option (list req)) :=
  option_map (map (fun r => (rcached r, payload_size w sz (rp r), length (items_of (rp r))))) o.

(* regression of the former C04-OVERSIZED-REMAINDER witness: the 70-byte record now leaves alone *)
Lemma oversized_remainder_witness :
  summary w_unit Bytes (merge_split w_unit Bytes 30 f5_req None) = Some [(-1, 96, 1%nat); (29, 29, 1%nat)].
Proof. vm_compute. reflexivity. Qed.

(* the same input is split as soon as the record fits *)
Lemma f5_fits : exists out, merge_split w_unit Bytes 100 f5_req None = Some out /\ length out = 2%nat.
Proof. eexists. split; vm_compute; reflexivity. Qed.

(* profiles, items sizer (a profile weighs its samples): a profile of 5 samples followed by one of 1 sample,
   max_size 3: nothing can be extracted, one request of 6 samples holding both profiles comes back *)
Definition prof_req : req :=
  {| rcached := -1;
     rp := [ {| rctx := 1; rhdr := 10; rscopes :=
              [ {| sctx := 1; shdr := 10; sitems := [ {| iid := 1; iraw := 40; icnt := 5 |}; {| iid := 2; iraw := 40; icnt := 1 |} ] |} ] |} ] |}.

Lemma prof_oversized_witness :
  summary w_samples Items (merge_split w_samples Items 3 prof_req None) = Some [(-1, 5, 1%nat); (1, 1, 1%nat)].
Proof. vm_compute. reflexivity. Qed.

(* profiles of 2, 2 and 1 samples, max_size 2: three batches within the bound, exact memo *)
Definition prof_req2 : req :=
  {| rcached := -1;
     rp := [ {| rctx := 1; rhdr := 10; rscopes :=
              [ {| sctx := 1; shdr := 10; sitems := [ {| iid := 1; iraw := 40; icnt := 2 |}; {| iid := 2; iraw := 40; icnt := 2 |}; {| iid := 3; iraw := 40; icnt := 1 |} ] |} ] |} ] |}.

Lemma prof_split_ok :
  summary w_samples Items (merge_split w_samples Items 2 prof_req2 None) = Some [(-1, 2, 1%nat); (-1, 2, 1%nat); (1, 1, 1%nat)].
Proof. vm_compute. reflexivity. Qed.

(* the former C04-ITEMLESS-BREAK input (repaired): logs, bytes, max_size 429: the record-less resource leaves in a
   batch of its own, then the two records (139 and 163 bytes) are split *)
Definition ib_a : req := req_of ((-1),[(3,145,[(3,62,[]);(5,172,[])])]).
Definition ib_b : req := req_of (540,[(3,145,[(6,81,[(1773,139,1);(1774,163,1)])])]).

(* C04-EMPTYFRAG (recorded from the implementation): metrics, bytes sizer, max_size 746, every unit fits alone:
   the first batch measures 840 bytes and holds 2 points *)
Definition emptyfrag_req : mreq := mreq_of
  ((-1),[(1,70,[(5,172,[(2,2,83,2,[(936,30,1);(937,147,1)]);(1,4,54,2,[])]);(2,152,[]);
               (1,98,[(6,3,64,2,[(938,48,1);(939,165,1);(940,107,1)]);(8,2,122,2,[]);(7,4,93,2,[])])])]).

Lemma emptyfrag_witness :
  option_map (map (fun r => (mpayload_size Bytes (mrp r), length (mpoints_of (mrp r))))) (mmerge_split Bytes 746 emptyfrag_req None)
  = Some [(840, 2%nat); (705, 3%nat); (273, 0%nat)].
Proof. vm_compute. reflexivity. Qed.

(* C04-CACHEDRIFT (recorded from the implementation): metrics, bytes sizer, max_size 685: the remainder's memo
   says 498, its real size is 497 *)
Definition drift_req : mreq := mreq_of
  (783,[(4,183,[(2,152,[(6,2,64,2,[]);(9,5,151,0,[(885,38,1);(886,172,1)])])])]).

Lemma drift_witness :
  option_map (map (fun r => (mrcached r, mpayload_size Bytes (mrp r)))) (mmerge_split Bytes 685 drift_req None)
  = Some [(-1, 632); (498, 497)].
Proof. vm_compute. reflexivity. Qed.

Lemma drift_req_exact : mrcached drift_req = mpayload_size Bytes (mrp drift_req).
Proof. vm_compute. reflexivity. Qed.

(* C04-DONE-FOREIGN-ERROR (recorded from the implementation, slack 2, min_size = max_size = 3): request 0 = [],
   request 1 = [1;2] (both parked), request 2 = [3..7]: MergeSplit returns [1;2] (nothing of request 2 fitted beside
   the parked ids), [3;4;5], [6;7]; only the export of batch 0 = [1;2] fails, yet request 2 reports an error *)
Definition foreign_evs : list tbev :=
  [(0,[],0);(0,[1;2],0);(0,[3;4;5;6;7],0);(2,[0],1);(3,[],0);(2,[1],0);(2,[2],0)].

Lemma foreign_error_witness :
  model_bat 2 3 3 foreign_evs = ([[1;2];[3;4;5];[6;7]], [(0,1);(1,1);(2,0)]).
Proof. vm_compute. reflexivity. Qed.
