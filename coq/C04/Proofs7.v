(* C04/Proofs7.v — the error reported by a completion callback (default_batcher.go refCountDone / multiDone):
   for EVERY history, the error flag of request i's Done.OnDone is exactly
      "i's own MergeSplit failed, or a batch whose done list is attached to i returned an error"
   where a done list is attached to i when it contains i's done itself or a refCountDone that wraps it. *)
From Verif Require Import Common.Base C04.Model C04.Proofs C04.Proofs2 C04.Proofs3.
Local Open Scope Z_scope.

Definition bump (E : nat -> bool) (refs : list refcell) (d : dref) (err : bool) : nat -> bool :=
  fun i => E i || (err && hits refs d i).

Definition J (n : nat) (refs : list refcell) (fired : list (nat * bool)) (tk : dref -> Z) (E : nat -> bool) : Prop :=
  (forall i e, In (i, e) fired -> e = E i) /\
  (forall k c i, nth_error refs k = Some c -> 0 < rc_count c -> rc_target c = DReq i -> rc_err c = E i) /\
  (forall i, 0 < tk (DReq i) -> E i = false) /\
  (forall i, (n <= i)%nat -> E i = false).

Lemma J_ext n refs fired tk tk' E E' : (forall x, tk x = tk' x) -> (forall i, E i = E' i) ->
  J n refs fired tk E -> J n refs fired tk' E'.
Proof.
  intros Ht He [J1 [J2 [J3 J4]]]. repeat split.
  - intros i e H. rewrite <- He. eauto.
  - intros k c i H1 H2 H3. rewrite <- He. eauto.
  - intros i H. rewrite <- He. apply J3. now rewrite Ht.
  - intros i H. rewrite <- He. eauto.
Qed.

Lemma In_fcount i e fired : In (i, e) fired -> 1 <= fcount i fired.
Proof.
  unfold fcount. induction fired as [|p l IH]; intros H; [destruct H|]. cbn [sumZf].
  assert (0 <= sumZf (fun p0 => ind (Nat.eqb (fst p0) i)) l) by (apply sumZf_nonneg; intros; apply ind_nonneg).
  destruct H as [->|H]; [cbn [fst]; rewrite Nat.eqb_refl; cbn [ind]; lia|]. specialize (IH H). pose proof (ind_nonneg (Nat.eqb (fst p) i)). lia.
Qed.

Definition dead : refcell := {| rc_target := DReq 0; rc_count := 0; rc_err := false |}.
Lemma livef_dead i : livef i dead = 0.
Proof. unfold livef, dead; cbn. now rewrite andb_false_r. Qed.

Lemma live_one i refs k c : nth_error refs k = Some c -> livef i c <= live i refs.
Proof.
  intros H. pose proof (set_nth_sum (livef i) dead refs k c H) as Hs. rewrite livef_dead in Hs.
  pose proof (live_nonneg i (set_nth k dead refs)). unfold live in *. lia.
Qed.

Lemma live_two i refs k c k' c' : k <> k' -> nth_error refs k = Some c -> nth_error refs k' = Some c' ->
  livef i c + livef i c' <= live i refs.
Proof.
  intros Hne H H'. pose proof (set_nth_sum (livef i) dead refs k c H) as Hs. rewrite livef_dead in Hs.
  assert (H2 : nth_error (set_nth k dead refs) k' = Some c') by (rewrite set_nth_other; auto).
  pose proof (live_one i _ _ _ H2). unfold live in *. lia.
Qed.

Lemma livef_live i c : rc_target c = DReq i -> 0 < rc_count c -> livef i c = 1.
Proof. intros Ht Hc. unfold livef. rewrite Ht, dref_eqb_refl. assert ((rc_count c >? 0) = true) by (apply Z.gtb_lt; lia). now rewrite H. Qed.

Lemma on_done_J n refs fired tk E d err refs' fired' :
  G n refs fired tk -> J n refs fired tk E -> 1 <= tk d -> on_done 2 d err refs fired = (refs', fired') ->
  J n refs' fired' (fun x => tk x - ind (dref_eqb x d)) (bump E refs d err) /\ (forall d', tgt refs' d' = tgt refs d').
Proof.
  intros [G1 [G2 [G3 G4]]] [J1 [J2 [J3 J4]]] Hd Hod. destruct d as [i0|k]; cbn [on_done] in Hod.
  - inversion Hod; subst; clear Hod. split; [|reflexivity].
    pose proof (G4 i0) as W. pose proof (fcount_nonneg i0 fired). pose proof (live_nonneg i0 refs').
    assert (Hlt : (i0 <? n)%nat = true) by (destruct (i0 <? n)%nat; [reflexivity|cbn [ind] in W; lia]).
    rewrite Hlt in W. cbn [ind] in W.
    assert (Hb : forall j, j <> i0 -> bump E refs' (DReq i0) err j = E j).
    { intros j Hj. unfold bump, hits; cbn [tgt]. assert (Hn : Nat.eqb i0 j = false) by (apply Nat.eqb_neq; congruence). rewrite Hn, andb_false_r, orb_false_r. reflexivity. }
    repeat split.
    + intros i e Hin. apply in_app_or in Hin. destruct Hin as [Hin|[Hin|[]]].
      * destruct (Nat.eq_dec i i0) as [->|Hne]; [pose proof (In_fcount _ _ _ Hin); lia|]. rewrite Hb by assumption. eauto.
      * inversion Hin; subst. unfold bump, hits; cbn [tgt]. rewrite Nat.eqb_refl, andb_true_r. rewrite (J3 i) by lia. reflexivity.
    + intros k c i Hk Hc Ht. destruct (Nat.eq_dec i i0) as [->|Hne]; [|rewrite Hb by assumption; eauto].
      pose proof (live_one i0 _ _ _ Hk) as Hlo. rewrite (livef_live _ _ Ht Hc) in Hlo. lia.
    + intros i Hi. destruct (Nat.eq_dec i i0) as [->|Hne].
      * rewrite dref_eqb_refl in Hi. cbn [ind] in Hi. lia.
      * rewrite Hb by assumption. apply J3. assert (Hn : dref_eqb (DReq i) (DReq i0) = false) by (cbn; apply Nat.eqb_neq; congruence). rewrite Hn in Hi. cbn [ind] in Hi. lia.
    + intros i Hi. apply Nat.ltb_lt in Hlt. rewrite Hb by lia. eauto.
  - destruct (nth_error refs k) as [c|] eqn:Ec.
    2:{ apply nth_error_None in Ec. rewrite G2 in Hd by assumption. lia. }
    destruct (G1 k c Ec) as [[i0 Ht] [Hc Hc0]].
    set (c' := {| rc_target := rc_target c; rc_count := rc_count c - 1; rc_err := rc_err c || err |}) in *.
    assert (Hcnt : 0 < rc_count c) by lia.
    pose proof (G4 i0) as W. pose proof (fcount_nonneg i0 fired). pose proof (G3 (DReq i0)).
    pose proof (live_one i0 _ _ _ Ec) as L1. rewrite (livef_live _ _ Ht Hcnt) in L1.
    assert (Hlt : (i0 <? n)%nat = true) by (destruct (i0 <? n)%nat; [reflexivity|cbn [ind] in W; lia]).
    rewrite Hlt in W. cbn [ind] in W.
    assert (Htg : forall d', tgt (set_nth k c' refs) d' = tgt refs d').
    { intros [i|k0]; [reflexivity|]. cbn [tgt]. destruct (Nat.eq_dec k0 k) as [->|Hne].
      - rewrite (set_nth_same _ _ _ _ Ec), Ec. reflexivity.
      - rewrite set_nth_other by assumption. reflexivity. }
    assert (Hh : hits refs (DRef k) i0 = true) by (unfold hits; cbn [tgt]; rewrite Ec, Ht; apply Nat.eqb_refl).
    assert (Hb : forall j, j <> i0 -> bump E refs (DRef k) err j = E j).
    { intros j Hj. unfold bump, hits; cbn [tgt]. rewrite Ec, Ht. assert (Hn : Nat.eqb i0 j = false) by (apply Nat.eqb_neq; congruence). rewrite Hn, andb_false_r, orb_false_r. reflexivity. }
    assert (Hb0 : bump E refs (DRef k) err i0 = rc_err c || err).
    { unfold bump. rewrite Hh, andb_true_r. rewrite (J2 k c i0 Ec Hcnt Ht). reflexivity. }
    assert (HJ1 : forall i e, In (i, e) fired -> e = bump E refs (DRef k) err i).
    { intros i e Hin. destruct (Nat.eq_dec i i0) as [->|Hne]; [pose proof (In_fcount _ _ _ Hin); lia|]. rewrite Hb by assumption. eauto. }
    assert (HJ2 : forall k0 c0 i, nth_error (set_nth k c' refs) k0 = Some c0 -> 0 < rc_count c0 -> rc_target c0 = DReq i ->
              rc_err c0 = bump E refs (DRef k) err i).
    { intros k0 c0 i Hk0 Hc00 Ht0. destruct (Nat.eq_dec k0 k) as [->|Hne].
      - rewrite (set_nth_same _ _ _ _ Ec) in Hk0. inversion Hk0; subst c0. cbn [c' rc_target rc_err] in *.
        rewrite Ht in Ht0. inversion Ht0; subst i. symmetry. exact Hb0.
      - rewrite set_nth_other in Hk0 by assumption.
        destruct (Nat.eq_dec i i0) as [->|Hni]; [|rewrite Hb by assumption; eauto].
        assert (Hkk : k <> k0) by congruence. pose proof (live_two i0 refs k c k0 c0 Hkk Ec Hk0) as L2.
        rewrite (livef_live _ _ Ht Hcnt), (livef_live _ _ Ht0 Hc00) in L2. lia. }
    assert (HJ3 : forall i, 0 < tk (DReq i) - ind (dref_eqb (DReq i) (DRef k)) -> bump E refs (DRef k) err i = false).
    { intros i Hi. cbn [dref_eqb ind] in Hi. destruct (Nat.eq_dec i i0) as [->|Hne]; [lia|]. rewrite Hb by assumption. apply J3. lia. }
    assert (HJ4 : forall i, (n <= i)%nat -> bump E refs (DRef k) err i = false).
    { intros i Hi. apply Nat.ltb_lt in Hlt. rewrite Hb by lia. eauto. }
    destruct (rc_count c - 1 =? 0) eqn:Ez.
    + rewrite Ht in Hod. cbn [on_done] in Hod. inversion Hod; subst; clear Hod. split; [|exact Htg].
      repeat split; auto.
      intros i e Hin. apply in_app_or in Hin. destruct Hin as [Hin|[Hin|[]]]; [eauto|].
      inversion Hin; subst. symmetry. exact Hb0.
    + inversion Hod; subst; clear Hod. split; [|exact Htg]. repeat split; auto.
Qed.

Lemma attached_ext refs refs' ds i : (forall d, tgt refs' d = tgt refs d) -> attached refs' ds i = attached refs ds i.
Proof. intros H. unfold attached. induction ds as [|d ds IH]; [reflexivity|]. cbn [existsb]. unfold hits at 1 3. now rewrite H, IH. Qed.

Lemma on_done_all_J : forall ds n refs fired tk E err refs' fired',
  G n refs fired tk -> J n refs fired tk E -> (forall x, occ x ds <= tk x) ->
  on_done_all ds err refs fired = (refs', fired') ->
  J n refs' fired' (fun x => tk x - occ x ds) (fun i => E i || (err && attached refs ds i)) /\
  (forall d', tgt refs' d' = tgt refs d').
Proof.
  induction ds as [|d ds IH]; intros n refs fired tk E err refs' fired' HG HJ Hle H; cbn [on_done_all] in H.
  - inversion H; subst. split; [|reflexivity]. eapply J_ext; [| |exact HJ].
    + intros x. unfold occ; simpl. lia.
    + intros i. cbn [attached existsb]. now rewrite andb_false_r, orb_false_r.
  - destruct (on_done 2 d err refs fired) as [r1 f1] eqn:E1.
    assert (Hd : 1 <= tk d).
    { specialize (Hle d). rewrite occ_cons, dref_eqb_refl in Hle. pose proof (occ_nonneg d ds). cbn [ind] in Hle. lia. }
    pose proof (on_done_G _ _ _ _ _ _ _ _ HG Hd E1) as HG1.
    destruct (on_done_J _ _ _ _ _ _ _ _ _ HG HJ Hd E1) as [HJ1 Ht1].
    assert (Hle1 : forall x, occ x ds <= tk x - ind (dref_eqb x d)).
    { intros x. specialize (Hle x). rewrite occ_cons in Hle. lia. }
    destruct (IH _ _ _ _ _ _ _ _ HG1 HJ1 Hle1 H) as [HJ2 Ht2].
    split; [|intros d'; rewrite Ht2; apply Ht1].
    eapply J_ext; [| |exact HJ2].
    + intros x. cbn beta. rewrite occ_cons. lia.
    + intros i. cbn beta. unfold bump. rewrite (attached_ext refs r1 ds i Ht1). unfold attached. cbn [existsb].
      destruct (E i), err, (hits refs d i), (existsb (fun d0 => hits refs d0 i) ds); reflexivity.
Qed.

Section ErrRun.
  Context {R : Type}.
  Variable msplit : R -> option R -> option (list R).
  Variable sizeof : R -> Z.
  Variable icount : R -> Z.
  Variable min_size : Z.
  Notation bst := (@bstate R).

  Lemma erun_fst es : fst (erun msplit sizeof icount min_size es) = brun msplit sizeof icount min_size es.
  Proof.
    unfold erun, brun. generalize (@b_init R, O) as sn. generalize (fun _ : nat => false) as E.
    induction es as [|e es IH]; intros E sn; [reflexivity|]. cbn [fold_left]. destruct sn as [st n].
    cbn [estep]. apply IH.
  Qed.

  Definition InvJ (n : nat) (st : bst) (E : nat -> bool) : Prop :=
    Inv n st /\ J n (b_refs st) (b_fired st) (tokens st) E.

  Lemma consume_ind (Phi : bst -> Prop) n (st : bst) r :
    (forall err, err = ms_failed msplit st r -> Phi (fire st [DReq n] err)) ->
    (ms_failed msplit st r = false -> forall N st', (1 <= N)%nat ->
       let '(st1, d) := wrap_done st n N in
       b_refs st' = b_refs st1 -> b_fired st' = b_fired st1 ->
       (forall x, tokens st' x = tokens st x + Z.of_nat N * occ x [d]) -> Phi st') ->
    Phi (consume msplit sizeof icount min_size st n r).
  Proof.
    intros Hfail Hsucc. unfold consume. destruct (b_cur st) as [[cur cds]|] eqn:Ecur.
    - destruct (msplit cur (Some r)) as [[|r0 rest]|] eqn:Em;
        try (apply Hfail; unfold ms_failed; rewrite Ecur, Em; reflexivity).
      assert (Hms : ms_failed msplit st r = false) by (unfold ms_failed; rewrite Ecur, Em; reflexivity).
      specialize (Hsucc Hms).
      set (fhn := (Nat.eqb (length rest) 0 || negb (icount r0 =? icount cur))%bool).
      set (N := if fhn then S (length rest) else length rest).
      destruct (wrap_done st n N) as [st1 d] eqn:Ew.
      destruct (wrap_done_facts _ _ _ _ _ Ew) as [Hc1 [Hf1 Ht1]].
      set (cds' := if fhn then cds ++ [d] else cds).
      set (ff := ((0 <? length rest)%nat || negb (sizeof r0 <? min_size))%bool).
      set (st2 := with_cur st1 (if ff then None else Some (r0, cds'))).
      destruct (park_last sizeof min_size st2 rest d) as [rest' st3] eqn:Ep.
      assert (Hpre : rest <> [] -> b_cur st2 = None).
      { intros Hne. unfold st2, ff. destruct rest; [congruence|]. reflexivity. }
      destruct (park_last_spec sizeof min_size st2 rest d rest' st3 Hpre Ep) as [Hr3 [Hf3 Ht3]].
      set (st4 := if ff then start_flush st3 r0 cds' else st3).
      destruct (start_flushes_spec rest' st4 [d]) as [Hr5 [Hf5 [_ Ht5]]].
      assert (HN : (1 <= N)%nat).
      { unfold N, fhn. destruct (Nat.eqb (length rest) 0) eqn:E0; cbn [orb]; [lia|]. apply Nat.eqb_neq in E0. destruct (negb (icount r0 =? icount cur)); lia. }
      assert (Hocc : forall x, occ x cds' + Z.of_nat (length rest) * occ x [d] = occ x cds + Z.of_nat N * occ x [d]).
      { intros x. unfold cds', N. destruct fhn; [rewrite occ_app|]; lia. }
      specialize (Hsucc N (start_flushes st4 rest' [d]) HN). rewrite Ew in Hsucc.
      apply Hsucc.
      + rewrite Hr5. unfold st4. destruct ff; [rewrite (proj1 (start_flush_rf _ _ _))|]; rewrite Hr3; reflexivity.
      + rewrite Hf5. unfold st4. destruct ff; [rewrite (proj1 (proj2 (start_flush_rf _ _ _)))|]; rewrite Hf3; reflexivity.
      + intros x. rewrite Ht5. specialize (Ht3 x). rewrite <- Ht1. specialize (Hocc x).
        assert (Hst1 : tokens st1 x = occ x cds + fly_tokens x (b_flying st1)).
        { unfold tokens, cur_dones. rewrite Hc1, Ecur. reflexivity. }
        unfold st4. destruct ff eqn:Eff.
        * rewrite tok_start_flush. unfold st2 in Ht3. rewrite tok_with_cur_none in Ht3. rewrite Hst1. lia.
        * unfold ff in Eff. apply orb_false_iff in Eff. destruct Eff as [El _]. apply Nat.ltb_ge in El.
          destruct rest; [|cbn in El; lia]. cbn [length] in *.
          unfold st2 in Ht3. rewrite tok_with_cur_some in Ht3.
          unfold park_last in Ep. cbn [unsnoc] in Ep. injection Ep as Hr' Hs3. subst rest'. cbn [length] in *. rewrite Hst1. lia.
    - destruct (msplit r None) as [[|r0 rest]|] eqn:Em;
        try (apply Hfail; unfold ms_failed; rewrite Ecur, Em; reflexivity).
      assert (Hms : ms_failed msplit st r = false) by (unfold ms_failed; rewrite Ecur, Em; reflexivity).
      specialize (Hsucc Hms).
      destruct (wrap_done st n (length (r0 :: rest))) as [st1 d] eqn:Ew.
      destruct (wrap_done_facts _ _ _ _ _ Ew) as [Hc1 [Hf1 Ht1]].
      destruct (park_last sizeof min_size st1 (r0 :: rest) d) as [rs' st2] eqn:Ep.
      assert (Hpre : r0 :: rest <> [] -> b_cur st1 = None) by (intros _; rewrite Hc1; exact Ecur).
      destruct (park_last_spec sizeof min_size st1 (r0 :: rest) d rs' st2 Hpre Ep) as [Hr2 [Hf2 Ht2]].
      destruct (start_flushes_spec rs' st2 [d]) as [Hr3 [Hf3 [_ Ht3]]].
      assert (HN : (1 <= length (r0 :: rest))%nat) by (cbn [length]; lia).
      specialize (Hsucc (length (r0 :: rest)) (start_flushes st2 rs' [d]) HN). rewrite Ew in Hsucc.
      apply Hsucc.
      + rewrite Hr3, Hr2. reflexivity.
      + rewrite Hf3, Hf2. reflexivity.
      + intros x. rewrite Ht3. specialize (Ht2 x). rewrite <- Ht1. lia.
  Qed.

  Lemma invJ_consume n (st : bst) r E : InvJ n st E ->
    InvJ (S n) (consume msplit sizeof icount min_size st n r) (fun i => E i || (Nat.eqb i n && ms_failed msplit st r)).
  Proof.
    intros [HI HJ]. split; [apply inv_consume; exact HI|].
    destruct HI as [G1 [G2 [G3 G4]]]. destruct HJ as [J1 [J2 [J3 J4]]].
    assert (Hn0 : fcount n (b_fired st) = 0 /\ tokens st (DReq n) = 0 /\ live n (b_refs st) = 0).
    { specialize (G4 n). assert (E0 : (n <? n)%nat = false) by (apply Nat.ltb_ge; lia). rewrite E0 in G4. cbn [ind] in G4.
      pose proof (fcount_nonneg n (b_fired st)). pose proof (G3 (DReq n)). pose proof (live_nonneg n (b_refs st)). lia. }
    destruct Hn0 as [Hf0 [Ht0 Hl0]].
    assert (Hlt : forall i e, In (i, e) (b_fired st) -> i <> n).
    { intros i e Hin ->. pose proof (In_fcount _ _ _ Hin). lia. }
    assert (Hcell : forall k c i, nth_error (b_refs st) k = Some c -> 0 < rc_count c -> rc_target c = DReq i -> i <> n).
    { intros k c i Hk Hc Ht ->. pose proof (live_one n _ _ _ Hk) as L. rewrite (livef_live _ _ Ht Hc) in L. lia. }
    assert (Hoth : forall i, i <> n -> (E i || (Nat.eqb i n && ms_failed msplit st r)) = E i).
    { intros i Hi. assert (Hn : Nat.eqb i n = false) by (apply Nat.eqb_neq; exact Hi). rewrite Hn. cbn. apply orb_false_r. }
    apply consume_ind.
    - intros err Herr. unfold fire. cbn [on_done_all on_done b_refs b_fired].
      match goal with |- J _ _ _ (tokens ?s) _ => apply (J_ext _ _ _ (tokens st) (tokens s) _ _ (fun x => eq_refl) (fun i => eq_refl)) end.
      repeat split.
      + intros i e Hin. apply in_app_or in Hin. destruct Hin as [Hin|[Hin|[]]].
        * rewrite Hoth by (eapply Hlt; eauto). eauto.
        * inversion Hin; subst i e. rewrite Nat.eqb_refl, (J4 n) by lia. cbn. exact Herr.
      + intros k c i Hk Hc Ht. rewrite Hoth by (eapply Hcell; eauto). eauto.
      + intros i Hi. destruct (Nat.eq_dec i n) as [->|Hne]; [lia|]. rewrite Hoth by assumption. eauto.
      + intros i Hi. rewrite Hoth by lia. apply J4. lia.
    - intros Hms N st' HN. unfold wrap_done. destruct (1 <? N)%nat eqn:EN; cbn [b_refs b_fired]; intros Er Ef Ht; rewrite Er, Ef.
      + repeat split.
        * intros i e Hin. rewrite Hoth by (eapply Hlt; eauto). eauto.
        * intros k c i Hk Hc Htg. rewrite Hms, andb_false_r, orb_false_r.
          destruct (Nat.lt_ge_cases k (length (b_refs st))) as [Hlk|Hlk].
          -- rewrite nth_error_app1 in Hk by assumption. eauto.
          -- rewrite nth_error_app2 in Hk by assumption. destruct (k - length (b_refs st))%nat as [|m]; [|destruct m; discriminate Hk].
             cbn in Hk. inversion Hk; subst c. cbn in Htg. inversion Htg; subst i. cbn. symmetry. apply J4. lia.
        * intros i Hi. rewrite Hms, andb_false_r, orb_false_r. apply J3. rewrite Ht, occ_one in Hi. cbn [dref_eqb ind] in Hi. lia.
        * intros i Hi. rewrite Hms, andb_false_r, orb_false_r. apply J4. lia.
      + repeat split.
        * intros i e Hin. rewrite Hoth by (eapply Hlt; eauto). eauto.
        * intros k c i Hk Hc Htg. rewrite Hms, andb_false_r, orb_false_r. eauto.
        * intros i Hi. rewrite Hms, andb_false_r, orb_false_r. destruct (Nat.eq_dec i n) as [->|Hne]; [apply J4; lia|].
          apply J3. rewrite Ht, occ_one in Hi. assert (Hn : dref_eqb (DReq i) (DReq n) = false) by (cbn; apply Nat.eqb_neq; exact Hne).
          rewrite Hn in Hi. cbn [ind] in Hi. lia.
        * intros i Hi. rewrite Hms, andb_false_r, orb_false_r. apply J4. lia.
  Qed.

  Lemma invJ_flush_current n st E : InvJ n st E -> InvJ n (flush_current st) E.
  Proof.
    intros [HI HJ]. split; [apply inv_flush_current; exact HI|].
    unfold flush_current. destruct (b_cur st) as [[r ds]|] eqn:Ec; [|exact HJ].
    cbn [start_flush with_cur b_refs b_fired]. eapply J_ext; [| |exact HJ]; [|reflexivity].
    intros x. rewrite tok_start_flush, tok_with_cur_none. unfold tokens, cur_dones. rewrite Ec. lia.
  Qed.

  Lemma invJ_flush_result n st b err E : InvJ n st E ->
    InvJ n (flush_result st b err)
      (match take_flying b (b_flying st) with
       | Some (ds, _) => fun i => E i || (err && attached (b_refs st) ds i)
       | None => E end).
  Proof.
    intros [HI HJ]. split; [apply inv_flush_result; exact HI|].
    unfold flush_result. destruct (take_flying b (b_flying st)) as [[ds fl]|] eqn:Et; [|exact HJ].
    unfold fire. cbn [b_refs b_fired].
    destruct (on_done_all ds err (b_refs st) (b_fired st)) as [r' f'] eqn:Eo. cbn [b_refs b_fired].
    assert (Hle : forall x, occ x ds <= tokens st x).
    { intros x. unfold tokens. rewrite (take_flying_sum x _ _ _ _ Et).
      pose proof (fly_tokens_nonneg x fl). pose proof (occ_nonneg x (cur_dones st)). lia. }
    destruct (on_done_all_J _ _ _ _ _ _ _ _ _ HI HJ Hle Eo) as [HJ' _].
    eapply J_ext; [| |exact HJ']; [|reflexivity].
    intros x. cbn beta. unfold tokens, cur_dones. cbn [b_cur b_flying]. rewrite (take_flying_sum x _ _ _ _ Et). lia.
  Qed.

  Lemma invJ_init : InvJ 0 (@b_init R) (fun _ => false).
  Proof. split; [apply inv_init|]. repeat split; intros; try reflexivity. - destruct H. - destruct k; discriminate. Qed.

  Lemma invJ_run es : let '(st, n, E) := erun msplit sizeof icount min_size es in InvJ n st E.
  Proof.
    unfold erun. rewrite <- fold_left_rev_right.
    induction (rev es) as [|e l IH]; cbn [fold_right]; [exact invJ_init|].
    destruct (fold_right (fun y x => estep msplit sizeof icount min_size x y) (b_init, O, fun _ : nat => false) l) as [[st n] E].
    destruct e; cbn [estep bstep].
    - apply invJ_consume; exact IH.
    - apply invJ_flush_current; exact IH.
    - apply invJ_flush_result; exact IH.
    - apply invJ_flush_current; exact IH.
  Qed.

  (* the theorem: whatever the callback reported is the specification's verdict *)
  Lemma done_error_iff_l es i e :
    In (i, e) (b_fired (fst (brun msplit sizeof icount min_size es))) -> e = snd (erun msplit sizeof icount min_size es) i.
  Proof.
    rewrite <- erun_fst. pose proof (invJ_run es) as H. destruct (erun msplit sizeof icount min_size es) as [[st n] E]. cbn [fst snd].
    destruct H as [_ [J1 _]]. apply J1.
  Qed.
End ErrRun.
