(* C04/Proofs3.v — the batcher's completion accounting (default_batcher.go: Consume, flush, refCountDone,
   multiDone): for EVERY history of consume / timer flush / export result / shutdown flush events, every
   incoming request's Done fires at most once, exactly once when nothing is parked or in flight, and only
   when no parked or in-flight batch still holds a reference to it. *)
From Verif Require Import Common.Base C04.Model C04.Proofs C04.Proofs2.
Local Open Scope Z_scope.

Definition dref_eqb (a b : dref) : bool :=
  match a, b with
  | DReq i, DReq j => Nat.eqb i j
  | DRef i, DRef j => Nat.eqb i j
  | _, _ => false
  end.

Lemma dref_eqb_spec a b : dref_eqb a b = true <-> a = b.
Proof.
  destruct a as [i|i], b as [j|j]; simpl.
  - rewrite Nat.eqb_eq. split; [intros ->; reflexivity|intros H; inversion H; reflexivity].
  - split; [discriminate|intros H; inversion H].
  - split; [discriminate|intros H; inversion H].
  - rewrite Nat.eqb_eq. split; [intros ->; reflexivity|intros H; inversion H; reflexivity].
Qed.

Lemma dref_eqb_refl a : dref_eqb a a = true.
Proof. now apply dref_eqb_spec. Qed.

Definition ind (b : bool) : Z := if b then 1 else 0.
Definition occ (x : dref) (l : list dref) : Z := sumZf (fun y => ind (dref_eqb x y)) l.
Definition fcount (i : nat) (fired : list (nat * bool)) : Z := sumZf (fun p => ind (Nat.eqb (fst p) i)) fired.
Definition livef (i : nat) (c : refcell) : Z := ind (dref_eqb (rc_target c) (DReq i) && (rc_count c >? 0)).
Definition live (i : nat) (refs : list refcell) : Z := sumZf (livef i) refs.

Lemma ind_nonneg b : 0 <= ind b. Proof. destruct b; simpl; lia. Qed.
Lemma occ_nonneg x l : 0 <= occ x l. Proof. apply sumZf_nonneg; intros; apply ind_nonneg. Qed.
Lemma fcount_nonneg i l : 0 <= fcount i l. Proof. apply sumZf_nonneg; intros; apply ind_nonneg. Qed.
Lemma live_nonneg i l : 0 <= live i l. Proof. apply sumZf_nonneg; intros; apply ind_nonneg. Qed.
Lemma occ_app x l1 l2 : occ x (l1 ++ l2) = occ x l1 + occ x l2. Proof. apply sumZf_app. Qed.
Lemma occ_cons x d l : occ x (d :: l) = ind (dref_eqb x d) + occ x l. Proof. reflexivity. Qed.
Lemma occ_one x d : occ x [d] = ind (dref_eqb x d). Proof. unfold occ; simpl; lia. Qed.

(* ---- set_nth ------------------------------------------------------------------------------ *)
Lemma set_nth_length {A} (x : A) : forall l k, length (set_nth k x l) = length l.
Proof. induction l as [|a l IH]; destruct k; simpl; auto. Qed.

Lemma set_nth_same {A} (x : A) : forall l k c, nth_error l k = Some c -> nth_error (set_nth k x l) k = Some x.
Proof. induction l as [|a l IH]; destruct k; simpl; intros c H; try discriminate; eauto. Qed.

Lemma set_nth_other {A} (x : A) : forall l k j, j <> k -> nth_error (set_nth k x l) j = nth_error l j.
Proof.
  induction l as [|a l IH]; intros k j H; destruct k, j; simpl; auto; try congruence.
Qed.

Lemma set_nth_sum {A} (f : A -> Z) (x : A) : forall l k c, nth_error l k = Some c ->
  sumZf f (set_nth k x l) = sumZf f l - f c + f x.
Proof.
  induction l as [|a l IH]; destruct k; simpl; intros c H; try discriminate.
  - inversion H; subst. lia.
  - rewrite (IH _ _ H). lia.
Qed.

(* ---- the invariant over (refs, fired, token count) ------------------------------------------- *)
Definition G (n : nat) (refs : list refcell) (fired : list (nat * bool)) (tk : dref -> Z) : Prop :=
  (forall k c, nth_error refs k = Some c ->
     (exists i, rc_target c = DReq i) /\ rc_count c = tk (DRef k) /\ 0 <= rc_count c) /\
  (forall k, (length refs <= k)%nat -> tk (DRef k) = 0) /\
  (forall x, 0 <= tk x) /\
  (forall i, fcount i fired + tk (DReq i) + live i refs = ind (i <? n)%nat).

Lemma G_ext n refs fired tk tk' : (forall x, tk x = tk' x) -> G n refs fired tk -> G n refs fired tk'.
Proof.
  intros E [H1 [H2 [H3 H4]]]. repeat split.
  - destruct (H1 k c H) as [A _]; exact A.
  - rewrite <- E. destruct (H1 k c H) as [_ [A _]]; exact A.
  - destruct (H1 k c H) as [_ [_ A]]; exact A.
  - intros k Hk. rewrite <- E. auto.
  - intros x. rewrite <- E. auto.
  - intros i. rewrite <- E. auto.
Qed.

Lemma fcount_snoc i fired j e : fcount i (fired ++ [(j, e)]) = fcount i fired + ind (Nat.eqb j i).
Proof. unfold fcount. rewrite sumZf_app. simpl. lia. Qed.

Lemma on_done_G n refs fired tk d err refs' fired' :
  G n refs fired tk -> 1 <= tk d -> on_done 2 d err refs fired = (refs', fired') ->
  G n refs' fired' (fun x => tk x - ind (dref_eqb x d)).
Proof.
  intros [H1 [H2 [H3 H4]]] Hd Hod. destruct d as [i|k]; cbn [on_done] in Hod.
  - inversion Hod; subst; clear Hod. repeat split.
    + destruct (H1 k c H) as [A _]; exact A.
    + cbn [dref_eqb ind]. destruct (H1 k c H) as [_ [A _]]. lia.
    + destruct (H1 k c H) as [_ [_ A]]; exact A.
    + intros k Hk. cbn [dref_eqb ind]. rewrite H2 by assumption. lia.
    + intros x. destruct (dref_eqb x (DReq i)) eqn:E; cbn [ind]; [|specialize (H3 x); lia].
      apply dref_eqb_spec in E; subst. lia.
    + intros j. rewrite fcount_snoc. cbn [dref_eqb]. specialize (H4 j). rewrite (Nat.eqb_sym j i). lia.
  - destruct (nth_error refs k) as [c|] eqn:Ec.
    2:{ apply nth_error_None in Ec. rewrite H2 in Hd by assumption. lia. }
    destruct (H1 k c Ec) as [[i Ht] [Hc Hc0]].
    set (c' := {| rc_target := rc_target c; rc_count := rc_count c - 1; rc_err := rc_err c || err |}) in *.
    assert (Hlen : length (set_nth k c' refs) = length refs) by apply set_nth_length.
    assert (Hlive : forall j, live j (set_nth k c' refs) = live j refs - livef j c + livef j c').
    { intros j. apply set_nth_sum. exact Ec. }
    assert (Hcells : forall k0 c0, nth_error (set_nth k c' refs) k0 = Some c0 ->
              (exists i0, rc_target c0 = DReq i0) /\ rc_count c0 = tk (DRef k0) - ind (dref_eqb (DRef k0) (DRef k)) /\ 0 <= rc_count c0).
    { intros k0 c0 H0. destruct (Nat.eq_dec k0 k) as [->|Hne].
      - rewrite (set_nth_same _ _ _ _ Ec) in H0. inversion H0; subst c0. rewrite dref_eqb_refl. cbn [ind c' rc_target rc_count].
        split; [eauto|]. lia.
      - rewrite set_nth_other in H0 by assumption. destruct (H1 k0 c0 H0) as [A [B C]].
        assert (E : dref_eqb (DRef k0) (DRef k) = false) by (cbn; now apply Nat.eqb_neq). rewrite E. cbn [ind]. split; [exact A|]. lia. }
    assert (Hnn : forall x, 0 <= tk x - ind (dref_eqb x (DRef k))).
    { intros x. destruct (dref_eqb x (DRef k)) eqn:E; cbn [ind]; [|specialize (H3 x); lia]. apply dref_eqb_spec in E; subst. lia. }
    destruct (rc_count c - 1 =? 0) eqn:Ez.
    + (* last reference: the wrapped done fires *)
      apply Z.eqb_eq in Ez. rewrite Ht in Hod. cbn [on_done] in Hod. inversion Hod; subst; clear Hod.
      repeat split; try (intros; eapply Hcells; eassumption).
      * intros k0 Hk0. rewrite Hlen in Hk0. rewrite H2 by assumption.
        assert (E : dref_eqb (DRef k0) (DRef k) = false).
        { cbn. apply Nat.eqb_neq. assert (k < length refs)%nat by (apply nth_error_Some; congruence). lia. } rewrite E. reflexivity.
      * exact Hnn.
      * intros j. rewrite fcount_snoc, Hlive. cbn [dref_eqb ind]. specialize (H4 j).
        unfold livef. cbn [c' rc_target rc_count]. rewrite Ht. cbn [dref_eqb].
        assert (Eg1 : (rc_count c >? 0) = true) by (apply Z.gtb_lt; lia).
        assert (Eg2 : (rc_count c - 1 >? 0) = false) by (rewrite Z.gtb_ltb; apply Z.ltb_ge; lia).
        rewrite Eg1, Eg2, andb_true_r, andb_false_r. cbn [ind]. lia.
    + apply Z.eqb_neq in Ez. inversion Hod; subst; clear Hod.
      repeat split; try (intros; eapply Hcells; eassumption).
      * intros k0 Hk0. rewrite Hlen in Hk0. rewrite H2 by assumption.
        assert (E : dref_eqb (DRef k0) (DRef k) = false).
        { cbn. apply Nat.eqb_neq. assert (k < length refs)%nat by (apply nth_error_Some; congruence). lia. } rewrite E. reflexivity.
      * exact Hnn.
      * intros j. rewrite Hlive. cbn [dref_eqb ind]. specialize (H4 j).
        unfold livef. cbn [c' rc_target rc_count].
        assert (Eg1 : (rc_count c >? 0) = true) by (apply Z.gtb_lt; lia).
        assert (Eg2 : (rc_count c - 1 >? 0) = true) by (apply Z.gtb_lt; lia).
        rewrite Eg1, Eg2. lia.
Qed.

Lemma on_done_all_G : forall ds n refs fired tk err refs' fired',
  G n refs fired tk -> (forall x, occ x ds <= tk x) ->
  on_done_all ds err refs fired = (refs', fired') ->
  G n refs' fired' (fun x => tk x - occ x ds).
Proof.
  induction ds as [|d ds IH]; intros n refs fired tk err refs' fired' HG Hle H; cbn [on_done_all] in H.
  - inversion H; subst. eapply G_ext; [|exact HG]. intros x. unfold occ; simpl. lia.
  - destruct (on_done 2 d err refs fired) as [r1 f1] eqn:E1.
    assert (Hd : 1 <= tk d).
    { specialize (Hle d). rewrite occ_cons, dref_eqb_refl in Hle. pose proof (occ_nonneg d ds). cbn [ind] in Hle. lia. }
    pose proof (on_done_G _ _ _ _ _ _ _ _ HG Hd E1) as HG1.
    eapply G_ext; [|eapply (IH _ _ _ _ _ _ _ HG1 _ H)].
    + intros x. cbn beta. rewrite occ_cons. lia.
    Unshelve. intros x. cbn beta. specialize (Hle x). rewrite occ_cons in Hle. lia.
Qed.

(* ---- tokens held by a state ------------------------------------------------------------------ *)
Section Steps.
  Context {R : Type}.
  Variable msplit : R -> option R -> option (list R).
  Variable sizeof : R -> Z.
  Variable icount : R -> Z.
  Variable min_size : Z.
  Notation bst := (@bstate R).

  Definition cur_dones (st : bst) : list dref := match b_cur st with Some (_, ds) => ds | None => [] end.
  Definition fly_tokens (x : dref) (l : list (nat * R * list dref)) : Z := sumZf (fun f => occ x (snd f)) l.
  Definition tokens (st : bst) (x : dref) : Z := occ x (cur_dones st) + fly_tokens x (b_flying st).
  Definition Inv (n : nat) (st : bst) : Prop := G n (b_refs st) (b_fired st) (tokens st).

  Lemma fly_tokens_nonneg x l : 0 <= fly_tokens x l.
  Proof. apply sumZf_nonneg. intros; apply occ_nonneg. Qed.

  Lemma tok_start_flush (st : bst) r ds x : tokens (start_flush st r ds) x = tokens st x + occ x ds.
  Proof. unfold tokens, start_flush, cur_dones, fly_tokens; cbn [b_cur b_flying]. rewrite sumZf_app. cbn [sumZf snd]. lia. Qed.

  Lemma start_flush_rf (st : bst) r ds :
    b_refs (start_flush st r ds) = b_refs st /\ b_fired (start_flush st r ds) = b_fired st /\ b_cur (start_flush st r ds) = b_cur st.
  Proof. auto. Qed.

  Lemma start_flushes_spec : forall rs (st : bst) ds,
    b_refs (start_flushes st rs ds) = b_refs st /\ b_fired (start_flushes st rs ds) = b_fired st /\
    b_cur (start_flushes st rs ds) = b_cur st /\
    forall x, tokens (start_flushes st rs ds) x = tokens st x + Z.of_nat (length rs) * occ x ds.
  Proof.
    induction rs as [|r rs IH]; intros st ds; cbn [start_flushes].
    - repeat split; auto. intros x. cbn [length]. lia.
    - destruct (IH (start_flush st r ds) ds) as [A [B [C D]]]. repeat split; auto.
      intros x. rewrite D, tok_start_flush. cbn [length]. lia.
  Qed.

  Lemma tok_with_cur_none (st : bst) x : tokens (with_cur st None) x = fly_tokens x (b_flying st).
  Proof. unfold tokens, cur_dones. cbn [with_cur b_cur b_flying]. change (occ x []) with 0. lia. Qed.

  Lemma tok_with_cur_some (st : bst) r ds x : tokens (with_cur st (Some (r, ds))) x = occ x ds + fly_tokens x (b_flying st).
  Proof. reflexivity. Qed.

  Lemma unsnoc_length {A} : forall (l : list A) i la, unsnoc l = Some (i, la) -> length l = S (length i).
  Proof.
    induction l as [|x l IH]; intros i la H; cbn [unsnoc] in H; [discriminate|].
    destruct l as [|y l'].
    - inversion H; subst. reflexivity.
    - destruct (unsnoc (y :: l')) as [[i' la']|] eqn:E; [|discriminate]. inversion H; subst.
      pose proof (IH _ _ eq_refl) as Hl. cbn [length] in *. lia.
  Qed.

  Lemma park_last_spec (st : bst) rs d rs' st' :
    (rs <> [] -> b_cur st = None) -> park_last sizeof min_size st rs d = (rs', st') ->
    b_refs st' = b_refs st /\ b_fired st' = b_fired st /\
    forall x, tokens st' x + Z.of_nat (length rs') * occ x [d] = tokens st x + Z.of_nat (length rs) * occ x [d].
  Proof.
    intros Hcur H. unfold park_last in H. destruct (unsnoc rs) as [[ini la]|] eqn:E.
    - assert (Hne : rs <> []) by (intros ->; discriminate). specialize (Hcur Hne).
      destruct (sizeof la <? min_size).
      + inversion H; subst. repeat split; auto. intros x. rewrite tok_with_cur_some.
        unfold tokens, cur_dones. rewrite Hcur. rewrite (unsnoc_length _ _ _ E).
        change (occ x []) with 0. lia.
      + inversion H; subst. auto.
    - inversion H; subst. auto.
  Qed.

  Lemma take_flying_sum x : forall l b ds fl, take_flying b l = Some (ds, fl) ->
    fly_tokens x l = fly_tokens x fl + occ x ds.
  Proof.
    induction l as [|[[b' r] ds'] l IH]; intros b ds fl H; cbn [take_flying] in H; [discriminate|].
    destruct (Nat.eqb b b').
    - inversion H; subst. unfold fly_tokens; cbn [sumZf snd]. lia.
    - destruct (take_flying b l) as [[x0 t']|] eqn:E; [|discriminate]. inversion H; subst.
      unfold fly_tokens in *; cbn [sumZf snd]. rewrite (IH _ _ _ E). lia.
  Qed.

  (* ---- every event preserves the invariant --------------------------------------------------- *)
  Lemma inv_flush_current n st : Inv n st -> Inv n (flush_current st).
  Proof.
    unfold Inv, flush_current. destruct (b_cur st) as [[r ds]|] eqn:E; [|auto].
    intros HG. cbn [start_flush with_cur b_refs b_fired]. eapply G_ext; [|exact HG].
    intros x. rewrite tok_start_flush, tok_with_cur_none. unfold tokens, cur_dones. rewrite E. lia.
  Qed.

  Lemma inv_flush_result n st b err : Inv n st -> Inv n (flush_result st b err).
  Proof.
    unfold Inv, flush_result. intros HG. destruct (take_flying b (b_flying st)) as [[ds fl]|] eqn:E; [|exact HG].
    unfold fire. cbn [b_refs b_fired].
    destruct (on_done_all ds err (b_refs st) (b_fired st)) as [r' f'] eqn:Eo. cbn [b_refs b_fired].
    assert (Hle : forall x, occ x ds <= tokens st x).
    { intros x. unfold tokens. rewrite (take_flying_sum x _ _ _ _ E).
      pose proof (fly_tokens_nonneg x fl). pose proof (occ_nonneg x (cur_dones st)). lia. }
    eapply G_ext; [|exact (on_done_all_G _ _ _ _ _ _ _ _ HG Hle Eo)].
    intros x. cbn beta. unfold tokens, cur_dones. cbn [b_cur b_flying]. rewrite (take_flying_sum x _ _ _ _ E). lia.
  Qed.

  (* a new request whose MergeSplit failed (or returned nothing): its done fires at once *)
  Lemma inv_fire_new n st err : Inv n st -> Inv (S n) (fire st [DReq n] err).
  Proof.
    unfold Inv, fire. cbn [on_done_all on_done b_refs b_fired].
    intros [H1 [H2 [H3 H4]]].
    match goal with |- G _ _ _ (tokens ?s) => apply (G_ext _ _ _ (tokens st) (tokens s) (fun x => eq_refl)) end.
    repeat split.
    - destruct (H1 k c H) as [A _]; exact A.
    - destruct (H1 k c H) as [_ [A _]]. exact A.
    - destruct (H1 k c H) as [_ [_ A]]; exact A.
    - exact H2.
    - exact H3.
    - intros i. rewrite fcount_snoc. specialize (H4 i).
      destruct (Nat.eq_dec i n) as [->|Hne].
      + rewrite Nat.eqb_refl. assert ((n <? n)%nat = false) by (apply Nat.ltb_ge; lia). assert ((n <? S n)%nat = true) by (apply Nat.ltb_lt; lia).
        rewrite H in H4. rewrite H0. cbn [ind] in *. lia.
      + assert (E : Nat.eqb n i = false) by (apply Nat.eqb_neq; congruence). rewrite E. cbn [ind].
        assert (E2 : (i <? S n)%nat = (i <? n)%nat).
        { destruct (i <? n)%nat eqn:L; [apply Nat.ltb_lt in L; apply Nat.ltb_lt; lia|apply Nat.ltb_ge in L; apply Nat.ltb_ge; lia]. }
        rewrite E2. lia.
  Qed.

  (* a new request whose N >= 1 results each carry the (possibly wrapped) done exactly once *)
  Lemma inv_add_new n (st st' : bst) N :
    Inv n st -> (1 <= N)%nat ->
    let '(st1, d) := wrap_done st n N in
    b_refs st' = b_refs st1 -> b_fired st' = b_fired st1 ->
    (forall x, tokens st' x = tokens st x + Z.of_nat N * occ x [d]) ->
    Inv (S n) st'.
  Proof.
    unfold Inv. intros [H1 [H2 [H3 H4]]] HN. unfold wrap_done.
    assert (Hlt : forall i, i <> n -> (i <? S n)%nat = (i <? n)%nat).
    { intros i Hne. destruct (i <? n)%nat eqn:L; [apply Nat.ltb_lt in L; apply Nat.ltb_lt; lia|apply Nat.ltb_ge in L; apply Nat.ltb_ge; lia]. }
    assert (Hn0 : fcount n (b_fired st) = 0 /\ tokens st (DReq n) = 0 /\ live n (b_refs st) = 0).
    { specialize (H4 n). assert (E : (n <? n)%nat = false) by (apply Nat.ltb_ge; lia). rewrite E in H4. cbn [ind] in H4.
      pose proof (fcount_nonneg n (b_fired st)). pose proof (H3 (DReq n)). pose proof (live_nonneg n (b_refs st)). lia. }
    destruct Hn0 as [Hf0 [Ht0 Hl0]].
    destruct (1 <? N)%nat eqn:EN.
    - (* wrapped in a new refCountDone *)
      cbn [b_refs b_fired]. intros Er Ef Ht. rewrite Er, Ef. repeat split.
      + destruct (Nat.lt_ge_cases k (length (b_refs st))) as [Hk|Hk].
        * rewrite nth_error_app1 in H by assumption. destruct (H1 k c H) as [A _]; exact A.
        * rewrite nth_error_app2 in H by assumption. destruct (k - length (b_refs st))%nat as [|m] eqn:Em.
          -- cbn in H. inversion H; subst. cbn. eauto.
          -- cbn in H. destruct m; discriminate.
      + rewrite Ht, occ_one. destruct (Nat.lt_ge_cases k (length (b_refs st))) as [Hk|Hk].
        * rewrite nth_error_app1 in H by assumption. destruct (H1 k c H) as [_ [A _]].
          assert (E : dref_eqb (DRef k) (DRef (length (b_refs st))) = false) by (cbn; apply Nat.eqb_neq; lia).
          rewrite E. cbn [ind]. lia.
        * rewrite nth_error_app2 in H by assumption. destruct (k - length (b_refs st))%nat as [|m] eqn:Em.
          -- cbn in H. inversion H; subst. cbn [rc_count]. assert (k = length (b_refs st)) by lia. subst k.
             rewrite dref_eqb_refl, H2 by lia. cbn [ind]. lia.
          -- cbn in H. destruct m; discriminate.
      + destruct (Nat.lt_ge_cases k (length (b_refs st))) as [Hk|Hk].
        * rewrite nth_error_app1 in H by assumption. destruct (H1 k c H) as [_ [_ A]]; exact A.
        * rewrite nth_error_app2 in H by assumption. destruct (k - length (b_refs st))%nat as [|m] eqn:Em.
          -- cbn in H. inversion H; subst. cbn [rc_count]. lia.
          -- cbn in H. destruct m; discriminate.
      + intros k Hk. rewrite app_length in Hk. cbn [length] in Hk. rewrite Ht, occ_one, H2 by lia.
        assert (E : dref_eqb (DRef k) (DRef (length (b_refs st))) = false) by (cbn; apply Nat.eqb_neq; lia).
        rewrite E. cbn [ind]. lia.
      + intros x. rewrite Ht. pose proof (H3 x). pose proof (occ_nonneg x [DRef (length (b_refs st))]). nia.
      + intros i. rewrite Ht, occ_one. cbn [dref_eqb ind]. unfold live. rewrite sumZf_app. cbn [sumZf].
        fold (live i (b_refs st)). rewrite Z.add_0_r. unfold livef. cbn [rc_target rc_count dref_eqb].
        assert (Eg : (Z.of_nat N >? 0) = true) by (apply Z.gtb_lt; lia). rewrite Eg, andb_true_r.
        destruct (Nat.eq_dec i n) as [->|Hne].
        * rewrite Nat.eqb_refl. assert (E : (n <? S n)%nat = true) by (apply Nat.ltb_lt; lia). rewrite E. cbn [ind]. lia.
        * assert (E : Nat.eqb n i = false) by (apply Nat.eqb_neq; congruence). rewrite E, (Hlt i Hne). cbn [ind]. specialize (H4 i). lia.
    - (* a single result: the caller's done itself *)
      apply Nat.ltb_ge in EN. assert (N = 1)%nat by lia. subst N.
      intros Er Ef Ht. rewrite Er, Ef. repeat split.
      + destruct (H1 k c H) as [A _]; exact A.
      + rewrite Ht, occ_one. cbn [dref_eqb ind]. destruct (H1 k c H) as [_ [A _]]. lia.
      + destruct (H1 k c H) as [_ [_ A]]; exact A.
      + intros k Hk. rewrite Ht, occ_one. cbn [dref_eqb ind]. rewrite H2 by assumption. lia.
      + intros x. rewrite Ht. pose proof (H3 x). pose proof (occ_nonneg x [DReq n]). lia.
      + intros i. rewrite Ht, occ_one. cbn [dref_eqb]. rewrite (Nat.eqb_sym i n).
        destruct (Nat.eq_dec i n) as [->|Hne].
        * rewrite Nat.eqb_refl. assert (E : (n <? S n)%nat = true) by (apply Nat.ltb_lt; lia). rewrite E. cbn [ind]. lia.
        * assert (E : Nat.eqb n i = false) by (apply Nat.eqb_neq; congruence). rewrite E, (Hlt i Hne). cbn [ind]. specialize (H4 i). lia.
  Qed.
End Steps.

Section Run.
  Context {R : Type}.
  Variable msplit : R -> option R -> option (list R).
  Variable sizeof : R -> Z.
  Variable icount : R -> Z.
  Variable min_size : Z.
  Notation bst := (@bstate R).

  Lemma wrap_done_facts (st : bst) n N st1 d : wrap_done st n N = (st1, d) ->
    b_cur st1 = b_cur st /\ b_fired st1 = b_fired st /\ (forall x, tokens st1 x = tokens st x).
  Proof.
    unfold wrap_done. destruct (1 <? N)%nat; intros H; inversion H; subst; auto.
  Qed.

  Lemma inv_consume n (st : bst) r : Inv n st -> Inv (S n) (consume msplit sizeof icount min_size st n r).
  Proof.
    intros HI. unfold consume. destruct (b_cur st) as [[cur cds]|] eqn:Ecur.
    - destruct (msplit cur (Some r)) as [[|r0 rest]|]; try (apply inv_fire_new; exact HI).
      pose proof (inv_add_new n st) as Hadd.
      set (fhn := (Nat.eqb (length rest) 0 || negb (icount r0 =? icount cur))%bool).
      set (N := if fhn then S (length rest) else length rest).
      destruct (wrap_done st n N) as [st1 d] eqn:Ew.
      destruct (wrap_done_facts _ _ _ _ _ Ew) as [Hc1 [Hf1 Ht1]].
      set (cds' := if fhn then cds ++ [d] else cds).
      set (ff := ((0 <? length rest)%nat || negb (sizeof r0 <? min_size))%bool).
      set (st2 := with_cur st1 (if ff then None else Some (r0, cds'))).
      destruct (park_last sizeof min_size st2 rest d) as [rest' st3] eqn:Ep.
      assert (Hpre : rest <> [] -> b_cur st2 = None).
      { intros Hne. unfold st2, ff. destruct rest; [congruence|]. reflexivity. }
      destruct (park_last_spec sizeof min_size st2 rest d rest' st3 Hpre Ep) as [Hr3 [Hf3 Ht3]].
      set (st4 := if ff then start_flush st3 r0 cds' else st3).
      destruct (start_flushes_spec rest' st4 [d]) as [Hr5 [Hf5 [_ Ht5]]].
      assert (HN : (1 <= N)%nat).
      { unfold N, fhn. destruct (Nat.eqb (length rest) 0) eqn:E0; cbn [orb]; [lia|]. apply Nat.eqb_neq in E0. destruct (negb (icount r0 =? icount cur)); lia. }
      assert (Hocc : forall x, occ x cds' + Z.of_nat (length rest) * occ x [d] = occ x cds + Z.of_nat N * occ x [d]).
      { intros x. unfold cds', N. destruct fhn; [rewrite occ_app|]; lia. }
      specialize (Hadd (start_flushes st4 rest' [d]) N HI HN). rewrite Ew in Hadd.
      apply Hadd.
      + rewrite Hr5. unfold st4. destruct ff; [rewrite (proj1 (start_flush_rf _ _ _))|]; rewrite Hr3; reflexivity.
      + rewrite Hf5. unfold st4. destruct ff; [rewrite (proj1 (proj2 (start_flush_rf _ _ _)))|]; rewrite Hf3; reflexivity.
      + intros x. rewrite Ht5. specialize (Ht3 x). rewrite <- Ht1. specialize (Hocc x).
        assert (Hst1 : tokens st1 x = occ x cds + fly_tokens x (b_flying st1)).
        { unfold tokens, cur_dones. rewrite Hc1, Ecur. reflexivity. }
        unfold st4. destruct ff eqn:Eff.
        * rewrite tok_start_flush. unfold st2 in Ht3. rewrite tok_with_cur_none in Ht3. rewrite Hst1. lia.
        * unfold ff in Eff. apply orb_false_iff in Eff. destruct Eff as [El _]. apply Nat.ltb_ge in El.
          destruct rest; [|cbn in El; lia]. cbn [length] in *.
          unfold st2 in Ht3. rewrite tok_with_cur_some in Ht3.
          unfold park_last in Ep. cbn [unsnoc] in Ep. injection Ep as Hr' Hs3. subst rest'. cbn [length] in *. rewrite Hst1. lia.
    - destruct (msplit r None) as [[|r0 rest]|]; try (apply inv_fire_new; exact HI).
      pose proof (inv_add_new n st) as Hadd.
      destruct (wrap_done st n (length (r0 :: rest))) as [st1 d] eqn:Ew.
      destruct (wrap_done_facts _ _ _ _ _ Ew) as [Hc1 [Hf1 Ht1]].
      destruct (park_last sizeof min_size st1 (r0 :: rest) d) as [rs' st2] eqn:Ep.
      assert (Hpre : r0 :: rest <> [] -> b_cur st1 = None) by (intros _; rewrite Hc1; exact Ecur).
      destruct (park_last_spec sizeof min_size st1 (r0 :: rest) d rs' st2 Hpre Ep) as [Hr2 [Hf2 Ht2]].
      destruct (start_flushes_spec rs' st2 [d]) as [Hr3 [Hf3 [_ Ht3]]].
      assert (HN : (1 <= length (r0 :: rest))%nat) by (cbn [length]; lia).
      specialize (Hadd (start_flushes st2 rs' [d]) (length (r0 :: rest)) HI HN). rewrite Ew in Hadd.
      apply Hadd.
      + rewrite Hr3, Hr2. reflexivity.
      + rewrite Hf3, Hf2. reflexivity.
      + intros x. rewrite Ht3. specialize (Ht2 x). rewrite <- Ht1. lia.
  Qed.

  Lemma inv_init : Inv 0 (@b_init R).
  Proof.
    unfold Inv, b_init, G, tokens, cur_dones, fly_tokens. cbn [b_refs b_fired b_cur b_flying].
    split; [intros k c H; destruct k; discriminate|].
    split; [intros k _; reflexivity|].
    split; [intros x; unfold occ; simpl; lia|].
    intros i. reflexivity.
  Qed.

  Lemma inv_step sn e : Inv (snd sn) (fst sn) ->
    Inv (snd (bstep msplit sizeof icount min_size sn e)) (fst (bstep msplit sizeof icount min_size sn e)).
  Proof.
    destruct sn as [st n]. cbn [fst snd]. intros HI. destruct e; cbn [bstep fst snd].
    - apply inv_consume; exact HI.
    - apply inv_flush_current; exact HI.
    - apply inv_flush_result; exact HI.
    - apply inv_flush_current; exact HI.
  Qed.

  Lemma inv_run es : Inv (snd (brun msplit sizeof icount min_size es)) (fst (brun msplit sizeof icount min_size es)).
  Proof.
    unfold brun. rewrite <- fold_left_rev_right.
    induction (rev es) as [|e l IH]; cbn [fold_right]; [exact inv_init|]. apply inv_step. exact IH.
  Qed.

  (* ---- what the invariant says -------------------------------------------------------------- *)
  (* a parked or in-flight batch refers to request i: directly, or through a refCountDone that is still
     counting and wraps i's done *)
  Definition refers (st : bst) (i : nat) : Prop := 0 < tokens st (DReq i) \/ 0 < live i (b_refs st).

  Lemma done_at_most_once_l es i :
    fcount i (b_fired (fst (brun msplit sizeof icount min_size es))) <= 1.
  Proof.
    destruct (inv_run es) as [_ [_ [H3 H4]]]. specialize (H4 i). specialize (H3 (DReq i)).
    pose proof (live_nonneg i (b_refs (fst (brun msplit sizeof icount min_size es)))).
    destruct (i <? snd (brun msplit sizeof icount min_size es))%nat; cbn [ind] in H4; lia.
  Qed.

  Lemma done_only_after_batches_l es i :
    0 < fcount i (b_fired (fst (brun msplit sizeof icount min_size es))) ->
    ~ refers (fst (brun msplit sizeof icount min_size es)) i.
  Proof.
    intros Hf. destruct (inv_run es) as [_ [_ [H3 H4]]]. specialize (H4 i). specialize (H3 (DReq i)).
    pose proof (live_nonneg i (b_refs (fst (brun msplit sizeof icount min_size es)))).
    unfold refers. destruct (i <? snd (brun msplit sizeof icount min_size es))%nat; cbn [ind] in H4; lia.
  Qed.

  Lemma live_zero i : forall refs (tk : dref -> Z),
    (forall k c, nth_error refs k = Some c -> rc_count c = tk (DRef k)) -> (forall k, tk (DRef k) = 0) -> live i refs = 0.
  Proof.
    intros refs tk H1 H0. unfold live.
    assert (Hall : forall c, In c refs -> livef i c = 0).
    { intros c Hc. destruct (In_nth_error _ _ Hc) as [k Hk]. unfold livef. rewrite (H1 _ _ Hk), H0.
      rewrite andb_false_r. reflexivity. }
    clear H1. induction refs as [|c l IH]; [reflexivity|]. cbn [sumZf]. rewrite (Hall c (or_introl eq_refl)).
    rewrite IH; [reflexivity|]. intros c0 Hc0. apply Hall. now right.
  Qed.

  Lemma done_exactly_once_l es i :
    let st := fst (brun msplit sizeof icount min_size es) in
    b_cur st = None -> b_flying st = [] -> (i < snd (brun msplit sizeof icount min_size es))%nat ->
    fcount i (b_fired st) = 1.
  Proof.
    intros st Hc Hf Hi. destruct (inv_run es) as [H1 [_ [_ H4]]]. fold st in H1, H4. specialize (H4 i).
    assert (Htk : forall x, tokens st x = 0).
    { intros x. unfold tokens, cur_dones, fly_tokens. rewrite Hc, Hf. reflexivity. }
    rewrite Htk in H4.
    rewrite (live_zero i (b_refs st) (tokens st)) in H4.
    - apply Nat.ltb_lt in Hi. rewrite Hi in H4. cbn [ind] in H4. lia.
    - intros k c Hk. destruct (H1 k c Hk) as [_ [A _]]. exact A.
    - intros k. apply Htk.
  Qed.

  (* the number of requests seen so far = number of consume events *)
  Lemma run_count es : snd (brun msplit sizeof icount min_size es) =
    length (filter (fun e => match e with EConsume _ => true | _ => false end) es).
  Proof.
    unfold brun.
    assert (H : forall l st n, snd (fold_left (bstep msplit sizeof icount min_size) l (st, n)) =
              (n + length (filter (fun e => match e with EConsume _ => true | _ => false end) l))%nat).
    { induction l as [|e l IH]; intros st n; cbn [fold_left filter]; [cbn; lia|].
      destruct e; cbn [bstep]; rewrite IH; cbn [length]; lia. }
    rewrite H. lia.
  Qed.
End Run.
