(* C04/Witness.v — non-vacuity examples and concrete evaluations. *)
From Verif Require Import Common.Base C04.Model C04.Harness C04.Proofs C04.Proofs2 C04.Proofs3 C04.Proofs4.
Local Open Scope Z_scope.

(* F4 in numbers: the fragment that leaves first carries identity 0 instead of 7 *)
Example ex_f4 :
  option_map (map (fun r => mflat (mrp r))) (mmerge_split Items 1 f4_req None)
  = Some [[(100, 1, 2, 0, 1)]; [(101, 1, 2, 7, 1)]].
Proof. vm_compute. reflexivity. Qed.

(* the hypotheses of merge_split_conserves_partial are satisfiable by a non-trivial payload *)
Example ex_wf_f4 : wf_mpayload Bytes (mrp f4_req).
Proof. repeat constructor; cbn; lia. Qed.

(* hypotheses of split_terminates / all_but_last_full / batch_size_bound / cached_size_exact: a fresh logs
   request with 5 records in 2 resources satisfies size_ok, and the theorem's conclusion in numbers *)
Definition five : req := req_of
  ((-1), [(1, 10, [(1, 10, [(1, 5, 1); (2, 5, 1)]); (2, 10, [(3, 5, 1)])]); (2, 12, [(1, 10, [(4, 5, 1); (5, 5, 1)])])]).

Example ex_size_ok : size_ok five.
Proof. apply fresh_size_ok. Qed.

Example ex_items_split :
  option_map (map (fun r => (rcached r, map fst (map fst (flat (rp r)))))) (merge_split w_unit Items 2 five None)
  = Some [(-1, [1; 2]); (-1, [3; 4]); (1, [5])].
Proof. vm_compute. reflexivity. Qed.

(* a memo that is already known (exact) also satisfies size_ok *)
Example ex_size_ok_cached : size_ok {| rp := rp five; rcached := 5 |}.
Proof. vm_compute. reflexivity. Qed.

(* metrics: msize_ok is satisfiable *)
Example ex_msize_ok : msize_ok f4_req.
Proof. apply mfresh_size_ok. repeat constructor. Qed.

(* batcher: request 0 (ids 1..5, max 2, min 2) is spread over three batches, the last one parked and later
   merged with request 1; results arrive out of order, one of them failing *)
Definition hist : list (@bevent lreq) :=
  [EConsume ([1; 2; 3; 4; 5], false); EConsume ([6], false); EResult 1 false; EResult 2 true; EResult 0 false; EShutdown].

Example ex_hist :
  let st := fst (brun (lsplit 0 2) lsizeof lsizeof 2 hist) in
  (b_fired st, b_cur st, b_flying st) = ([(1%nat, true); (0%nat, true)], None, []).
Proof. vm_compute. reflexivity. Qed.

(* the hypotheses of done_exactly_once hold at the end of that history, and both requests are below the count *)
Example ex_hist_quiescent :
  let st := fst (brun (lsplit 0 2) lsizeof lsizeof 2 hist) in
  b_cur st = None /\ b_flying st = [] /\
  length (filter (fun e => match e with EConsume _ => true | _ => false end) hist) = 2%nat /\
  fcount 0 (b_fired st) = 1 /\ fcount 1 (b_fired st) = 1.
Proof. vm_compute. repeat split; reflexivity. Qed.

(* done_only_after_batches is not vacuous: before the last result, request 0 is still referred to *)
Example ex_hist_refers :
  let st := fst (brun (lsplit 0 2) lsizeof lsizeof 2 (firstn 4 hist)) in
  fcount 0 (b_fired st) = 0 /\ 0 < live 0 (b_refs st).
Proof. vm_compute. split; reflexivity. Qed.

(* the hypothesis of merge_split_conserves: profiles with samples (items sizer), any payload with non-negative
   measured sizes (bytes sizer) *)
Example ex_wf_prof : wf_p w_samples Items (rp prof_req2) /\ wf_p w_unit Bytes (rp f5_req).
Proof. split; repeat constructor; cbn; lia. Qed.

(* ... and for the items sizer it cannot be dropped: a profile WITHOUT samples in front of an oversized one is extracted, the
   extraction removed size 0, the oversized profile is isolated and the extracted payload (with the sample-less profile)
   is discarded *)
Example ex_empty_profile_dropped :
  option_map (map (fun r => map iid (items_of (rp r))))
    (merge_split w_samples Items 3
       (req_of ((-1), [(1, 10, [(1, 10, [(7, 20, 0); (8, 40, 5); (9, 40, 1)])])])) None)
  = Some [[8]; [9]].
Proof. vm_compute. reflexivity. Qed.

(* witnesses of the open findings are in Proofs4.v (emptyfrag_witness, drift_witness), with the regressions of the repaired
   ones (below); the bytes split of the F5 input does split when the
   record fits, and profiles are split by samples: *)
Example ex_f5_fits : exists out, merge_split w_unit Bytes 100 f5_req None = Some out /\ length out = 2%nat.
Proof. exact f5_fits. Qed.
Example ex_prof_split : summary w_samples Items (merge_split w_samples Items 2 prof_req2 None)
  = Some [(-1, 2, 1%nat); (-1, 2, 1%nat); (1, 1, 1%nat)].
Proof. exact prof_split_ok. Qed.

(* regression of the former C04-FRAGPREFIX input (repaired by 9e189f99b; it used to give a first batch of 430 bytes):
   metrics, bytes sizer, max_size 429: every batch is within the limit *)
Example ex_fragprefix :
  option_map (map (fun r => (mpayload_size Bytes (mrp r), length (mpoints_of (mrp r)))))
    (mmerge_split Bytes 429 (mreq_of (726,[(1,70,[(6,81,[(5,5,35,0,[]);(1,4,54,2,[(1376,55,1);(1377,95,1);(1378,35,1);(1379,35,1);(1380,44,1)])]);(6,81,[(1,3,54,2,[(1381,48,1)])])])])) None)
  = Some [(393, 3%nat); (388, 2%nat); (267, 1%nat)].
Proof. vm_compute. reflexivity. Qed.

(* the former C04-ITEMLESS-BREAK input is now split: the record-less resource first, then one record per batch *)
Example ex_itemless_now_split :
  option_map (map (fun r => (payload_size w_unit Bytes (rp r), length (items_of (rp r)))))
    (merge_split w_unit Bytes 429 ib_a (Some ib_b))
  = Some [(387, 0%nat); (374, 1%nat); (398, 1%nat)].
Proof. vm_compute. reflexivity. Qed.

(* results that are NOT filled to max (slack 1), min_size = max_size = 4: a parked request [1] is merged with
   [2..7]; MergeSplit returns [1;2;3] (below min_size!), [4;5;6;7]: the first result is flushed although it
   is below min_size because more than one result came back (the `len(reqList) > 1` disjunct of Consume), the last
   one is parked; nothing is lost and both callbacks fire once all batches return *)
Example ex_first_result_below_min :
  let st := fst (brun (lsplit 1 4) lsizeof lsizeof 4
                   [EConsume ([1], false); EConsume ([2; 3; 4; 5; 6; 7], false); EShutdown;
                    EResult 0 false; EResult 1 false; EResult 2 false]) in
  (map (fun x => fst (snd (fst x))) (b_flying st), b_fired st, b_cur st)
  = ([], [(0%nat, false); (1%nat, false)], None) /\
  lsplit 1 4 ([1], false) (Some ([2; 3; 4; 5; 6; 7], false)) = Some [([1; 2; 3], false); ([4; 5; 6; 7], false)].
Proof. vm_compute. split; reflexivity. Qed.

(* round 3: the hypotheses of cached_size_exact_any_sizer / batch_size_bound_any_sizer are satisfiable (fresh
   request, unknown memo; warm memo), and the conclusions in numbers on the F5 input at max_size 100 *)
From Verif Require Import C04.Proofs6 C04.Proofs7.
Example ex_memo_ok : memo_ok w_unit Bytes f5_req /\ memo_ok w_unit Bytes {| rp := rp f5_req; rcached := 101 |}.
Proof. split; [left; reflexivity|right; vm_compute; reflexivity]. Qed.
Example ex_bytes_bound_numbers :
  summary w_unit Bytes (merge_split w_unit Bytes 100 f5_req None) = Some [(-1, 96, 1%nat); (29, 29, 1%nat)].
Proof. vm_compute. reflexivity. Qed.

(* the error specification on the history of ex_hist: batch 2 (ids [5;6], attached to requests 0 and 1) failed *)
Example ex_spec_err :
  let E := snd (erun (lsplit 0 2) lsizeof lsizeof 2 hist) in (E 0%nat, E 1%nat, E 2%nat) = (true, true, false).
Proof. vm_compute. reflexivity. Qed.

(* round 5: batcher_conserves / done_only_after_batches_items are not vacuous: the foreign-error history is a
   well-formed history, and the ghosts in numbers (everything exported at the end, nothing parked or in flight) *)
From Verif Require Import C04.Proofs8 C04.Checker.
Example ex_wf_events : wf_events w_unit Bytes fe_hist.
Proof.
  assert (Hu : forall p, pos_items w_unit p) by (intros p i _; unfold w_unit; lia).
  intros r H. split; [|apply Hu]. cbn in H. destruct H as [H|[H|H]].
  - injection H as <-. repeat constructor; cbn; lia.
  - injection H as <-. repeat constructor; cbn; lia.
  - repeat (destruct H as [H|H]; [discriminate H|]). destruct H.
Qed.
Example ex_crun :
  let '(st, n, rs, ok, F) := crun w_unit Bytes 120 120 fe_hist in
  (cur_items st, fly_items st, map iid F, map iid ok, length rs) = ([], [], [1; 2; 3; 4], [1; 2; 3; 4], 2%nat).
Proof. vm_compute. reflexivity. Qed.
(* the clause checker on a recorded case: a logs split at max 2 items *)
Example ex_checker :
  clause_code (CL3 0 0 2 ((-1), [(1, 10, [(1, 10, [(1, 5, 1); (2, 5, 1); (3, 5, 1)])])]) None
                   (Some [((-1), 2, [(1, [(1, [1; 2])])]); (1, 1, [(1, [(1, [3])])])])) = 0 /\
  clause_code (CL3 0 0 2 ((-1), [(1, 10, [(1, 10, [(1, 5, 1); (2, 5, 1); (3, 5, 1)])])]) None
                   (Some [((-1), 2, [(1, [(1, [1; 2])])])])) = 2.
Proof. vm_compute. split; reflexivity. Qed.

(* ---- after the repairs 9e189f99b / ffc8e5fcc / 6f74b829b: regressions of the former failing inputs ---------- *)
(* former C04-OVERSIZED-REMAINDER inputs: the unit that does not fit now leaves alone (it gave one request of 101 bytes
   holding both records; one request of 6 samples holding both profiles) *)
Example ex_oversized_regression :
  summary w_unit Bytes (merge_split w_unit Bytes 30 f5_req None) = Some [(-1, 96, 1%nat); (29, 29, 1%nat)] /\
  summary w_samples Items (merge_split w_samples Items 3 prof_req None) = Some [(-1, 5, 1%nat); (1, 1, 1%nat)].
Proof. split; [exact oversized_remainder_witness|exact prof_oversized_witness]. Qed.

(* former C04-DONE-FOREIGN-ERROR histories: only the export of batch 0 fails; request 2 (slack requests) / request 1
   (payload requests), none of whose items is in batch 0, now reports success (it reported an error) *)
Example ex_foreign_regression :
  model_bat 2 3 3 foreign_evs = ([[1;2];[3;4;5];[6;7]], [(0,1);(1,1);(2,0)]) /\
  b_fired (fst (brun (msplitC w_unit Bytes 120) (sizeofC w_unit Bytes) (icountC w_unit) 120 fe_hist)) = [(0%nat, true); (1%nat, false)].
Proof. split; [exact foreign_error_witness|exact (proj2 foreign_error_payload_witness)]. Qed.

(* batch_size_bound_one_item: the item-less oversized remainder exists (a record-less resource of 300 header bytes,
   max_size 100): last request, 315 bytes, no record; and its hypotheses hold for that input *)
Definition itemless_big : req := req_of ((-1), [(1, 10, [(1, 10, [(1, 20, 1)])]); (2, 300, [(1, 10, [])])]).
Example ex_itemless_oversized :
  summary w_unit Bytes (merge_split w_unit Bytes 100 itemless_big None) = Some [(-1, 46, 1%nat); (315, 315, 0%nat)] /\
  wf_p w_unit Bytes (rp itemless_big) /\ memo_ok w_unit Bytes itemless_big.
Proof. split; [vm_compute; reflexivity|]. split; [repeat constructor; cbn; lia|left; reflexivity]. Qed.

(* attach_rule_items on the payload history: hypotheses satisfiable (fe_a parked, fe_b new), both cases of [attach] occur
   in the slack history above (request 2 not attached to [1;2]) and here (attached: the first result takes record 2) *)
Example ex_attach_rule :
  wf_p w_unit Bytes (rp fe_a) /\ wf_p w_unit Bytes (rp fe_b) /\ pos_items w_unit (rp fe_b) /\ psum w_unit Bytes (rp fe_a) <= 200 /\
  option_map (map (fun r => map iid (ritems r))) (merge_split w_unit Bytes 200 fe_a (Some fe_b)) = Some [[1; 2]; [3; 4]].
Proof.
  split; [repeat constructor; cbn; lia|]. split; [repeat constructor; cbn; lia|]. split; [intros i _; unfold w_unit; lia|].
  split; vm_compute; [discriminate|reflexivity].
Qed.

(* ---- the link theorems are not vacuous ---------------------------------------------------------------------------- *)
From Verif Require Import C04.Link.
(* guard_l3 holds for a profiles request (samples 2, 2, 1; items sizer, max 2), for the F5 input (bytes, max 30: a
   record that does not fit alone) and for a merge of two logs requests with a warm exact memo; and the conclusion
   in numbers *)
Definition prof_t : treq := ((-1), [(1, 10, [(1, 10, [(1, 40, 2); (2, 40, 2); (3, 40, 1)])])]).
Definition f5_t : treq := ((-1), [(1, 10, [(1, 10, [(1, 70, 1); (2, 3, 1)])])]).
Definition warm_t : treq := (2, [(2, 12, [(1, 10, [(4, 5, 1); (5, 5, 1)])])]).
Example ex_guard_l3 :
  guard_l3 2 0 2 prof_t None = true /\ guard_l3 0 1 30 f5_t None = true /\ guard_l3 0 0 3 f5_t (Some warm_t) = true /\
  clause_code (CL3 2 0 2 prof_t None (model_l3 2 0 2 prof_t None)) = 0 /\
  model_l3 0 1 30 f5_t None = Some [((-1), 96, [(1, [(1, [1])])]); (29, 29, [(1, [(1, [2])])])].
Proof. vm_compute. repeat split; reflexivity. Qed.
(* the guard is needed: a memo that overstates the size makes the model's cached-size clause fail *)
Example ex_guard_needed :
  guard_l3 0 0 3 (7, snd f5_t) None = false /\ clause_code (CL3 0 0 3 (7, snd f5_t) None (model_l3 0 0 3 (7, snd f5_t) None)) <> 0.
Proof. vm_compute. split; [reflexivity|discriminate]. Qed.

(* model_passes_checker_batcher_done: a history over ids requests that ends quiescent (request 0 spread over three
   batches, one export failing), and the whole checker on the model's own observation *)
Definition hist_t : list tbev :=
  [(0, [1; 2; 3; 4; 5], 0); (0, [6], 0); (2, [1], 0); (2, [2], 1); (2, [0], 0); (3, [], 0); (2, [3], 0)].
Example ex_bat_done :
  let st := fst (brun (lsplit 0 2) lsizeof lsizeof 2 (map bev_of hist_t)) in
  b_cur st = None /\ b_flying st = [] /\ length (ev_reqs hist_t) = 2%nat /\
  (let '(bs, fired) := model_bat 0 2 2 hist_t in clause_code (CBat 2 2 0 hist_t bs fired)) = 0.
Proof. vm_compute. repeat split; reflexivity. Qed.

(* split_terminates_metrics: its hypotheses hold for the recorded CACHEDRIFT input (exact memo 783) and the EMPTYFRAG input
   (unknown memo) *)
From Verif Require Import C04.Proofs10.
Example ex_memo_ge : memo_ge drift_req /\ memo_ge emptyfrag_req /\ wf_mpayload Bytes (mrp drift_req).
Proof. split; [right; vm_compute; discriminate|]. split; [left; reflexivity|]. repeat constructor; cbn; lia. Qed.
