(* C04/Checker.v — a decidable checker of the property's clauses over the OBSERVED behaviour of the implementation
   (the case terms of the correspondence run), independent of the model's step functions.  [clause_code c] is 0 when
   every clause holds of the observation, otherwise the number of the first violated clause.  Definitions only; the
   soundness proofs (boolean = Prop-level clause) are in CheckerProofs.v. *)
From Verif Require Import Common.Base C04.Model.
From Verif Require Export C04.Harness.
Local Open Scope Z_scope.

Definition dec3 : forall a b : Z * Z * Z, {a = b} + {a <> b}.
Proof. decide equality; try apply Z.eq_dec. decide equality; apply Z.eq_dec. Defined.
Definition dec5 : forall a b : Z * Z * Z * Z * Z, {a = b} + {a <> b}.
Proof. repeat (decide equality; try apply Z.eq_dec). Defined.

(* multiset equality *)
Definition perm_b {A} (dec : forall a b : A, {a = b} + {a <> b}) (l1 l2 : list A) : bool :=
  forallb (fun x => Nat.eqb (count_occ dec l1 x) (count_occ dec l2 x)) (l1 ++ l2).

Definition memZ (x : Z) (l : list Z) : bool := existsb (Z.eqb x) l.

(* ---- MergeSplit of logs / traces / profiles ------------------------------------------------------------ *)
(* items that count (profiles: a profile without samples holds no telemetry item) *)
Definition in_flat3 (t : treq) : list (Z * Z * Z) :=
  concat (map (fun r : tres => let '(rc, _, scs) := r in
    concat (map (fun s : tscope => let '(sc, _, its) := s in
      concat (map (fun i : titem => let '(id, _, cnt) := i in if 0 <? cnt then [(id, rc, sc)] else []) its)) scs)) (snd t)).
Definition zero_ids3 (t : treq) : list Z :=
  concat (map (fun r : tres => let '(_, _, scs) := r in
    concat (map (fun s : tscope => let '(_, _, its) := s in
      concat (map (fun i : titem => let '(id, _, cnt) := i in if 0 <? cnt then [] else [id]) its)) scs)) (snd t)).
Definition out_flat3 (o : tout3) : list (Z * Z * Z) :=
  let '(_, _, sh) := o in
  concat (map (fun r : Z * list (Z * list Z) => concat (map (fun s : Z * list Z => map (fun id => (id, fst r, fst s)) (snd s)) (snd r))) sh).
(* number of units of o that hold items: ids of sample-less profiles ([zeros]) do not count *)
Definition out_n3 (zeros : list Z) (o : tout3) : nat := length (filter (fun x => negb (memZ (fst (fst x)) zeros)) (out_flat3 o)).
Definition out_size3 (o : tout3) : Z := let '(_, s, _) := o in s.
Definition out_cached3 (o : tout3) : Z := let '(c, _, _) := o in c.

Definition opt_flat3 (b : option treq) : list (Z * Z * Z) := match b with Some t => in_flat3 t | None => [] end.
Definition opt_zero3 (b : option treq) : list Z := match b with Some t => zero_ids3 t | None => [] end.

Definition wf_treq (t : treq) : bool :=
  forallb (fun r : tres => let '(_, h, scs) := r in (0 <=? h) &&
    forallb (fun s : tscope => let '(_, h2, its) := s in (0 <=? h2) &&
      forallb (fun i : titem => let '(_, raw, cnt) := i in (0 <=? raw) && (0 <=? cnt)) its) scs) (snd t).

(* size bound: a batch may exceed max_size only when it holds exactly one item — or when it is the LAST one and holds no
   item at all (a childless container larger than max_size cannot be split) *)
Definition size_clause3 (zeros : list Z) (max : Z) (outs : list tout3) : bool :=
  (max =? 0) ||
  (forallb (fun o => (out_size3 o <=? max) || Nat.eqb (out_n3 zeros o) 1) (removelast outs) &&
   match last_opt outs with
   | Some o => (out_size3 o <=? max) || Nat.leb (out_n3 zeros o) 1
   | None => true
   end).

(* clause numbers: 1 termination, 2 conservation with context, 3 size bound, 4 cached size, 5 all-but-last full,
   9 measured sizes negative (the hypothesis of the theorems) *)
Definition clauses_l3 (signal sz max : Z) (a : treq) (b : option treq) (obs : option (list tout3)) : Z :=
  if negb (wf_treq a && match b with Some t => wf_treq t | None => true end) then 9 else
  match obs with
  | None => 1
  | Some outs =>
    let zeros := zero_ids3 a ++ opt_zero3 b in
    let got := filter (fun x => negb (memZ (fst (fst x)) zeros)) (concat (map out_flat3 outs)) in
    if negb (perm_b dec3 got (in_flat3 a ++ opt_flat3 b)) then 2
    else if negb (size_clause3 zeros max outs) then 3
    else if negb (forallb (fun o => (out_cached3 o =? -1) || (out_cached3 o =? out_size3 o)) outs) then 4
    else if (sz =? 0) && negb (signal =? 2) && negb (max =? 0) &&
            negb (forallb (fun o => out_size3 o =? max) (removelast outs)) then 5
    else 0
  end.

(* ---- MergeSplit of metrics ------------------------------------------------------------------------------ *)
Definition in_flat4 (t : tmreq) : list (Z * Z * Z * Z * Z) :=
  concat (map (fun r : tmres => let '(rc, _, scs) := r in
    concat (map (fun s : tmscope => let '(sc, _, ms) := s in
      concat (map (fun m : tmetric => let '(ident, kind, _, _, pts) := m in
        map (fun i : titem => (fst (fst i), rc, sc, ident, kind)) pts) ms)) scs)) (snd t)).
Definition out_flat4 (o : tout4) : list (Z * Z * Z * Z * Z) :=
  let '(_, _, sh) := o in
  concat (map (fun r : Z * list (Z * list (Z * Z * list Z)) => concat (map (fun s : Z * list (Z * Z * list Z) =>
    concat (map (fun m : Z * Z * list Z => let '(ident, kind, ids) := m in map (fun id => (id, fst r, fst s, ident, kind)) ids) (snd s))) (snd r))) sh).
Definition out_size4 (o : tout4) : Z := let '(_, s, _) := o in s.
Definition out_cached4 (o : tout4) : Z := let '(c, _, _) := o in c.
Definition opt_flat4 (b : option tmreq) := match b with Some t => in_flat4 t | None => [] end.

Definition clauses_m4 (sz max : Z) (a : tmreq) (b : option tmreq) (obs : option (list tout4)) : Z :=
  match obs with
  | None => 1
  | Some outs =>
    if negb (perm_b dec5 (concat (map out_flat4 outs)) (in_flat4 a ++ opt_flat4 b)) then 2
    else if negb ((max =? 0) ||
                  (forallb (fun o => (out_size4 o <=? max) || Nat.eqb (length (out_flat4 o)) 1) (removelast outs) &&
                   match last_opt outs with
                   | Some o => (out_size4 o <=? max) || Nat.leb (length (out_flat4 o)) 1
                   | None => true
                   end)) then 3
    else if negb (forallb (fun o => (out_cached4 o =? -1) || (out_cached4 o =? out_size4 o)) outs) then 4
    else if (sz =? 0) && negb (max =? 0) && negb (forallb (fun o => out_size4 o =? max) (removelast outs)) then 5
    else 0
  end.

(* ---- batcher histories --------------------------------------------------------------------------------- *)
(* requests in consume order: (ids, foreign) *)
Definition ev_reqs (evs : list tbev) : list (list Z * bool) :=
  concat (map (fun e : tbev => let '(k, ids, x) := e in if k =? 0 then [(ids, negb (x =? 0))] else []) evs).
Definition inter_b (l1 l2 : list Z) : bool := existsb (fun x => memZ x l2) l1.

(* [failed b ids]: the export of the batch (number b, ids) returned an error *)
Definition clauses_bat (max : Z) (failed : nat -> list Z -> bool) (evs : list tbev)
           (batches : list (list Z)) (fired : list (Z * Z)) : Z :=
  let reqs := ev_reqs evs in
  let idx := seq 0 (length reqs) in
  (* 6: every callback exactly once *)
  if negb (forallb (fun i => Nat.eqb (count_occ Z.eq_dec (map fst fired) (Z.of_nat i)) 1) idx) then 6
  (* 2: every id of a request whose MergeSplit succeeded is exported exactly once, nothing else is *)
  else if negb (perm_b Z.eq_dec (concat batches) (concat (map (fun r : list Z * bool => if snd r then [] else fst r) reqs))) then 2
  (* 3: batch size *)
  else if negb ((max =? 0) || forallb (fun b => Z.of_nat (length b) <=? max) batches) then 3
  (* 7: error iff its own MergeSplit failed or a batch holding one of its ids failed *)
  else if negb (forallb (fun i =>
         let '(ids, foreign) := nth i reqs ([], false) in
         let want := foreign || existsb (fun nb => inter_b (snd nb) ids && failed (fst nb) (snd nb)) (combine (seq 0 (length batches)) batches) in
         match ids, foreign with
         | [], false => true                                  (* an empty request holds no item: no claim *)
         | _, _ => forallb (fun p => negb (fst p =? Z.of_nat i) || Bool.eqb (negb (snd p =? 0)) want) fired
         end) idx) then 7
  else 0.

Definition failed_by_number (evs : list tbev) (b : nat) (_ : list Z) : bool :=
  existsb (fun e : tbev => let '(k, ids, x) := e in (k =? 2) && (hd (-1) ids =? Z.of_nat b) && negb (x =? 0)) evs.
Definition failed_by_first_id (evs : list tbev) (_ : nat) (ids : list Z) : bool :=
  existsb (fun e : tbev => let '(k, key, x) := e in (k =? 2) && (hd (-1) key =? hd (-2) ids) && negb (x =? 0)) evs.

Definition ids_of_treq (t : treq) : list Z := map (fun x => fst (fst x)) (in_flat3 t) ++ zero_ids3 t.

Definition clause_code (c : ccase) : Z :=
  match c with
  | CL3 sg sz max a b obs => clauses_l3 sg sz max a b obs
  | CM4 sz max a b obs => clauses_m4 sz max a b obs
  | CBat _ mx _ evs bs fired => clauses_bat mx (failed_by_number evs) evs bs fired
  | CBatC _ mx _ _ evs bs fired => clauses_bat mx (failed_by_first_id evs) evs bs fired
  | CE2E _ _ _ _ reqs bs =>
    if perm_b Z.eq_dec (concat bs) (concat (map (fun t => map (fun x => fst (fst x)) (in_flat3 t) ++ zero_ids3 t) reqs)) then 0 else 2
  | _ => 0
  end.

Definition prop_ok (c : ccase) : bool := clause_code c =? 0.
