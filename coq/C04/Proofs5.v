(* C04/Proofs5.v — the statements of Properties.v that need a few lines of glue. *)
From Verif Require Import Common.Base C04.Model C04.Proofs C04.Proofs2 C04.Proofs3 C04.Proofs4 C04.Proofs6 C04.Proofs7 C04.Harness.
From Coq Require Import Permutation.
Local Open Scope Z_scope.

Lemma merge_split_conserves_refuted_l :
  exists sz max a out, mmerge_split sz max a None = Some out /\
    ~ Permutation (mflat_reqs out) (mflat (mrp a)).
Proof. destruct f4_witness as [out [H1 [H2 _]]]. exact (ex_intro _ Items (ex_intro _ 1 (ex_intro _ f4_req (ex_intro _ out (conj H1 H2))))). Qed.

Lemma all_but_last_full_l : forall max a b, 1 <= max -> size_ok a -> size_ok_opt b ->
  exists ds last, merge_split w_unit Items max a b = Some (ds ++ [last]) /\
    Forall (fun r => count (rp r) = max) ds /\ count (rp last) <= max.
Proof.
  intros max a b H1 H2 H3. destruct (merge_split_items_l max a b H1 H2 H3) as [ds [last [H [F [L _]]]]].
  exists ds, last. split; [exact H|]. split; [|exact L].
  exact (Forall_impl _ (fun r (Hr : full_batch max r) => proj1 Hr) F).
Qed.

Lemma batch_size_bound_l : forall max a b out q, 1 <= max -> size_ok a -> size_ok_opt b ->
  merge_split w_unit Items max a b = Some out -> In q out -> count (rp q) <= max.
Proof.
  intros max a b out q H1 H2 H3 E Hq. destruct (merge_split_items_l max a b H1 H2 H3) as [ds [last [H [F [L _]]]]].
  rewrite H in E. inversion E; subst out. apply in_app_or in Hq. destruct Hq as [Hq|[<-|[]]]; [|exact L].
  destruct (proj1 (Forall_forall _ _) F q Hq) as [Hc _]. lia.
Qed.

Lemma cached_size_exact_l : forall max a b out q, 1 <= max -> size_ok a -> size_ok_opt b ->
  merge_split w_unit Items max a b = Some out -> In q out -> rcached q = -1 \/ rcached q = count (rp q).
Proof.
  intros max a b out q H1 H2 H3 E Hq. destruct (merge_split_items_l max a b H1 H2 H3) as [ds [last [H [F [_ C]]]]].
  rewrite H in E. inversion E; subst out. apply in_app_or in Hq. destruct Hq as [Hq|[<-|[]]]; [|right; exact C].
  left. exact (proj2 (proj1 (Forall_forall _ _) F q Hq)).
Qed.

Lemma no_limit_no_split_l : forall w sz a b,
  merge_split w sz 0 a b = Some [merged w sz a b] /\ forall ma mb, mmerge_split sz 0 ma mb = Some [mmerged sz ma mb].
Proof. intros w sz a b. split; [apply merge_split_max0|intros; apply mmerge_split_max0]. Qed.

Lemma batch_size_bound_refuted_l : exists max a out q,
  mmerge_split Bytes max a None = Some out /\ In q out /\
  max < mpayload_size Bytes (mrp q) /\ length (mpoints_of (mrp q)) = 2%nat.
Proof.
  exists 746, emptyfrag_req. eexists; eexists. split; [vm_compute; reflexivity|]. split; [left; reflexivity|].
  split; vm_compute; reflexivity.
Qed.

Lemma cached_size_exact_refuted_l : exists max a out q,
  mrcached a = mpayload_size Bytes (mrp a) /\
  mmerge_split Bytes max a None = Some out /\ In q out /\
  mrcached q <> -1 /\ mrcached q <> mpayload_size Bytes (mrp q).
Proof.
  exists 685, drift_req. eexists; eexists. split; [exact drift_req_exact|]. split; [vm_compute; reflexivity|].
  split; [right; left; reflexivity|]. split; vm_compute; discriminate.
Qed.

Section Batcher.
  Context {R : Type}.
  Variable msplit : R -> option R -> option (list R).
  Variable sizeof : R -> Z.
  Variable icount : R -> Z.
  Variable min_size : Z.

  Lemma done_exactly_once_l2 : forall es i,
    let st := fst (brun msplit sizeof icount min_size es) in
    b_cur st = None -> b_flying st = [] ->
    (i < length (filter (fun e => match e with EConsume _ => true | _ => false end) es))%nat ->
    fcount i (b_fired st) = 1.
  Proof.
    intros es i st Hc Hf Hi. apply (done_exactly_once_l msplit sizeof icount min_size es i Hc Hf).
    rewrite run_count. exact Hi.
  Qed.
End Batcher.
