(* C04/Model.v — executable model of exporter-side batching (merge / split / done accounting).
   Code modelled, function by function:
     exporter/exporterhelper/logs_batch.go, traces_batch.go, xexporterhelper/profiles_batch.go
        (MergeSplit, mergeTo, split, extractX, extractResourceX, extractScopeX)        -> section L3
     exporter/exporterhelper/metrics_batch.go (the same + extractScopeMetrics,
        extractMetricDataPoints, extract{Gauge,Sum,Histogram,ExponentialHistogram,Summary}DataPoints) -> section M4
     the cachedSize memo of logsRequest / tracesRequest / metricsRequest / profilesRequest (size, setCachedSize)
     internal/sizer/*: count sizers exactly; byte sizers through the protobuf nesting arithmetic
        size(container) = header + sum (DeltaSize (size child)), DeltaSize n = 1 + n + sov n
     internal/queuebatch/default_batcher.go (Consume, flushCurrentBatchIfNecessary, Shutdown, refCountDone,
        multiDone), disabled_batcher.go, BatchConfig.Validate                            -> section Batcher
   The model is faithful to the tree INCLUDING its defects (F4: metric identity dropped by
   extract*DataPoints; the empty metric fragments and the data-message length prefix of the bytes sizer).
   Repaired in /repo and modelled as repaired: the profiles count sizer counts samples at every level (the weight
   [w] of an item: 1 for a log record / span, the number of samples for a profile); split() stops ("break")
   when the extraction removed nothing (rmSize <= 0), discards the extracted payload and returns the remainder.
   No proofs in this file. *)
From Verif Require Import Common.Base.
Local Open Scope Z_scope.

(* ---------------------------------------------------------------------------------------- *)
(* sizers                                                                                   *)
(* ---------------------------------------------------------------------------------------- *)
Inductive sizer := Items | Bytes.

Definition sizer_eqb (a b : sizer) : bool :=
  match a, b with Items, Items | Bytes, Bytes => true | _, _ => false end.

(* proto_delta_sizer.go: sov(x uint64) = (bits.Len64(x|1) + 6) / 7.  Len64 (x|1) = log2 (x|1) + 1.
   The argument is uint64(int): a negative Go int has bit 63 set, hence Len64 = 64 and sov = 10. *)
Definition sov (x : Z) : Z :=
  if x <? 0 then 10 else (Z.log2 (Z.lor x 1) + 7) / 7.

(* protoDeltaSizer.DeltaSize / {Logs,Traces,Metrics,Profiles}CountSizer.DeltaSize *)
Definition delta (sz : sizer) (n : Z) : Z :=
  match sz with Items => n | Bytes => 1 + n + sov n end.

(* bytes of a container without its children (resource + schema url, scope + schema url, metric
   name/unit/description/metadata, …): measured from the real sizer by the harness, irrelevant for
   the count sizers *)
Definition hdr (sz : sizer) (h : Z) : Z := match sz with Items => 0 | Bytes => h end.

Fixpoint sumZf {A} (f : A -> Z) (l : list A) : Z :=
  match l with [] => 0 | x :: xs => f x + sumZf f xs end.

(* ---------------------------------------------------------------------------------------- *)
(* the RemoveIf closure shared by every extract* function                                    *)
(* ---------------------------------------------------------------------------------------- *)
(* All extract* functions have the same body:
     src.Children().RemoveIf(func(c) bool {
        if capacityLeft == 0 { return false }
        raw := sz.ChildSize(c); s := sz.DeltaSize(raw)
        if s > capacityLeft {
            [leaf level:]  capacityLeft = 0; return false
            [inner level:] ext, er := extractChild(c, capacityLeft, sz); capacityLeft = 0
                           removedSize += er
                           removedSize += s - raw - (sz.DeltaSize(raw-er) - (raw-er))
                           if nonEmpty(ext) { ext.MoveTo(dest.Children().AppendEmpty()) }
                           return false          (after MoveTo ext is empty, so the returned test is false)
        }
        capacityLeft -= s; removedSize += s; c.MoveTo(dest.Children().AppendEmpty()); return true })
   [walk] returns (children appended to dest, children left in src, removedSize).
   [part c cap] = (extracted part, what is left of c in the source, removed size). *)
Section Walk.
  Context {A : Type}.
  Variable sz : sizer.
  Variable csize : A -> Z.
  Variable part : option (A -> Z -> A * A * Z).
  Variable keep_ext : A -> bool.

  Fixpoint walk (l : list A) (cap rm : Z) : list A * list A * Z :=
    match l with
    | [] => ([], [], rm)
    | c :: l' =>
      if cap =? 0 then
        let '(d, k, rm') := walk l' cap rm in (d, c :: k, rm')
      else
        let raw := csize c in
        let s := delta sz raw in
        if s >? cap then
          match part with
          | None => let '(d, k, rm') := walk l' 0 rm in (d, c :: k, rm')
          | Some ex =>
            let '(e, rest, er) := ex c cap in
            let rm1 := rm + er + (s - raw - (delta sz (raw - er) - (raw - er))) in
            let '(d, k, rm') := walk l' 0 rm1 in
            ((if keep_ext e then [e] else []) ++ d, rest :: k, rm')
          end
        else
          let '(d, k, rm') := walk l' (cap - s) (rm + s) in (c :: d, k, rm')
    end.
End Walk.

(* the capacity reserved inside a child that will itself be length-prefixed in its parent:
   capacity - (sz.DeltaSize(capacity) - capacity) - sz.Size(emptyDestWithCopiedContext) *)
Definition inner_cap (sz : sizer) (cap h : Z) : Z := cap - (delta sz cap - cap) - h.

(* an item: log record / span / profile / metric data point.  [iid] is the ghost identity,
   [iraw] its own encoded size, [icnt] the number of samples of a profile (1 for the other signals). *)
Record item := { iid : Z; iraw : Z; icnt : Z }.

(* the count weight of one item: LogsCountSizer.LogRecordSize = TracesCountSizer.SpanSize = 1,
   ProfilesCountSizer.ProfileSize = p.Sample().Len() *)
Definition w_unit (i : item) : Z := 1.
Definition w_samples (i : item) : Z := icnt i.

Definition item_size (w : item -> Z) (sz : sizer) (i : item) : Z :=
  match sz with Items => w i | Bytes => iraw i end.

(* metric data points: <Type>DataPointSize = 1 for the count sizer *)
Definition point_size (sz : sizer) (i : item) : Z :=
  match sz with Items => 1 | Bytes => iraw i end.

(* ---------------------------------------------------------------------------------------- *)
(* logs / traces / profiles: resource -> scope -> item                                       *)
(* ---------------------------------------------------------------------------------------- *)
Record scope := { sctx : Z; shdr : Z; sitems : list item }.
Record res := { rctx : Z; rhdr : Z; rscopes : list scope }.
Definition payload := list res.

(* ScopeLogsSize / ResourceLogsSize / LogsSize for both sizers *)
Definition scope_size (w : item -> Z) (sz : sizer) (s : scope) : Z :=
  hdr sz (shdr s) + sumZf (fun i => delta sz (item_size w sz i)) (sitems s).
Definition res_size (w : item -> Z) (sz : sizer) (r : res) : Z :=
  hdr sz (rhdr r) + sumZf (fun s => delta sz (scope_size w sz s)) (rscopes r).
Definition items_of_res (r : res) : list item := concat (map sitems (rscopes r)).
Definition items_of (p : payload) : list item := concat (map items_of_res p).
Definition payload_size (w : item -> Z) (sz : sizer) (p : payload) : Z :=
  match sz with
  | Items => sumZf w (items_of p)                            (* LogRecordCount / SpanCount / SampleCount *)
  | Bytes => sumZf (fun r => delta sz (res_size w sz r)) p
  end.

(* extractScopeLogs *)
Definition extract_scope (w : item -> Z) (sz : sizer) (s : scope) (cap : Z) : scope * scope * Z :=
  let dest0 := {| sctx := sctx s; shdr := shdr s; sitems := [] |} in
  let capLeft := inner_cap sz cap (scope_size w sz dest0) in
  let '(d, k, rm) := walk sz (item_size w sz) None (fun _ => true) (sitems s) capLeft 0 in
  ({| sctx := sctx s; shdr := shdr s; sitems := d |},
   {| sctx := sctx s; shdr := shdr s; sitems := k |}, rm).

Definition scope_nonempty (s : scope) : bool := negb (Nat.eqb (length (sitems s)) 0).

(* extractResourceLogs *)
Definition extract_res (w : item -> Z) (sz : sizer) (r : res) (cap : Z) : res * res * Z :=
  let dest0 := {| rctx := rctx r; rhdr := rhdr r; rscopes := [] |} in
  let capLeft := inner_cap sz cap (res_size w sz dest0) in
  let '(d, k, rm) := walk sz (scope_size w sz) (Some (extract_scope w sz)) scope_nonempty (rscopes r) capLeft 0 in
  ({| rctx := rctx r; rhdr := rhdr r; rscopes := d |},
   {| rctx := rctx r; rhdr := rhdr r; rscopes := k |}, rm).

Definition res_nonempty (r : res) : bool := negb (Nat.eqb (length (rscopes r)) 0).

(* extractLogs: capacityLeft := capacity - sz.LogsSize(emptyLogs) = capacity *)
Definition extract_payload (w : item -> Z) (sz : sizer) (p : payload) (cap : Z) : payload * payload * Z :=
  walk sz (res_size w sz) (Some (extract_res w sz)) res_nonempty p (cap - payload_size w sz []) 0.

(* a request = payload + cachedSize (-1 = not computed) *)
Record req := { rp : payload; rcached : Z }.

(* logsRequest.size *)
Definition req_size (w : item -> Z) (sz : sizer) (r : req) : Z :=
  if rcached r =? -1 then payload_size w sz (rp r) else rcached r.

(* the weight of the first item that has one (0: no such item): LogRecordCount()/SpanCount() > 0 gives 1 for unit
   weights; xexporterhelper.firstProfileSamples for profiles *)
Fixpoint first_weight (w : item -> Z) (l : list item) : Z :=
  match l with
  | [] => 0
  | i :: t => if 0 <? w i then w i else first_weight w t
  end.

(* split (as repaired by ffc8e5fcc): the loop runs while the CACHED size exceeds maxSize.  After the memo update, when
   nothing was removed (rmSize <= 0): if no item is left the loop stops and the remainder is returned as it is; else
   the FIRST item is cut out with the count sizer (capacity 1 / the samples of the first profile), the memo is
   recomputed from the payload, and the cut-out payload is appended like any other.  [None] = out of fuel. *)
Fixpoint split_loop (fuel : nat) (w : item -> Z) (sz : sizer) (max : Z) (p : payload) (cached : Z) (acc : list req)
  : option (list req) :=
  if cached >? max then
    match fuel with
    | O => None
    | S f =>
      let '(d, k, rm) := extract_payload w sz p max in
      if rm <=? 0 then
        let n := first_weight w (items_of k) in
        if n =? 0 then Some (acc ++ [{| rp := k; rcached := cached - rm |}])
        else
          let '(d1, k1, _) := extract_payload w Items k n in
          split_loop f w sz max k1 (payload_size w sz k1) (acc ++ [{| rp := d1; rcached := -1 |}])
      else split_loop f w sz max k (cached - rm) (acc ++ [{| rp := d; rcached := -1 |}])
    end
  else Some (acc ++ [{| rp := p; rcached := cached |}]).

(* before ffc8e5fcc (documentation only): the loop stopped whenever nothing was removed *)
Fixpoint split_loop_old (fuel : nat) (w : item -> Z) (sz : sizer) (max : Z) (p : payload) (cached : Z) (acc : list req)
  : option (list req) :=
  if cached >? max then
    match fuel with
    | O => None
    | S f =>
      let '(d, k, rm) := extract_payload w sz p max in
      if rm <=? 0 then Some (acc ++ [{| rp := k; rcached := cached - rm |}])
      else split_loop_old f w sz max k (cached - rm) (acc ++ [{| rp := d; rcached := -1 |}])
    end
  else Some (acc ++ [{| rp := p; rcached := cached |}]).

(* MergeSplit (known sizer type, same request type).  Out of fuel = None (an explicit error value). *)
Definition merged (w : item -> Z) (sz : sizer) (a : req) (b : option req) : req :=
  match b with
  | None => a
  | Some b' => {| rp := rp a ++ rp b'; rcached := req_size w sz a + req_size w sz b' |}   (* mergeTo *)
  end.

(* an iteration either lowers the memo by at least 1 or cuts out one item and resets the memo to the true size:
   fuel = (memo - max) + number of items + 1 (Properties.split_terminates says when it never runs out) *)
Definition fuel_of (cached max : Z) (nitems : nat) : nat := S (Z.to_nat (cached - max) + nitems).

Definition merge_split (w : item -> Z) (sz : sizer) (max : Z) (a : req) (b : option req) : option (list req) :=
  let m := merged w sz a b in
  if max =? 0 then Some [m]
  else split_loop (fuel_of (req_size w sz m) max (length (items_of (rp m)))) w sz max (rp m) (req_size w sz m) [].

(* observable: every item with its full context *)
Definition flat_res (r : res) : list (Z * Z * Z) :=
  concat (map (fun s => map (fun i => (iid i, rctx r, sctx s)) (sitems s)) (rscopes r)).
Definition flat (p : payload) : list (Z * Z * Z) := concat (map flat_res p).

(* ---------------------------------------------------------------------------------------- *)
(* metrics: resource -> scope -> metric -> data point                                        *)
(* ---------------------------------------------------------------------------------------- *)
(* [mid]: the metric identity (name, unit, description, metadata, temporality, monotonicity) as one
   opaque value, 0 = all defaults.  [mkind]: 0 empty, 1 gauge, 2 sum, 3 histogram, 4 exponential
   histogram, 5 summary.  [mhdr]: bytes of name/unit/description/metadata.  [mdhdr]: bytes of the
   data message without points (temporality, monotonic flag). *)
Record metric := { mid : Z; mkind : Z; mhdr : Z; mdhdr : Z; mpts : list item }.
Record mscope := { msctx : Z; mshdr : Z; msmetrics : list metric }.
Record mres := { mrctx : Z; mrhdr : Z; mrscopes : list mscope }.
Definition mpayload := list mres.

(* MetricSize: count sizer = number of points of the typed container (0 for the empty type);
   bytes = header + (tag + length prefix + data message) *)
Definition metric_size (sz : sizer) (m : metric) : Z :=
  if mkind m =? 0 then hdr sz (mhdr m)
  else hdr sz (mhdr m) + delta sz (hdr sz (mdhdr m) + sumZf (fun i => delta sz (point_size sz i)) (mpts m)).
Definition mscope_size (sz : sizer) (s : mscope) : Z :=
  hdr sz (mshdr s) + sumZf (fun m => delta sz (metric_size sz m)) (msmetrics s).
Definition mres_size (sz : sizer) (r : mres) : Z :=
  hdr sz (mrhdr r) + sumZf (fun s => delta sz (mscope_size sz s)) (mrscopes r).
Definition mpoints_of_metric (m : metric) : list item := if mkind m =? 0 then [] else mpts m.
Definition mpoints_of_res (r : mres) : list item :=
  concat (map (fun s => concat (map mpoints_of_metric (msmetrics s))) (mrscopes r)).
Definition mpoints_of (p : mpayload) : list item := concat (map mpoints_of_res p).
Definition mpayload_size (sz : sizer) (p : mpayload) : Z :=
  match sz with
  | Items => sumZf icnt (mpoints_of p)                       (* DataPointCount *)
  | Bytes => sumZf (fun r => delta sz (mres_size sz r)) p
  end.

(* extractMetricDataPoints + extract<Kind>DataPoints: the destination is pmetric.NewMetric() with
   only SetEmpty<Kind>() — name, unit, description, metadata, temporality and monotonicity of the
   source are NOT copied (F4).  For the empty type the switch has no case: a nil Metric and 0. *)
Definition nil_metric : metric := {| mid := 0; mkind := 0; mhdr := 0; mdhdr := 0; mpts := [] |}.

(* as repaired by 9e189f99b: the data container of the fragment is itself length-prefixed; MetricSize(m) counts the
   prefix of an EMPTY container, the capacity also reserves (DeltaSize capacity - capacity) - DeltaSize 0 *)
Definition extract_metric (sz : sizer) (m : metric) (cap : Z) : metric * metric * Z :=
  if mkind m =? 0 then (nil_metric, m, 0)
  else
    let dest0 := {| mid := 0; mkind := mkind m; mhdr := 0; mdhdr := 0; mpts := [] |} in
    let capLeft := inner_cap sz cap (metric_size sz dest0) - ((delta sz cap - cap) - delta sz 0) in
    let '(d, k, rm) := walk sz (point_size sz) None (fun _ => true) (mpts m) capLeft 0 in
    ({| mid := 0; mkind := mkind m; mhdr := 0; mdhdr := 0; mpts := d |},
     {| mid := mid m; mkind := mkind m; mhdr := mhdr m; mdhdr := mdhdr m; mpts := k |}, rm).

(* before 9e189f99b (documentation only) *)
Definition extract_metric_old (sz : sizer) (m : metric) (cap : Z) : metric * metric * Z :=
  if mkind m =? 0 then (nil_metric, m, 0)
  else
    let dest0 := {| mid := 0; mkind := mkind m; mhdr := 0; mdhdr := 0; mpts := [] |} in
    let capLeft := inner_cap sz cap (metric_size sz dest0) in
    let '(d, k, rm) := walk sz (point_size sz) None (fun _ => true) (mpts m) capLeft 0 in
    ({| mid := 0; mkind := mkind m; mhdr := 0; mdhdr := 0; mpts := d |},
     {| mid := mid m; mkind := mkind m; mhdr := mhdr m; mdhdr := mdhdr m; mpts := k |}, rm).

(* `if sz.MetricSize(extSrcSM) > 0` *)
Definition metric_keep (sz : sizer) (m : metric) : bool := metric_size sz m >? 0.

(* extractScopeMetrics *)
Definition extract_mscope (sz : sizer) (s : mscope) (cap : Z) : mscope * mscope * Z :=
  let dest0 := {| msctx := msctx s; mshdr := mshdr s; msmetrics := [] |} in
  let capLeft := inner_cap sz cap (mscope_size sz dest0) in
  let '(d, k, rm) := walk sz (metric_size sz) (Some (extract_metric sz)) (metric_keep sz) (msmetrics s) capLeft 0 in
  ({| msctx := msctx s; mshdr := mshdr s; msmetrics := d |},
   {| msctx := msctx s; mshdr := mshdr s; msmetrics := k |}, rm).

Definition mscope_nonempty (s : mscope) : bool := negb (Nat.eqb (length (msmetrics s)) 0).

(* extractResourceMetrics *)
Definition extract_mres (sz : sizer) (r : mres) (cap : Z) : mres * mres * Z :=
  let dest0 := {| mrctx := mrctx r; mrhdr := mrhdr r; mrscopes := [] |} in
  let capLeft := inner_cap sz cap (mres_size sz dest0) in
  let '(d, k, rm) := walk sz (mscope_size sz) (Some (extract_mscope sz)) mscope_nonempty (mrscopes r) capLeft 0 in
  ({| mrctx := mrctx r; mrhdr := mrhdr r; mrscopes := d |},
   {| mrctx := mrctx r; mrhdr := mrhdr r; mrscopes := k |}, rm).

Definition mres_nonempty (r : mres) : bool := negb (Nat.eqb (length (mrscopes r)) 0).

(* extractMetrics *)
Definition extract_mpayload (sz : sizer) (p : mpayload) (cap : Z) : mpayload * mpayload * Z :=
  walk sz (mres_size sz) (Some (extract_mres sz)) mres_nonempty p (cap - mpayload_size sz []) 0.

Record mreq := { mrp : mpayload; mrcached : Z }.

Definition mreq_size (sz : sizer) (r : mreq) : Z :=
  if mrcached r =? -1 then mpayload_size sz (mrp r) else mrcached r.

Fixpoint msplit_loop (fuel : nat) (sz : sizer) (max : Z) (p : mpayload) (cached : Z) (acc : list mreq)
  : option (list mreq) :=
  if cached >? max then
    match fuel with
    | O => None
    | S f =>
      let '(d, k, rm) := extract_mpayload sz p max in
      if rm <=? 0 then                                           (* rmSize <= 0 *)
        match mpoints_of k with
        | [] => Some (acc ++ [{| mrp := k; mrcached := cached - rm |}])       (* DataPointCount() == 0: break *)
        | _ =>
          let '(d1, k1, _) := extract_mpayload Items k 1 in     (* extractMetrics(req.md, 1, &MetricsCountSizer{}) *)
          msplit_loop f sz max k1 (mpayload_size sz k1) (acc ++ [{| mrp := d1; mrcached := -1 |}])
        end
      else msplit_loop f sz max k (cached - rm) (acc ++ [{| mrp := d; mrcached := -1 |}])
    end
  else Some (acc ++ [{| mrp := p; mrcached := cached |}]).

Definition mmerged (sz : sizer) (a : mreq) (b : option mreq) : mreq :=
  match b with
  | None => a
  | Some b' => {| mrp := mrp a ++ mrp b'; mrcached := mreq_size sz a + mreq_size sz b' |}
  end.

Definition mmerge_split (sz : sizer) (max : Z) (a : mreq) (b : option mreq) : option (list mreq) :=
  let m := mmerged sz a b in
  if max =? 0 then Some [m]
  else msplit_loop (fuel_of (mreq_size sz m) max (length (mpoints_of (mrp m)))) sz max (mrp m) (mreq_size sz m) [].

(* observables: full context (id, resource, scope, metric identity, metric type) and the part of it
   that the code does preserve *)
Definition mflat_metric (rc sc : Z) (m : metric) : list (Z * Z * Z * Z * Z) :=
  map (fun i => (iid i, rc, sc, mid m, mkind m)) (mpoints_of_metric m).
Definition mflat_res (r : mres) : list (Z * Z * Z * Z * Z) :=
  concat (map (fun s => concat (map (mflat_metric (mrctx r) (msctx s)) (msmetrics s))) (mrscopes r)).
Definition mflat (p : mpayload) : list (Z * Z * Z * Z * Z) := concat (map mflat_res p).
(* without the metric identity: (id, resource, scope, type) *)
Definition drop_ident (x : Z * Z * Z * Z * Z) : Z * Z * Z * Z :=
  let '(i, rc, sc, _, k) := x in (i, rc, sc, k).
Definition mflat_noident (p : mpayload) : list (Z * Z * Z * Z) := map drop_ident (mflat p).

(* ---------------------------------------------------------------------------------------- *)
(* the batcher (default_batcher.go), over an abstract request type                           *)
(* ---------------------------------------------------------------------------------------- *)
(* Done objects.  [DReq i] is the completion callback of incoming request i; [DRef k] is the k-th
   refCountDone created by Consume (its target and counter live in the state). *)
Inductive dref := DReq (i : nat) | DRef (k : nat).

Record refcell := { rc_target : dref; rc_count : Z; rc_err : bool }.

Section Batcher.
  Context {R : Type}.
  (* req.MergeSplit(ctx, maxSize, sizerType, other): None = error (unknown sizer / foreign type).  The Go method MUTATES:
     afterwards the receiver is the last element of the result and the other request is empty; [msplit] is a pure function
     of the two requests AS THEY WERE, and everything below that refers to the parked request ([icount cur] in
     [first_holds_new]) means its state BEFORE the call, as default_batcher.go reads prevItems before MergeSplit *)
  Variable msplit : R -> option R -> option (list R).
  (* qb.sizer.Sizeof *)
  Variable sizeof : R -> Z.
  (* Request.ItemsCount() *)
  Variable icount : R -> Z.
  Variable min_size : Z.

  Record bstate := {
    b_cur : option (R * list dref);        (* currentBatch: request + multiDone *)
    b_refs : list refcell;                 (* every refCountDone created so far *)
    b_fired : list (nat * bool);           (* Done.OnDone calls on incoming requests: (request, error?) in order *)
    b_flying : list (nat * R * list dref); (* flush goroutines started and not yet finished: (batch id, request, done) *)
    b_nbatch : nat;                        (* batch ids handed out *)
  }.

  Definition b_init : bstate :=
    {| b_cur := None; b_refs := []; b_fired := []; b_flying := []; b_nbatch := 0 |}.

  Fixpoint set_nth {A} (n : nat) (x : A) (l : list A) : list A :=
    match l, n with
    | [], _ => []
    | _ :: t, O => x :: t
    | h :: t, S n' => h :: set_nth n' x t
    end.

  (* Done.OnDone(err) on one done object.  refCountDone.OnDone: err accumulates, counter decreases,
     at 0 the wrapped done is called with the accumulated error.  (Targets are always DReq: Consume
     wraps the caller's done at most once.)  Fuel bounds the (at most 1-deep) indirection. *)
  Fixpoint on_done (fuel : nat) (d : dref) (err : bool) (refs : list refcell) (fired : list (nat * bool))
    : list refcell * list (nat * bool) :=
    match d with
    | DReq i => (refs, fired ++ [(i, err)])
    | DRef k =>
      match nth_error refs k, fuel with
      | Some c, S f =>
        let e := rc_err c || err in
        let n := rc_count c - 1 in
        let refs' := set_nth k {| rc_target := rc_target c; rc_count := n; rc_err := e |} refs in
        if n =? 0 then on_done f (rc_target c) e refs' fired else (refs', fired)
      | _, _ => (refs, fired)
      end
    end.

  (* multiDone.OnDone *)
  Fixpoint on_done_all (ds : list dref) (err : bool) (refs : list refcell) (fired : list (nat * bool)) :=
    match ds with
    | [] => (refs, fired)
    | d :: ds' => let '(r', f') := on_done 2 d err refs fired in on_done_all ds' err r' f'
    end.

  (* qb.flush: starts a goroutine; its completion is a later event *)
  Definition start_flush (st : bstate) (r : R) (ds : list dref) : bstate :=
    {| b_cur := b_cur st; b_refs := b_refs st; b_fired := b_fired st;
       b_flying := b_flying st ++ [(b_nbatch st, r, ds)]; b_nbatch := S (b_nbatch st) |}.

  Fixpoint start_flushes (st : bstate) (rs : list R) (ds : list dref) : bstate :=
    match rs with
    | [] => st
    | r :: rs' => start_flushes (start_flush st r ds) rs' ds
    end.

  Definition with_cur (st : bstate) (c : option (R * list dref)) : bstate :=
    {| b_cur := c; b_refs := b_refs st; b_fired := b_fired st; b_flying := b_flying st; b_nbatch := b_nbatch st |}.

  Definition fire (st : bstate) (ds : list dref) (err : bool) : bstate :=
    let '(r', f') := on_done_all ds err (b_refs st) (b_fired st) in
    {| b_cur := b_cur st; b_refs := r'; b_fired := f'; b_flying := b_flying st; b_nbatch := b_nbatch st |}.

  (* `if len(reqList) > 1 { done = newRefCountDone(done, len(reqList)) }` *)
  Definition wrap_done (st : bstate) (i : nat) (n : nat) : bstate * dref :=
    if (1 <? n)%nat then
      ({| b_cur := b_cur st; b_fired := b_fired st; b_flying := b_flying st; b_nbatch := b_nbatch st;
          b_refs := b_refs st ++ [{| rc_target := DReq i; rc_count := Z.of_nat n; rc_err := false |}] |},
       DRef (length (b_refs st)))
    else (st, DReq i).

  (* split a non-empty list into (all but last, last) *)
  Fixpoint unsnoc {A} (l : list A) : option (list A * A) :=
    match l with
    | [] => None
    | [x] => Some ([], x)
    | x :: t => match unsnoc t with Some (i, la) => Some (x :: i, la) | None => None end
    end.

  (* "last result may not have enough data to be flushed": returns (requests to flush, new state) *)
  Definition park_last (st : bstate) (rs : list R) (d : dref) : list R * bstate :=
    match unsnoc rs with
    | None => (rs, st)
    | Some (ini, la) =>
      if sizeof la <? min_size then (ini, with_cur st (Some (la, [d]))) else (rs, st)
    end.

  (* defaultBatcher.Consume(ctx, req, done) for incoming request number i *)
  Definition consume (st : bstate) (i : nat) (r : R) : bstate :=
    match b_cur st with
    | None =>
      match msplit r None with
      | None => fire st [DReq i] true                  (* done.OnDone(mergeSplitErr) *)
      | Some [] => fire st [DReq i] false              (* len(reqList) == 0 with a nil error: OnDone(nil) *)
      | Some rs =>
        let '(st1, d) := wrap_done st i (length rs) in
        let '(rs', st2) := park_last st1 rs d in
        start_flushes st2 rs' [d]
      end
    | Some (cur, cds) =>
      match msplit cur (Some r) with
      | None => fire st [DReq i] true                  (* the current batch is kept as it is *)
      | Some [] => fire st [DReq i] false
      | Some (r0 :: rest) =>
        (* 6f74b829b: when the request had to be split and the first result has as many items as the parked batch
           had, it holds nothing of this request: its done is not attached there and one flush less is counted *)
        let first_holds_new := Nat.eqb (length rest) 0 || negb (icount r0 =? icount cur) in
        let '(st1, d) := wrap_done st i (if first_holds_new then S (length rest) else length rest) in
        let cds' := if first_holds_new then cds ++ [d] else cds in
        let flush_first := (0 <? length rest)%nat || negb (sizeof r0 <? min_size) in
        let st2 := with_cur st1 (if flush_first then None else Some (r0, cds')) in
        let '(rest', st3) := park_last st2 rest d in
        let st4 := if flush_first then start_flush st3 r0 cds' else st3 in
        start_flushes st4 rest' [d]
      end
    end.

  (* flushCurrentBatchIfNecessary (timer tick, or Shutdown's last flush) *)
  Definition flush_current (st : bstate) : bstate :=
    match b_cur st with
    | None => st
    | Some (r, ds) => start_flush (with_cur st None) r ds
    end.

  (* a flush goroutine finishes: done.OnDone(qb.consumeFunc(ctx, req)) *)
  Fixpoint take_flying (b : nat) (l : list (nat * R * list dref)) : option (list dref * list (nat * R * list dref)) :=
    match l with
    | [] => None
    | (b', r, ds) :: t =>
      if Nat.eqb b b' then Some (ds, t)
      else match take_flying b t with Some (x, t') => Some (x, (b', r, ds) :: t') | None => None end
    end.

  Definition flush_result (st : bstate) (b : nat) (err : bool) : bstate :=
    match take_flying b (b_flying st) with
    | None => st
    | Some (ds, fl) =>
      fire {| b_cur := b_cur st; b_refs := b_refs st; b_fired := b_fired st; b_flying := fl; b_nbatch := b_nbatch st |} ds err
    end.

  Inductive bevent :=
  | EConsume (r : R)              (* the i-th EConsume of a history is incoming request i *)
  | ETimer                        (* flush timer fires *)
  | EResult (b : nat) (err : bool)(* export of batch b returns *)
  | EShutdown.                    (* Shutdown's flushCurrentBatchIfNecessary *)

  Definition bstep (sn : bstate * nat) (e : bevent) : bstate * nat :=
    let '(st, n) := sn in
    match e with
    | EConsume r => (consume st n r, S n)
    | ETimer | EShutdown => (flush_current st, n)
    | EResult b err => (flush_result st b err, n)
    end.

  Definition brun (es : list bevent) : bstate * nat := fold_left bstep es (b_init, O).
End Batcher.

(* ---------------------------------------------------------------------------------------- *)
(* specification of the error a completion callback must report (used by Properties.done_error_iff and   *)
(* checked against the implementation's OnDone arguments by Harness.check_case)                           *)
(* ---------------------------------------------------------------------------------------- *)
(* which request a done object reports to *)
Definition tgt (refs : list refcell) (d : dref) : option nat :=
  match d with
  | DReq i => Some i
  | DRef k => match nth_error refs k with
              | Some c => match rc_target c with DReq i => Some i | DRef _ => None end
              | None => None
              end
  end.
Definition hits (refs : list refcell) (d : dref) (i : nat) : bool :=
  match tgt refs d with Some j => Nat.eqb j i | None => false end.
(* a done list is attached to request i *)
Definition attached (refs : list refcell) (ds : list dref) (i : nat) : bool := existsb (fun d => hits refs d i) ds.


Section ErrSpec.
  Context {R : Type}.
  Variable msplit : R -> option R -> option (list R).
  Variable sizeof : R -> Z.
  Variable icount : R -> Z.
  Variable min_size : Z.
  Notation bst := (@bstate R).

  (* req.MergeSplit / currentBatch.req.MergeSplit returned an error *)
  Definition ms_failed (st : bst) (r : R) : bool :=
    match b_cur st with
    | Some (cur, _) => match msplit cur (Some r) with None => true | Some _ => false end
    | None => match msplit r None with None => true | Some _ => false end
    end.

  (* the specification: E i = "request i's MergeSplit failed, or the export of a batch whose done list was attached
     to i returned an error" — computed from the events and the state they meet, never from rc_err / b_fired *)
  Definition estep (x : bst * nat * (nat -> bool)) (e : @bevent R) : bst * nat * (nat -> bool) :=
    let '(st, n, E) := x in
    (bstep msplit sizeof icount min_size (st, n) e,
     match e with
     | EConsume r => fun i => E i || (Nat.eqb i n && ms_failed st r)
     | EResult b err =>
       match take_flying b (b_flying st) with
       | Some (ds, _) => fun i => E i || (err && attached (b_refs st) ds i)
       | None => E
       end
     | _ => E
     end).

  Definition erun (es : list (@bevent R)) : bst * nat * (nat -> bool) :=
    fold_left estep es (b_init, O, fun _ => false).

End ErrSpec.

(* disabled_batcher.go: Consume = done.OnDone(consumeFunc(ctx, req)): one batch per request, done fired
   with that batch's result.  (Model: the request is exported as it is.) *)
Definition disabled_consume {R} (export : R -> bool) (r : R) : R * bool := (r, export r).

(* BatchConfig.Validate (hand-written; compared with the real Validate by the harness) *)
Definition batch_cfg_valid (flush_timeout min_size max_size : Z) : bool :=
  (0 <? flush_timeout) && (0 <=? min_size) && (0 <=? max_size) &&
  negb ((0 <? max_size) && (max_size <? min_size)).
