(* C04/Properties.v — the property theorems, nothing else.  Each is closed by [exact lemma] and followed
   by Print Assumptions (captured into the evidence by the check driver). *)
From Verif Require Import Common.Base C04.Model C04.Proofs C04.Proofs2 C04.Proofs3 C04.Proofs4 C04.Proofs5 C04.Proofs6 C04.Proofs7 C04.Proofs8 C04.Proofs9 C04.Proofs10 C04.Harness C04.Obligations C04.Checker C04.CheckerProofs C04.Link.
From Coq Require Import Permutation.
Local Open Scope Z_scope.

(* ================================================================================================== *)
(* 1. conservation with full context                                                                  *)
(* ================================================================================================== *)
(* Logs, traces, profiles; BOTH sizers; every max_size; every pair of requests (any cached-size state); [w] is
   the count weight of an item (1 for a log record / span: [w_unit]; the number of samples of a profile:
   [w_samples]): the multiset of (item id, resource context, scope context) over all returned requests is the
   multiset that entered.  Hypothesis [wf_p]: measured header sizes are non-negative and every item present has a
   positive delta size — bytes sizer: its encoded size is >= 0; items sizer: it weighs >= 1, which is vacuous for
   logs and traces (next theorem) and for profiles excludes profiles WITHOUT samples: they hold no telemetry item
   (sample), are extracted at size 0 and are discarded with the extracted payload when split() stops
   (Witness.ex_empty_profile_dropped).  The hypothesis is what makes "nothing was removed" imply "the discarded
   payload holds no item". *)
Theorem merge_split_conserves : forall w sz max a b out,
  wf_p w sz (rp a) -> wf_opt w sz b ->
  merge_split w sz max a b = Some out ->
  Permutation (flat_reqs out) (flat (rp a) ++ flat_opt b).
Proof. exact merge_split_conserves_l. Qed.
Print Assumptions merge_split_conserves.

Theorem merge_split_conserves_logs_traces_items : forall max a b out,
  merge_split w_unit Items max a b = Some out ->
  Permutation (flat_reqs out) (flat (rp a) ++ flat_opt b).
Proof. exact merge_split_conserves_unit_l. Qed.
Print Assumptions merge_split_conserves_logs_traces_items.

(* Metrics: the same statement with the metric identity (name, unit, description, metadata, temporality,
   monotonicity: [mid]) in the observable is FALSE of the code (finding F4) ... *)
Theorem merge_split_conserves_refuted :
  exists sz max a out, mmerge_split sz max a None = Some out /\
    ~ Permutation (mflat_reqs out) (mflat (mrp a)).
Proof. exact merge_split_conserves_refuted_l. Qed.
Print Assumptions merge_split_conserves_refuted.

(* ... what does hold for metrics, both sizers, every max_size: conservation of (point id, resource context,
   scope context, metric type).  Hypothesis: the measured sizes (headers, points) are non-negative — nothing for
   the items sizer (wf_mpayload_items). *)
Theorem merge_split_conserves_partial : forall sz max a b out,
  wf_mpayload sz (mrp a) -> wf_mopt sz b ->
  mmerge_split sz max a b = Some out ->
  Permutation (nflat_reqs out) (nflat (mrp a) ++ nflat_opt b).
Proof. exact mmerge_split_conserves_partial_l. Qed.
Print Assumptions merge_split_conserves_partial.

(* ================================================================================================== *)
(* 2. termination (every signal, both sizers, every max_size, every payload)                          *)
(* ================================================================================================== *)
(* Logs, traces AND profiles (every weight function under which each item present counts >= 1: records, spans, profiles
   with samples), both sizers, every max_size: MergeSplit returns.  The repaired loop (ffc8e5fcc) has two kinds of
   iteration: one that removes something lowers the memo by rmSize >= 1 and does not add items; one that removes
   nothing isolates the leftmost item — EXACTLY one item leaves (Proofs9.isolate_one: the extraction with the items
   sizer and capacity = the leftmost weight moves that item, by progress of the greedy walk, and nothing else, by its
   capacity bound and the order it keeps) — and recomputes the memo, which cannot grow (what is left of an extraction
   is not larger than what was there: Proofs6.extract_payload_mono).  So the model's fuel, (memo - max_size) + items + 1,
   never runs out.  Hypotheses: non-negative measured sizes, weight >= 1, an exact (or unknown) memo.
   Metrics: [split_terminates_metrics] (bytes sizer) and [metrics_items_split] (items sizer) below. *)
Theorem split_terminates : forall w sz max a b,
  wf_p w sz (rp a) -> wf_opt w sz b -> pos_items w (rp a) -> (forall r, b = Some r -> pos_items w (rp r)) ->
  memo_ok w sz a -> memo_ok_opt w sz b ->
  exists out, merge_split w sz max a b = Some out.
Proof. exact merge_split_total_l. Qed.
Print Assumptions split_terminates.

(* Metrics, bytes sizer, every max_size: MergeSplit returns although the memo drifts (C04-CACHEDRIFT).  The drift has a
   direction: at every level removedSize never overstates what left (the nested length prefixes, which the accounting
   ignores, only shrink further: Proofs10.extract_mpayload_le), so a memo that does not understate the size never does;
   an iteration that removes something lowers it by >= 1 without adding points; one that removes nothing takes exactly
   one data point away and recomputes the memo, which can then only lower it.  Hypotheses: non-negative measured sizes;
   each memo unknown or not below the true size ([memo_ge]: any fresh or exactly measured request). *)
Theorem split_terminates_metrics : forall max a b,
  wf_mpayload Bytes (mrp a) -> wf_mopt Bytes b -> memo_ge a -> memo_ge_opt b ->
  exists out, mmerge_split Bytes max a b = Some out.
Proof. exact mmerge_split_total_bytes. Qed.
Print Assumptions split_terminates_metrics.

(* ================================================================================================== *)
(* 3. size bound, fullness, cached size — items sizer, unit weights (logs, traces; metrics)           *)
(* ================================================================================================== *)
(* [size_ok r]: the memo of r is unknown or equals its number of items — true of every fresh request
   (fresh_size_ok) and re-established for the remainder by the conclusion below. *)
Theorem all_but_last_full : forall max a b, 1 <= max -> size_ok a -> size_ok_opt b ->
  exists ds last, merge_split w_unit Items max a b = Some (ds ++ [last]) /\
    Forall (fun r => count (rp r) = max) ds /\ count (rp last) <= max.
Proof. exact all_but_last_full_l. Qed.
Print Assumptions all_but_last_full.

Theorem batch_size_bound : forall max a b out q, 1 <= max -> size_ok a -> size_ok_opt b ->
  merge_split w_unit Items max a b = Some out -> In q out -> count (rp q) <= max.
Proof. exact batch_size_bound_l. Qed.
Print Assumptions batch_size_bound.

Theorem cached_size_exact : forall max a b out q, 1 <= max -> size_ok a -> size_ok_opt b ->
  merge_split w_unit Items max a b = Some out -> In q out -> rcached q = -1 \/ rcached q = count (rp q).
Proof. exact cached_size_exact_l. Qed.
Print Assumptions cached_size_exact.

(* the same four clauses for metrics (count = number of data points) *)
Theorem metrics_items_split : forall max a b, 1 <= max -> msize_ok a -> msize_ok_opt b ->
  exists ds last, mmerge_split Items max a b = Some (ds ++ [last]) /\
    Forall (fun r => mcount (mrp r) = max /\ mrcached r = -1) ds /\
    mcount (mrp last) <= max /\ mrcached last = mcount (mrp last).
Proof. exact mmerge_split_items_l. Qed.
Print Assumptions metrics_items_split.

(* max_size = 0 (no limit): one request comes back, for both sizers and every signal *)
Theorem no_limit_no_split : forall w sz a b,
  merge_split w sz 0 a b = Some [merged w sz a b] /\ forall ma mb, mmerge_split sz 0 ma mb = Some [mmerged sz ma mb].
Proof. exact no_limit_no_split_l. Qed.
Print Assumptions no_limit_no_split.

(* ================================================================================================== *)
(* 3b. bytes sizer (and every sizer / weight): exact memo, size bound — logs, traces, profiles        *)
(* ================================================================================================== *)
(* [memo_ok w sz r]: the memo of r is unknown (-1) or equals its recomputed size.  After ANY MergeSplit, with any
   sizer, weight function and max_size, every returned request satisfies it again — no other hypothesis: the
   removedSize arithmetic ("delta between the delta sizes") is exact.  (For metrics it is false: C04-CACHEDRIFT.) *)
Theorem cached_size_exact_any_sizer : forall w sz max a b out,
  memo_ok w sz a -> memo_ok_opt w sz b -> merge_split w sz max a b = Some out -> Forall (memo_ok w sz) out.
Proof. exact cached_size_exact_all_l. Qed.
Print Assumptions cached_size_exact_any_sizer.

Theorem cached_size_exact_bytes : forall w max a b out,
  memo_ok w Bytes a -> memo_ok_opt w Bytes b -> merge_split w Bytes max a b = Some out -> Forall (memo_ok w Bytes) out.
Proof. exact (fun w => cached_size_exact_all_l w Bytes). Qed.
Print Assumptions cached_size_exact_bytes.

(* THE GENERAL SIZE BOUND of the repaired split loop, every weight function, sizer, max_size >= 1 and request pair:
   every request cut off measures at most max_size (TRUE recomputed size in the active unit: the reservation
   capacity - (DeltaSize capacity - capacity) - header is sound against the nested length prefixes) or is [isolated]:
   it is exactly what an extraction with the ITEMS sizer and capacity = the leftmost positive weight takes from the
   front of the remainder — the unit that does not fit alone; the last request is within max_size by its memo, or it is
   an [itemless_remainder]: nothing could be removed from it and it holds no item of positive weight (containers
   without records that do not fit: there is nothing to isolate).  Hypothesis: non-negative measured sizes (and
   weight >= 1 for the items sizer). *)
Theorem batch_size_bound_any_sizer : forall w sz max a b out,
  wf_p w sz (rp a) -> wf_opt w sz b -> 1 <= max ->
  merge_split w sz max a b = Some out ->
  exists ds last, out = ds ++ [last] /\
    Forall (fun q => payload_size w sz (rp q) <= max \/ isolated w q) ds /\
    (rcached last <= max \/ itemless_remainder w sz max last).
Proof. exact batch_size_bound_all_l. Qed.
Print Assumptions batch_size_bound_any_sizer.

(* ... in the property's wording, logs and traces, both sizers, exact (or unknown) memos: every emitted request is
   within max_size (true size) or holds EXACTLY ONE record / span; only the last one may instead be above max_size
   while holding NO record at all (item-less containers; Witness.ex_itemless_oversized) *)
Theorem batch_size_bound_one_item : forall sz max a b out,
  wf_p w_unit sz (rp a) -> wf_opt w_unit sz b -> memo_ok w_unit sz a -> memo_ok_opt w_unit sz b -> 1 <= max ->
  merge_split w_unit sz max a b = Some out ->
  exists ds last, out = ds ++ [last] /\
    Forall (fun q => payload_size w_unit sz (rp q) <= max \/ count (rp q) = 1) ds /\
    (payload_size w_unit sz (rp last) <= max \/ (count (rp last) = 0 /\ itemless_remainder w_unit sz max last)).
Proof. exact batch_size_bound_unit_l. Qed.
Print Assumptions batch_size_bound_one_item.

(* ... and for every weight function under which each item counts >= 1 (profiles with samples: one item = one profile) *)
Theorem batch_size_bound_one_item_any_weight : forall w sz max a b out,
  wf_p w sz (rp a) -> wf_opt w sz b -> pos_items w (rp a) -> (forall r, b = Some r -> pos_items w (rp r)) ->
  memo_ok w sz a -> memo_ok_opt w sz b -> 1 <= max ->
  merge_split w sz max a b = Some out ->
  exists ds last, out = ds ++ [last] /\
    Forall (fun q => payload_size w sz (rp q) <= max \/ length (items_of (rp q)) = 1%nat) ds /\
    (payload_size w sz (rp last) <= max \/ items_of (rp last) = []).
Proof. exact batch_size_bound_pos_l. Qed.
Print Assumptions batch_size_bound_one_item_any_weight.

(* the split gives up on a remainder ([itemless_remainder]: first_weight = 0) only when NO item of positive weight is left
   in it: items without weight at the head (profiles without samples, which the bytes sizer does not make disappear) do
   not stop the isolation of the ones behind them (xexporterhelper.firstProfileSamples returns the samples of the first
   profile THAT HAS samples) *)
Theorem isolation_looks_past_weightless : forall w l,
  first_weight w l = 0 <-> (forall i, In i l -> w i <= 0).
Proof. exact first_weight_zero_iff. Qed.
Print Assumptions isolation_looks_past_weightless.

Theorem batch_size_bound_bytes : forall max a b out,
  wf_p w_unit Bytes (rp a) -> wf_opt w_unit Bytes b -> memo_ok w_unit Bytes a -> memo_ok_opt w_unit Bytes b -> 1 <= max ->
  merge_split w_unit Bytes max a b = Some out ->
  exists ds last, out = ds ++ [last] /\
    Forall (fun q => payload_size w_unit Bytes (rp q) <= max \/ count (rp q) = 1) ds /\
    (payload_size w_unit Bytes (rp last) <= max \/ (count (rp last) = 0 /\ itemless_remainder w_unit Bytes max last)).
Proof. exact (batch_size_bound_unit_l Bytes). Qed.
Print Assumptions batch_size_bound_bytes.

(* metrics, bytes sizer (9e189f99b): the fragment cut off a metric that does not fit is itself within the capacity it
   was cut for, length prefix of the fragment included (before the repair the prefix was not reserved: C04-FRAGPREFIX) *)
Theorem fragment_fits : forall m cap e rest er,
  wf_metric Bytes m -> extract_metric Bytes m cap = (e, rest, er) -> mpts e <> [] ->
  delta Bytes (metric_size Bytes e) <= cap.
Proof. exact fragment_fits_l. Qed.
Print Assumptions fragment_fits.

(* ================================================================================================== *)
(* 4. metrics, bytes sizer: what is still false of the code (open findings)                           *)
(* ================================================================================================== *)
(* C04-EMPTYFRAG: metrics, bytes: a batch above max_size holding two points although every unit fits alone *)
Theorem batch_size_bound_refuted : exists max a out q,
  mmerge_split Bytes max a None = Some out /\ In q out /\
  max < mpayload_size Bytes (mrp q) /\ length (mpoints_of (mrp q)) = 2%nat.
Proof. exact batch_size_bound_refuted_l. Qed.
Print Assumptions batch_size_bound_refuted.

(* C04-CACHEDRIFT: metrics, bytes: an exact memo goes in, an inexact one comes out *)
Theorem cached_size_exact_refuted : exists max a out q,
  mrcached a = mpayload_size Bytes (mrp a) /\
  mmerge_split Bytes max a None = Some out /\ In q out /\
  mrcached q <> -1 /\ mrcached q <> mpayload_size Bytes (mrp q).
Proof. exact cached_size_exact_refuted_l. Qed.
Print Assumptions cached_size_exact_refuted.

(* ================================================================================================== *)
(* 5. completion callbacks (default_batcher.go), for EVERY history                                    *)
(* ================================================================================================== *)
(* A history is any list of events: consume a request, timer flush, the export of batch b returns with or
   without error, shutdown flush — in any order, any number (results of unknown batches are no-ops), for ANY
   request type with ANY MergeSplit function (including one that fails or returns nothing), any sizer and any
   min_size.  [fcount i fired] counts the Done.OnDone calls made on incoming request number i. *)
Section Batcher.
  Context {R : Type}.
  Variable msplit : R -> option R -> option (list R).
  Variable sizeof : R -> Z.
  Variable icount : R -> Z.          (* ItemsCount() *)
  Variable min_size : Z.

  (* never more than once *)
  Theorem done_at_most_once : forall es i,
    fcount i (b_fired (fst (brun msplit sizeof icount min_size es))) <= 1.
  Proof. exact (done_at_most_once_l msplit sizeof icount min_size). Qed.

  (* exactly once as soon as nothing is parked and nothing is in flight (e.g. after shutdown and the return
     of every export) — for every request consumed so far *)
  Theorem done_exactly_once : forall es i,
    let st := fst (brun msplit sizeof icount min_size es) in
    b_cur st = None -> b_flying st = [] ->
    (i < length (filter (fun e => match e with EConsume _ => true | _ => false end) es))%nat ->
    fcount i (b_fired st) = 1.
  Proof. exact (done_exactly_once_l2 msplit sizeof icount min_size). Qed.

  (* only after every batch holding part of it has finished: once fired, neither the parked batch nor any
     in-flight batch refers to the request, directly or through a refCountDone that still counts *)
  Theorem done_only_after_batches : forall es i,
    0 < fcount i (b_fired (fst (brun msplit sizeof icount min_size es))) ->
    ~ refers (fst (brun msplit sizeof icount min_size es)) i.
  Proof. exact (done_only_after_batches_l msplit sizeof icount min_size). Qed.
  (* the error a callback reports is EXACTLY the specification's verdict [snd (erun es) i] (Model.erun): request
     i's own MergeSplit failed, or the export of a batch whose done list was ATTACHED to i (it contains i's done or a
     refCountDone wrapping it) returned an error — both directions, every history *)
  Theorem done_error_iff : forall es i e,
    In (i, e) (b_fired (fst (brun msplit sizeof icount min_size es))) -> e = snd (erun msplit sizeof icount min_size es) i.
  Proof. exact (done_error_iff_l msplit sizeof icount min_size). Qed.
End Batcher.
Print Assumptions done_error_iff.

Print Assumptions done_at_most_once.
Print Assumptions done_exactly_once.
Print Assumptions done_only_after_batches.

(* ================================================================================================== *)
(* 6. the completion callback in the property's own wording (items), for logs / traces / profiles     *)
(* ================================================================================================== *)
(* The batcher instantiated with the payload requests of sections 1-3: MergeSplit = merge_split w sz max, the
   queue's sizer = the true size, min_size <= max_size (or no limit) as BatchConfig.Validate demands; requests with
   non-negative measured sizes, every item counting >= 1 in ItemsCount() ([wf_events]: vacuous for logs / traces).  [krun] is [brun] with the list of consumed requests as ghost;
   [owner rs i x]: item x belongs to the i-th consumed request. *)

(* "holds items of" implies "attached": every batch in flight that holds an item whose only owner is request i has
   i's done attached to its done list *)
Theorem holds_attached : forall w sz max min, 0 <= max -> (max = 0 \/ min <= max) -> forall es,
  wf_events w sz es ->
  let '(st, n, rs) := krun w sz max min es in
  forall b r ds x i, In (b, r, ds) (b_flying st) -> In x (ritems r) ->
    owner rs i x -> (forall j, owner rs j x -> j = i) -> attached (b_refs st) ds i = true.
Proof. exact holds_attached_l. Qed.
Print Assumptions holds_attached.

(* 'if' half of "reports an error iff one of those batches failed", in items: if the export of a batch holding an
   item of request i (and of no other request) returns an error, then whatever i's callback reports, now or later,
   is an error *)
Theorem done_error_if_items : forall w sz max min, 0 <= max -> (max = 0 \/ min <= max) -> forall es1 es2 b,
  wf_events w sz es1 ->
  let '(st, n, rs) := krun w sz max min es1 in
  forall r ds x i e, fly_req b (b_flying st) = Some (r, ds) -> In x (ritems r) ->
    owner rs i x -> (forall j, owner rs j x -> j = i) ->
    In (i, e) (b_fired (fst (brun (msplitC w sz max) (sizeofC w sz) (icountC w) min (es1 ++ EResult b true :: es2)))) -> e = true.
Proof. exact done_error_if_items_l. Qed.
Print Assumptions done_error_if_items.

(* 'only if' half: the error reported is exactly the verdict over ATTACHED batches (done_error_iff), and the
   repaired consume (6f74b829b) attaches the new request's done to the first result r0 of MergeSplit(parked, new)
   exactly when [attach] (Model.consume: first_holds_new) is true.  In items: not attached -> r0 holds items of the parked
   batch only; attached -> r0 is the only result or holds an item of the new request; every other result holds items
   of the new request only (and gets its done); the parked batch (within max_size) is entirely in r0, where its dones
   stay (run-time oracle parked-items-not-in-first-result, all four signals).  So a done is attached to a batch that holds none of its request's
   items only in these cases, all item-less: the request holds no item (its done rides on the single result), a
   result other than the first holds no item (item-less containers of the request), or the parked batch it was
   attached to held no item of it for one of these reasons.  (The statement "error -> a failed batch held one of its
   items", over whole histories, is checked on every observed history by the items oracle and the clause checker,
   with these cases as the only ones not flagged; it is not a Coq theorem.) *)
Theorem attach_rule_items : forall w sz max a b r0 rest,
  wf_p w sz (rp a) -> wf_p w sz (rp b) -> pos_items w (rp b) -> (max = 0 \/ psum w sz (rp a) <= max) -> 0 <= max ->
  merge_split w sz max a (Some b) = Some (r0 :: rest) ->
  let attach := (Nat.eqb (length rest) 0 || negb (icountC w r0 =? icountC w a))%bool in
  (attach = false -> forall x, In x (ritems r0) -> In x (ritems a)) /\
  (attach = true -> rest = [] \/ exists x, In x (ritems r0) /\ In x (ritems b)) /\
  (forall q x, In q rest -> In x (ritems q) -> In x (ritems b)) /\
  (forall x, In x (ritems a) -> In x (ritems r0)).
Proof. exact attach_rule_items_l. Qed.
Print Assumptions attach_rule_items.

(* ================================================================================================== *)
(* 7. conservation for ANY SEQUENCE of requests through the batcher (logs / traces / profiles)        *)
(* ================================================================================================== *)
(* [crun] = [brun] of the payload batcher with three ghosts: the consumed requests, [ok] = the items of the consumed
   requests whose MergeSplit did not fail (a request whose MergeSplit fails is reported failed at once and none of it
   enters a batch; for logs / traces MergeSplit never fails: split_terminates), and [F] = the items of the batches whose
   export has returned.  After any history (any number of requests, timer flushes, export results in any order with
   any outcome, shutdown): parked + in flight + exported = [ok], as multisets of items (with their sizes and
   weights; their contexts are conserved by every MergeSplit: section 1). *)
Theorem batcher_conserves : forall w sz max min, 0 <= max -> (max = 0 \/ min <= max) -> forall es,
  wf_events w sz es ->
  let '(st, n, rs, ok, F) := crun w sz max min es in
  Permutation (cur_items st ++ fly_items st ++ F) ok.
Proof. exact batcher_conserves_l. Qed.
Print Assumptions batcher_conserves.

(* "only after every batch containing part of it has finished", in items: once request i's callback has fired, no
   batch in flight holds an item owned by i alone *)
Theorem done_only_after_batches_items : forall w sz max min, 0 <= max -> (max = 0 \/ min <= max) -> forall es,
  wf_events w sz es ->
  let '(st, n, rs) := krun w sz max min es in
  forall i, 0 < fcount i (b_fired st) ->
    forall b r ds x, In (b, r, ds) (b_flying st) -> In x (ritems r) -> owner rs i x ->
      (forall j, owner rs j x -> j = i) -> False.
Proof. exact done_only_after_items_l. Qed.
Print Assumptions done_only_after_batches_items.

(* ================================================================================================== *)
(* 8. the decidable clause checker run over every observed case (Checker.v) says what the clauses say  *)
(* ================================================================================================== *)
Theorem checker_sound_mergesplit : forall signal sz max a b obs,
  clauses_l3 signal sz max a b obs = 0 <-> Clause_l3 signal sz max a b obs.
Proof. exact clauses_l3_sound. Qed.
Print Assumptions checker_sound_mergesplit.

Theorem checker_sound_batcher : forall max failed evs batches fired,
  clauses_bat max failed evs batches fired = 0 -> Clause_bat_core evs batches fired.
Proof. exact clauses_bat_sound. Qed.
Print Assumptions checker_sound_batcher.

Theorem checker_sound_metrics : forall sz max a b obs,
  clauses_m4 sz max a b obs = 0 <-> Clause_m4 sz max a b obs.
Proof. exact clauses_m4_sound. Qed.
Print Assumptions checker_sound_metrics.

(* all four batcher clauses: callback count, conservation of ids, batch size, and the error clause in ITEMS (ids):
   error iff own MergeSplit failed or the export of a batch holding one of its ids failed *)
Theorem checker_sound_batcher_full : forall max failed evs batches fired,
  clauses_bat max failed evs batches fired = 0 -> Clause_bat max failed evs batches fired.
Proof. exact clauses_bat_sound_full. Qed.
Print Assumptions checker_sound_batcher_full.

(* ================================================================================================== *)
(* 9. the checker linked back to the model: what the MODEL produces passes the checker               *)
(* ================================================================================================== *)
(* Logs / traces / profiles, both sizers, every max_size >= 0, every request pair: the observation built from the model's
   own MergeSplit exactly as the harness builds it from the implementation's (Harness.model_l3 = out3 of every returned
   request) passes ALL clauses of the checker (termination, conservation with context, size bound with the one-item /
   item-less exceptions, cached size, fullness).  [guard_l3] (boolean, Link.v) is the hypotheses of the theorems above:
   non-negative measured sizes (= the checker's own clause 9), every item counts >= 1, memos unknown or exact,
   max_size >= 0.  With sections 1-3 and checker_sound_mergesplit this makes the checker's verdict and the theorems
   statements about the same thing: a case on which the checker fails is one on which the implementation differs from
   the model (or leaves the guard). *)
Theorem model_passes_checker_mergesplit : forall signal sz max a b,
  guard_l3 signal sz max a b = true ->
  clause_code (CL3 signal sz max a b (model_l3 signal sz max a b)) = 0.
Proof. exact model_passes_checker_l3. Qed.
Print Assumptions model_passes_checker_mergesplit.

(* Batcher histories over ids requests, clause 6 (the first test of clauses_bat): on the model's own run every callback
   fired exactly once, as soon as nothing is parked and nothing is in flight.  Clauses 2, 3, 7 (conservation of ids,
   batch size, error in ids) are NOT linked for this request type: the item-level theorems (holds_attached,
   batcher_conserves, attach_rule_items) are proved for the payload requests of the real exporter, not for the harness's
   list-of-ids requests with their slack MergeSplit (Harness.lsplit). *)
Theorem model_passes_checker_batcher_done : forall sl mn mx evs,
  let st := fst (brun (lsplit sl mx) lsizeof lsizeof mn (map bev_of evs)) in
  b_cur st = None -> b_flying st = [] ->
  forallb (fun i => Nat.eqb (count_occ Z.eq_dec (map fst (snd (model_bat sl mn mx evs))) (Z.of_nat i)) 1) (seq 0 (length (ev_reqs evs))) = true.
Proof. exact model_passes_checker_bat_done. Qed.
Print Assumptions model_passes_checker_batcher_done.
