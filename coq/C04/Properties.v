(* C04/Properties.v — the property theorems, nothing else.  Each is closed by [exact lemma] and followed
   by Print Assumptions (captured into the evidence by the check driver). *)
From Verif Require Import Common.Base C04.Model C04.Proofs C04.Proofs2 C04.Proofs3 C04.Proofs4 C04.Proofs5 C04.Proofs6 C04.Proofs7 C04.Proofs8 C04.Harness C04.Obligations C04.Checker C04.CheckerProofs.
From Coq Require Import Permutation.
Local Open Scope Z_scope.

(* ================================================================================================== *)
(* 1. conservation with full context                                                                  *)
(* ================================================================================================== *)
(* Logs, traces, profiles; BOTH sizers; every max_size; every pair of requests (any cached-size state); [w] is
   the count weight of an item (1 for a log record / span: [w_unit]; the number of samples of a profile:
   [w_samples]): the multiset of (item id, resource context, scope context) over all returned requests is the
   multiset that entered.  Hypothesis [wf_p]: measured header sizes are non-negative and every item present has a
   positive delta size — bytes sizer: its encoded size is >= 0; items sizer: it weighs >= 1, which is vacuous for
   logs and traces (next theorem) and for profiles excludes profiles WITHOUT samples: they hold no telemetry item
   (sample), are extracted at size 0 and are discarded with the extracted payload when split() stops
   (Witness.ex_empty_profile_dropped).  The hypothesis is what makes "nothing was removed" imply "the discarded
   payload holds no item". *)
Theorem merge_split_conserves : forall w sz max a b out,
  wf_p w sz (rp a) -> wf_opt w sz b ->
  merge_split w sz max a b = Some out ->
  Permutation (flat_reqs out) (flat (rp a) ++ flat_opt b).
Proof. exact merge_split_conserves_l. Qed.
Print Assumptions merge_split_conserves.

Theorem merge_split_conserves_logs_traces_items : forall max a b out,
  merge_split w_unit Items max a b = Some out ->
  Permutation (flat_reqs out) (flat (rp a) ++ flat_opt b).
Proof. exact merge_split_conserves_unit_l. Qed.
Print Assumptions merge_split_conserves_logs_traces_items.

(* Metrics: the same statement with the metric identity (name, unit, description, metadata, temporality,
   monotonicity: [mid]) in the observable is FALSE of the code (finding F4) ... *)
Theorem merge_split_conserves_refuted :
  exists sz max a out, mmerge_split sz max a None = Some out /\
    ~ Permutation (mflat_reqs out) (mflat (mrp a)).
Proof. exact merge_split_conserves_refuted_l. Qed.
Print Assumptions merge_split_conserves_refuted.

(* ... what does hold for metrics, both sizers, every max_size: conservation of (point id, resource context,
   scope context, metric type).  Hypothesis: the measured sizes (headers, points) are non-negative — nothing for
   the items sizer (wf_mpayload_items). *)
Theorem merge_split_conserves_partial : forall sz max a b out,
  wf_mpayload sz (mrp a) -> wf_mopt sz b ->
  mmerge_split sz max a b = Some out ->
  Permutation (nflat_reqs out) (nflat (mrp a) ++ nflat_opt b).
Proof. exact mmerge_split_conserves_partial_l. Qed.
Print Assumptions merge_split_conserves_partial.

(* ================================================================================================== *)
(* 2. termination (every signal, both sizers, every max_size, every payload)                          *)
(* ================================================================================================== *)
(* MergeSplit always returns: for EVERY weight function, sizer, max_size, request pair and cached-size state —
   no hypothesis at all, also for metrics.  The argument is on the memo itself, which is what the code tests: an
   iteration that continues has lowered it by rmSize >= 1 and the loop runs only while it exceeds max_size, so the
   model's fuel, (memo - max_size) + 1, never runs out. *)
Theorem split_terminates : forall w sz max a b, exists out, merge_split w sz max a b = Some out.
Proof. exact merge_split_total. Qed.
Print Assumptions split_terminates.

Theorem split_terminates_metrics : forall sz max a b, exists out, mmerge_split sz max a b = Some out.
Proof. exact mmerge_split_total. Qed.
Print Assumptions split_terminates_metrics.

(* ================================================================================================== *)
(* 3. size bound, fullness, cached size — items sizer, unit weights (logs, traces; metrics)           *)
(* ================================================================================================== *)
(* [size_ok r]: the memo of r is unknown or equals its number of items — true of every fresh request
   (fresh_size_ok) and re-established for the remainder by the conclusion below. *)
Theorem all_but_last_full : forall max a b, 1 <= max -> size_ok a -> size_ok_opt b ->
  exists ds last, merge_split w_unit Items max a b = Some (ds ++ [last]) /\
    Forall (fun r => count (rp r) = max) ds /\ count (rp last) <= max.
Proof. exact all_but_last_full_l. Qed.
Print Assumptions all_but_last_full.

Theorem batch_size_bound : forall max a b out q, 1 <= max -> size_ok a -> size_ok_opt b ->
  merge_split w_unit Items max a b = Some out -> In q out -> count (rp q) <= max.
Proof. exact batch_size_bound_l. Qed.
Print Assumptions batch_size_bound.

Theorem cached_size_exact : forall max a b out q, 1 <= max -> size_ok a -> size_ok_opt b ->
  merge_split w_unit Items max a b = Some out -> In q out -> rcached q = -1 \/ rcached q = count (rp q).
Proof. exact cached_size_exact_l. Qed.
Print Assumptions cached_size_exact.

(* the same four clauses for metrics (count = number of data points) *)
Theorem metrics_items_split : forall max a b, 1 <= max -> msize_ok a -> msize_ok_opt b ->
  exists ds last, mmerge_split Items max a b = Some (ds ++ [last]) /\
    Forall (fun r => mcount (mrp r) = max /\ mrcached r = -1) ds /\
    mcount (mrp last) <= max /\ mrcached last = mcount (mrp last).
Proof. exact mmerge_split_items_l. Qed.
Print Assumptions metrics_items_split.

(* max_size = 0 (no limit): one request comes back, for both sizers and every signal *)
Theorem no_limit_no_split : forall w sz a b,
  merge_split w sz 0 a b = Some [merged w sz a b] /\ forall ma mb, mmerge_split sz 0 ma mb = Some [mmerged sz ma mb].
Proof. exact no_limit_no_split_l. Qed.
Print Assumptions no_limit_no_split.

(* ================================================================================================== *)
(* 3b. bytes sizer (and every sizer / weight): exact memo, size bound — logs, traces, profiles        *)
(* ================================================================================================== *)
(* [memo_ok w sz r]: the memo of r is unknown (-1) or equals its recomputed size.  After ANY MergeSplit, with any
   sizer, weight function and max_size, every returned request satisfies it again — no other hypothesis: the
   removedSize arithmetic ("delta between the delta sizes") is exact.  (For metrics it is false: C04-CACHEDRIFT.) *)
Theorem cached_size_exact_any_sizer : forall w sz max a b out,
  memo_ok w sz a -> memo_ok_opt w sz b -> merge_split w sz max a b = Some out -> Forall (memo_ok w sz) out.
Proof. exact cached_size_exact_all_l. Qed.
Print Assumptions cached_size_exact_any_sizer.

Theorem cached_size_exact_bytes : forall w max a b out,
  memo_ok w Bytes a -> memo_ok_opt w Bytes b -> merge_split w Bytes max a b = Some out -> Forall (memo_ok w Bytes) out.
Proof. exact (fun w => cached_size_exact_all_l w Bytes). Qed.
Print Assumptions cached_size_exact_bytes.

(* Every request that split() cuts off measures at most max_size in the active unit (TRUE recomputed size: the
   reservation capacity - (DeltaSize capacity - capacity) - header is sound against the nested length prefixes);
   the last request is within max_size by its (exact) memo, or it is the remainder of a split that stopped because
   an extraction removed nothing ([no_progress]: C04-OVERSIZED-REMAINDER).  Hypothesis: non-negative measured sizes
   (and weight >= 1 for the items sizer).  With w_samples / Items this is the bound for profiles: at most max_size
   samples per batch. *)
Theorem batch_size_bound_any_sizer : forall w sz max a b out,
  wf_p w sz (rp a) -> wf_opt w sz b -> 1 <= max ->
  merge_split w sz max a b = Some out ->
  exists ds last, out = ds ++ [last] /\ Forall (fun q => payload_size w sz (rp q) <= max) ds /\
                  (rcached last <= max \/ no_progress w sz max last).
Proof. exact batch_size_bound_all_l. Qed.
Print Assumptions batch_size_bound_any_sizer.

Theorem batch_size_bound_bytes : forall w max a b out,
  wf_p w Bytes (rp a) -> wf_opt w Bytes b -> 1 <= max ->
  merge_split w Bytes max a b = Some out ->
  exists ds last, out = ds ++ [last] /\ Forall (fun q => payload_size w Bytes (rp q) <= max) ds /\
                  (rcached last <= max \/ no_progress w Bytes max last).
Proof. exact (fun w => batch_size_bound_all_l w Bytes). Qed.
Print Assumptions batch_size_bound_bytes.

(* ================================================================================================== *)
(* 4. the size bound: what is false of the code                                                       *)
(* ================================================================================================== *)
(* C04-OVERSIZED-REMAINDER: when the leftmost unit does not fit, split() returns the whole remainder: a request
   above max_size holding TWO records *)
Theorem oversized_remainder_refuted : exists w sz max a out q,
  merge_split w sz max a None = Some out /\ In q out /\
  max < payload_size w sz (rp q) /\ length (items_of (rp q)) = 2%nat.
Proof. exact oversized_remainder_refuted_l. Qed.
Print Assumptions oversized_remainder_refuted.

(* C04-EMPTYFRAG: metrics, bytes: a batch above max_size holding two points although every unit fits alone *)
Theorem batch_size_bound_refuted : exists max a out q,
  mmerge_split Bytes max a None = Some out /\ In q out /\
  max < mpayload_size Bytes (mrp q) /\ length (mpoints_of (mrp q)) = 2%nat.
Proof. exact batch_size_bound_refuted_l. Qed.
Print Assumptions batch_size_bound_refuted.

(* C04-CACHEDRIFT: metrics, bytes: an exact memo goes in, an inexact one comes out *)
Theorem cached_size_exact_refuted : exists max a out q,
  mrcached a = mpayload_size Bytes (mrp a) /\
  mmerge_split Bytes max a None = Some out /\ In q out /\
  mrcached q <> -1 /\ mrcached q <> mpayload_size Bytes (mrp q).
Proof. exact cached_size_exact_refuted_l. Qed.
Print Assumptions cached_size_exact_refuted.

(* ================================================================================================== *)
(* 5. completion callbacks (default_batcher.go), for EVERY history                                    *)
(* ================================================================================================== *)
(* A history is any list of events: consume a request, timer flush, the export of batch b returns with or
   without error, shutdown flush — in any order, any number (results of unknown batches are no-ops), for ANY
   request type with ANY MergeSplit function (including one that fails or returns nothing), any sizer and any
   min_size.  [fcount i fired] counts the Done.OnDone calls made on incoming request number i. *)
Section Batcher.
  Context {R : Type}.
  Variable msplit : R -> option R -> option (list R).
  Variable sizeof : R -> Z.
  Variable min_size : Z.

  (* never more than once *)
  Theorem done_at_most_once : forall es i,
    fcount i (b_fired (fst (brun msplit sizeof min_size es))) <= 1.
  Proof. exact (done_at_most_once_l msplit sizeof min_size). Qed.

  (* exactly once as soon as nothing is parked and nothing is in flight (e.g. after shutdown and the return
     of every export) — for every request consumed so far *)
  Theorem done_exactly_once : forall es i,
    let st := fst (brun msplit sizeof min_size es) in
    b_cur st = None -> b_flying st = [] ->
    (i < length (filter (fun e => match e with EConsume _ => true | _ => false end) es))%nat ->
    fcount i (b_fired st) = 1.
  Proof. exact (done_exactly_once_l2 msplit sizeof min_size). Qed.

  (* only after every batch holding part of it has finished: once fired, neither the parked batch nor any
     in-flight batch refers to the request, directly or through a refCountDone that still counts *)
  Theorem done_only_after_batches : forall es i,
    0 < fcount i (b_fired (fst (brun msplit sizeof min_size es))) ->
    ~ refers (fst (brun msplit sizeof min_size es)) i.
  Proof. exact (done_only_after_batches_l msplit sizeof min_size). Qed.
  (* the error a callback reports is EXACTLY the specification's verdict [snd (erun es) i] (Model.erun): request
     i's own MergeSplit failed, or the export of a batch whose done list was ATTACHED to i (it contains i's done or a
     refCountDone wrapping it) returned an error — both directions, every history *)
  Theorem done_error_iff : forall es i e,
    In (i, e) (b_fired (fst (brun msplit sizeof min_size es))) -> e = snd (erun msplit sizeof min_size es) i.
  Proof. exact (done_error_iff_l msplit sizeof min_size). Qed.
End Batcher.
Print Assumptions done_error_iff.

(* "attached to" is not "holds items of": with requests that are lists of ids and a MergeSplit that leaves slack,
   request 2 reports an error although every batch holding one of its ids succeeded (C04-DONE-FOREIGN-ERROR) *)
Theorem done_error_only_items_refuted :
  let '(batches, fired) := model_bat 2 3 3 foreign_evs in
  In (2, 1) fired /\
  forall b ids, nth_error batches b = Some ids -> (exists x, In x ids /\ In x [3;4;5;6;7]) ->
                ~ In (2, [Z.of_nat b], 1) foreign_evs.
Proof. exact done_error_only_items_refuted_l. Qed.
Print Assumptions done_error_only_items_refuted.
Print Assumptions done_at_most_once.
Print Assumptions done_exactly_once.
Print Assumptions done_only_after_batches.

(* ================================================================================================== *)
(* 6. the completion callback in the property's own wording (items), for logs / traces / profiles     *)
(* ================================================================================================== *)
(* The batcher instantiated with the payload requests of sections 1-3: MergeSplit = merge_split w sz max, the
   queue's sizer = the true size, min_size <= max_size (or no limit) as BatchConfig.Validate demands; requests with
   non-negative measured sizes ([wf_events]).  [krun] is [brun] with the list of consumed requests as ghost;
   [owner rs i x]: item x belongs to the i-th consumed request. *)

(* "holds items of" implies "attached": every batch in flight that holds an item whose only owner is request i has
   i's done attached to its done list *)
Theorem holds_attached : forall w sz max min, 0 <= max -> (max = 0 \/ min <= max) -> forall es,
  wf_events w sz es ->
  let '(st, n, rs) := krun w sz max min es in
  forall b r ds x i, In (b, r, ds) (b_flying st) -> In x (ritems r) ->
    owner rs i x -> (forall j, owner rs j x -> j = i) -> attached (b_refs st) ds i = true.
Proof. exact holds_attached_l. Qed.
Print Assumptions holds_attached.

(* 'if' half of "reports an error iff one of those batches failed", in items: if the export of a batch holding an
   item of request i (and of no other request) returns an error, then whatever i's callback reports, now or later,
   is an error *)
Theorem done_error_if_items : forall w sz max min, 0 <= max -> (max = 0 \/ min <= max) -> forall es1 es2 b,
  wf_events w sz es1 ->
  let '(st, n, rs) := krun w sz max min es1 in
  forall r ds x i e, fly_req b (b_flying st) = Some (r, ds) -> In x (ritems r) ->
    owner rs i x -> (forall j, owner rs j x -> j = i) ->
    In (i, e) (b_fired (fst (brun (msplitC w sz max) (sizeofC w sz) min (es1 ++ EResult b true :: es2)))) -> e = true.
Proof. exact done_error_if_items_l. Qed.
Print Assumptions done_error_if_items.

(* 'only if' half in items is false of the code, also on payload requests with the bytes sizer
   (C04-DONE-FOREIGN-ERROR): batch 0 holds only record 1 (request 0) and fails; request 1 (records 2, 3, 4, exported
   successfully in batches 1, 2, 3) reports an error.  In terms of ATTACHED batches both halves hold: done_error_iff. *)
Theorem done_error_only_items_refuted_payload :
  let run es := fst (brun (msplitC w_unit Bytes 120) (sizeofC w_unit Bytes) 120 es) in
  map (fun f => (fst (fst f), map iid (ritems (snd (fst f))))) (b_flying (run (firstn 3 fe_hist)))
    = [(0%nat, [1]); (1%nat, [2]); (2%nat, [3]); (3%nat, [4])] /\
  b_fired (run fe_hist) = [(0%nat, true); (1%nat, true)].
Proof. exact foreign_error_payload_witness. Qed.
Print Assumptions done_error_only_items_refuted_payload.


(* ================================================================================================== *)
(* 7. conservation for ANY SEQUENCE of requests through the batcher (logs / traces / profiles)        *)
(* ================================================================================================== *)
(* [crun] = [brun] of the payload batcher with two ghosts: the consumed requests and the items of the batches whose
   export has returned.  After any history (any number of requests, timer flushes, export results in any order with
   any outcome, shutdown): parked + in flight + exported = entered, as multisets of items (with their sizes and
   weights; their contexts are conserved by every MergeSplit: section 1). *)
Theorem batcher_conserves : forall w sz max min, 0 <= max -> (max = 0 \/ min <= max) -> forall es,
  wf_events w sz es ->
  let '(st, n, rs, F) := crun w sz max min es in
  Permutation (cur_items st ++ fly_items st ++ F) (items_reqs rs).
Proof. exact batcher_conserves_l. Qed.
Print Assumptions batcher_conserves.

(* "only after every batch containing part of it has finished", in items: once request i's callback has fired, no
   batch in flight holds an item owned by i alone *)
Theorem done_only_after_batches_items : forall w sz max min, 0 <= max -> (max = 0 \/ min <= max) -> forall es,
  wf_events w sz es ->
  let '(st, n, rs) := krun w sz max min es in
  forall i, 0 < fcount i (b_fired st) ->
    forall b r ds x, In (b, r, ds) (b_flying st) -> In x (ritems r) -> owner rs i x ->
      (forall j, owner rs j x -> j = i) -> False.
Proof. exact done_only_after_items_l. Qed.
Print Assumptions done_only_after_batches_items.

(* ================================================================================================== *)
(* 8. the decidable clause checker run over every observed case (Checker.v) says what the clauses say  *)
(* ================================================================================================== *)
Theorem checker_sound_mergesplit : forall signal sz max a b obs,
  clauses_l3 signal sz max a b obs = 0 <-> Clause_l3 signal sz max a b obs.
Proof. exact clauses_l3_sound. Qed.
Print Assumptions checker_sound_mergesplit.

Theorem checker_sound_batcher : forall max failed evs batches fired,
  clauses_bat max failed evs batches fired = 0 -> Clause_bat_core evs batches fired.
Proof. exact clauses_bat_sound. Qed.
Print Assumptions checker_sound_batcher.
