(* C04/Obligations.v — the hand-written pieces of Model.v that transcribe loop-free Go functions EQUAL what
   translator T1 (tools/go2coq) reads from the current source (coq/Generated/C04Sizers.v, regenerated on every
   check): an edit of the Go functions changes the generated definitions and breaks the named obligation. *)
From Verif Require Import Common.Base Generated.C04Sizers C04.Model.
Local Open Scope Z_scope.

(* math/bits.Len64(x|1) for the uint64 conversion of a Go int: 64 for a negative int *)
Definition len64_or1 (x : Z) : Z := if x <? 0 then 64 else Z.log2 (Z.lor x 1) + 1.

(* sov (proto_delta_sizer.go) *)
Theorem obl_sov : forall x, sov x = sov_go x (len64_or1 x).
Proof.
  intros x. unfold sov, sov_go, len64_or1. destruct (x <? 0) eqn:E; [reflexivity|].
  assert (0 <= Z.log2 (Z.lor x 1)) by apply Z.log2_nonneg.
  rewrite Z.quot_div_nonneg by lia. f_equal. lia.
Qed.

(* protoDeltaSizer.DeltaSize: 1 + n + sov(uint64(n)) *)
Theorem obl_bytes_delta : forall n, delta Bytes n = bytes_delta_size n (len64_or1 n).
Proof. intros n. cbn [delta]. rewrite obl_sov. unfold bytes_delta_size, sov_go. lia. Qed.

(* the count sizers: DeltaSize is the identity; a log record / span / data point weighs 1, a profile its samples *)
Theorem obl_count_delta : forall n,
  delta Items n = logs_count_delta_size n /\ delta Items n = traces_count_delta_size n /\
  delta Items n = metrics_count_delta_size n /\ delta Items n = profiles_count_delta_size n.
Proof. intros n. repeat split. Qed.

Theorem obl_count_weights : forall i,
  item_size w_unit Items i = logs_count_record_size /\ item_size w_unit Items i = traces_count_span_size /\
  point_size Items i = metrics_count_point_size /\ item_size w_samples Items i = profiles_count_profile_size (icnt i).
Proof. intros i. repeat split. Qed.

(* BatchConfig.Validate (a non-nil config) *)
Theorem obl_batch_config_validate : forall ft mn mx,
  batch_cfg_valid ft mn mx = match batch_config_validate false ft mn mx with None => true | Some _ => false end.
Proof.
  intros ft mn mx. unfold batch_cfg_valid, batch_config_validate.
  destruct (ft <=? 0) eqn:E1; destruct (0 <? ft) eqn:E1'; try lia; cbn [andb];
  destruct (mn <? 0) eqn:E2; destruct (0 <=? mn) eqn:E2'; try lia; cbn [andb];
  destruct (mx <? 0) eqn:E3; destruct (0 <=? mx) eqn:E3'; try lia; cbn [andb];
  destruct (mx >? 0) eqn:E4; destruct (0 <? mx) eqn:E4'; try (rewrite Z.gtb_ltb in E4; lia); cbn [andb negb];
  destruct (mx <? mn); reflexivity.
Qed.
