(* C04/Link.v — the clause checker (Checker.v) linked back to the model: what the MODEL produces, observed the way the
   harness observes the implementation (Harness.model_l3 / model_m4 / model_bat), always passes the checker — under
   boolean guards that are the well-formedness hypotheses of the theorems of Properties.v. *)
From Verif Require Import Common.Base C04.Model C04.Proofs C04.Proofs2 C04.Proofs3 C04.Proofs5 C04.Proofs6 C04.Proofs8 C04.Proofs9
                          C04.Checker C04.CheckerProofs.
From Coq Require Import Permutation.
Local Open Scope Z_scope.

(* ---- guards ------------------------------------------------------------------------------------------------- *)
(* every item counts at least 1 (log records, spans: always; profiles: at least one sample) *)
Definition pos_treq (t : treq) : bool :=
  forallb (fun r : tres => let '(_, _, scs) := r in
    forallb (fun s : tscope => let '(_, _, its) := s in
      forallb (fun i : titem => let '(_, _, cnt) := i in 1 <=? cnt) its) scs) (snd t).
(* the memo is unknown or exact *)
Definition memo_okb (signal sz : Z) (t : treq) : bool :=
  (fst t =? -1) || (fst t =? payload_size (weight_of signal) (sizer_of sz) (rp (req_of t))).
Definition optb {A} (f : A -> bool) (o : option A) : bool := match o with Some x => f x | None => true end.

Definition guard_l3 (signal sz max : Z) (a : treq) (b : option treq) : bool :=
  wf_treq a && optb wf_treq b && pos_treq a && optb pos_treq b &&
  memo_okb signal sz a && optb (memo_okb signal sz) b && (0 <=? max).

(* ---- the wire format and the model's types --------------------------------------------------------------------- *)
Lemma weight_cases signal : weight_of signal = w_unit \/ weight_of signal = w_samples.
Proof. unfold weight_of. destruct (signal =? 2); auto. Qed.

Lemma wf_treq_p signal sz t : wf_treq t = true -> pos_treq t = true -> wf_p (weight_of signal) (sizer_of sz) (rp (req_of t)).
Proof.
  unfold wf_treq, pos_treq, req_of. cbn [rp]. intros Hw Hp. rewrite forallb_forall in Hw, Hp.
  unfold wf_p. apply Forall_forall. intros r Hr. apply in_map_iff in Hr. destruct Hr as [[[rc rh] scs] [<- Hr]].
  specialize (Hw _ Hr). specialize (Hp _ Hr). cbn beta iota in Hw, Hp. apply andb_true_iff in Hw. destruct Hw as [Hh Hw].
  apply Z.leb_le in Hh. rewrite forallb_forall in Hw, Hp. unfold wf_r, res_of. cbn [rhdr rscopes].
  split; [destruct (sizer_of sz); cbn [hdr]; lia|]. apply Forall_forall. intros s Hs. apply in_map_iff in Hs.
  destruct Hs as [[[sc sh] its] [<- Hs]]. specialize (Hw _ Hs). specialize (Hp _ Hs). cbn beta iota in Hw, Hp.
  apply andb_true_iff in Hw. destruct Hw as [Hh2 Hw]. apply Z.leb_le in Hh2. rewrite forallb_forall in Hw, Hp.
  unfold wf_s, scope_of. cbn [shdr sitems]. split; [destruct (sizer_of sz); cbn [hdr]; lia|].
  apply Forall_forall. intros i Hi. apply in_map_iff in Hi. destruct Hi as [[[id raw] cnt] [<- Hi]].
  specialize (Hw _ Hi). specialize (Hp _ Hi). cbn beta iota in Hw, Hp. apply andb_true_iff in Hw. destruct Hw as [Hraw _].
  apply Z.leb_le in Hraw, Hp. unfold wf_i, item_of.
  destruct (sizer_of sz); cbn [item_size delta iraw].
  - destruct (weight_cases signal) as [-> | ->]; unfold w_unit, w_samples; cbn [icnt]; lia.
  - pose proof (sov_pos0 raw). lia.
Qed.

Lemma pos_treq_items signal t : pos_treq t = true -> pos_items (weight_of signal) (rp (req_of t)).
Proof.
  unfold pos_treq, req_of, pos_items. cbn [rp]. intros Hp i Hi. rewrite forallb_forall in Hp.
  unfold items_of in Hi. apply in_concat in Hi. destruct Hi as [l [Hl Hi]]. apply in_map_iff in Hl. destruct Hl as [r [<- Hr]].
  apply in_map_iff in Hr. destruct Hr as [[[rc rh] scs] [<- Hr]]. specialize (Hp _ Hr). cbn beta iota in Hp. rewrite forallb_forall in Hp.
  unfold items_of_res, res_of in Hi. cbn [rscopes] in Hi. apply in_concat in Hi. destruct Hi as [l [Hl Hi]].
  apply in_map_iff in Hl. destruct Hl as [s [<- Hs]]. apply in_map_iff in Hs. destruct Hs as [[[sc sh] its] [<- Hs]].
  specialize (Hp _ Hs). cbn beta iota in Hp. rewrite forallb_forall in Hp. unfold scope_of in Hi. cbn [sitems] in Hi.
  apply in_map_iff in Hi. destruct Hi as [[[id raw] cnt] [<- Hi]]. specialize (Hp _ Hi). cbn beta iota in Hp. apply Z.leb_le in Hp.
  destruct (weight_cases signal) as [-> | ->]; unfold w_unit, w_samples, item_of; cbn [icnt]; lia.
Qed.

Lemma out_flat3_out3 w sz r : out_flat3 (out3 w sz r) = flat (rp r).
Proof.
  unfold out_flat3, out3, shape3, flat. rewrite map_map. f_equal. apply map_ext. intros x. cbn [fst snd].
  unfold flat_res. rewrite map_map. f_equal. apply map_ext. intros s. cbn [fst snd]. rewrite map_map. reflexivity.
Qed.

Lemma concat_map_single {A B} (f : A -> B) (g : A -> list B) l : (forall x, In x l -> g x = [f x]) -> concat (map g l) = map f l.
Proof. induction l as [|x l IH]; intros H; [reflexivity|]. cbn [map concat]. rewrite (H x (or_introl eq_refl)), IH; [reflexivity|]. intros; apply H; now right. Qed.
Lemma concat_map_nil {A B} (g : A -> list B) l : (forall x, In x l -> g x = []) -> concat (map g l) = [].
Proof. induction l as [|x l IH]; intros H; [reflexivity|]. cbn [map concat]. rewrite (H x (or_introl eq_refl)), IH; [reflexivity|]. intros; apply H; now right. Qed.

Lemma in_flat3_pos t : pos_treq t = true -> in_flat3 t = flat (rp (req_of t)) /\ zero_ids3 t = [].
Proof.
  unfold pos_treq, in_flat3, zero_ids3, flat, req_of. cbn [rp]. intros Hp. rewrite forallb_forall in Hp. rewrite map_map. split.
  - f_equal. apply map_ext_in. intros [[rc rh] scs] Hr. specialize (Hp _ Hr). cbn beta iota in Hp. rewrite forallb_forall in Hp.
    unfold flat_res, res_of. cbn [rscopes rctx]. rewrite map_map. f_equal. apply map_ext_in. intros [[sc sh] its] Hs.
    specialize (Hp _ Hs). cbn beta iota in Hp. rewrite forallb_forall in Hp. unfold scope_of. cbn [sitems sctx]. rewrite map_map.
    apply concat_map_single. intros [[id raw] cnt] Hi. specialize (Hp _ Hi). cbn beta iota in Hp. apply Z.leb_le in Hp.
    assert (E : (0 <? cnt) = true) by (apply Z.ltb_lt; lia). rewrite E. reflexivity.
  - apply concat_map_nil. intros [[rc rh] scs] Hr. specialize (Hp _ Hr). cbn beta iota in Hp. rewrite forallb_forall in Hp.
    apply concat_map_nil. intros [[sc sh] its] Hs. specialize (Hp _ Hs). cbn beta iota in Hp. rewrite forallb_forall in Hp.
    apply concat_map_nil. intros [[id raw] cnt] Hi. specialize (Hp _ Hi). cbn beta iota in Hp. apply Z.leb_le in Hp.
    assert (E : (0 <? cnt) = true) by (apply Z.ltb_lt; lia). rewrite E. reflexivity.
Qed.

Lemma flat_length p : length (flat p) = length (items_of p).
Proof.
  unfold flat, items_of. induction p as [|r p IH]; [reflexivity|]. cbn [map concat]. rewrite !app_length, IH. f_equal.
  unfold flat_res, items_of_res. induction (rscopes r) as [|s l IHl]; [reflexivity|]. cbn [map concat]. rewrite !app_length, IHl, map_length. reflexivity.
Qed.

Lemma filter_nozero {A} (f : A -> Z) l : filter (fun x => negb (memZ (f x) [])) l = l.
Proof. induction l as [|x l IH]; [reflexivity|]. cbn [filter]. change (negb (memZ (f x) [])) with true. cbn iota. f_equal. exact IH. Qed.

Lemma out_n3_out3 w sz r : out_n3 [] (out3 w sz r) = length (items_of (rp r)).
Proof. unfold out_n3. rewrite (filter_nozero (fun x => fst (fst x))), out_flat3_out3. apply flat_length. Qed.

Lemma concat_out_flat3 w sz outs : concat (map out_flat3 (map (out3 w sz) outs)) = flat_reqs outs.
Proof. unfold flat_reqs. rewrite map_map. f_equal. apply map_ext. intros r. apply out_flat3_out3. Qed.

Lemma payload_size_count p : payload_size w_unit Items p = count p.
Proof. cbn [payload_size]. unfold count. induction (items_of p) as [|i l IH]; [reflexivity|]. cbn [sumZf length]. rewrite IH. unfold w_unit. lia. Qed.

Lemma memo_size_ok r : memo_ok w_unit Items r -> size_ok r.
Proof. intros H. unfold size_ok. rewrite (memo_req_size _ _ _ H). apply payload_size_count. Qed.

Lemma removelast_snoc {A} (l : list A) x : removelast (l ++ [x]) = l.
Proof. apply removelast_last. Qed.

(* ---- logs / traces / profiles: the model's own MergeSplit passes every clause ------------------------------------ *)
Theorem model_passes_checker_l3 : forall signal sz max a b,
  guard_l3 signal sz max a b = true ->
  clauses_l3 signal sz max a b (model_l3 signal sz max a b) = 0.
Proof.
  intros signal sz max a b G. unfold guard_l3 in G.
  repeat (apply andb_true_iff in G; destruct G as [G ?]).
  rename H into Hmax, H0 into Mb, H1 into Ma, H2 into Pb, H3 into Pa, H4 into Wb, G into Wa. apply Z.leb_le in Hmax.
  set (w := weight_of signal). set (s := sizer_of sz).
  pose proof (wf_treq_p signal sz a Wa Pa) as Hwa. fold w s in Hwa.
  assert (Hwb : wf_opt w s (option_map req_of b)) by (destruct b as [t|]; cbn in *; [exact (wf_treq_p signal sz t Wb Pb)|exact I]).
  pose proof (pos_treq_items signal a Pa) as Hpa. fold w in Hpa.
  assert (Hpb : forall r, option_map req_of b = Some r -> pos_items w (rp r)).
  { destruct b as [t|]; cbn in *; intros r Hr; inversion Hr; subst. exact (pos_treq_items signal t Pb). }
  assert (Hma : memo_ok w s (req_of a)).
  { unfold memo_okb in Ma. apply orb_true_iff in Ma. destruct Ma as [M|M]; apply Z.eqb_eq in M; [left|right]; exact M. }
  assert (Hmb : memo_ok_opt w s (option_map req_of b)).
  { destruct b as [t|]; cbn in *; [|exact I]. unfold memo_okb in Mb. apply orb_true_iff in Mb. destruct Mb as [M|M]; apply Z.eqb_eq in M; [left|right]; exact M. }
  destruct (merge_split_total_l w s max (req_of a) (option_map req_of b) Hwa Hwb Hpa Hpb Hma Hmb) as [outs Hout].
  unfold clauses_l3, model_l3. fold w s. rewrite Hout. cbn [option_map].
  assert (Ewf : (wf_treq a && match b with Some t => wf_treq t | None => true end) = true) by (destruct b; cbn in *; rewrite Wa; auto).
  rewrite Ewf. cbn [negb].
  destruct (in_flat3_pos a Pa) as [Hfa Hza].
  assert (Hb2 : opt_flat3 b = flat_opt (option_map req_of b) /\ opt_zero3 b = []).
  { destruct b as [t|]; cbn in *; [exact (in_flat3_pos t Pb)|auto]. }
  destruct Hb2 as [Hfb Hzb]. rewrite Hza, Hzb, Hfa, Hfb. cbn [app].
  rewrite (filter_nozero (fun x => fst (fst x))), concat_out_flat3.
  (* 2: conservation *)
  pose proof (merge_split_conserves_l w s max _ _ outs Hwa Hwb Hout) as Hperm.
  rewrite (proj2 (perm_b_spec dec3 _ _) Hperm). cbn [negb].
  (* 4: cached size *)
  pose proof (cached_size_exact_all_l w s max _ _ outs Hma Hmb Hout) as Hmemo.
  assert (Hc : forallb (fun o => (out_cached3 o =? -1) || (out_cached3 o =? out_size3 o)) (map (out3 w s) outs) = true).
  { apply forallb_forall. intros o Ho. apply in_map_iff in Ho. destruct Ho as [r [<- Hr]].
    destruct (proj1 (Forall_forall _ _) Hmemo r Hr) as [M|M]; unfold out3, out_cached3, out_size3; apply orb_true_iff; [left|right]; apply Z.eqb_eq; exact M. }
  (* 3: size bound *)
  assert (Hs : size_clause3 [] max (map (out3 w s) outs) = true).
  { apply size_clause3_spec. destruct (Z.eq_dec max 0) as [Hz|Hz]; [now left|right].
    unfold merge_split in Hout. destruct (max =? 0) eqn:E0; [apply Z.eqb_eq in E0; contradiction|].
    pose proof (merged_memo w s _ _ Hma Hmb) as Hm.
    assert (Hwm : wf_p w s (rp (merged w s (req_of a) (option_map req_of b)))).
    { destruct (option_map req_of b); simpl; [|exact Hwa]. unfold wf_p. apply Forall_app. split; assumption. }
    assert (Hpm : pos_items w (rp (merged w s (req_of a) (option_map req_of b)))).
    { destruct (option_map req_of b) as [r|] eqn:Eb; simpl; [|exact Hpa]. intros i Hi. rewrite items_of_app in Hi. apply in_app_or in Hi.
      destruct Hi as [Hi|Hi]; [apply Hpa; exact Hi|apply (Hpb r eq_refl); exact Hi]. }
    destruct (split_loop_one _ _ _ _ _ _ _ _ Hwm Hpm Hmax Hout) as [ds [last [Ho [Hds Hl]]]]. cbn [app] in Ho.
    rewrite (memo_req_size _ _ _ Hm), payload_size_psum in Hout.
    destruct (split_loop_last_exact _ _ _ _ _ _ _ Hout) as [front [last' [Ho' Hex]]].
    rewrite Ho in Ho'. apply app_inj_tail in Ho'. destruct Ho' as [_ <-].
    rewrite Ho, map_app. cbn [map]. rewrite removelast_snoc, last_opt_app. split.
    - apply Forall_forall. intros o Hin. apply in_map_iff in Hin. destruct Hin as [r [<- Hr]].
      destruct (proj1 (Forall_forall _ _) Hds r Hr) as [Hq|Hq]; [left; exact Hq|right; rewrite out_n3_out3; exact Hq].
    - intros o Hoo. inversion Hoo; subst o. destruct Hl as [Hl|Hl]; [left; unfold out3, out_size3; lia|right; rewrite out_n3_out3, Hl; cbn; lia]. }
  rewrite Hs, Hc. cbn [negb].
  (* 5: all but the last are full (items sizer, logs / traces) *)
  destruct ((sz =? 0) && negb (signal =? 2) && negb (max =? 0)) eqn:E5; [|reflexivity]. cbn [andb].
  apply andb_true_iff in E5. destruct E5 as [E5 E3]. apply andb_true_iff in E5. destruct E5 as [E1 E2].
  apply negb_true_iff in E2, E3. apply Z.eqb_neq in E3.
  assert (Hw1 : w = w_unit) by (unfold w, weight_of; rewrite E2; reflexivity).
  assert (Hs1 : s = Items) by (unfold s, sizer_of; rewrite E1; reflexivity).
  rewrite Hw1, Hs1 in *.
  assert (H1 : 1 <= max) by lia.
  assert (Hsb : size_ok_opt (option_map req_of b)) by (destruct (option_map req_of b); cbn in *; [apply memo_size_ok; exact Hmb|exact I]).
  destruct (all_but_last_full_l max _ _ H1 (memo_size_ok _ Hma) Hsb) as [ds [last [Ho [Hf _]]]].
  rewrite Hout in Ho. inversion Ho; subst outs. rewrite map_app. cbn [map]. rewrite removelast_snoc.
  assert (Hfull : forallb (fun o => out_size3 o =? max) (map (out3 w_unit Items) ds) = true).
  { apply forallb_forall. intros o Hin. apply in_map_iff in Hin. destruct Hin as [r [<- Hr]]. unfold out3, out_size3.
    apply Z.eqb_eq. rewrite payload_size_count. exact (proj1 (Forall_forall _ _) Hf r Hr). }
  rewrite Hfull. reflexivity.
Qed.

(* ---- batcher histories (ids requests): clause 6, every callback exactly once --------------------------------------- *)
Lemma brun_log_state sl mn mx : forall es sn started,
  fst (brun_log sl mn mx es sn started) = fst (fold_left (bstep (lsplit sl mx) lsizeof lsizeof mn) (map bev_of es) sn).
Proof. induction es as [|e es IH]; intros sn started; [reflexivity|]. cbn [brun_log map fold_left]. apply IH. Qed.

Lemma model_bat_fired sl mn mx evs :
  snd (model_bat sl mn mx evs)
  = map (fun p : nat * bool => (Z.of_nat (fst p), if snd p then 1 else 0))
        (b_fired (fst (brun (lsplit sl mx) lsizeof lsizeof mn (map bev_of evs)))).
Proof.
  unfold model_bat, brun. pose proof (brun_log_state sl mn mx evs (b_init, O) []) as H.
  destruct (brun_log sl mn mx evs (b_init, 0%nat) []) as [st started]. cbn [fst snd] in *. now rewrite H.
Qed.

Lemma ev_reqs_count evs :
  length (ev_reqs evs) = length (filter (fun e : @bevent lreq => match e with EConsume _ => true | _ => false end) (map bev_of evs)).
Proof.
  unfold ev_reqs. induction evs as [|[[k ids] x] evs IH]; [reflexivity|]. cbn [map concat filter]. rewrite app_length, IH.
  unfold bev_of. destruct (k =? 0); [reflexivity|]. destruct (k =? 1); [reflexivity|]. destruct (k =? 2); reflexivity.
Qed.

Lemma fcount_count_occ i (fired : list (nat * bool)) :
  Z.of_nat (count_occ Z.eq_dec (map fst (map (fun p : nat * bool => (Z.of_nat (fst p), if snd p then 1 else 0)) fired)) (Z.of_nat i))
  = fcount i fired.
Proof.
  unfold fcount. induction fired as [|[j e] l IH]; [reflexivity|]. cbn [map fst snd count_occ sumZf].
  destruct (Z.eq_dec (Z.of_nat j) (Z.of_nat i)) as [E|E].
  - apply Nat2Z.inj in E. subst j. rewrite Nat.eqb_refl. cbn [ind]. rewrite Nat2Z.inj_succ, IH. lia.
  - assert (Hne : Nat.eqb j i = false) by (apply Nat.eqb_neq; intros ->; apply E; reflexivity). rewrite Hne. cbn [ind]. rewrite IH. lia.
Qed.

(* the first test of Checker.clauses_bat on the model's own history: once nothing is parked and nothing is in flight
   (the histories of the harness end with a shutdown and the return of every export) *)
Theorem model_passes_checker_bat_done : forall sl mn mx evs,
  let st := fst (brun (lsplit sl mx) lsizeof lsizeof mn (map bev_of evs)) in
  b_cur st = None -> b_flying st = [] ->
  forallb (fun i => Nat.eqb (count_occ Z.eq_dec (map fst (snd (model_bat sl mn mx evs))) (Z.of_nat i)) 1) (seq 0 (length (ev_reqs evs))) = true.
Proof.
  intros sl mn mx evs st Hc Hf. apply forallb_forall. intros i Hi. apply in_seq in Hi. apply Nat.eqb_eq.
  rewrite model_bat_fired. fold st.
  assert (Hlt : (i < length (filter (fun e : @bevent lreq => match e with EConsume _ => true | _ => false end) (map bev_of evs)))%nat)
    by (rewrite <- ev_reqs_count; lia).
  pose proof (done_exactly_once_l2 (lsplit sl mx) lsizeof lsizeof mn (map bev_of evs) i Hc Hf Hlt) as H1. fold st in H1.
  rewrite <- fcount_count_occ in H1. lia.
Qed.
