(* C04/Proofs8.v — item-level semantics of the batcher for the concrete request type of logs / traces / profiles
   (payload trees through merge_split): which items the results of a merge hold, and that every batch the batcher
   holds or has in flight has the done of every request owning one of its items attached. *)
From Verif Require Import Common.Base C04.Model C04.Proofs C04.Proofs2 C04.Proofs3 C04.Proofs6 C04.Proofs7.
From Coq Require Import Permutation.
Local Open Scope Z_scope.

Definition ritems (r : req) : list item := items_of (rp r).
Definition items_reqs (l : list req) : list item := concat (map ritems l).

Lemma items_reqs_iflat l : items_reqs l = map (fun x => fst (fst x)) (iflat_reqs l).
Proof.
  unfold items_reqs, iflat_reqs. rewrite map_concat, map_map. f_equal. apply map_ext. intros r. apply items_iflat.
Qed.

Lemma items_reqs_app l1 l2 : items_reqs (l1 ++ l2) = items_reqs l1 ++ items_reqs l2.
Proof. unfold items_reqs. now rewrite map_app, concat_app. Qed.

Lemma items_of_app p q : items_of (p ++ q) = items_of p ++ items_of q.
Proof. unfold items_of. now rewrite map_app, concat_app. Qed.

(* what comes out of the split loop holds exactly the items that went in (well-formed payloads) *)
Lemma split_loop_items : forall fuel w sz max p cached acc out,
  wf_p w sz p -> split_loop fuel w sz max p cached acc = Some out ->
  Permutation (items_reqs out) (items_reqs acc ++ items_of p).
Proof.
  intros fuel w sz max p cached acc out Hwf H. pose proof (split_loop_perm _ _ _ _ _ _ _ _ Hwf H) as Hp.
  rewrite !items_reqs_iflat, items_iflat, <- map_app. apply Permutation_map. exact Hp.
Qed.

(* the last request returned by the loop is well-formed again *)
Lemma split_loop_last_wf : forall fuel w sz max p cached acc out,
  wf_p w sz p -> split_loop fuel w sz max p cached acc = Some out ->
  exists front last, out = front ++ [last] /\ wf_p w sz (rp last).
Proof.
  induction fuel as [|f IH]; intros w sz max p cached acc out Hwf H; cbn [split_loop] in H.
  - destruct (cached >? max); [discriminate|]. inversion H; subst. eexists; eexists; split; [reflexivity|exact Hwf].
  - destruct (cached >? max).
    + destruct (extract_payload w sz p max) as [[d k] rm] eqn:E.
      destruct (extract_payload_perm _ _ _ _ _ _ _ _ Hwf E) as [_ Hwk].
      destruct (rm <=? 0).
      * destruct (first_weight w (items_of k) =? 0).
        -- inversion H; subst. eexists; eexists; split; [reflexivity|exact Hwk].
        -- destruct (extract_payload w Items k (first_weight w (items_of k))) as [[d1 k1] rm1] eqn:E1.
           destruct (extract_payload_perm _ _ _ _ _ _ _ _ Hwk E1) as [_ Hwk1]. eapply IH; eauto.
      * eapply IH; eauto.
    + inversion H; subst. eexists; eexists; split; [reflexivity|exact Hwf].
Qed.

(* ---- a prefix that fits is moved as a whole ------------------------------------------------------ *)
Section WalkPrefix.
  Context {A X : Type}.
  Variable sz : sizer.
  Variable csize : A -> Z.
  Variable part : option (A -> Z -> A * A * Z).
  Variable keep_ext : A -> bool.
  Variable fl : A -> list X.

  Lemma walk_prefix : forall l1 l2 cap rm d k rm',
    (forall c, In c l1 -> 0 <= delta sz (csize c) /\ (delta sz (csize c) = 0 -> fl c = [])) ->
    sumZf (fun c => delta sz (csize c)) l1 <= cap ->
    walk sz csize part keep_ext (l1 ++ l2) cap rm = (d, k, rm') ->
    exists d2 k2 cap2 rm2, walk sz csize part keep_ext l2 cap2 rm2 = (d2, k2, rm') /\
      concat (map fl d) = concat (map fl l1) ++ concat (map fl d2) /\
      concat (map fl k) = concat (map fl k2).
  Proof.
    induction l1 as [|c l1 IH]; intros l2 cap rm d k rm' Hc Hs Hw.
    - cbn [app] in Hw. exists d, k, cap, rm. auto.
    - cbn [app walk] in Hw. cbn [sumZf] in Hs.
      destruct (Hc c (or_introl eq_refl)) as [Hc0 Hcz].
      assert (Hl1 : forall c0, In c0 l1 -> 0 <= delta sz (csize c0) /\ (delta sz (csize c0) = 0 -> fl c0 = [])) by (intros; apply Hc; now right).
      assert (Hrest : 0 <= sumZf (fun c0 => delta sz (csize c0)) l1) by (apply sumZf_nonneg_l; intros x Hx; apply Hl1; exact Hx).
      destruct (cap =? 0) eqn:E0.
      + apply Z.eqb_eq in E0. subst cap.
        destruct (walk sz csize part keep_ext (l1 ++ l2) 0 rm) as [[d0 k0] rm0] eqn:E.
        inversion Hw; subst. assert (Hz : delta sz (csize c) = 0) by lia.
        assert (Hs0 : sumZf (fun c0 => delta sz (csize c0)) l1 <= 0) by lia.
        destruct (IH l2 0 rm d k0 rm' Hl1 Hs0 E) as [d2 [k2 [cap2 [rm2 [W [Hd Hk]]]]]].
        exists d2, k2, cap2, rm2. split; [exact W|]. cbn [map concat]. rewrite (Hcz Hz). cbn [app]. auto.
      + assert (Es : (delta sz (csize c) >? cap) = false) by (rewrite Z.gtb_ltb; apply Z.ltb_ge; lia). rewrite Es in Hw.
        destruct (walk sz csize part keep_ext (l1 ++ l2) (cap - delta sz (csize c)) (rm + delta sz (csize c))) as [[d0 k0] rm0] eqn:E.
        inversion Hw; subst.
        assert (Hs1 : sumZf (fun c0 => delta sz (csize c0)) l1 <= cap - delta sz (csize c)) by lia.
        destruct (IH l2 _ _ d0 k rm' Hl1 Hs1 E) as [d2 [k2 [cap2 [rm2 [W [Hd Hk]]]]]].
        exists d2, k2, cap2, rm2. split; [exact W|]. cbn [map concat]. rewrite Hd, app_assoc. auto.
  Qed.
End WalkPrefix.

Lemma walk_res_perm w sz p cap rm d k rm' :
  wf_p w sz p -> walk sz (res_size w sz) (Some (extract_res w sz)) res_nonempty p cap rm = (d, k, rm') ->
  Permutation (items_of d ++ items_of k) (items_of p) /\ wf_p w sz k.
Proof.
  intros Hwf E.
  assert (Hpart : forall ex, Some (extract_res w sz) = Some ex -> forall c cap0 e0 rest0 er0,
            wf_r w sz c -> ex c cap0 = (e0, rest0, er0) ->
            Permutation (iflat_res e0 ++ iflat_res rest0) (iflat_res c) /\ wf_r w sz rest0 /\ (res_nonempty e0 = false -> iflat_res e0 = [])).
  { intros ex Hex; inversion Hex; subst. intros c cap0 e0 rest0 er0 Hc Hx. exact (extract_res_ok w sz sz c cap0 e0 rest0 er0 Hc Hx). }
  destruct (walk_perm sz (res_size w sz) (Some (extract_res w sz)) res_nonempty iflat_res (wf_r w sz) Hpart _ _ _ _ _ _ Hwf E) as [Hp Hk].
  split; [|exact Hk]. rewrite !items_iflat, <- map_app. apply Permutation_map. exact Hp.
Qed.

Lemma split_loop_acc : forall fuel w sz max p cached acc out,
  split_loop fuel w sz max p cached acc = Some out -> exists tail, out = acc ++ tail.
Proof.
  induction fuel as [|f IH]; intros w sz max p cached acc out H; cbn [split_loop] in H.
  - destruct (cached >? max); [discriminate|]. inversion H; eauto.
  - destruct (cached >? max); [|inversion H; eauto].
    destruct (extract_payload w sz p max) as [[d k] rm]. destruct (rm <=? 0).
    + destruct (first_weight w (items_of k) =? 0); [inversion H; eauto|].
      destruct (extract_payload w Items k (first_weight w (items_of k))) as [[d1 k1] rm1].
      destruct (IH _ _ _ _ _ _ _ H) as [tail ->]. rewrite <- app_assoc. eauto.
    + destruct (IH _ _ _ _ _ _ _ H) as [tail ->]. rewrite <- app_assoc. eauto.
Qed.

Lemma res_prefix_ok w sz pa : wf_p w sz pa ->
  forall c, In c pa -> 0 <= delta sz (res_size w sz c) /\ (delta sz (res_size w sz c) = 0 -> items_of_res c = []).
Proof.
  intros Hwf c Hc. pose proof (proj1 (Forall_forall _ _) Hwf c Hc) as Hr. destruct (res_Q_ok _ _ _ Hr) as [A [B C]].
  split; [lia|]. intros Hz. unfold N_r in *. destruct (items_of_res c); [reflexivity|cbn [length] in *; lia].
Qed.

(* every item present weighs at least 1 in the count ItemsCount() (log records, spans; profiles that have samples) *)
Definition pos_items (w : item -> Z) (p : payload) : Prop := forall i, In i (items_of p) -> 1 <= w i.

Lemma pos_sum_zero (w : item -> Z) l : (forall i, In i l -> 1 <= w i) -> sumZf w l = 0 -> l = [].
Proof.
  intros H S. destruct l as [|x l]; [reflexivity|exfalso]. cbn [sumZf] in S.
  assert (0 <= sumZf w l) by (apply sumZf_nonneg_l; intros y Hy; specialize (H y (or_intror Hy)); lia).
  specialize (H x (or_introl eq_refl)). lia.
Qed.

(* MergeSplit of a parked request a (it fits into max_size) with a new request b: the FIRST result holds items of a
   and b only — and of a only when its ItemsCount() equals a's —, every OTHER result holds items of b only *)
Lemma merge_split_owners : forall w sz max a b out,
  wf_p w sz (rp a) -> wf_p w sz (rp b) -> pos_items w (rp b) -> (max = 0 \/ psum w sz (rp a) <= max) -> 0 <= max ->
  merge_split w sz max a (Some b) = Some out ->
  exists r0 rest, out = r0 :: rest /\
    (forall x, In x (ritems r0) -> In x (ritems a) \/ In x (ritems b)) /\
    (sumZf w (ritems r0) = sumZf w (ritems a) -> forall x, In x (ritems r0) -> In x (ritems a)) /\
    (forall q x, In q rest -> In x (ritems q) -> In x (ritems b)) /\
    (sumZf w (ritems r0) <> sumZf w (ritems a) -> exists x, In x (ritems r0) /\ In x (ritems b)) /\
    (forall x, In x (ritems a) -> In x (ritems r0)).
Proof.
  intros w sz max a b out Ha Hb Hpos Hfit Hmax H. unfold merge_split in H. cbn [merged rp] in H.
  assert (Hina : forall x, In x (ritems a) -> In x (items_of (rp a ++ rp b))).
  { intros x Hx. rewrite items_of_app. apply in_or_app. now left. }
  assert (Hne : forall l, sumZf w l <> 0 -> exists x : item, In x l).
  { intros [|x l] Hl; [cbn in Hl; congruence|exists x; now left]. }
  set (cached := req_size w sz {| rp := rp a ++ rp b; rcached := req_size w sz a + req_size w sz b |}) in *.
  assert (Hall : forall x, In x (items_of (rp a ++ rp b)) -> In x (ritems a) \/ In x (ritems b)).
  { intros x Hx. rewrite items_of_app in Hx. apply in_app_or in Hx. exact Hx. }
  assert (Hsame : sumZf w (items_of (rp a ++ rp b)) = sumZf w (ritems a) -> forall x, In x (items_of (rp a ++ rp b)) -> In x (ritems a)).
  { intros Hs x Hx. rewrite items_of_app in Hs, Hx. rewrite sumZf_app in Hs. unfold ritems in Hs.
    assert (Hb0 : items_of (rp b) = []) by (apply (pos_sum_zero w); [exact Hpos|lia]).
    rewrite Hb0, app_nil_r in Hx. exact Hx. }
  assert (Hdiff : sumZf w (items_of (rp a ++ rp b)) <> sumZf w (ritems a) -> exists x, In x (items_of (rp a ++ rp b)) /\ In x (ritems b)).
  { intros Hs. rewrite items_of_app, sumZf_app in Hs. unfold ritems in Hs.
    destruct (Hne (items_of (rp b))) as [x Hx]; [lia|]. exists x. split; [rewrite items_of_app; apply in_or_app; now right|exact Hx]. }
  destruct (max =? 0) eqn:E0.
  - inversion H; subst. eexists; exists []. split; [reflexivity|]. split; [exact Hall|]. split; [exact Hsame|]. split; [intros q x []|]. split; [exact Hdiff|exact Hina].
  - apply Z.eqb_neq in E0. destruct Hfit as [Hfit|Hfit]; [lia|].
    unfold fuel_of in H. cbn [split_loop] in H.
    assert (Hwab : wf_p w sz (rp a ++ rp b)) by (apply Forall_app; split; assumption).
    destruct (cached >? max).
    2:{ inversion H; subst. eexists; exists []. split; [reflexivity|]. split; [exact Hall|]. split; [exact Hsame|]. split; [intros q x []|]. split; [exact Hdiff|exact Hina]. }
    destruct (extract_payload w sz (rp a ++ rp b) max) as [[d k] rm] eqn:E.
    destruct (extract_payload_perm _ _ _ _ _ _ _ _ Hwab E) as [_ Hwk].
    pose proof (extract_payload_removed _ _ _ _ _ _ _ Hwab E) as Hrm.
    unfold extract_payload in E. rewrite payload_size_nil, Z.sub_0_r in E.
    destruct (walk_prefix sz (res_size w sz) (Some (extract_res w sz)) res_nonempty items_of_res
                (rp a) (rp b) max 0 d k rm (res_prefix_ok w sz (rp a) Ha) Hfit E) as [d2 [k2 [cap2 [rm2 [W [Hd Hk]]]]]].
    destruct (walk_res_perm _ _ _ _ _ _ _ _ Hb W) as [Hp2 _].
    fold (items_of d) in Hd. fold (items_of (rp a)) in Hd. fold (items_of d2) in Hd. fold (items_of k) in Hk. fold (items_of k2) in Hk.
    assert (Hk2b : forall x, In x (items_of k) -> In x (items_of (rp b))).
    { intros x Hx. rewrite Hk in Hx. eapply Permutation_in; [exact Hp2|]. apply in_or_app; now right. }
    assert (Hd2b : forall x, In x (items_of d2) -> In x (items_of (rp b))).
    { intros x Hx. eapply Permutation_in; [exact Hp2|]. apply in_or_app; now left. }
    assert (Hdab : forall x, In x (items_of d) -> In x (items_of (rp a)) \/ In x (items_of (rp b))).
    { intros x Hx. rewrite Hd in Hx. apply in_app_or in Hx. destruct Hx as [Hx|Hx]; [now left|right; now apply Hd2b]. }
    assert (Hdsame : sumZf w (items_of d) = sumZf w (items_of (rp a)) -> forall x, In x (items_of d) -> In x (items_of (rp a))).
    { intros Hs x Hx. rewrite Hd, sumZf_app in Hs. rewrite Hd in Hx.
      assert (Hd20 : items_of d2 = []) by (apply (pos_sum_zero w); [intros i Hi; apply Hpos, Hd2b, Hi|lia]).
      rewrite Hd20, app_nil_r in Hx. exact Hx. }
    (* whatever comes out of a loop started on a sub-payload of k holds items of b only *)
    assert (Hkb_all : forall f c p0 acc0 o, wf_p w sz p0 -> (forall x, In x (items_of p0) -> In x (items_of (rp b))) ->
              split_loop f w sz max p0 c acc0 = Some o -> forall tail, o = acc0 ++ tail ->
              forall q x, In q tail -> In x (ritems q) -> In x (ritems b)).
    { intros f0 c0 p0 acc0 o Hw0 Hsub Ho tail Ht q x Hq Hx. pose proof (split_loop_items _ _ _ _ _ _ _ _ Hw0 Ho) as Hp.
      subst o. rewrite items_reqs_app in Hp. apply Permutation_app_inv_l in Hp. apply Hsub. eapply Permutation_in; [exact Hp|].
      unfold items_reqs. apply in_concat. exists (ritems q). split; [apply in_map; exact Hq|exact Hx]. }
    destruct (rm <=? 0) eqn:Eb.
    + (* nothing was removed: a holds no item *)
      apply Z.leb_le in Eb.
      assert (Hd0 : items_of d = []) by (destruct (items_of d); [reflexivity|cbn [length] in Hrm; lia]).
      assert (Ha0 : items_of (rp a) = []) by (rewrite Hd in Hd0; apply app_eq_nil in Hd0; tauto).
      destruct (first_weight w (items_of k) =? 0).
      * inversion H; subst. eexists; exists []. split; [reflexivity|].
        assert (Hr0 : forall x, In x (ritems {| rp := k; rcached := cached - rm |}) -> In x (ritems b)) by (intros x Hx; apply Hk2b; exact Hx).
        split; [intros x Hx; right; now apply Hr0|]. split; [|split; [intros q x []|]].
        -- intros Hs x Hx. exfalso. unfold ritems in Hs. cbn [rp] in Hs. rewrite Ha0 in Hs. cbn in Hs.
           assert (Hk0 : items_of k = []) by (apply (pos_sum_zero w); [intros i Hi; apply Hpos, Hk2b, Hi|exact Hs]).
           unfold ritems in Hx. cbn [rp] in Hx. rewrite Hk0 in Hx. destruct Hx.
        -- split; [|intros x Hx; unfold ritems in Hx; rewrite Ha0 in Hx; destruct Hx].
           intros Hs. unfold ritems in Hs. cbn [rp] in Hs. rewrite Ha0 in Hs. cbn [sumZf] in Hs.
           destruct (Hne _ Hs) as [x Hx]. exists x. split; [exact Hx|apply Hk2b; exact Hx].
      * destruct (extract_payload w Items k (first_weight w (items_of k))) as [[d1 k1] rm1] eqn:E1.
        destruct (extract_payload_perm _ _ _ _ _ _ _ _ Hwk E1) as [Hp1 Hwk1].
        assert (Hp1i : Permutation (items_of d1 ++ items_of k1) (items_of k)).
        { rewrite !items_iflat, <- map_app. apply Permutation_map. exact Hp1. }
        assert (Hd1b : forall x, In x (items_of d1) -> In x (items_of (rp b))).
        { intros x Hx. apply Hk2b. eapply Permutation_in; [exact Hp1i|]. apply in_or_app; now left. }
        assert (Hk1b : forall x, In x (items_of k1) -> In x (items_of (rp b))).
        { intros x Hx. apply Hk2b. eapply Permutation_in; [exact Hp1i|]. apply in_or_app; now right. }
        destruct (split_loop_acc _ _ _ _ _ _ _ _ H) as [tail Ht]. cbn [app] in Ht.
        eexists; exists tail. split; [exact Ht|]. split; [intros x Hx; right; now apply Hd1b|]. split.
        -- intros Hs x Hx. exfalso. unfold ritems in Hs. cbn [rp] in Hs. rewrite Ha0 in Hs. cbn in Hs.
           assert (H10 : items_of d1 = []) by (apply (pos_sum_zero w); [intros i Hi; apply Hpos, Hd1b, Hi|exact Hs]).
           unfold ritems in Hx. cbn [rp] in Hx. rewrite H10 in Hx. destruct Hx.
        -- split; [exact (Hkb_all _ _ _ _ _ Hwk1 Hk1b H tail Ht)|].
           split; [|intros x Hx; unfold ritems in Hx; rewrite Ha0 in Hx; destruct Hx].
           intros Hs. unfold ritems in Hs. cbn [rp] in Hs. rewrite Ha0 in Hs. cbn [sumZf] in Hs.
           destruct (Hne _ Hs) as [x Hx]. exists x. split; [exact Hx|apply Hd1b; exact Hx].
    + destruct (split_loop_acc _ _ _ _ _ _ _ _ H) as [tail Ht]. cbn [app] in Ht.
      eexists; exists tail. split; [exact Ht|]. split; [intros x Hx; apply Hdab; exact Hx|]. split; [exact Hdsame|].
      split; [exact (Hkb_all _ _ _ _ _ Hwk Hk2b H tail Ht)|].
      split; [|intros x Hx; unfold ritems; cbn [rp]; rewrite Hd; apply in_or_app; now left].
      intros Hs. unfold ritems in Hs. cbn [rp] in Hs. rewrite Hd, sumZf_app in Hs.
      destruct (Hne (items_of d2)) as [x Hx]; [lia|]. exists x. split; [unfold ritems; cbn [rp]; rewrite Hd; apply in_or_app; now right|apply Hd2b; exact Hx].
Qed.

(* MergeSplit of a new request alone: every result holds items of that request only; the last one is well-formed *)
Lemma merge_split_alone : forall w sz max b out,
  wf_p w sz (rp b) -> merge_split w sz max b None = Some out ->
  (forall q x, In q out -> In x (ritems q) -> In x (ritems b)) /\
  exists front last, out = front ++ [last] /\ wf_p w sz (rp last).
Proof.
  intros w sz max b out Hb H. unfold merge_split in H. cbn [merged] in H. destruct (max =? 0).
  - inversion H; subst. split; [intros q x [<-|[]] Hx; exact Hx|]. exists [], b. auto.
  - split.
    + pose proof (split_loop_items _ _ _ _ _ _ _ _ Hb H) as Hp. cbn [items_reqs map concat app] in Hp.
      intros q x Hq Hx. eapply Permutation_in; [exact Hp|]. unfold items_reqs. apply in_concat.
      exists (ritems q). split; [apply in_map; exact Hq|exact Hx].
    + eapply split_loop_last_wf; eauto.
Qed.

Lemma merge_split_last_wf : forall w sz max a b out,
  wf_p w sz (rp a) -> wf_p w sz (rp b) -> merge_split w sz max a (Some b) = Some out ->
  exists front last, out = front ++ [last] /\ wf_p w sz (rp last).
Proof.
  intros w sz max a b out Ha Hb H. unfold merge_split in H. cbn [merged] in H.
  assert (Hwab : wf_p w sz (rp a ++ rp b)) by (apply Forall_app; split; assumption).
  destruct (max =? 0).
  - inversion H; subst. eexists []; eexists. split; [reflexivity|exact Hwab].
  - eapply split_loop_last_wf; [|exact H]. exact Hwab.
Qed.

(* ---------------------------------------------------------------------------------------- *)
(* the batcher over payload requests                                                          *)
(* ---------------------------------------------------------------------------------------- *)
Lemma tgt_app refs l d i : tgt refs d = Some i -> tgt (refs ++ l) d = Some i.
Proof.
  destruct d as [j|k]; cbn [tgt]; [auto|]. destruct (nth_error refs k) as [c|] eqn:E; [|discriminate].
  rewrite nth_error_app1 by (apply nth_error_Some; congruence). now rewrite E.
Qed.

Lemma attached_app_refs refs l ds i : attached refs ds i = true -> attached (refs ++ l) ds i = true.
Proof.
  unfold attached. rewrite !existsb_exists. intros [d [Hd Hh]]. exists d. split; [exact Hd|].
  unfold hits in *. destruct (tgt refs d) as [j|] eqn:E; [|discriminate]. now rewrite (tgt_app _ l _ _ E).
Qed.

Lemma attached_app_ds refs ds1 ds2 i : attached refs (ds1 ++ ds2) i = attached refs ds1 i || attached refs ds2 i.
Proof. unfold attached. apply existsb_app. Qed.

Lemma on_done_tgt : forall fuel d err refs fired refs' fired',
  on_done fuel d err refs fired = (refs', fired') -> forall d', tgt refs' d' = tgt refs d'.
Proof.
  induction fuel as [|f IH]; intros d err refs fired refs' fired' H d'; destruct d as [i|k]; cbn [on_done] in H;
    try (inversion H; subst; reflexivity).
  - destruct (nth_error refs k); inversion H; reflexivity.
  - destruct (nth_error refs k) as [c|] eqn:Ec; [|inversion H; reflexivity].
    set (c' := {| rc_target := rc_target c; rc_count := rc_count c - 1; rc_err := rc_err c || err |}) in *.
    assert (Hs : forall d0, tgt (set_nth k c' refs) d0 = tgt refs d0).
    { intros [j|k0]; [reflexivity|]. cbn [tgt]. destruct (Nat.eq_dec k0 k) as [->|Hne].
      - rewrite (set_nth_same _ _ _ _ Ec), Ec. reflexivity.
      - rewrite set_nth_other by assumption. reflexivity. }
    destruct (rc_count c - 1 =? 0).
    + rewrite (IH _ _ _ _ _ _ H). apply Hs.
    + inversion H; subst. apply Hs.
Qed.

Lemma on_done_all_tgt : forall ds err refs fired refs' fired',
  on_done_all ds err refs fired = (refs', fired') -> forall d', tgt refs' d' = tgt refs d'.
Proof.
  induction ds as [|d ds IH]; intros err refs fired refs' fired' H d'; cbn [on_done_all] in H.
  - inversion H; reflexivity.
  - destruct (on_done 2 d err refs fired) as [r1 f1] eqn:E. rewrite (IH _ _ _ _ _ H). eapply on_done_tgt; eauto.
Qed.

Section PayloadBatcher.
  Variable w : item -> Z.
  Variable sz : sizer.
  Variable max min : Z.
  Hypothesis max_nonneg : 0 <= max.
  Hypothesis min_le_max : max = 0 \/ min <= max.          (* BatchConfig.Validate *)

  Definition msplitC (a : req) (b : option req) : option (list req) := merge_split w sz max a b.
  Definition sizeofC (r : req) : Z := payload_size w sz (rp r).     (* the queue's sizer: the TRUE size *)
  Definition icountC (r : req) : Z := sumZf w (ritems r).            (* ItemsCount(): records / spans / samples *)
  Notation bst := (@bstate req).

  (* request i (the i-th consumed) owns item x *)
  Definition owner (rs : list req) (i : nat) (x : item) : Prop :=
    match nth_error rs i with Some r => In x (ritems r) | None => False end.
  (* every item of the batch has an owner whose done is attached to the batch's done list *)
  Definition covered (rs : list req) (refs : list refcell) (ds : list dref) (r : req) : Prop :=
    forall x, In x (ritems r) -> exists i, owner rs i x /\ attached refs ds i = true.

  Definition K (rs : list req) (n : nat) (st : bst) : Prop :=
    n = length rs /\
    match b_cur st with
    | Some (r, ds) => wf_p w sz (rp r) /\ (max = 0 \/ psum w sz (rp r) <= max) /\ covered rs (b_refs st) ds r
    | None => True
    end /\
    Forall (fun f => covered rs (b_refs st) (snd f) (snd (fst f))) (b_flying st).

  Lemma owner_app rs r i x : owner rs i x -> owner (rs ++ [r]) i x.
  Proof.
    unfold owner. destruct (nth_error rs i) as [q|] eqn:E; [|intros []].
    rewrite nth_error_app1 by (apply nth_error_Some; congruence). now rewrite E.
  Qed.

  Lemma owner_new rs r x : In x (ritems r) -> owner (rs ++ [r]) (length rs) x.
  Proof. unfold owner. rewrite nth_error_app2 by lia. rewrite Nat.sub_diag. cbn. auto. Qed.

  Lemma covered_mono rs r0 refs l ds q : covered rs refs ds q -> covered (rs ++ [r0]) (refs ++ l) ds q.
  Proof.
    intros H x Hx. destruct (H x Hx) as [i [Ho Ha]]. exists i. split; [apply owner_app; exact Ho|apply attached_app_refs; exact Ha].
  Qed.

  Lemma covered_ext rs refs refs' ds q : (forall d, tgt refs' d = tgt refs d) -> covered rs refs ds q -> covered rs refs' ds q.
  Proof. intros Ht H x Hx. destruct (H x Hx) as [i [Ho Ha]]. exists i. split; [exact Ho|]. now rewrite (attached_ext refs refs' ds i Ht). Qed.

  Lemma start_flushes_flying : forall rs (st : bst) ds f,
    In f (b_flying (start_flushes st rs ds)) -> In f (b_flying st) \/ (In (snd (fst f)) rs /\ snd f = ds).
  Proof.
    induction rs as [|r rs IH]; intros st ds f H; cbn [start_flushes] in H; [now left|].
    destruct (IH _ _ _ H) as [H1|[H1 H2]]; [|right; split; [now right|exact H2]].
    unfold start_flush in H1. cbn [b_flying] in H1. apply in_app_or in H1. destruct H1 as [H1|[<-|[]]]; [now left|].
    right. cbn. auto.
  Qed.

  Lemma park_last_shape (st : bst) rs d rs' st' :
    park_last sizeofC min st rs d = (rs', st') ->
    (rs' = rs /\ st' = st) \/
    (exists la, rs = rs' ++ [la] /\ st' = with_cur st (Some (la, [d])) /\ sizeofC la < min).
  Proof.
    unfold park_last. destruct (unsnoc rs) as [[ini la]|] eqn:E; [|intros H; inversion H; now left].
    assert (Hu : rs = ini ++ [la]).
    { clear -E. revert ini la E. induction rs as [|x l IH]; intros ini la E; cbn [unsnoc] in E; [discriminate|].
      destruct l as [|y l']; [inversion E; reflexivity|].
      destruct (unsnoc (y :: l')) as [[i' la']|] eqn:E'; [|discriminate]. inversion E; subst. cbn [app]. f_equal. now apply IH. }
    destruct (sizeofC la <? min) eqn:El; intros H; inversion H; subst; [|now left].
    right. exists la. apply Z.ltb_lt in El. auto.
  Qed.

  Lemma wrap_done_attached (st : bst) n N st1 d : wrap_done st n N = (st1, d) ->
    (exists l, b_refs st1 = b_refs st ++ l) /\ attached (b_refs st1) [d] n = true /\
    b_cur st1 = b_cur st /\ b_flying st1 = b_flying st.
  Proof.
    unfold wrap_done. destruct (1 <? N)%nat; intros H; inversion H; subst; cbn [b_refs b_cur b_flying].
    - split; [eexists; reflexivity|]. split; [|auto]. unfold attached, hits; cbn [existsb tgt].
      rewrite nth_error_app2 by lia. rewrite Nat.sub_diag. cbn. now rewrite Nat.eqb_refl.
    - split; [exists []; now rewrite app_nil_r|]. split; [|auto]. unfold attached, hits; cbn. now rewrite Nat.eqb_refl.
  Qed.

  Lemma size_fits r : sizeofC r < min -> max = 0 \/ psum w sz (rp r) <= max.
  Proof. unfold sizeofC. rewrite payload_size_psum. destruct min_le_max; [now left|right; lia]. Qed.

  Lemma last_eq {A} (f1 f2 : list A) a b : f1 ++ [a] = f2 ++ [b] -> a = b.
  Proof. intros H. apply app_inj_tail in H. tauto. Qed.

  Lemma K_consume rs n (st : bst) r : wf_p w sz (rp r) -> pos_items w (rp r) -> K rs n st ->
    K (rs ++ [r]) (S n) (consume msplitC sizeofC icountC min st n r).
  Proof.
    intros Hr Hpos [Hn [Kc Kf]]. subst n.
    assert (Hlen : S (length rs) = length (rs ++ [r])) by (rewrite app_length; cbn; lia).
    unfold consume. destruct (b_cur st) as [[c cds]|] eqn:Ecur.
    - destruct Kc as [Hwc [Hfit Hcov]].
      destruct (msplitC c (Some r)) as [out|] eqn:Em.
      2:{ split; [exact Hlen|]. unfold fire. cbn [on_done_all on_done b_cur b_refs b_flying]. rewrite Ecur. split.
          - split; [exact Hwc|]. split; [exact Hfit|]. rewrite <- (app_nil_r (b_refs st)). apply covered_mono. exact Hcov.
          - eapply Forall_impl; [|exact Kf]. intros f Hf. rewrite <- (app_nil_r (b_refs st)). apply covered_mono. exact Hf. }
      unfold msplitC in Em.
      destruct (merge_split_owners _ _ _ _ _ _ Hwc Hr Hpos Hfit max_nonneg Em) as [r0 [rest [-> [Hr0 [Hsame [Hrest _]]]]]].
      destruct (merge_split_last_wf _ _ _ _ _ _ Hwc Hr Em) as [front [last [Hfl Hlw]]].
      set (fhn := (Nat.eqb (length rest) 0 || negb (icountC r0 =? icountC c))%bool).
      destruct (wrap_done st (length rs) (if fhn then S (length rest) else length rest)) as [st1 d] eqn:Ew.
      destruct (wrap_done_attached _ _ _ _ _ Ew) as [[l Hrefs] [Hatt [Hc1 Hfy1]]].
      set (cds' := if fhn then cds ++ [d] else cds).
      set (ff := ((0 <? length rest)%nat || negb (sizeofC r0 <? min))%bool).
      set (st2 := with_cur st1 (if ff then None else Some (r0, cds'))).
      destruct (park_last sizeofC min st2 rest d) as [rest' st3] eqn:Ep.
      set (st4 := if ff then start_flush st3 r0 cds' else st3).
      destruct (start_flushes_spec rest' st4 [d]) as [Hr5 [_ [Hc5 _]]].
      (* coverage of the results *)
      assert (Cov0 : covered (rs ++ [r]) (b_refs st1) cds' r0).
      { unfold cds'. destruct fhn eqn:Efhn.
        - intros x Hx. destruct (Hr0 x Hx) as [Hx1|Hx1].
          + destruct (Hcov x Hx1) as [i [Ho Ha]]. exists i. split; [apply owner_app; exact Ho|].
            rewrite attached_app_ds, Hrefs, (attached_app_refs _ l _ _ Ha). reflexivity.
          + exists (length rs). split; [apply owner_new; exact Hx1|]. rewrite attached_app_ds, Hatt. apply orb_true_r.
        - (* same ItemsCount as the parked batch: the first result holds items of the parked batch only *)
          unfold fhn in Efhn. apply orb_false_iff in Efhn. destruct Efhn as [_ Ec]. apply negb_false_iff in Ec. apply Z.eqb_eq in Ec.
          intros x Hx. pose proof (Hsame Ec x Hx) as Hx1.
          destruct (Hcov x Hx1) as [i [Ho Ha]]. exists i. split; [apply owner_app; exact Ho|].
          rewrite Hrefs. apply attached_app_refs. exact Ha. }
      assert (CovR : forall q, In q rest -> covered (rs ++ [r]) (b_refs st1) [d] q).
      { intros q Hq x Hx. exists (length rs). split; [apply owner_new; eapply Hrest; eauto|exact Hatt]. }
      assert (CovOld : Forall (fun f => covered (rs ++ [r]) (b_refs st1) (snd f) (snd (fst f))) (b_flying st)).
      { eapply Forall_impl; [|exact Kf]. intros f Hf. rewrite Hrefs. apply covered_mono. exact Hf. }
      assert (Hrefs3 : b_refs st3 = b_refs st1 /\ b_flying st3 = b_flying st).
      { destruct (park_last_shape _ _ _ _ _ Ep) as [[_ ->]|[la [_ [-> _]]]]; unfold st2; cbn [with_cur b_refs b_flying]; rewrite Hfy1; auto. }
      destruct Hrefs3 as [Hrf3 Hfy3].
      assert (Hrefs4 : b_refs st4 = b_refs st1) by (unfold st4; destruct ff; cbn [start_flush b_refs]; exact Hrf3).
      split; [exact Hlen|]. split.
      + (* the new current batch *)
        rewrite Hc5, Hr5, Hrefs4.
        assert (Hcur4 : b_cur st4 = b_cur st3) by (unfold st4; destruct ff; reflexivity).
        rewrite Hcur4.
        destruct (park_last_shape _ _ _ _ _ Ep) as [[_ ->]|[la [Hla [-> Hsz]]]].
        * unfold st2. cbn [with_cur b_cur]. destruct ff eqn:Eff; [exact I|].
          unfold ff in Eff. apply orb_false_iff in Eff. destruct Eff as [El Es]. apply Nat.ltb_ge in El.
          destruct rest; [|cbn in El; lia]. apply negb_false_iff in Es. apply Z.ltb_lt in Es.
          split; [|split; [apply size_fits; exact Es|exact Cov0]].
          change [r0] with ([] ++ [r0]) in Hfl. rewrite (last_eq _ _ _ _ Hfl). exact Hlw.
        * cbn [with_cur b_cur]. split; [|split; [apply size_fits; exact Hsz|apply CovR; rewrite Hla; apply in_or_app; right; now left]].
          assert (Hl : r0 :: rest = (r0 :: rest') ++ [la]) by (rewrite Hla; reflexivity).
          rewrite Hl in Hfl. rewrite (last_eq _ _ _ _ Hfl). exact Hlw.
      + (* batches in flight *)
        apply Forall_forall. intros f Hf. rewrite Hr5, Hrefs4.
        destruct (start_flushes_flying _ _ _ _ Hf) as [Hf1|[Hf1 Hf2]].
        * unfold st4 in Hf1. destruct ff.
          -- cbn [start_flush b_flying] in Hf1. apply in_app_or in Hf1. destruct Hf1 as [Hf1|[<-|[]]].
             ++ rewrite Hfy3 in Hf1. exact (proj1 (Forall_forall _ _) CovOld f Hf1).
             ++ cbn [fst snd]. exact Cov0.
          -- rewrite Hfy3 in Hf1. exact (proj1 (Forall_forall _ _) CovOld f Hf1).
        * rewrite Hf2. apply CovR.
          destruct (park_last_shape _ _ _ _ _ Ep) as [[-> _]|[la [Hla _]]]; [exact Hf1|rewrite Hla; apply in_or_app; now left].
    - destruct (msplitC r None) as [out|] eqn:Em.
      2:{ split; [exact Hlen|]. unfold fire. cbn [on_done_all on_done b_cur b_refs b_flying]. rewrite Ecur. split; [exact I|].
          eapply Forall_impl; [|exact Kf]. intros f Hf. rewrite <- (app_nil_r (b_refs st)). apply covered_mono. exact Hf. }
      unfold msplitC in Em. destruct (merge_split_alone _ _ _ _ _ Hr Em) as [Hown [front [last [Hfl Hlw]]]].
      destruct out as [|r0 rest].
      { split; [exact Hlen|]. unfold fire. cbn [on_done_all on_done b_cur b_refs b_flying]. rewrite Ecur. split; [exact I|].
        eapply Forall_impl; [|exact Kf]. intros f Hf. rewrite <- (app_nil_r (b_refs st)). apply covered_mono. exact Hf. }
      destruct (wrap_done st (length rs) (length (r0 :: rest))) as [st1 d] eqn:Ew.
      destruct (wrap_done_attached _ _ _ _ _ Ew) as [[l Hrefs] [Hatt [Hc1 Hfy1]]].
      destruct (park_last sizeofC min st1 (r0 :: rest) d) as [rs' st2] eqn:Ep.
      destruct (start_flushes_spec rs' st2 [d]) as [Hr3 [_ [Hc3 _]]].
      assert (CovR : forall q, In q (r0 :: rest) -> covered (rs ++ [r]) (b_refs st1) [d] q).
      { intros q Hq x Hx. exists (length rs). split; [apply owner_new; eapply Hown; eauto|exact Hatt]. }
      assert (CovOld : Forall (fun f => covered (rs ++ [r]) (b_refs st1) (snd f) (snd (fst f))) (b_flying st)).
      { eapply Forall_impl; [|exact Kf]. intros f Hf. rewrite Hrefs. apply covered_mono. exact Hf. }
      assert (Hrefs2 : b_refs st2 = b_refs st1 /\ b_flying st2 = b_flying st).
      { destruct (park_last_shape _ _ _ _ _ Ep) as [[_ ->]|[la [_ [-> _]]]]; cbn [with_cur b_refs b_flying]; rewrite Hfy1; auto. }
      destruct Hrefs2 as [Hrf2 Hfy2].
      split; [exact Hlen|]. split.
      + rewrite Hc3, Hr3, Hrf2.
        destruct (park_last_shape _ _ _ _ _ Ep) as [[_ ->]|[la [Hla [-> Hsz]]]].
        * rewrite Hc1, Ecur. exact I.
        * cbn [with_cur b_cur]. split; [|split; [apply size_fits; exact Hsz|apply CovR; rewrite Hla; apply in_or_app; right; now left]].
          rewrite Hla in Hfl. rewrite (last_eq _ _ _ _ Hfl). exact Hlw.
      + apply Forall_forall. intros f Hf. rewrite Hr3, Hrf2.
        destruct (start_flushes_flying _ _ _ _ Hf) as [Hf1|[Hf1 Hf2]].
        * rewrite Hfy2 in Hf1. exact (proj1 (Forall_forall _ _) CovOld f Hf1).
        * rewrite Hf2. apply CovR.
          destruct (park_last_shape _ _ _ _ _ Ep) as [[-> _]|[la [Hla _]]]; [exact Hf1|rewrite Hla; apply in_or_app; now left].
  Qed.
End PayloadBatcher.

Section PayloadRun.
  Variable w : item -> Z.
  Variable sz : sizer.
  Variable max min : Z.
  Hypothesis max_nonneg : 0 <= max.
  Hypothesis min_le_max : max = 0 \/ min <= max.
  Notation bst := (@bstate req).
  Notation MS := (msplitC w sz max).
  Notation SO := (sizeofC w sz).
  Notation IC := (icountC w).
  Notation KK := (K w sz max).

  Lemma K_flush_current rs n (st : bst) : KK rs n st -> KK rs n (flush_current st).
  Proof.
    intros [Hn [Kc Kf]]. unfold flush_current. destruct (b_cur st) as [[r ds]|] eqn:Ec; [|split; [exact Hn|rewrite Ec; auto]].
    split; [exact Hn|]. cbn [start_flush with_cur b_cur b_refs b_flying]. split; [exact I|].
    apply Forall_app. split; [exact Kf|]. constructor; [|constructor]. cbn [fst snd]. tauto.
  Qed.

  Lemma take_flying_sub {R} b : forall (l : list (nat * R * list dref)) ds fl, take_flying b l = Some (ds, fl) -> forall f, In f fl -> In f l.
  Proof.
    induction l as [|[[b' r] ds'] l IH]; intros ds fl H f Hf; cbn [take_flying] in H; [discriminate|].
    destruct (Nat.eqb b b'); [inversion H; subst; now right|].
    destruct (take_flying b l) as [[x t']|] eqn:E; [|discriminate]. inversion H; subst.
    destruct Hf as [<-|Hf]; [now left|right; eapply IH; eauto].
  Qed.

  Lemma K_flush_result rs n (st : bst) b err : KK rs n st -> KK rs n (flush_result st b err).
  Proof.
    intros [Hn [Kc Kf]]. unfold flush_result. destruct (take_flying b (b_flying st)) as [[ds fl]|] eqn:Et; [|split; auto].
    unfold fire. cbn [b_refs b_fired].
    destruct (on_done_all ds err (b_refs st) (b_fired st)) as [r' f'] eqn:Eo. cbn [b_cur b_refs b_flying].
    pose proof (on_done_all_tgt _ _ _ _ _ _ Eo) as Ht.
    split; [exact Hn|]. split.
    - destruct (b_cur st) as [[r ds0]|]; [|exact I]. destruct Kc as [A [B C]]. split; [exact A|]. split; [exact B|].
      eapply covered_ext; [exact Ht|exact C].
    - apply Forall_forall. intros f Hf. eapply covered_ext; [exact Ht|].
      exact (proj1 (Forall_forall _ _) Kf f (take_flying_sub _ _ _ _ Et f Hf)).
  Qed.

  (* the run with the list of consumed requests as ghost *)
  Definition kstep (x : bst * nat * list req) (e : @bevent req) : bst * nat * list req :=
    let '(st, n, rs) := x in
    (bstep MS SO IC min (st, n) e, match e with EConsume r => rs ++ [r] | _ => rs end).
  Definition krun (es : list (@bevent req)) : bst * nat * list req := fold_left kstep es (b_init, O, []).

  Lemma krun_fst es : fst (krun es) = brun MS SO IC min es.
  Proof.
    unfold krun, brun. generalize (@b_init req, O) as sn. generalize (@nil req) as rs.
    induction es as [|e es IH]; intros rs sn; [reflexivity|]. cbn [fold_left]. destruct sn as [st n]. cbn [kstep]. apply IH.
  Qed.

  Definition wf_events (es : list (@bevent req)) : Prop :=
    forall r, In (EConsume r) es -> wf_p w sz (rp r) /\ pos_items w (rp r).

  Lemma K_run es : wf_events es -> let '(st, n, rs) := krun es in KK rs n st.
  Proof.
    intros Hwf. unfold krun. rewrite <- fold_left_rev_right.
    assert (Hwf' : forall r, In (EConsume r) (rev es) -> wf_p w sz (rp r) /\ pos_items w (rp r)) by (intros r Hr; apply Hwf; now apply in_rev).
    clear Hwf. induction (rev es) as [|e l IH]; cbn [fold_right].
    - split; [reflexivity|]. split; [exact I|constructor].
    - assert (Hl : forall r, In (EConsume r) l -> wf_p w sz (rp r) /\ pos_items w (rp r)) by (intros r Hr; apply Hwf'; now right).
      specialize (IH Hl). destruct (fold_right (fun y x => kstep x y) (b_init, O, []) l) as [[st n] rs].
      destruct e; cbn [kstep bstep].
      + destruct (Hwf' r (or_introl eq_refl)) as [W1 W2]. apply K_consume; auto.
      + apply K_flush_current; exact IH.
      + apply K_flush_result; exact IH.
      + apply K_flush_current; exact IH.
  Qed.

  (* the request held by in-flight batch number b *)
  Fixpoint fly_req (b : nat) (l : list (nat * req * list dref)) : option (req * list dref) :=
    match l with
    | [] => None
    | (b', r, ds) :: t => if Nat.eqb b b' then Some (r, ds) else fly_req b t
    end.

  Lemma fly_req_take b : forall l r ds, fly_req b l = Some (r, ds) ->
    In (b, r, ds) l /\ exists fl, take_flying b l = Some (ds, fl).
  Proof.
    induction l as [|[[b' r'] ds'] l IH]; intros r ds H; cbn [fly_req] in H; [discriminate|]. cbn [take_flying].
    destruct (Nat.eqb b b') eqn:E.
    - inversion H; subst. apply Nat.eqb_eq in E. subst b'. split; [now left|eauto].
    - destruct (IH _ _ H) as [A [fl B]]. split; [now right|]. rewrite B. eauto.
  Qed.

  (* "holds items of" implies "attached": a batch in flight that holds an item whose only owner is request i has
     i's done attached *)
  Lemma holds_attached_l es : wf_events es ->
    let '(st, n, rs) := krun es in
    forall b r ds x i, In (b, r, ds) (b_flying st) -> In x (ritems r) ->
      owner rs i x -> (forall j, owner rs j x -> j = i) -> attached (b_refs st) ds i = true.
  Proof.
    intros Hwf. pose proof (K_run es Hwf) as HK. destruct (krun es) as [[st n] rs]. destruct HK as [_ [_ Kf]].
    intros b r ds x i Hin Hx Ho Hu. pose proof (proj1 (Forall_forall _ _) Kf _ Hin) as Hc. cbn [fst snd] in Hc.
    destruct (Hc x Hx) as [i' [Ho' Ha]]. rewrite <- (Hu i' Ho'). exact Ha.
  Qed.

  (* the error verdict only grows *)
  Lemma estep_mono x e i : snd x i = true -> snd (estep MS SO IC min x e) i = true.
  Proof.
    destruct x as [[st n] E]. cbn [snd estep]. intros H. destruct e; cbn [snd]; try exact H.
    - now rewrite H.
    - destruct (take_flying b (b_flying st)) as [[ds fl]|]; [now rewrite H|exact H].
  Qed.

  Lemma erun_from_mono es : forall x i, snd x i = true -> snd (fold_left (estep MS SO IC min) es x) i = true.
  Proof. induction es as [|e es IH]; intros x i H; [exact H|]. cbn [fold_left]. apply IH. apply estep_mono. exact H. Qed.

  Lemma erun_krun_state es : fst (erun MS SO IC min es) = fst (krun es).
  Proof. rewrite erun_fst, krun_fst. reflexivity. Qed.

  (* the 'if' half in the property's wording: when the export of a batch HOLDING an item of request i fails, the
     specification's verdict for i is "error" from then on *)
  Lemma error_if_items_l es1 es2 b err :
    wf_events es1 -> err = true ->
    let '(st, n, rs) := krun es1 in
    forall r ds x i, fly_req b (b_flying st) = Some (r, ds) -> In x (ritems r) ->
      owner rs i x -> (forall j, owner rs j x -> j = i) ->
      snd (erun MS SO IC min (es1 ++ EResult b err :: es2)) i = true.
  Proof.
    intros Hwf ->. pose proof (holds_attached_l es1 Hwf) as HA. pose proof (erun_krun_state es1) as Hs.
    destruct (krun es1) as [[st n] rs]. intros r ds x i Hfly Hx Ho Hu.
    destruct (fly_req_take _ _ _ _ Hfly) as [Hin [fl Ht]].
    unfold erun. rewrite fold_left_app. cbn [fold_left]. apply erun_from_mono.
    fold (erun MS SO IC min es1). destruct (erun MS SO IC min es1) as [[st' n'] E]. cbn [fst] in Hs. inversion Hs; subst st' n'.
    cbn [estep snd]. rewrite Ht. rewrite (HA b r ds x i Hin Hx Ho Hu). cbn. apply orb_true_r.
  Qed.
End PayloadRun.

(* the property's wording, 'if' half: the callback of the request owning an item of a failed batch reports an error *)
Lemma done_error_if_items_l w sz max min (Hmax : 0 <= max) (Hmm : max = 0 \/ min <= max) es1 es2 b :
  wf_events w sz es1 ->
  let '(st, n, rs) := krun w sz max min es1 in
  forall r ds x i e, fly_req b (b_flying st) = Some (r, ds) -> In x (ritems r) ->
    owner rs i x -> (forall j, owner rs j x -> j = i) ->
    In (i, e) (b_fired (fst (brun (msplitC w sz max) (sizeofC w sz) (icountC w) min (es1 ++ EResult b true :: es2)))) -> e = true.
Proof.
  intros Hwf. pose proof (error_if_items_l w sz max min Hmax Hmm es1 es2 b true Hwf eq_refl) as H.
  destruct (krun w sz max min es1) as [[st n] rs]. intros r ds x i e Hf Hx Ho Hu Hin.
  rewrite (done_error_iff_l _ _ _ _ _ _ _ Hin). eapply H; eauto.
Qed.

(* regression of the former C04-DONE-FOREIGN-ERROR witness on payload requests (bytes sizer, min_size = max_size = 120): request 0 = one 60-byte
   record (parked), request 1 = three 50-byte records.  MergeSplit leaves the parked record alone in the first result
   (none of the new records fits beside it); that batch carries the dones of BOTH requests; it fails; the three
   batches holding the records of request 1 succeed; since 6f74b829b request 1 reports success. *)
Definition fe_a : req := {| rcached := -1; rp := [ {| rctx := 1; rhdr := 10; rscopes := [ {| sctx := 1; shdr := 10; sitems := [ {| iid := 1; iraw := 60; icnt := 1 |} ] |} ] |} ] |}.
Definition fe_b : req := {| rcached := -1; rp := [ {| rctx := 2; rhdr := 10; rscopes := [ {| sctx := 1; shdr := 10;
  sitems := [ {| iid := 2; iraw := 50; icnt := 1 |}; {| iid := 3; iraw := 50; icnt := 1 |}; {| iid := 4; iraw := 50; icnt := 1 |} ] |} ] |} ] |}.
Definition fe_hist : list (@bevent req) :=
  [EConsume fe_a; EConsume fe_b; EShutdown; EResult 0 true; EResult 1 false; EResult 2 false; EResult 3 false].

Lemma foreign_error_payload_witness :
  let run es := fst (brun (msplitC w_unit Bytes 120) (sizeofC w_unit Bytes) (icountC w_unit) 120 es) in
  map (fun f => (fst (fst f), map iid (ritems (snd (fst f))))) (b_flying (run (firstn 3 fe_hist)))
    = [(0%nat, [1]); (1%nat, [2]); (2%nat, [3]); (3%nat, [4])] /\
  b_fired (run fe_hist) = [(0%nat, true); (1%nat, false)].
Proof. vm_compute. split; reflexivity. Qed.

(* ---- "only after every batch containing part of it has finished", in items -------------------------------- *)
Lemma occ_ge_in x l : In x l -> 1 <= occ x l.
Proof.
  induction l as [|y l IH]; intros H; [destruct H|]. rewrite occ_cons. pose proof (occ_nonneg x l). pose proof (ind_nonneg (dref_eqb x y)).
  destruct H as [->|H]; [rewrite dref_eqb_refl; cbn [ind]; lia|specialize (IH H); lia].
Qed.

Lemma fly_tokens_in {R} x (f : nat * R * list dref) l : In f l -> occ x (snd f) <= fly_tokens x l.
Proof.
  unfold fly_tokens. induction l as [|g l IH]; intros H; [destruct H|]. cbn [sumZf].
  assert (0 <= sumZf (fun f0 => occ x (snd f0)) l) by (apply sumZf_nonneg; intros; apply occ_nonneg).
  pose proof (occ_nonneg x (snd g)). destruct H as [->|H]; [lia|specialize (IH H); lia].
Qed.

(* a done list of an in-flight batch that is attached to request i keeps i "referred to" *)
Lemma attached_refers {R} n (st : @bstate R) b r ds i :
  Inv n st -> In (b, r, ds) (b_flying st) -> attached (b_refs st) ds i = true -> refers st i.
Proof.
  intros [G1 [G2 [G3 G4]]] Hin Ha. unfold attached in Ha. apply existsb_exists in Ha. destruct Ha as [d [Hd Hh]].
  assert (Htok : 1 <= tokens st d).
  { unfold tokens. pose proof (fly_tokens_in d _ _ Hin) as H1. cbn [snd] in H1. pose proof (occ_ge_in _ _ Hd). pose proof (occ_nonneg d (cur_dones st)). lia. }
  unfold hits in Hh. destruct d as [j|k]; cbn [tgt] in Hh.
  - apply Nat.eqb_eq in Hh. subst j. left. lia.
  - destruct (nth_error (b_refs st) k) as [c|] eqn:Ec; [|discriminate].
    destruct (rc_target c) as [j|] eqn:Et; [|discriminate]. apply Nat.eqb_eq in Hh. subst j.
    destruct (G1 k c Ec) as [_ [Hc _]]. right.
    pose proof (live_one i _ _ _ Ec) as L. rewrite (livef_live _ _ Et) in L by lia. lia.
Qed.

Lemma done_only_after_items_l w sz max min (Hmax : 0 <= max) (Hmm : max = 0 \/ min <= max) es :
  wf_events w sz es ->
  let '(st, n, rs) := krun w sz max min es in
  forall i, 0 < fcount i (b_fired st) ->
    forall b r ds x, In (b, r, ds) (b_flying st) -> In x (ritems r) -> owner rs i x ->
      (forall j, owner rs j x -> j = i) -> False.
Proof.
  intros Hwf. pose proof (holds_attached_l w sz max min Hmax Hmm es Hwf) as HA.
  pose proof (krun_fst w sz max min es) as Hs.
  pose proof (inv_run (msplitC w sz max) (sizeofC w sz) (icountC w) min es) as HI.
  pose proof (done_only_after_batches_l (msplitC w sz max) (sizeofC w sz) (icountC w) min es) as HD.
  rewrite <- Hs in HI, HD. destruct (krun w sz max min es) as [[st n] rs]. cbn [fst snd] in *.
  intros i Hf b r ds x Hin Hx Ho Hu. apply (HD i Hf). eapply attached_refers; eauto.
Qed.

(* ---------------------------------------------------------------------------------------- *)
(* conservation through the batcher: for any sequence of requests                             *)
(* ---------------------------------------------------------------------------------------- *)
Definition cur_items (st : @bstate req) : list item := match b_cur st with Some (r, _) => ritems r | None => [] end.
Definition fly_items_l (l : list (nat * req * list dref)) : list item := concat (map (fun f => ritems (snd (fst f))) l).
Definition fly_items (st : @bstate req) : list item := fly_items_l (b_flying st).

Lemma merge_split_items_perm w sz max a b out :
  wf_p w sz (rp a) -> wf_opt w sz b -> merge_split w sz max a b = Some out ->
  Permutation (items_reqs out) (ritems a ++ match b with Some b' => ritems b' | None => [] end).
Proof.
  intros Ha Hb H. unfold merge_split in H.
  assert (Hm : items_of (rp (merged w sz a b)) = ritems a ++ match b with Some b' => ritems b' | None => [] end).
  { destruct b; cbn [merged rp]; [apply items_of_app|unfold ritems; now rewrite app_nil_r]. }
  assert (Hw : wf_p w sz (rp (merged w sz a b))).
  { destruct b; simpl; [|exact Ha]. apply Forall_app. split; assumption. }
  destruct (max =? 0).
  - inversion H; subst. unfold items_reqs; cbn [map concat]. rewrite app_nil_r. unfold ritems at 1. now rewrite Hm.
  - pose proof (split_loop_items _ _ _ _ _ _ _ _ Hw H) as Hp. cbn [items_reqs map concat app] in Hp. now rewrite <- Hm.
Qed.

Lemma fly_items_start_flush (st : @bstate req) r ds : fly_items (start_flush st r ds) = fly_items st ++ ritems r.
Proof. unfold fly_items, fly_items_l, start_flush; cbn [b_flying]. rewrite map_app, concat_app. cbn. now rewrite app_nil_r. Qed.

Lemma fly_items_start_flushes : forall rs (st : @bstate req) ds,
  fly_items (start_flushes st rs ds) = fly_items st ++ items_reqs rs /\ b_cur (start_flushes st rs ds) = b_cur st.
Proof.
  induction rs as [|r rs IH]; intros st ds; cbn [start_flushes].
  - unfold items_reqs; cbn. now rewrite app_nil_r.
  - destruct (IH (start_flush st r ds) ds) as [A B]. rewrite A, B, fly_items_start_flush. split; [|reflexivity].
    unfold items_reqs; cbn [map concat]. now rewrite app_assoc.
Qed.

Lemma fly_req_take_perm b : forall l r ds ds' fl,
  fly_req b l = Some (r, ds) -> take_flying b l = Some (ds', fl) -> Permutation (fly_items_l l) (ritems r ++ fly_items_l fl).
Proof.
  induction l as [|[[b' r'] d'] l IH]; intros r ds ds' fl H1 H2; cbn [fly_req take_flying] in *; [discriminate|].
  destruct (Nat.eqb b b').
  - inversion H1; inversion H2; subst. reflexivity.
  - destruct (take_flying b l) as [[x t']|] eqn:E; [|discriminate]. inversion H2; subst.
    unfold fly_items_l in *. cbn [map concat fst snd]. rewrite (IH _ _ _ _ H1 eq_refl).
    rewrite !app_assoc. apply Permutation_app_tail. apply Permutation_app_comm.
Qed.

Lemma fly_req_none_take b : forall l, fly_req b l = None -> take_flying b l = None.
Proof.
  induction l as [|[[b' r'] d'] l IH]; intros H; cbn [fly_req take_flying] in *; [reflexivity|].
  destruct (Nat.eqb b b'); [discriminate|]. now rewrite (IH H).
Qed.

Definition item_dec : forall a b : item, {a = b} + {a <> b}.
Proof. decide equality; apply Z.eq_dec. Defined.

Lemma items_reqs_cons r l : items_reqs (r :: l) = ritems r ++ items_reqs l.
Proof. reflexivity. Qed.
Lemma items_reqs_snoc l r : items_reqs (l ++ [r]) = items_reqs l ++ ritems r.
Proof. rewrite items_reqs_app. unfold items_reqs at 2. cbn [map concat]. now rewrite app_nil_r. Qed.
Lemma items_reqs_nil : items_reqs [] = [].
Proof. reflexivity. Qed.

Section PayloadConservation.
  Variable w : item -> Z.
  Variable sz : sizer.
  Variable max min : Z.
  Hypothesis max_nonneg : 0 <= max.
  Hypothesis min_le_max : max = 0 \/ min <= max.
  Notation bst := (@bstate req).
  Notation MS := (msplitC w sz max).
  Notation SO := (sizeofC w sz).
  Notation IC := (icountC w).

  (* the run with three ghosts: the consumed requests, the items of the requests whose MergeSplit did not fail, and
     the items of the batches whose export has returned *)
  Definition cstep (x : bst * nat * list req * list item * list item) (e : @bevent req) : bst * nat * list req * list item * list item :=
    let '(st, n, rs, ok, F) := x in
    (bstep MS SO IC min (st, n) e,
     match e with EConsume r => rs ++ [r] | _ => rs end,
     match e with EConsume r => if ms_failed MS st r then ok else ok ++ ritems r | _ => ok end,
     match e with
     | EResult b _ => match fly_req b (b_flying st) with Some (r, _) => F ++ ritems r | None => F end
     | _ => F
     end).
  Definition crun (es : list (@bevent req)) := fold_left cstep es (b_init, O, [], [], []).

  Definition Cons (st : bst) (ok : list item) (F : list item) : Prop :=
    Permutation (cur_items st ++ fly_items st ++ F) ok.

  Lemma Cons_consume rs n (st : bst) r ok F : wf_p w sz (rp r) -> K w sz max rs n st -> Cons st ok F ->
    Cons (consume MS SO IC min st n r) (if ms_failed MS st r then ok else ok ++ ritems r) F.
  Proof.
    intros Hr [_ [Kc _]] HC. unfold Cons in *. apply (Permutation_count_occ item_dec). intros x.
    pose proof (proj1 (Permutation_count_occ item_dec _ _) HC x) as HCx. clear HC.
    unfold ms_failed.
    unfold consume. destruct (b_cur st) as [[c cds]|] eqn:Ecur.
    - destruct Kc as [Hwc _]. unfold msplitC.
      destruct (merge_split w sz max c (Some r)) as [out|] eqn:Em.
      2:{ unfold fire, cur_items, fly_items in *; cbn [on_done_all on_done b_cur b_flying] in *. rewrite Ecur in *. exact HCx. }
      pose proof (proj1 (Permutation_count_occ item_dec _ _) (merge_split_items_perm w sz max c (Some r) out Hwc Hr Em) x) as Hp.
      rewrite !count_occ_app in *. unfold cur_items in HCx. rewrite Ecur in HCx.
      destruct out as [|r0 rest].
      { unfold fire, cur_items, fly_items in *; cbn [on_done_all on_done b_cur b_flying] in *. rewrite Ecur.
        rewrite items_reqs_nil in Hp. cbn [count_occ] in Hp. lia. }
      set (fhn := (Nat.eqb (length rest) 0 || negb (IC r0 =? IC c))%bool).
      destruct (wrap_done st n (if fhn then S (length rest) else length rest)) as [st1 d] eqn:Ew.
      destruct (wrap_done_attached _ _ _ _ _ Ew) as [_ [_ [Hc1 Hfy1]]].
      set (cds' := if fhn then cds ++ [d] else cds).
      set (ff := ((0 <? length rest)%nat || negb (SO r0 <? min))%bool).
      set (st2 := with_cur st1 (if ff then None else Some (r0, cds'))).
      destruct (park_last SO min st2 rest d) as [rest' st3] eqn:Ep.
      set (st4 := if ff then start_flush st3 r0 cds' else st3).
      destruct (fly_items_start_flushes rest' st4 [d]) as [Hf5 Hc5].
      unfold cur_items at 1. rewrite Hc5, Hf5, count_occ_app.
      rewrite items_reqs_cons, count_occ_app in Hp.
      assert (Hfy2 : fly_items st2 = fly_items st) by (unfold fly_items, st2; cbn [with_cur b_flying]; now rewrite Hfy1).
      destruct (park_last_shape w sz min _ _ _ _ _ Ep) as [[-> ->]|[la [Hla [-> _]]]].
      + unfold st4. destruct ff eqn:Eff.
        * cbn [start_flush b_cur]. unfold st2 at 1. cbn [with_cur b_cur]. rewrite fly_items_start_flush, Hfy2, count_occ_app. cbn [count_occ]. lia.
        * unfold st2 at 1. cbn [with_cur b_cur]. rewrite Hfy2.
          unfold ff in Eff. apply orb_false_iff in Eff. destruct Eff as [El _]. apply Nat.ltb_ge in El.
          destruct rest; [|cbn in El; lia]. rewrite items_reqs_nil in *. cbn [count_occ] in *. lia.
      + assert (Hfy3 : fly_items (with_cur st2 (Some (la, [d]))) = fly_items st) by (unfold fly_items; cbn [with_cur b_flying]; exact Hfy2).
        rewrite Hla, items_reqs_snoc, count_occ_app in Hp.
        unfold st4. destruct ff eqn:Eff.
        * cbn [start_flush b_cur with_cur]. rewrite fly_items_start_flush, Hfy3, count_occ_app. lia.
        * unfold ff in Eff. apply orb_false_iff in Eff. destruct Eff as [El _]. apply Nat.ltb_ge in El.
          rewrite Hla, app_length in El. cbn in El. lia.
    - unfold msplitC. destruct (merge_split w sz max r None) as [out|] eqn:Em.
      2:{ unfold fire, cur_items, fly_items in *; cbn [on_done_all on_done b_cur b_flying] in *. rewrite Ecur in *. exact HCx. }
      pose proof (proj1 (Permutation_count_occ item_dec _ _) (merge_split_items_perm w sz max r None out Hr I Em) x) as Hp.
      rewrite app_nil_r in Hp. rewrite !count_occ_app in *. unfold cur_items in HCx. rewrite Ecur in HCx. cbn [count_occ] in HCx.
      destruct out as [|r0 rest].
      { unfold fire, cur_items, fly_items in *; cbn [on_done_all on_done b_cur b_flying] in *. rewrite Ecur.
        rewrite items_reqs_nil in Hp. cbn [count_occ] in *. lia. }
      destruct (wrap_done st n (length (r0 :: rest))) as [st1 d] eqn:Ew.
      destruct (wrap_done_attached _ _ _ _ _ Ew) as [_ [_ [Hc1 Hfy1]]].
      destruct (park_last SO min st1 (r0 :: rest) d) as [rs' st2] eqn:Ep.
      destruct (fly_items_start_flushes rs' st2 [d]) as [Hf3 Hc3].
      unfold cur_items at 1. rewrite Hc3, Hf3, count_occ_app.
      assert (Hfy : fly_items st1 = fly_items st) by (unfold fly_items; now rewrite Hfy1).
      destruct (park_last_shape w sz min _ _ _ _ _ Ep) as [[-> ->]|[la [Hla [-> _]]]].
      + rewrite Hc1, Ecur, Hfy. cbn [count_occ]. lia.
      + cbn [with_cur b_cur]. assert (Hfy' : fly_items (with_cur st1 (Some (la, [d]))) = fly_items st) by (unfold fly_items; cbn [with_cur b_flying]; now rewrite Hfy1).
        rewrite Hfy'. rewrite Hla, items_reqs_snoc, count_occ_app in Hp. lia.
  Qed.

  Lemma Cons_flush_current (st : bst) rs F : Cons st rs F -> Cons (flush_current st) rs F.
  Proof.
    unfold Cons, flush_current. destruct (b_cur st) as [[r ds]|] eqn:Ec; [|auto]. intros H.
    apply (Permutation_count_occ item_dec). intros x.
    pose proof (proj1 (Permutation_count_occ item_dec _ _) H x) as Hx.
    unfold cur_items in *. rewrite Ec in Hx. cbn [start_flush with_cur b_cur]. rewrite fly_items_start_flush.
    unfold fly_items at 1. cbn [with_cur b_flying]. fold (fly_items st). rewrite !count_occ_app in *. cbn [count_occ]. lia.
  Qed.

  Lemma Cons_flush_result (st : bst) rs F b err : Cons st rs F ->
    Cons (flush_result st b err) rs (match fly_req b (b_flying st) with Some (r, _) => F ++ ritems r | None => F end).
  Proof.
    unfold Cons, flush_result. intros H. destruct (fly_req b (b_flying st)) as [[r ds]|] eqn:Ef.
    - destruct (fly_req_take _ _ _ _ Ef) as [_ [fl Et]]. rewrite Et.
      pose proof (fly_req_take_perm _ _ _ _ _ _ Ef Et) as Hp.
      unfold fire. cbn [b_refs b_fired]. destruct (on_done_all ds err (b_refs st) (b_fired st)) as [r' f'].
      unfold cur_items, fly_items in *. cbn [b_cur b_flying].
      rewrite <- H. apply (Permutation_count_occ item_dec). intros x.
      pose proof (proj1 (Permutation_count_occ item_dec _ _) Hp x) as Hx. rewrite !count_occ_app in *. lia.
    - rewrite (fly_req_none_take _ _ Ef). exact H.
  Qed.

  Lemma Cons_run es : wf_events w sz es -> let '(st, n, rs, ok, F) := crun es in K w sz max rs n st /\ Cons st ok F.
  Proof.
    intros Hwf. unfold crun. rewrite <- fold_left_rev_right.
    assert (Hwf' : forall r, In (EConsume r) (rev es) -> wf_p w sz (rp r) /\ pos_items w (rp r)) by (intros r Hr; apply Hwf; now apply in_rev).
    clear Hwf. induction (rev es) as [|e l IH]; cbn [fold_right].
    - split; [split; [reflexivity|split; [exact I|constructor]]|]. unfold Cons, cur_items, fly_items, fly_items_l; cbn. constructor.
    - assert (Hl : forall r, In (EConsume r) l -> wf_p w sz (rp r) /\ pos_items w (rp r)) by (intros r Hr; apply Hwf'; now right).
      specialize (IH Hl). destruct (fold_right (fun y x => cstep x y) (b_init, O, [], [], []) l) as [[[[st n] rs] ok] F].
      destruct IH as [HK HC]. destruct e; cbn [cstep bstep].
      + destruct (Hwf' r (or_introl eq_refl)) as [Hr Hps].
        split; [apply K_consume; auto|eapply Cons_consume; eauto].
      + split; [exact (K_flush_current w sz max min min_le_max _ _ _ HK)|apply Cons_flush_current; exact HC].
      + split; [exact (K_flush_result w sz max _ _ _ _ _ HK)|apply Cons_flush_result; exact HC].
      + split; [exact (K_flush_current w sz max min min_le_max _ _ _ HK)|apply Cons_flush_current; exact HC].
  Qed.

  (* for ANY sequence of requests and any interleaving of timer flushes, export results and shutdown: the items parked
     in the current batch, in flight, and already exported are together exactly the items of the requests whose
     MergeSplit did not fail (it never fails for these request types: Properties.split_terminates) *)
  Lemma batcher_conserves_l es : wf_events w sz es ->
    let '(st, n, rs, ok, F) := crun es in Permutation (cur_items st ++ fly_items st ++ F) ok.
  Proof. intros H. pose proof (Cons_run es H) as G. destruct (crun es) as [[[[st n] rs] ok] F]. exact (proj2 G). Qed.
End PayloadConservation.

(* ---------------------------------------------------------------------------------------- *)
(* the attach rule of the repaired consume (6f74b829b), in items                              *)
(* ---------------------------------------------------------------------------------------- *)
(* consume attaches the new request's done to the first result r0 exactly when [attach] below is true (Model.consume:
   first_holds_new); what that test means for the items: *)
Lemma attach_rule_items_l w sz max a b r0 rest :
  wf_p w sz (rp a) -> wf_p w sz (rp b) -> pos_items w (rp b) -> (max = 0 \/ psum w sz (rp a) <= max) -> 0 <= max ->
  merge_split w sz max a (Some b) = Some (r0 :: rest) ->
  let attach := (Nat.eqb (length rest) 0 || negb (icountC w r0 =? icountC w a))%bool in
  (attach = false -> forall x, In x (ritems r0) -> In x (ritems a)) /\
  (attach = true -> rest = [] \/ exists x, In x (ritems r0) /\ In x (ritems b)) /\
  (forall q x, In q rest -> In x (ritems q) -> In x (ritems b)) /\
  (forall x, In x (ritems a) -> In x (ritems r0)).
Proof.
  intros Ha Hb Hpos Hfit Hmax H attach.
  destruct (merge_split_owners _ _ _ _ _ _ Ha Hb Hpos Hfit Hmax H) as [r0' [rest' [Heq [_ [Hsame [Hrest [Hdiff Hin]]]]]]].
  inversion Heq; subst r0' rest'. unfold attach, icountC. split; [|split; [|split; [exact Hrest|exact Hin]]].
  - intros E. apply orb_false_iff in E. destruct E as [_ E]. apply negb_false_iff in E. apply Z.eqb_eq in E. exact (Hsame E).
  - intros E. apply orb_true_iff in E. destruct E as [E|E].
    + left. apply Nat.eqb_eq in E. destruct rest; [reflexivity|discriminate].
    + right. apply negb_true_iff in E. apply Z.eqb_neq in E. exact (Hdiff E).
Qed.
