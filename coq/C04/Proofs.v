(* C04/Proofs.v — conservation of items with their context through merge + split (both sizers, every
   signal), by induction over the child lists walked by the RemoveIf closures and over the split loop. *)
From Verif Require Import Common.Base C04.Model.
From Coq Require Import Permutation.
Local Open Scope Z_scope.

(* ---------------------------------------------------------------------------------------- *)
(* generic facts about [walk]                                                                 *)
(* ---------------------------------------------------------------------------------------- *)
Lemma concat_map_single {A B} (f : A -> B) (l : list A) : concat (map (fun x => [f x]) l) = map f l.
Proof. induction l as [|x l IH]; simpl; [reflexivity|now rewrite IH]. Qed.

Lemma sumZf_nonneg_l {A} (f : A -> Z) l : (forall x, In x l -> 0 <= f x) -> 0 <= sumZf f l.
Proof. induction l as [|x l IH]; simpl; intros H; [lia|]. specialize (H x (or_introl eq_refl)) as Hx. assert (0 <= sumZf f l) by (apply IH; intros; apply H; now right). lia. Qed.

Section WalkPerm.
  Context {A X : Type}.
  Variable sz : sizer.
  Variable csize : A -> Z.
  Variable part : option (A -> Z -> A * A * Z).
  Variable keep_ext : A -> bool.
  Variable fl : A -> list X.          (* what a child contributes to the observable *)
  Variable P : A -> Prop.             (* well-formedness of a child (non-negative measured sizes) *)

  Hypothesis part_ok : forall ex, part = Some ex -> forall c cap e rest er,
    P c -> ex c cap = (e, rest, er) ->
    Permutation (fl e ++ fl rest) (fl c) /\ P rest /\ (keep_ext e = false -> fl e = []).

  Lemma walk_perm : forall l cap rm d k rm',
    Forall P l -> walk sz csize part keep_ext l cap rm = (d, k, rm') ->
    Permutation (concat (map fl d) ++ concat (map fl k)) (concat (map fl l)) /\ Forall P k.
  Proof.
    induction l as [|c l IH]; intros cap rm d k rm' HP Hw; simpl in Hw.
    - inversion Hw; subst. simpl. split; constructor.
    - inversion HP as [|? ? Pc Pl]; subst.
      destruct (cap =? 0).
      + destruct (walk sz csize part keep_ext l cap rm) as [[d0 k0] rm0] eqn:E.
        inversion Hw; subst. destruct (IH _ _ _ _ _ Pl E) as [Hp Hk]. split; [|constructor; assumption].
        simpl. rewrite <- Hp.
        rewrite (Permutation_app_comm (fl c) _), app_assoc, <- (Permutation_app_comm (fl c)). reflexivity.
      + destruct (delta sz (csize c) >? cap).
        * destruct part as [ex|] eqn:Epart.
          -- destruct (ex c cap) as [[e rest] er] eqn:Eex.
             destruct (walk sz csize (Some ex) keep_ext l 0 _) as [[d0 k0] rm0] eqn:E.
             inversion Hw; subst.
             destruct (part_ok ex eq_refl c cap e rest er Pc Eex) as [Hpe [Prest Hdrop]].
             destruct (IH _ _ _ _ _ Pl E) as [Hp Hk]. split; [|constructor; assumption].
             assert (Hd : Permutation (concat (map fl ((if keep_ext e then [e] else []) ++ d0))) (fl e ++ concat (map fl d0))).
             { destruct (keep_ext e) eqn:Ek; simpl; [reflexivity|]. rewrite (Hdrop eq_refl). reflexivity. }
             rewrite Hd. simpl. rewrite <- Hp, <- Hpe.
             rewrite <- !app_assoc. apply Permutation_app_head.
             rewrite !app_assoc. apply Permutation_app_tail. apply Permutation_app_comm.
          -- destruct (walk sz csize None keep_ext l 0 rm) as [[d0 k0] rm0] eqn:E.
             inversion Hw; subst. destruct (IH _ _ _ _ _ Pl E) as [Hp Hk]. split; [|constructor; assumption].
             simpl. rewrite <- Hp.
             rewrite (Permutation_app_comm (fl c) _), app_assoc, <- (Permutation_app_comm (fl c)). reflexivity.
        * destruct (walk sz csize part keep_ext l (cap - delta sz (csize c)) _) as [[d0 k0] rm0] eqn:E.
          inversion Hw; subst. destruct (IH _ _ _ _ _ Pl E) as [Hp Hk]. split; [|assumption].
          simpl. rewrite <- Hp. rewrite app_assoc. reflexivity.
  Qed.
End WalkPerm.

Lemma walk_leaf_incl {A} sz (cs : A -> Z) keep : forall l cap rm d k rm',
  walk sz cs None keep l cap rm = (d, k, rm') -> incl d l.
Proof.
  induction l as [|c l IH]; intros cap rm d k rm' E; simpl in E.
  - inversion E; subst. intros x [].
  - destruct (cap =? 0).
    + destruct (walk sz cs None keep l cap rm) as [[d1 k1] rm1] eqn:E1. inversion E; subst. intros x Hx. right. eapply IH; eauto.
    + destruct (delta sz (cs c) >? cap).
      * destruct (walk sz cs None keep l 0 rm) as [[d1 k1] rm1] eqn:E1. inversion E; subst. intros x Hx. right. eapply IH; eauto.
      * destruct (walk sz cs None keep l _ _) as [[d1 k1] rm1] eqn:E1. inversion E; subst.
        intros x [->|Hx]; [now left|right; eapply IH; eauto].
Qed.

(* ---- DeltaSize grows at least like the identity --------------------------------------------- *)
Lemma lor1 x : 0 <= x -> Z.lor x 1 = 2 * (x / 2) + 1.
Proof.
  intros Hx. apply Z.bits_inj'. intros n Hn. rewrite Z.lor_spec.
  destruct (Z.eq_dec n 0) as [->|Hne].
  - rewrite Z.testbit_odd_0. change (Z.testbit 1 0) with true. apply orb_true_r.
  - assert (Hn1 : n = Z.succ (n - 1)) by lia. rewrite Hn1.
    rewrite Z.testbit_odd_succ by lia.
    assert (H1 : Z.testbit 1 (Z.succ (n - 1)) = false).
    { apply Z.bits_above_log2. - lia. - change (Z.log2 1) with 0. lia. }
    rewrite H1, orb_false_r. rewrite <- Z.div2_div, Z.div2_spec, Z.shiftr_spec by lia. f_equal; lia.
Qed.

Lemma sov_mono x y : 0 <= x -> x <= y -> sov x <= sov y.
Proof.
  intros Hx Hxy. unfold sov.
  assert (Ex : (x <? 0) = false) by (apply Z.ltb_ge; lia). assert (Ey : (y <? 0) = false) by (apply Z.ltb_ge; lia).
  rewrite Ex, Ey. apply Z.div_le_mono; [lia|]. apply Z.add_le_mono_r. apply Z.log2_le_mono.
  rewrite !lor1 by lia. assert (x / 2 <= y / 2) by (apply Z.div_le_mono; lia). lia.
Qed.

Lemma sov_pos0 x : 1 <= sov x.
Proof.
  unfold sov. destruct (x <? 0) eqn:E; [lia|]. apply Z.ltb_ge in E.
  assert (0 <= Z.log2 (Z.lor x 1)) by apply Z.log2_nonneg.
  apply Z.div_le_lower_bound; lia.
Qed.

Lemma delta_mono sz x y : 0 <= x -> x <= y -> y - x <= delta sz y - delta sz x.
Proof. intros Hx Hxy. destruct sz; cbn [delta]; [lia|]. pose proof (sov_mono x y Hx Hxy). lia. Qed.

Lemma delta_ge sz x : 0 <= x -> x <= delta sz x.
Proof. intros Hx. destruct sz; cbn [delta]; [lia|]. pose proof (sov_pos0 x). lia. Qed.

(* what an extraction reports as removed is at least the number of items it moved out (and at most the size
   of what it walked over) *)
Section WalkBounds.
  Context {A : Type}.
  Variable sz : sizer.
  Variable csize : A -> Z.
  Variable part : option (A -> Z -> A * A * Z).
  Variable keep_ext : A -> bool.
  Variable N : A -> Z.                (* number of items inside a child *)
  Variable Q : A -> Prop.             (* well-formedness: non-negative measured sizes *)
  Hypothesis Q_ok : forall c, Q c -> 0 <= csize c /\ 0 <= N c /\ N c <= delta sz (csize c).
  Hypothesis part_ok : forall ex, part = Some ex -> forall c cap e rest er,
    Q c -> ex c cap = (e, rest, er) -> 0 <= N e /\ N e <= er /\ er <= csize c.

  Lemma walk_bounds : forall l cap rm d k rm',
    Forall Q l -> walk sz csize part keep_ext l cap rm = (d, k, rm') ->
    rm + sumZf N d <= rm' /\ rm' <= rm + sumZf (fun c => delta sz (csize c)) l.
  Proof.
    induction l as [|c l IH]; intros cap rm d k rm' HQ Hw; cbn [walk] in Hw.
    - inversion Hw; subst. cbn [sumZf]. lia.
    - inversion HQ as [|? ? Qc Ql]; subst. destruct (Q_ok c Qc) as [Hc0 [HN0 HN]].
      pose proof (delta_ge sz (csize c) Hc0) as Hdg. cbn [sumZf].
      destruct (cap =? 0).
      + destruct (walk sz csize part keep_ext l cap rm) as [[d0 k0] rm0] eqn:E.
        inversion Hw; subst. destruct (IH _ _ _ _ _ Ql E). lia.
      + destruct (delta sz (csize c) >? cap).
        * destruct part as [ex|] eqn:Epart.
          -- destruct (ex c cap) as [[e rest] er] eqn:Eex.
             destruct (part_ok ex eq_refl c cap e rest er Qc Eex) as [He0 [He Her]].
             assert (Hm : er <= delta sz (csize c) - delta sz (csize c - er)) by (pose proof (delta_mono sz (csize c - er) (csize c)); lia).
             assert (Hg : 0 <= delta sz (csize c - er)) by (pose proof (delta_ge sz (csize c - er)); lia).
             destruct (walk sz csize (Some ex) keep_ext l 0 _) as [[d0 k0] rm0] eqn:E.
             inversion Hw; subst. destruct (IH _ _ _ _ _ Ql E) as [L U].
             assert (Hd : sumZf N ((if keep_ext e then [e] else []) ++ d0) <= N e + sumZf N d0).
             { destruct (keep_ext e); cbn [app sumZf]; lia. }
             lia.
          -- destruct (walk sz csize None keep_ext l 0 rm) as [[d0 k0] rm0] eqn:E.
             inversion Hw; subst. destruct (IH _ _ _ _ _ Ql E). lia.
        * destruct (walk sz csize part keep_ext l (cap - delta sz (csize c)) _) as [[d0 k0] rm0] eqn:E.
          inversion Hw; subst. destruct (IH _ _ _ _ _ Ql E). cbn [sumZf]. lia.
  Qed.
End WalkBounds.

(* ---------------------------------------------------------------------------------------- *)
(* logs / traces / profiles                                                                  *)
(* ---------------------------------------------------------------------------------------- *)
(* the observable with the WHOLE item (id, sizes, weight) — [flat] is its projection *)
Definition iflat_scope (rc : Z) (s : scope) : list (item * Z * Z) := map (fun i => (i, rc, sctx s)) (sitems s).
Definition iflat_res (r : res) : list (item * Z * Z) := concat (map (iflat_scope (rctx r)) (rscopes r)).
Definition iflat (p : payload) : list (item * Z * Z) := concat (map iflat_res p).
Definition pr3 (x : item * Z * Z) : Z * Z * Z := let '(i, rc, sc) := x in (iid i, rc, sc).

Lemma map_concat {A B} (f : A -> B) (l : list (list A)) : map f (concat l) = concat (map (map f) l).
Proof. induction l as [|x l IH]; simpl; [reflexivity|now rewrite map_app, IH]. Qed.

Lemma flat_iflat p : flat p = map pr3 (iflat p).
Proof.
  unfold flat, iflat. rewrite map_concat, map_map. f_equal. apply map_ext. intros r.
  unfold flat_res, iflat_res. rewrite map_concat, map_map. f_equal. apply map_ext. intros s.
  unfold iflat_scope. rewrite map_map. reflexivity.
Qed.

Lemma items_iflat p : items_of p = map (fun x => fst (fst x)) (iflat p).
Proof.
  unfold items_of, iflat. rewrite map_concat, map_map. f_equal. apply map_ext. intros r.
  unfold items_of_res, iflat_res. rewrite map_concat, map_map. f_equal. apply map_ext. intros s.
  unfold iflat_scope. rewrite map_map. cbn [fst]. now rewrite map_id.
Qed.

(* well-formed payloads: the measured sizes are non-negative and every item present has a positive delta size
   (items sizer: it weighs at least 1; bytes sizer: its encoded size is non-negative) *)
Definition wf_i (w : item -> Z) (sz : sizer) (i : item) : Prop :=
  0 <= item_size w sz i /\ 1 <= delta sz (item_size w sz i).
Definition wf_s (w : item -> Z) (sz : sizer) (s : scope) : Prop :=
  0 <= hdr sz (shdr s) /\ Forall (wf_i w sz) (sitems s).
Definition wf_r (w : item -> Z) (sz : sizer) (r : res) : Prop :=
  0 <= hdr sz (rhdr r) /\ Forall (wf_s w sz) (rscopes r).
Definition wf_p (w : item -> Z) (sz : sizer) (p : payload) : Prop := Forall (wf_r w sz) p.

Definition N_s (s : scope) : Z := Z.of_nat (length (sitems s)).
Definition N_r (r : res) : Z := Z.of_nat (length (items_of_res r)).

Lemma sumZf_le {A} (f g : A -> Z) l : (forall x, In x l -> f x <= g x) -> sumZf f l <= sumZf g l.
Proof. induction l as [|x l IH]; simpl; intros H; [lia|]. specialize (H x (or_introl eq_refl)) as Hx. assert (sumZf f l <= sumZf g l) by (apply IH; intros; apply H; now right). lia. Qed.

Lemma sumZf_ones' {A} (l : list A) : sumZf (fun _ => 1) l = Z.of_nat (length l).
Proof. induction l as [|x l IH]; [reflexivity|]. cbn [sumZf length]. rewrite IH. lia. Qed.

Lemma wf_s_size w sz s : wf_s w sz s -> 0 <= scope_size w sz s /\ N_s s <= scope_size w sz s.
Proof.
  intros [Hh Hi]. unfold scope_size, N_s. rewrite <- sumZf_ones'.
  assert (sumZf (fun _ : item => 1) (sitems s) <= sumZf (fun i => delta sz (item_size w sz i)) (sitems s)).
  { apply sumZf_le. intros x Hx. exact (proj2 (proj1 (Forall_forall _ _) Hi x Hx)). }
  assert (0 <= sumZf (fun _ : item => 1) (sitems s)) by (apply sumZf_nonneg_l; intros; lia). lia.
Qed.

Lemma wf_r_size w sz r : wf_r w sz r -> 0 <= res_size w sz r /\ N_r r <= res_size w sz r.
Proof.
  intros [Hh Hs]. unfold res_size, N_r, items_of_res.
  assert (H : 0 <= sumZf (fun s => delta sz (scope_size w sz s)) (rscopes r) /\
              Z.of_nat (length (concat (map sitems (rscopes r)))) <= sumZf (fun s => delta sz (scope_size w sz s)) (rscopes r)).
  { induction Hs as [|s l Hs0 Hl IH]; [cbn; lia|]. cbn [map concat sumZf]. rewrite app_length, Nat2Z.inj_add.
    destruct (wf_s_size _ _ _ Hs0) as [A B]. pose proof (delta_ge sz _ A). unfold N_s in B. lia. }
  lia.
Qed.

Lemma extract_scope_ok w sz szx s cap e rest er rc :
  wf_s w sz s -> extract_scope w szx s cap = (e, rest, er) ->
  Permutation (iflat_scope rc e ++ iflat_scope rc rest) (iflat_scope rc s) /\ wf_s w sz rest /\
  (scope_nonempty e = false -> iflat_scope rc e = []).
Proof.
  unfold extract_scope. intros [Hh Hi] H.
  destruct (walk szx (item_size w szx) None (fun _ => true) (sitems s) _ 0) as [[d k] rm] eqn:E.
  inversion H; subst; clear H.
  destruct (walk_perm szx (item_size w szx) None (fun _ => true) (fun i => [(i, rc, sctx s)]) (wf_i w sz)
              (fun ex Hex => ltac:(discriminate Hex)) _ _ _ _ _ _ Hi E) as [Hp Hk].
  rewrite !concat_map_single in Hp.
  unfold iflat_scope; simpl. split; [exact Hp|]. split; [split; assumption|].
  unfold scope_nonempty; simpl. destruct d; simpl; [reflexivity|discriminate].
Qed.

Lemma item_Q_ok w sz (c : item) : wf_i w sz c -> 0 <= item_size w sz c /\ 0 <= 1 /\ 1 <= delta sz (item_size w sz c).
Proof. intros [A B]. lia. Qed.

Lemma extract_scope_bounds w sz s cap e rest er :
  wf_s w sz s -> extract_scope w sz s cap = (e, rest, er) -> 0 <= N_s e /\ N_s e <= er /\ er <= scope_size w sz s.
Proof.
  unfold extract_scope. intros [Hh Hi] H.
  destruct (walk sz (item_size w sz) None (fun _ => true) (sitems s) _ 0) as [[d k] rm] eqn:E.
  inversion H; subst; clear H.
  destruct (walk_bounds sz (item_size w sz) None (fun _ => true) (fun _ => 1) (wf_i w sz)
              (item_Q_ok w sz) (fun ex Hex => ltac:(discriminate Hex)) _ _ _ _ _ _ Hi E) as [L U].
  unfold N_s, scope_size; cbn [sitems]. rewrite sumZf_ones' in L. lia.
Qed.

Lemma extract_res_ok w sz szx r cap e rest er :
  wf_r w sz r -> extract_res w szx r cap = (e, rest, er) ->
  Permutation (iflat_res e ++ iflat_res rest) (iflat_res r) /\ wf_r w sz rest /\ (res_nonempty e = false -> iflat_res e = []).
Proof.
  unfold extract_res. intros [Hh Hs] H.
  destruct (walk szx (scope_size w szx) (Some (extract_scope w szx)) scope_nonempty (rscopes r) _ 0) as [[d k] rm] eqn:E.
  inversion H; subst; clear H.
  assert (Hpart : forall ex, Some (extract_scope w szx) = Some ex -> forall c cap0 e0 rest0 er0,
            wf_s w sz c -> ex c cap0 = (e0, rest0, er0) ->
            Permutation (iflat_scope (rctx r) e0 ++ iflat_scope (rctx r) rest0) (iflat_scope (rctx r) c) /\ wf_s w sz rest0 /\
            (scope_nonempty e0 = false -> iflat_scope (rctx r) e0 = [])).
  { intros ex Hex; inversion Hex; subst. intros c cap0 e0 rest0 er0 Hc Hx. exact (extract_scope_ok w sz szx c cap0 e0 rest0 er0 (rctx r) Hc Hx). }
  destruct (walk_perm szx (scope_size w szx) (Some (extract_scope w szx)) scope_nonempty (iflat_scope (rctx r)) (wf_s w sz)
              Hpart _ _ _ _ _ _ Hs E) as [Hp Hk].
  unfold iflat_res; simpl. split; [exact Hp|]. split; [split; assumption|].
  unfold res_nonempty; simpl. destruct d; simpl; [reflexivity|discriminate].
Qed.

Lemma N_s_sum l : sumZf N_s l = Z.of_nat (length (concat (map sitems l))).
Proof. induction l as [|s l IH]; [reflexivity|]. cbn [sumZf map concat]. rewrite app_length, Nat2Z.inj_add, IH. reflexivity. Qed.

Lemma N_r_sum p : sumZf N_r p = Z.of_nat (length (items_of p)).
Proof. unfold items_of. induction p as [|r p IH]; [reflexivity|]. cbn [sumZf map concat]. rewrite app_length, Nat2Z.inj_add, IH. reflexivity. Qed.

Lemma scope_Q_ok w sz c : wf_s w sz c -> 0 <= scope_size w sz c /\ 0 <= N_s c /\ N_s c <= delta sz (scope_size w sz c).
Proof. intros H. destruct (wf_s_size _ _ _ H) as [A B]. pose proof (delta_ge sz _ A). unfold N_s in *. lia. Qed.

Lemma res_Q_ok w sz c : wf_r w sz c -> 0 <= res_size w sz c /\ 0 <= N_r c /\ N_r c <= delta sz (res_size w sz c).
Proof. intros H. destruct (wf_r_size _ _ _ H) as [A B]. pose proof (delta_ge sz _ A). unfold N_r in *. lia. Qed.

Lemma extract_res_bounds w sz r cap e rest er :
  wf_r w sz r -> extract_res w sz r cap = (e, rest, er) -> 0 <= N_r e /\ N_r e <= er /\ er <= res_size w sz r.
Proof.
  unfold extract_res. intros [Hh Hs] H.
  destruct (walk sz (scope_size w sz) (Some (extract_scope w sz)) scope_nonempty (rscopes r) _ 0) as [[d k] rm] eqn:E.
  inversion H; subst; clear H.
  assert (Hpart : forall ex, Some (extract_scope w sz) = Some ex -> forall c cap0 e0 rest0 er0,
            wf_s w sz c -> ex c cap0 = (e0, rest0, er0) -> 0 <= N_s e0 /\ N_s e0 <= er0 /\ er0 <= scope_size w sz c).
  { intros ex Hex; inversion Hex; subst. intros c cap0 e0 rest0 er0 Hc Hx. exact (extract_scope_bounds w sz c cap0 e0 rest0 er0 Hc Hx). }
  destruct (walk_bounds sz (scope_size w sz) (Some (extract_scope w sz)) scope_nonempty N_s (wf_s w sz)
              (scope_Q_ok w sz) Hpart _ _ _ _ _ _ Hs E) as [L U].
  unfold N_r, items_of_res, res_size; cbn [rscopes]. rewrite N_s_sum in L. lia.
Qed.

Lemma extract_payload_perm w sz szx p cap d k rm :
  wf_p w sz p -> extract_payload w szx p cap = (d, k, rm) ->
  Permutation (iflat d ++ iflat k) (iflat p) /\ wf_p w sz k.
Proof.
  unfold extract_payload. intros Hwf E.
  assert (Hpart : forall ex, Some (extract_res w szx) = Some ex -> forall c cap0 e0 rest0 er0,
            wf_r w sz c -> ex c cap0 = (e0, rest0, er0) ->
            Permutation (iflat_res e0 ++ iflat_res rest0) (iflat_res c) /\ wf_r w sz rest0 /\ (res_nonempty e0 = false -> iflat_res e0 = [])).
  { intros ex Hex; inversion Hex; subst. intros c cap0 e0 rest0 er0 Hc Hx. exact (extract_res_ok w sz szx c cap0 e0 rest0 er0 Hc Hx). }
  exact (walk_perm szx (res_size w szx) (Some (extract_res w szx)) res_nonempty iflat_res (wf_r w sz) Hpart _ _ _ _ _ _ Hwf E).
Qed.

(* the removed size reported by an extraction is at least the number of items of the extracted payload *)
Lemma extract_payload_removed w sz p cap d k rm :
  wf_p w sz p -> extract_payload w sz p cap = (d, k, rm) -> Z.of_nat (length (items_of d)) <= rm.
Proof.
  unfold extract_payload. intros Hwf E.
  assert (Hpart : forall ex, Some (extract_res w sz) = Some ex -> forall c cap0 e0 rest0 er0,
            wf_r w sz c -> ex c cap0 = (e0, rest0, er0) -> 0 <= N_r e0 /\ N_r e0 <= er0 /\ er0 <= res_size w sz c).
  { intros ex Hex; inversion Hex; subst. intros c cap0 e0 rest0 er0 Hc Hx. exact (extract_res_bounds w sz c cap0 e0 rest0 er0 Hc Hx). }
  destruct (walk_bounds sz (res_size w sz) (Some (extract_res w sz)) res_nonempty N_r (wf_r w sz)
              (res_Q_ok w sz) Hpart _ _ _ _ _ _ Hwf E) as [L _].
  rewrite N_r_sum in L. lia.
Qed.

Definition iflat_reqs (l : list req) : list (item * Z * Z) := concat (map (fun r => iflat (rp r)) l).
Definition flat_reqs (l : list req) : list (Z * Z * Z) := concat (map (fun r => flat (rp r)) l).

Lemma flat_reqs_iflat l : flat_reqs l = map pr3 (iflat_reqs l).
Proof.
  unfold flat_reqs, iflat_reqs. rewrite map_concat, map_map. f_equal. apply map_ext. intros r. apply flat_iflat.
Qed.

Lemma iflat_reqs_app l1 l2 : iflat_reqs (l1 ++ l2) = iflat_reqs l1 ++ iflat_reqs l2.
Proof. unfold iflat_reqs. now rewrite map_app, concat_app. Qed.

Lemma flat_app p q : flat (p ++ q) = flat p ++ flat q.
Proof. unfold flat. now rewrite map_app, concat_app. Qed.

Lemma split_loop_perm : forall fuel w sz max p cached acc out,
  wf_p w sz p ->
  split_loop fuel w sz max p cached acc = Some out ->
  Permutation (iflat_reqs out) (iflat_reqs acc ++ iflat p).
Proof.
  induction fuel as [|f IH]; intros w sz max p cached acc out Hw H; simpl in H.
  - destruct (cached >? max); [discriminate|]. inversion H; subst.
    rewrite iflat_reqs_app. unfold iflat_reqs at 2; simpl. now rewrite app_nil_r.
  - destruct (cached >? max).
    + destruct (extract_payload w sz p max) as [[d k] rm] eqn:E.
      destruct (extract_payload_perm _ _ _ _ _ _ _ _ Hw E) as [Hp Hwk].
      pose proof (extract_payload_removed _ _ _ _ _ _ _ Hw E) as Hrm.
      destruct (rm <=? 0) eqn:Eb.
      * (* nothing was removed, so the discarded payload holds no item *)
        apply Z.leb_le in Eb.
        assert (Hd : iflat d = []).
        { assert (Hi : items_of d = []) by (destruct (items_of d); [reflexivity|cbn [length] in Hrm; lia]).
          rewrite items_iflat in Hi. destruct (iflat d); [reflexivity|discriminate]. }
        rewrite Hd in Hp. cbn [app] in Hp.
        destruct (first_weight w (items_of k) =? 0).
        -- inversion H; subst. rewrite iflat_reqs_app. unfold iflat_reqs at 2; simpl. rewrite app_nil_r.
           apply Permutation_app_head. exact Hp.
        -- (* the first item is cut out with the count sizer and the loop goes on *)
           destruct (extract_payload w Items k (first_weight w (items_of k))) as [[d1 k1] rm1] eqn:E1.
           destruct (extract_payload_perm _ _ _ _ _ _ _ _ Hwk E1) as [Hp1 Hwk1].
           apply IH in H; [|exact Hwk1]. rewrite H, iflat_reqs_app. unfold iflat_reqs at 2; simpl. rewrite app_nil_r, <- app_assoc.
           apply Permutation_app_head. rewrite Hp1. exact Hp.
      * apply IH in H; [|exact Hwk]. rewrite H, iflat_reqs_app. unfold iflat_reqs at 2; simpl. rewrite app_nil_r, <- app_assoc.
        apply Permutation_app_head. exact Hp.
    + inversion H; subst. rewrite iflat_reqs_app. unfold iflat_reqs at 2; simpl. now rewrite app_nil_r.
Qed.

Definition flat_opt (b : option req) : list (Z * Z * Z) := match b with Some r => flat (rp r) | None => [] end.
Definition wf_opt (w : item -> Z) (sz : sizer) (b : option req) : Prop := match b with Some r => wf_p w sz (rp r) | None => True end.

Lemma merge_split_conserves_l : forall w sz max a b out,
  wf_p w sz (rp a) -> wf_opt w sz b ->
  merge_split w sz max a b = Some out ->
  Permutation (flat_reqs out) (flat (rp a) ++ flat_opt b).
Proof.
  intros w sz max a b out Ha Hb H. unfold merge_split in H.
  assert (Hm : flat (rp (merged w sz a b)) = flat (rp a) ++ flat_opt b).
  { destruct b; simpl; [apply flat_app|now rewrite app_nil_r]. }
  assert (Hw : wf_p w sz (rp (merged w sz a b))).
  { destruct b; simpl; [|exact Ha]. unfold wf_p. apply Forall_app. split; assumption. }
  destruct (max =? 0).
  - inversion H; subst. unfold flat_reqs; simpl. now rewrite app_nil_r, Hm.
  - apply split_loop_perm in H; [|exact Hw]. simpl in H. rewrite flat_reqs_iflat, <- Hm, flat_iflat.
    apply Permutation_map. exact H.
Qed.

(* logs and traces with the items sizer: every payload is well-formed, no hypothesis is left *)
Lemma wf_p_unit_items p : wf_p w_unit Items p.
Proof.
  apply Forall_forall. intros r _. split; [cbn; lia|]. apply Forall_forall. intros s _. split; [cbn; lia|].
  apply Forall_forall. intros i _. unfold wf_i, item_size, w_unit. cbn [delta]. lia.
Qed.

Lemma merge_split_conserves_unit_l : forall max a b out,
  merge_split w_unit Items max a b = Some out ->
  Permutation (flat_reqs out) (flat (rp a) ++ flat_opt b).
Proof.
  intros max a b out. apply merge_split_conserves_l; [apply wf_p_unit_items|destruct b; simpl; [apply wf_p_unit_items|exact I]].
Qed.

(* ---------------------------------------------------------------------------------------- *)
(* metrics                                                                                   *)
(* ---------------------------------------------------------------------------------------- *)
(* well-formed metrics payloads: non-negative measured header sizes, and every point has a positive delta size
   (items sizer: always; bytes sizer: its encoded size is non-negative) *)
Definition wf_item (sz : sizer) (i : item) : Prop := 0 <= point_size sz i /\ 1 <= delta sz (point_size sz i).
Definition wf_metric (sz : sizer) (m : metric) : Prop :=
  0 <= hdr sz (mhdr m) /\ 0 <= hdr sz (mdhdr m) /\ Forall (wf_item sz) (mpts m).
Definition wf_mscope (sz : sizer) (s : mscope) : Prop := 0 <= hdr sz (mshdr s) /\ Forall (wf_metric sz) (msmetrics s).
Definition wf_mres (sz : sizer) (r : mres) : Prop := 0 <= hdr sz (mrhdr r) /\ Forall (wf_mscope sz) (mrscopes r).
Definition wf_mpayload (sz : sizer) (p : mpayload) : Prop := Forall (wf_mres sz) p.

Definition nflat_metric (rc sc : Z) (m : metric) : list (Z * Z * Z * Z) :=
  map (fun i => (iid i, rc, sc, mkind m)) (mpoints_of_metric m).
Definition nflat_scope (rc : Z) (s : mscope) : list (Z * Z * Z * Z) :=
  concat (map (nflat_metric rc (msctx s)) (msmetrics s)).
Definition nflat_res (r : mres) : list (Z * Z * Z * Z) := concat (map (nflat_scope (mrctx r)) (mrscopes r)).
Definition nflat (p : mpayload) : list (Z * Z * Z * Z) := concat (map nflat_res p).

Lemma mflat_noident_eq p : mflat_noident p = nflat p.
Proof.
  unfold mflat_noident, mflat, nflat. rewrite map_concat, map_map. f_equal. apply map_ext. intros r.
  unfold mflat_res, nflat_res. rewrite map_concat, map_map. f_equal. apply map_ext. intros s.
  unfold nflat_scope. rewrite map_concat, map_map. f_equal. apply map_ext. intros m.
  unfold mflat_metric, nflat_metric. rewrite map_map. reflexivity.
Qed.

Lemma sumZf_nonneg {A} (f : A -> Z) l : (forall x, In x l -> 0 <= f x) -> 0 <= sumZf f l.
Proof. exact (sumZf_nonneg_l f l). Qed.

Lemma sov_pos x : 1 <= sov x.
Proof. exact (sov_pos0 x). Qed.

(* number of points inside *)
Definition N_m (m : metric) : Z := Z.of_nat (length (mpoints_of_metric m)).
Definition N_ms (s : mscope) : Z := Z.of_nat (length (concat (map mpoints_of_metric (msmetrics s)))).
Definition N_mr (r : mres) : Z := Z.of_nat (length (mpoints_of_res r)).

Lemma wf_pts_size sz l : Forall (wf_item sz) l ->
  0 <= sumZf (fun i => delta sz (point_size sz i)) l /\ Z.of_nat (length l) <= sumZf (fun i => delta sz (point_size sz i)) l.
Proof. induction 1 as [|i l [A B] Hl IH]; [cbn; lia|]. cbn [sumZf length]. lia. Qed.

Lemma wf_metric_size sz m : wf_metric sz m -> 0 <= metric_size sz m /\ N_m m <= metric_size sz m.
Proof.
  intros [H1 [H2 H3]]. unfold metric_size, N_m, mpoints_of_metric. destruct (mkind m =? 0); [cbn; lia|].
  destruct (wf_pts_size _ _ H3) as [A B].
  pose proof (delta_ge sz (hdr sz (mdhdr m) + sumZf (fun i => delta sz (point_size sz i)) (mpts m))). lia.
Qed.

Lemma wf_mscope_size sz s : wf_mscope sz s -> 0 <= mscope_size sz s /\ N_ms s <= mscope_size sz s.
Proof.
  intros [Hh Hs]. unfold mscope_size, N_ms.
  assert (H : 0 <= sumZf (fun m => delta sz (metric_size sz m)) (msmetrics s) /\
              Z.of_nat (length (concat (map mpoints_of_metric (msmetrics s)))) <= sumZf (fun m => delta sz (metric_size sz m)) (msmetrics s)).
  { induction Hs as [|m l Hm Hl IH]; [cbn; lia|]. cbn [map concat sumZf]. rewrite app_length, Nat2Z.inj_add.
    destruct (wf_metric_size _ _ Hm) as [A B]. pose proof (delta_ge sz _ A). unfold N_m in B. lia. }
  lia.
Qed.

Lemma wf_mres_size sz r : wf_mres sz r -> 0 <= mres_size sz r /\ N_mr r <= mres_size sz r.
Proof.
  intros [Hh Hs]. unfold mres_size, N_mr, mpoints_of_res.
  assert (H : 0 <= sumZf (fun s => delta sz (mscope_size sz s)) (mrscopes r) /\
              Z.of_nat (length (concat (map (fun s => concat (map mpoints_of_metric (msmetrics s))) (mrscopes r)))) <= sumZf (fun s => delta sz (mscope_size sz s)) (mrscopes r)).
  { induction Hs as [|s l Hs0 Hl IH]; [cbn; lia|]. cbn [map concat sumZf]. rewrite app_length, Nat2Z.inj_add.
    destruct (wf_mscope_size _ _ Hs0) as [A B]. pose proof (delta_ge sz _ A). unfold N_ms in B. lia. }
  lia.
Qed.

Lemma metric_Q_ok sz c : wf_metric sz c -> 0 <= metric_size sz c /\ 0 <= N_m c /\ N_m c <= delta sz (metric_size sz c).
Proof. intros H. destruct (wf_metric_size _ _ H) as [A B]. pose proof (delta_ge sz _ A). unfold N_m in *. lia. Qed.
Lemma mscope_Q_ok sz c : wf_mscope sz c -> 0 <= mscope_size sz c /\ 0 <= N_ms c /\ N_ms c <= delta sz (mscope_size sz c).
Proof. intros H. destruct (wf_mscope_size _ _ H) as [A B]. pose proof (delta_ge sz _ A). unfold N_ms in *. lia. Qed.
Lemma mres_Q_ok sz c : wf_mres sz c -> 0 <= mres_size sz c /\ 0 <= N_mr c /\ N_mr c <= delta sz (mres_size sz c).
Proof. intros H. destruct (wf_mres_size _ _ H) as [A B]. pose proof (delta_ge sz _ A). unfold N_mr in *. lia. Qed.
Lemma point_Q_ok sz (c : item) : wf_item sz c -> 0 <= point_size sz c /\ 0 <= 1 /\ 1 <= delta sz (point_size sz c).
Proof. intros [A B]. lia. Qed.

Lemma extract_metric_ok sz m cap e rest er rc sc :
  wf_metric sz m -> extract_metric sz m cap = (e, rest, er) ->
  Permutation (nflat_metric rc sc e ++ nflat_metric rc sc rest) (nflat_metric rc sc m) /\ wf_metric sz rest /\
  (metric_keep sz e = false -> nflat_metric rc sc e = []).
Proof.
  unfold extract_metric. intros Hwf H. destruct (mkind m =? 0) eqn:Ek.
  - inversion H; subst. unfold nflat_metric, mpoints_of_metric; simpl. rewrite Ek. simpl. split; [reflexivity|split; [exact Hwf|reflexivity]].
  - destruct Hwf as [Hh1 [Hh2 Hpts]].
    destruct (walk sz (point_size sz) None (fun _ => true) (mpts m) _ 0) as [[d k] rm] eqn:E.
    inversion H; subst; clear H.
    destruct (walk_perm sz (point_size sz) None (fun _ => true) (fun i => [(iid i, rc, sc, mkind m)]) (wf_item sz)
                (fun ex Hex => ltac:(discriminate Hex)) _ _ _ _ _ _ Hpts E) as [Hp Hk].
    rewrite !concat_map_single in Hp.
    unfold nflat_metric, mpoints_of_metric; simpl. rewrite Ek. split; [exact Hp|]. split; [repeat split; assumption|].
    unfold metric_keep, metric_size; simpl. rewrite Ek. intros Hkeep.
    destruct d as [|i d]; [reflexivity|exfalso].
    assert (Hd : Forall (wf_item sz) (i :: d)).
    { apply Forall_forall. intros x Hx. apply (proj1 (Forall_forall _ _) Hpts). exact (walk_leaf_incl _ _ _ _ _ _ _ _ _ E x Hx). }
    rewrite Z.gtb_ltb in Hkeep. apply Z.ltb_ge in Hkeep.
    destruct (wf_pts_size _ _ Hd) as [A B]. cbn [length] in B.
    assert (H0 : 0 <= hdr sz 0) by (destruct sz; cbn; lia).
    pose proof (delta_ge sz (hdr sz 0 + sumZf (fun i0 => delta sz (point_size sz i0)) (i :: d))). lia.
Qed.

Lemma extract_metric_bounds sz m cap e rest er :
  wf_metric sz m -> extract_metric sz m cap = (e, rest, er) -> 0 <= N_m e /\ N_m e <= er /\ er <= metric_size sz m.
Proof.
  unfold extract_metric. intros Hwf H. destruct (wf_metric_size _ _ Hwf) as [S0 _]. destruct (mkind m =? 0) eqn:Ek.
  - inversion H; subst. unfold N_m, mpoints_of_metric; cbn. lia.
  - destruct Hwf as [Hh1 [Hh2 Hpts]].
    destruct (walk sz (point_size sz) None (fun _ => true) (mpts m) _ 0) as [[d k] rm] eqn:E.
    inversion H; subst; clear H.
    destruct (walk_bounds sz (point_size sz) None (fun _ => true) (fun _ => 1) (wf_item sz)
                (point_Q_ok sz) (fun ex Hex => ltac:(discriminate Hex)) _ _ _ _ _ _ Hpts E) as [L U].
    rewrite sumZf_ones' in L. unfold N_m, mpoints_of_metric, metric_size; cbn [mkind mpts]. rewrite Ek.
    destruct (wf_pts_size _ _ Hpts) as [A B].
    pose proof (delta_ge sz (hdr sz (mdhdr m) + sumZf (fun i => delta sz (point_size sz i)) (mpts m))). lia.
Qed.

Lemma extract_mscope_ok sz s cap e rest er rc :
  wf_mscope sz s -> extract_mscope sz s cap = (e, rest, er) ->
  Permutation (nflat_scope rc e ++ nflat_scope rc rest) (nflat_scope rc s) /\ wf_mscope sz rest /\
  (mscope_nonempty e = false -> nflat_scope rc e = []).
Proof.
  unfold extract_mscope. intros [Hh Hwf] H.
  destruct (walk sz (metric_size sz) (Some (extract_metric sz)) (metric_keep sz) (msmetrics s) _ 0) as [[d k] rm] eqn:E.
  inversion H; subst; clear H.
  assert (Hpart : forall ex, Some (extract_metric sz) = Some ex -> forall c cap0 e0 rest0 er0,
            wf_metric sz c -> ex c cap0 = (e0, rest0, er0) ->
            Permutation (nflat_metric rc (msctx s) e0 ++ nflat_metric rc (msctx s) rest0) (nflat_metric rc (msctx s) c) /\
            wf_metric sz rest0 /\ (metric_keep sz e0 = false -> nflat_metric rc (msctx s) e0 = [])).
  { intros ex Hex; inversion Hex; subst. intros c cap0 e0 rest0 er0 Hc Hx. exact (extract_metric_ok sz c cap0 e0 rest0 er0 rc (msctx s) Hc Hx). }
  destruct (walk_perm sz (metric_size sz) (Some (extract_metric sz)) (metric_keep sz) (nflat_metric rc (msctx s)) (wf_metric sz)
              Hpart _ _ _ _ _ _ Hwf E) as [Hp Hk].
  unfold nflat_scope; simpl. split; [exact Hp|]. split; [split; assumption|].
  unfold mscope_nonempty; simpl. destruct d; simpl; [reflexivity|discriminate].
Qed.

Lemma N_m_sum l : sumZf N_m l = Z.of_nat (length (concat (map mpoints_of_metric l))).
Proof. induction l as [|s l IH]; [reflexivity|]. cbn [sumZf map concat]. rewrite app_length, Nat2Z.inj_add, IH. reflexivity. Qed.
Lemma N_ms_sum l : sumZf N_ms l = Z.of_nat (length (concat (map (fun s => concat (map mpoints_of_metric (msmetrics s))) l))).
Proof. induction l as [|s l IH]; [reflexivity|]. cbn [sumZf map concat]. rewrite app_length, Nat2Z.inj_add, IH. reflexivity. Qed.
Lemma N_mr_sum p : sumZf N_mr p = Z.of_nat (length (mpoints_of p)).
Proof. unfold mpoints_of. induction p as [|r p IH]; [reflexivity|]. cbn [sumZf map concat]. rewrite app_length, Nat2Z.inj_add, IH. reflexivity. Qed.

Lemma extract_mscope_bounds sz s cap e rest er :
  wf_mscope sz s -> extract_mscope sz s cap = (e, rest, er) -> 0 <= N_ms e /\ N_ms e <= er /\ er <= mscope_size sz s.
Proof.
  unfold extract_mscope. intros [Hh Hwf] H.
  destruct (walk sz (metric_size sz) (Some (extract_metric sz)) (metric_keep sz) (msmetrics s) _ 0) as [[d k] rm] eqn:E.
  inversion H; subst; clear H.
  assert (Hpart : forall ex, Some (extract_metric sz) = Some ex -> forall c cap0 e0 rest0 er0,
            wf_metric sz c -> ex c cap0 = (e0, rest0, er0) -> 0 <= N_m e0 /\ N_m e0 <= er0 /\ er0 <= metric_size sz c).
  { intros ex Hex; inversion Hex; subst. intros c cap0 e0 rest0 er0 Hc Hx. exact (extract_metric_bounds sz c cap0 e0 rest0 er0 Hc Hx). }
  destruct (walk_bounds sz (metric_size sz) (Some (extract_metric sz)) (metric_keep sz) N_m (wf_metric sz)
              (metric_Q_ok sz) Hpart _ _ _ _ _ _ Hwf E) as [L U].
  unfold N_ms, mscope_size; cbn [msmetrics]. rewrite N_m_sum in L. lia.
Qed.

Lemma extract_mres_ok sz r cap e rest er :
  wf_mres sz r -> extract_mres sz r cap = (e, rest, er) ->
  Permutation (nflat_res e ++ nflat_res rest) (nflat_res r) /\ wf_mres sz rest /\
  (mres_nonempty e = false -> nflat_res e = []).
Proof.
  unfold extract_mres. intros [Hh Hwf] H.
  destruct (walk sz (mscope_size sz) (Some (extract_mscope sz)) mscope_nonempty (mrscopes r) _ 0) as [[d k] rm] eqn:E.
  inversion H; subst; clear H.
  assert (Hpart : forall ex, Some (extract_mscope sz) = Some ex -> forall c cap0 e0 rest0 er0,
            wf_mscope sz c -> ex c cap0 = (e0, rest0, er0) ->
            Permutation (nflat_scope (mrctx r) e0 ++ nflat_scope (mrctx r) rest0) (nflat_scope (mrctx r) c) /\
            wf_mscope sz rest0 /\ (mscope_nonempty e0 = false -> nflat_scope (mrctx r) e0 = [])).
  { intros ex Hex; inversion Hex; subst. intros c cap0 e0 rest0 er0 Hc Hx. exact (extract_mscope_ok sz c cap0 e0 rest0 er0 (mrctx r) Hc Hx). }
  destruct (walk_perm sz (mscope_size sz) (Some (extract_mscope sz)) mscope_nonempty (nflat_scope (mrctx r)) (wf_mscope sz)
              Hpart _ _ _ _ _ _ Hwf E) as [Hp Hk].
  unfold nflat_res; simpl. split; [exact Hp|]. split; [split; assumption|].
  unfold mres_nonempty; simpl. destruct d; simpl; [reflexivity|discriminate].
Qed.

Lemma extract_mres_bounds sz r cap e rest er :
  wf_mres sz r -> extract_mres sz r cap = (e, rest, er) -> 0 <= N_mr e /\ N_mr e <= er /\ er <= mres_size sz r.
Proof.
  unfold extract_mres. intros [Hh Hwf] H.
  destruct (walk sz (mscope_size sz) (Some (extract_mscope sz)) mscope_nonempty (mrscopes r) _ 0) as [[d k] rm] eqn:E.
  inversion H; subst; clear H.
  assert (Hpart : forall ex, Some (extract_mscope sz) = Some ex -> forall c cap0 e0 rest0 er0,
            wf_mscope sz c -> ex c cap0 = (e0, rest0, er0) -> 0 <= N_ms e0 /\ N_ms e0 <= er0 /\ er0 <= mscope_size sz c).
  { intros ex Hex; inversion Hex; subst. intros c cap0 e0 rest0 er0 Hc Hx. exact (extract_mscope_bounds sz c cap0 e0 rest0 er0 Hc Hx). }
  destruct (walk_bounds sz (mscope_size sz) (Some (extract_mscope sz)) mscope_nonempty N_ms (wf_mscope sz)
              (mscope_Q_ok sz) Hpart _ _ _ _ _ _ Hwf E) as [L U].
  unfold N_mr, mpoints_of_res, mres_size; cbn [mrscopes]. rewrite N_ms_sum in L. lia.
Qed.

Lemma extract_mpayload_perm sz p cap d k rm :
  wf_mpayload sz p -> extract_mpayload sz p cap = (d, k, rm) ->
  Permutation (nflat d ++ nflat k) (nflat p) /\ wf_mpayload sz k.
Proof.
  unfold extract_mpayload. intros Hwf E.
  assert (Hpart : forall ex, Some (extract_mres sz) = Some ex -> forall c cap0 e0 rest0 er0,
            wf_mres sz c -> ex c cap0 = (e0, rest0, er0) ->
            Permutation (nflat_res e0 ++ nflat_res rest0) (nflat_res c) /\ wf_mres sz rest0 /\
            (mres_nonempty e0 = false -> nflat_res e0 = [])).
  { intros ex Hex; inversion Hex; subst. intros c cap0 e0 rest0 er0 Hc Hx. exact (extract_mres_ok sz c cap0 e0 rest0 er0 Hc Hx). }
  exact (walk_perm sz (mres_size sz) (Some (extract_mres sz)) mres_nonempty nflat_res (wf_mres sz) Hpart _ _ _ _ _ _ Hwf E).
Qed.

(* the same with a second well-formedness carried along: extraction with sizer sz of a payload that is also
   well-formed for sizer szp leaves a remainder well-formed for both (used when the count sizer cuts out one point) *)
Definition wf2_metric sz szp m := wf_metric sz m /\ wf_metric szp m.
Definition wf2_mscope sz szp s := wf_mscope sz s /\ wf_mscope szp s.
Definition wf2_mres sz szp r := wf_mres sz r /\ wf_mres szp r.

Lemma Forall_conj {A} (P Q : A -> Prop) l : Forall P l -> Forall Q l -> Forall (fun x => P x /\ Q x) l.
Proof. intros HP HQ. apply Forall_forall. intros x Hx. split; [exact (proj1 (Forall_forall _ _) HP x Hx)|exact (proj1 (Forall_forall _ _) HQ x Hx)]. Qed.
Lemma Forall_conj_l {A} (P Q : A -> Prop) l : Forall (fun x => P x /\ Q x) l -> Forall P l /\ Forall Q l.
Proof. intros H. split; eapply Forall_impl; try exact H; intros a [X Y]; assumption. Qed.

Lemma extract_metric_ok2 sz szp m cap e rest er rc sc :
  wf2_metric sz szp m -> extract_metric sz m cap = (e, rest, er) ->
  Permutation (nflat_metric rc sc e ++ nflat_metric rc sc rest) (nflat_metric rc sc m) /\ wf2_metric sz szp rest /\
  (metric_keep sz e = false -> nflat_metric rc sc e = []).
Proof.
  intros [H1 H2] H. destruct (extract_metric_ok sz m cap e rest er rc sc H1 H) as [A [B C]].
  split; [exact A|]. split; [split; [exact B|]|exact C].
  unfold extract_metric in H. destruct (mkind m =? 0); [inversion H; subst; exact H2|].
  destruct H2 as [G1 [G2 G3]].
  destruct (walk sz (point_size sz) None (fun _ => true) (mpts m) _ 0) as [[d k] rm] eqn:E. inversion H; subst.
  repeat split; auto. cbn [mpts]. apply Forall_forall. intros x Hx.
  apply (proj1 (Forall_forall _ _) G3).
  destruct (walk_perm sz (point_size sz) None (fun _ => true) (fun i => [i]) (fun _ => True)
              (fun ex Hex => ltac:(discriminate Hex)) _ _ _ _ _ _ (proj2 (Forall_forall _ _) (fun _ _ => I)) E) as [Hp _].
  rewrite !concat_map_single, !map_id in Hp. eapply Permutation_in; [exact Hp|]. apply in_or_app. now right.
Qed.

Lemma extract_mscope_ok2 sz szp s cap e rest er rc :
  wf2_mscope sz szp s -> extract_mscope sz s cap = (e, rest, er) ->
  Permutation (nflat_scope rc e ++ nflat_scope rc rest) (nflat_scope rc s) /\ wf2_mscope sz szp rest /\
  (mscope_nonempty e = false -> nflat_scope rc e = []).
Proof.
  unfold extract_mscope. intros [[Hh Hwf] [Hh' Hwf']] H.
  destruct (walk sz (metric_size sz) (Some (extract_metric sz)) (metric_keep sz) (msmetrics s) _ 0) as [[d k] rm] eqn:E.
  inversion H; subst; clear H.
  assert (Hpart : forall ex, Some (extract_metric sz) = Some ex -> forall c cap0 e0 rest0 er0,
            wf2_metric sz szp c -> ex c cap0 = (e0, rest0, er0) ->
            Permutation (nflat_metric rc (msctx s) e0 ++ nflat_metric rc (msctx s) rest0) (nflat_metric rc (msctx s) c) /\
            wf2_metric sz szp rest0 /\ (metric_keep sz e0 = false -> nflat_metric rc (msctx s) e0 = [])).
  { intros ex Hex; inversion Hex; subst. intros c cap0 e0 rest0 er0 Hc Hx. exact (extract_metric_ok2 sz szp c cap0 e0 rest0 er0 rc (msctx s) Hc Hx). }
  destruct (walk_perm sz (metric_size sz) (Some (extract_metric sz)) (metric_keep sz) (nflat_metric rc (msctx s)) (wf2_metric sz szp)
              Hpart _ _ _ _ _ _ (Forall_conj _ _ _ Hwf Hwf') E) as [Hp Hk].
  destruct (Forall_conj_l _ _ _ Hk) as [K1 K2].
  unfold nflat_scope; simpl. split; [exact Hp|]. split; [split; split; assumption|].
  unfold mscope_nonempty; simpl. destruct d; simpl; [reflexivity|discriminate].
Qed.

Lemma extract_mres_ok2 sz szp r cap e rest er :
  wf2_mres sz szp r -> extract_mres sz r cap = (e, rest, er) ->
  Permutation (nflat_res e ++ nflat_res rest) (nflat_res r) /\ wf2_mres sz szp rest /\
  (mres_nonempty e = false -> nflat_res e = []).
Proof.
  unfold extract_mres. intros [[Hh Hwf] [Hh' Hwf']] H.
  destruct (walk sz (mscope_size sz) (Some (extract_mscope sz)) mscope_nonempty (mrscopes r) _ 0) as [[d k] rm] eqn:E.
  inversion H; subst; clear H.
  assert (Hpart : forall ex, Some (extract_mscope sz) = Some ex -> forall c cap0 e0 rest0 er0,
            wf2_mscope sz szp c -> ex c cap0 = (e0, rest0, er0) ->
            Permutation (nflat_scope (mrctx r) e0 ++ nflat_scope (mrctx r) rest0) (nflat_scope (mrctx r) c) /\
            wf2_mscope sz szp rest0 /\ (mscope_nonempty e0 = false -> nflat_scope (mrctx r) e0 = [])).
  { intros ex Hex; inversion Hex; subst. intros c cap0 e0 rest0 er0 Hc Hx. exact (extract_mscope_ok2 sz szp c cap0 e0 rest0 er0 (mrctx r) Hc Hx). }
  destruct (walk_perm sz (mscope_size sz) (Some (extract_mscope sz)) mscope_nonempty (nflat_scope (mrctx r)) (wf2_mscope sz szp)
              Hpart _ _ _ _ _ _ (Forall_conj _ _ _ Hwf Hwf') E) as [Hp Hk].
  destruct (Forall_conj_l _ _ _ Hk) as [K1 K2].
  unfold nflat_res; simpl. split; [exact Hp|]. split; [split; split; assumption|].
  unfold mres_nonempty; simpl. destruct d; simpl; [reflexivity|discriminate].
Qed.

Lemma extract_mpayload_perm2 sz szp p cap d k rm :
  wf_mpayload sz p -> wf_mpayload szp p -> extract_mpayload sz p cap = (d, k, rm) ->
  Permutation (nflat d ++ nflat k) (nflat p) /\ wf_mpayload szp k.
Proof.
  unfold extract_mpayload. intros Hwf Hwf' E.
  assert (Hpart : forall ex, Some (extract_mres sz) = Some ex -> forall c cap0 e0 rest0 er0,
            wf2_mres sz szp c -> ex c cap0 = (e0, rest0, er0) ->
            Permutation (nflat_res e0 ++ nflat_res rest0) (nflat_res c) /\ wf2_mres sz szp rest0 /\
            (mres_nonempty e0 = false -> nflat_res e0 = [])).
  { intros ex Hex; inversion Hex; subst. intros c cap0 e0 rest0 er0 Hc Hx. exact (extract_mres_ok2 sz szp c cap0 e0 rest0 er0 Hc Hx). }
  destruct (walk_perm sz (mres_size sz) (Some (extract_mres sz)) mres_nonempty nflat_res (wf2_mres sz szp) Hpart _ _ _ _ _ _ (Forall_conj _ _ _ Hwf Hwf') E) as [Hp Hk].
  split; [exact Hp|exact (proj2 (Forall_conj_l _ _ _ Hk))].
Qed.

Lemma extract_mpayload_removed sz p cap d k rm :
  wf_mpayload sz p -> extract_mpayload sz p cap = (d, k, rm) -> Z.of_nat (length (mpoints_of d)) <= rm.
Proof.
  unfold extract_mpayload. intros Hwf E.
  assert (Hpart : forall ex, Some (extract_mres sz) = Some ex -> forall c cap0 e0 rest0 er0,
            wf_mres sz c -> ex c cap0 = (e0, rest0, er0) -> 0 <= N_mr e0 /\ N_mr e0 <= er0 /\ er0 <= mres_size sz c).
  { intros ex Hex; inversion Hex; subst. intros c cap0 e0 rest0 er0 Hc Hx. exact (extract_mres_bounds sz c cap0 e0 rest0 er0 Hc Hx). }
  destruct (walk_bounds sz (mres_size sz) (Some (extract_mres sz)) mres_nonempty N_mr (wf_mres sz)
              (mres_Q_ok sz) Hpart _ _ _ _ _ _ Hwf E) as [L _].
  rewrite N_mr_sum in L. lia.
Qed.

(* the items sizer needs no hypothesis: every metrics payload is well-formed for it *)
Lemma wf_mpayload_items p : wf_mpayload Items p.
Proof.
  apply Forall_forall. intros r _. split; [cbn; lia|]. apply Forall_forall. intros s _. split; [cbn; lia|].
  apply Forall_forall. intros m _. split; [cbn; lia|]. split; [cbn; lia|].
  apply Forall_forall. intros i _. unfold wf_item. cbn. lia.
Qed.

Definition nflat_reqs (l : list mreq) : list (Z * Z * Z * Z) := concat (map (fun r => nflat (mrp r)) l).

Lemma nflat_reqs_app l1 l2 : nflat_reqs (l1 ++ l2) = nflat_reqs l1 ++ nflat_reqs l2.
Proof. unfold nflat_reqs. now rewrite map_app, concat_app. Qed.

Lemma nflat_app p q : nflat (p ++ q) = nflat p ++ nflat q.
Proof. unfold nflat. now rewrite map_app, concat_app. Qed.

Lemma nflat_length p : length (nflat p) = length (mpoints_of p).
Proof.
  unfold nflat, mpoints_of. induction p as [|r p IH]; [reflexivity|]. cbn [map concat]. rewrite !app_length, IH. f_equal.
  unfold nflat_res, mpoints_of_res. induction (mrscopes r) as [|s l IHs]; [reflexivity|]. cbn [map concat]. rewrite !app_length, IHs. f_equal.
  unfold nflat_scope. induction (msmetrics s) as [|m ms IHm]; [reflexivity|]. cbn [map concat]. rewrite !app_length, IHm. f_equal.
  unfold nflat_metric. apply map_length.
Qed.

Lemma msplit_loop_perm : forall fuel sz max p cached acc out,
  wf_mpayload sz p -> msplit_loop fuel sz max p cached acc = Some out ->
  Permutation (nflat_reqs out) (nflat_reqs acc ++ nflat p).
Proof.
  induction fuel as [|f IH]; intros sz max p cached acc out Hwf H; simpl in H.
  - destruct (cached >? max); [discriminate|]. inversion H; subst.
    rewrite nflat_reqs_app. unfold nflat_reqs at 2; simpl. now rewrite app_nil_r.
  - destruct (cached >? max).
    + destruct (extract_mpayload sz p max) as [[d k] rm] eqn:E.
      destruct (extract_mpayload_perm _ _ _ _ _ _ Hwf E) as [Hp Hk].
      pose proof (extract_mpayload_removed _ _ _ _ _ _ Hwf E) as Hrm.
      destruct (rm <=? 0) eqn:Eb.
      * apply Z.leb_le in Eb.
        assert (Hd : nflat d = []).
        { pose proof (nflat_length d) as Hl. destruct (nflat d); [reflexivity|]. cbn [length] in Hl. lia. }
        rewrite Hd in Hp. cbn [app] in Hp.
        destruct (mpoints_of k) as [|x0 xs0].
        -- inversion H; subst. rewrite nflat_reqs_app. unfold nflat_reqs at 2; simpl. rewrite app_nil_r.
           apply Permutation_app_head. exact Hp.
        -- destruct (extract_mpayload Items k 1) as [[d1 k1] rm1] eqn:E1.
           destruct (extract_mpayload_perm2 Items sz _ _ _ _ _ (wf_mpayload_items k) Hk E1) as [Hp1 Hk1].
           apply IH in H; [|exact Hk1]. rewrite H, nflat_reqs_app. unfold nflat_reqs at 2; simpl. rewrite app_nil_r, <- app_assoc.
           apply Permutation_app_head. rewrite Hp1. exact Hp.
      * apply IH in H; [|exact Hk]. rewrite H, nflat_reqs_app. unfold nflat_reqs at 2; simpl. rewrite app_nil_r, <- app_assoc.
        apply Permutation_app_head. exact Hp.
    + inversion H; subst. rewrite nflat_reqs_app. unfold nflat_reqs at 2; simpl. now rewrite app_nil_r.
Qed.

Definition nflat_opt (b : option mreq) : list (Z * Z * Z * Z) := match b with Some r => nflat (mrp r) | None => [] end.
Definition wf_mopt (sz : sizer) (b : option mreq) : Prop := match b with Some r => wf_mpayload sz (mrp r) | None => True end.

Lemma mmerge_split_conserves_partial_l : forall sz max a b out,
  wf_mpayload sz (mrp a) -> wf_mopt sz b ->
  mmerge_split sz max a b = Some out ->
  Permutation (nflat_reqs out) (nflat (mrp a) ++ nflat_opt b).
Proof.
  intros sz max a b out Ha Hb H. unfold mmerge_split in H.
  assert (Hm : nflat (mrp (mmerged sz a b)) = nflat (mrp a) ++ nflat_opt b).
  { destruct b; simpl; [apply nflat_app|now rewrite app_nil_r]. }
  assert (Hw : wf_mpayload sz (mrp (mmerged sz a b))).
  { destruct b; simpl; [|exact Ha]. unfold wf_mpayload. apply Forall_app. split; assumption. }
  destruct (max =? 0).
  - inversion H; subst. unfold nflat_reqs; simpl. now rewrite app_nil_r, Hm.
  - apply msplit_loop_perm in H; [|exact Hw]. simpl in H. now rewrite <- Hm.
Qed.


(* F4: the full statement (with the metric identity) is false of the code.  Witness: one gauge metric
   "7" with two points, items sizer, max_size 1: the first point leaves in a fragment whose identity is the
   default one. *)
Definition f4_req : mreq :=
  {| mrcached := -1;
     mrp := [ {| mrctx := 1; mrhdr := 10; mrscopes :=
               [ {| msctx := 2; mshdr := 10; msmetrics :=
                   [ {| mid := 7; mkind := 1; mhdr := 12; mdhdr := 0;
                        mpts := [ {| iid := 100; iraw := 5; icnt := 1 |}; {| iid := 101; iraw := 5; icnt := 1 |} ] |} ] |} ] |} ] |}.

Definition mflat_reqs (l : list mreq) : list (Z * Z * Z * Z * Z) := concat (map (fun r => mflat (mrp r)) l).

Lemma f4_witness :
  exists out, mmerge_split Items 1 f4_req None = Some out /\
              ~ Permutation (mflat_reqs out) (mflat (mrp f4_req)) /\
              In (100, 1, 2, 0, 1) (mflat_reqs out).
Proof.
  eexists. split; [vm_compute; reflexivity|]. split.
  - intros HP. apply Permutation_sym in HP.
    assert (Hin : In (100, 1, 2, 7, 1) (mflat (mrp f4_req))) by (vm_compute; auto).
    pose proof (Permutation_in _ HP Hin) as Hout. vm_compute in Hout.
    repeat (destruct Hout as [Hout|Hout]; [discriminate Hout|]). exact Hout.
  - vm_compute. auto.
Qed.
