(* C04/Proofs.v — conservation of items with their context through merge + split (both sizers, every
   signal), by induction over the child lists walked by the RemoveIf closures and over the split loop. *)
From Verif Require Import Common.Base C04.Model.
From Coq Require Import Permutation.
Local Open Scope Z_scope.

(* ---------------------------------------------------------------------------------------- *)
(* generic facts about [walk]                                                                 *)
(* ---------------------------------------------------------------------------------------- *)
Lemma concat_map_single {A B} (f : A -> B) (l : list A) : concat (map (fun x => [f x]) l) = map f l.
Proof. induction l as [|x l IH]; simpl; [reflexivity|now rewrite IH]. Qed.

Section WalkPerm.
  Context {A X : Type}.
  Variable sz : sizer.
  Variable csize : A -> Z.
  Variable part : option (A -> Z -> A * A * Z).
  Variable keep_ext : A -> bool.
  Variable fl : A -> list X.          (* what a child contributes to the observable *)
  Variable P : A -> Prop.             (* well-formedness of a child (non-negative measured sizes) *)

  Hypothesis part_ok : forall ex, part = Some ex -> forall c cap e rest er,
    P c -> ex c cap = (e, rest, er) ->
    Permutation (fl e ++ fl rest) (fl c) /\ P rest /\ (keep_ext e = false -> fl e = []).

  Lemma walk_perm : forall l cap rm d k rm',
    Forall P l -> walk sz csize part keep_ext l cap rm = (d, k, rm') ->
    Permutation (concat (map fl d) ++ concat (map fl k)) (concat (map fl l)) /\ Forall P k.
  Proof.
    induction l as [|c l IH]; intros cap rm d k rm' HP Hw; simpl in Hw.
    - inversion Hw; subst. simpl. split; constructor.
    - inversion HP as [|? ? Pc Pl]; subst.
      destruct (cap =? 0).
      + destruct (walk sz csize part keep_ext l cap rm) as [[d0 k0] rm0] eqn:E.
        inversion Hw; subst. destruct (IH _ _ _ _ _ Pl E) as [Hp Hk]. split; [|constructor; assumption].
        simpl. rewrite <- Hp.
        rewrite (Permutation_app_comm (fl c) _), app_assoc, <- (Permutation_app_comm (fl c)). reflexivity.
      + destruct (delta sz (csize c) >? cap).
        * destruct part as [ex|] eqn:Epart.
          -- destruct (ex c cap) as [[e rest] er] eqn:Eex.
             destruct (walk sz csize (Some ex) keep_ext l 0 _) as [[d0 k0] rm0] eqn:E.
             inversion Hw; subst.
             destruct (part_ok ex eq_refl c cap e rest er Pc Eex) as [Hpe [Prest Hdrop]].
             destruct (IH _ _ _ _ _ Pl E) as [Hp Hk]. split; [|constructor; assumption].
             assert (Hd : Permutation (concat (map fl ((if keep_ext e then [e] else []) ++ d0))) (fl e ++ concat (map fl d0))).
             { destruct (keep_ext e) eqn:Ek; simpl; [reflexivity|]. rewrite (Hdrop eq_refl). reflexivity. }
             rewrite Hd. simpl. rewrite <- Hp, <- Hpe.
             rewrite <- !app_assoc. apply Permutation_app_head.
             rewrite !app_assoc. apply Permutation_app_tail. apply Permutation_app_comm.
          -- destruct (walk sz csize None keep_ext l 0 rm) as [[d0 k0] rm0] eqn:E.
             inversion Hw; subst. destruct (IH _ _ _ _ _ Pl E) as [Hp Hk]. split; [|constructor; assumption].
             simpl. rewrite <- Hp.
             rewrite (Permutation_app_comm (fl c) _), app_assoc, <- (Permutation_app_comm (fl c)). reflexivity.
        * destruct (walk sz csize part keep_ext l (cap - delta sz (csize c)) _) as [[d0 k0] rm0] eqn:E.
          inversion Hw; subst. destruct (IH _ _ _ _ _ Pl E) as [Hp Hk]. split; [|assumption].
          simpl. rewrite <- Hp. rewrite app_assoc. reflexivity.
  Qed.
End WalkPerm.

(* ---------------------------------------------------------------------------------------- *)
(* logs / traces / profiles                                                                  *)
(* ---------------------------------------------------------------------------------------- *)
Definition flat_scope (rc : Z) (s : scope) : list (Z * Z * Z) := map (fun i => (iid i, rc, sctx s)) (sitems s).

Lemma flat_res_eq r : flat_res r = concat (map (flat_scope (rctx r)) (rscopes r)).
Proof. reflexivity. Qed.

Lemma extract_scope_ok sz s cap e rest er rc :
  extract_scope sz s cap = (e, rest, er) ->
  Permutation (flat_scope rc e ++ flat_scope rc rest) (flat_scope rc s) /\ True /\
  (scope_nonempty e = false -> flat_scope rc e = []).
Proof.
  unfold extract_scope. intros H.
  destruct (walk sz (item_size sz) None (fun _ => true) (sitems s) _ 0) as [[d k] rm] eqn:E.
  inversion H; subst; clear H.
  destruct (walk_perm sz (item_size sz) None (fun _ => true) (fun i => [(iid i, rc, sctx s)]) (fun _ => True)
              (fun ex Hex => ltac:(discriminate Hex)) _ _ _ _ _ _ (proj2 (Forall_forall _ _) (fun _ _ => I)) E) as [Hp _].
  rewrite !concat_map_single in Hp.
  unfold flat_scope; simpl. split; [exact Hp|]. split; [exact I|].
  unfold scope_nonempty; simpl. destruct d; simpl; [reflexivity|discriminate].
Qed.
