(* C04/CheckerProofs.v — the boolean clause checker of Checker.v says exactly what the Prop-level clauses say. *)
From Verif Require Import Common.Base C04.Model C04.Checker.
From Coq Require Import Permutation.
Local Open Scope Z_scope.

Lemma perm_b_spec {A} (dec : forall a b : A, {a = b} + {a <> b}) (l1 l2 : list A) :
  perm_b dec l1 l2 = true <-> Permutation l1 l2.
Proof.
  unfold perm_b. rewrite forallb_forall. split.
  - intros H. apply (Permutation_count_occ dec). intros x.
    destruct (in_dec dec x (l1 ++ l2)) as [Hin|Hn]; [apply Nat.eqb_eq; apply H; exact Hin|].
    assert (~ In x l1 /\ ~ In x l2) as [H1 H2] by (split; intros Hx; apply Hn; apply in_or_app; auto).
    rewrite (proj1 (count_occ_not_In dec l1 x) H1), (proj1 (count_occ_not_In dec l2 x) H2). reflexivity.
  - intros H x _. apply Nat.eqb_eq. apply (proj1 (Permutation_count_occ dec l1 l2) H).
Qed.

(* the clauses of the property on one observed MergeSplit of logs / traces / profiles *)
Definition observed_items (a : treq) (b : option treq) (outs : list tout3) : list (Z * Z * Z) :=
  filter (fun x => negb (memZ (fst (fst x)) (zero_ids3 a ++ opt_zero3 b))) (concat (map out_flat3 outs)).

Definition Size_clause3 (zs : list Z) (max : Z) (outs : list tout3) : Prop :=
  max = 0 \/
  (Forall (fun o => out_size3 o <= max \/ out_n3 zs o = 1%nat) (removelast outs) /\
   forall o, last_opt outs = Some o -> out_size3 o <= max \/ (out_n3 zs o <= 1)%nat).

Definition Clause_l3 (signal sz max : Z) (a : treq) (b : option treq) (obs : option (list tout3)) : Prop :=
  (* the hypothesis of the theorems holds of the measured input *)
  (wf_treq a && match b with Some t => wf_treq t | None => true end) = true /\
  exists outs, obs = Some outs /\                                                   (* MergeSplit returned *)
    Permutation (observed_items a b outs) (in_flat3 a ++ opt_flat3 b) /\           (* conservation with context *)
    Size_clause3 (zero_ids3 a ++ opt_zero3 b) max outs /\                              (* size bound *)
    Forall (fun o => out_cached3 o = -1 \/ out_cached3 o = out_size3 o) outs /\      (* cached size *)
    (sz = 0 -> signal <> 2 -> max <> 0 -> Forall (fun o => out_size3 o = max) (removelast outs)).  (* fullness *)

Lemma forallb_Forall {A} (f : A -> bool) (P : A -> Prop) l :
  (forall x, f x = true <-> P x) -> (forallb f l = true <-> Forall P l).
Proof. intros H. rewrite forallb_forall, Forall_forall. split; intros G x Hx; apply H; auto. Qed.

Lemma size_b_spec zs max o : ((out_size3 o <=? max) || Nat.eqb (out_n3 zs o) 1) = true <-> (out_size3 o <= max \/ out_n3 zs o = 1%nat).
Proof. rewrite orb_true_iff, Z.leb_le, Nat.eqb_eq. reflexivity. Qed.
Lemma size_clause3_spec zs max outs : size_clause3 zs max outs = true <-> Size_clause3 zs max outs.
Proof.
  unfold size_clause3, Size_clause3. rewrite orb_true_iff, Z.eqb_eq, andb_true_iff.
  rewrite (forallb_Forall _ _ _ (size_b_spec zs max)).
  split; (intros [H|[H1 H2]]; [now left|right; split; [exact H1|]]).
  - intros o Ho. rewrite Ho in H2. apply orb_true_iff in H2. destruct H2 as [H2|H2]; [left; now apply Z.leb_le|right; now apply Nat.leb_le].
  - destruct (last_opt outs) as [o|]; [|reflexivity]. destruct (H2 o eq_refl) as [H|H]; apply orb_true_iff; [left; now apply Z.leb_le|right; now apply Nat.leb_le].
Qed.

Lemma cached_b_spec o : ((out_cached3 o =? -1) || (out_cached3 o =? out_size3 o)) = true <-> (out_cached3 o = -1 \/ out_cached3 o = out_size3 o).
Proof. rewrite orb_true_iff, !Z.eqb_eq. reflexivity. Qed.

Theorem clauses_l3_sound : forall signal sz max a b obs,
  clauses_l3 signal sz max a b obs = 0 <-> Clause_l3 signal sz max a b obs.
Proof.
  intros signal sz max a b obs. unfold clauses_l3, Clause_l3.
  destruct (wf_treq a && match b with Some t => wf_treq t | None => true end) eqn:Ew; cbn [negb];
    [|split; [discriminate|intros [H _]; discriminate H]].
  destruct obs as [outs|]; [|split; [discriminate|intros [_ [o [H _]]]; discriminate H]].
  fold (observed_items a b outs).
  destruct (perm_b dec3 (observed_items a b outs) (in_flat3 a ++ opt_flat3 b)) eqn:Ep; cbn [negb].
  2:{ split; [discriminate|]. intros [_ [o [Ho [Hp _]]]]. inversion Ho; subst o. apply (proj2 (perm_b_spec dec3 _ _)) in Hp. congruence. }
  apply perm_b_spec in Ep.
  destruct (size_clause3 (zero_ids3 a ++ opt_zero3 b) max outs) eqn:Es; cbn [negb].
  2:{ split; [discriminate|]. intros [_ [o [Ho [_ [Hs _]]]]]. inversion Ho; subst o. apply size_clause3_spec in Hs. congruence. }
  destruct (forallb (fun o => (out_cached3 o =? -1) || (out_cached3 o =? out_size3 o)) outs) eqn:Ec; cbn [negb].
  2:{ split; [discriminate|]. intros [_ [o [Ho [_ [_ [Hc _]]]]]]. inversion Ho; subst o.
      apply (forallb_Forall _ _ _ cached_b_spec) in Hc. congruence. }
  assert (Hsize : Size_clause3 (zero_ids3 a ++ opt_zero3 b) max outs) by now apply size_clause3_spec.
  assert (Hcached : Forall (fun o => out_cached3 o = -1 \/ out_cached3 o = out_size3 o) outs) by now apply (forallb_Forall _ _ _ cached_b_spec).
  assert (Hfb : forallb (fun o => out_size3 o =? max) (removelast outs) = true <-> Forall (fun o => out_size3 o = max) (removelast outs)).
  { apply forallb_Forall. intros o. apply Z.eqb_eq. }
  destruct ((sz =? 0) && negb (signal =? 2) && negb (max =? 0) && negb (forallb (fun o => out_size3 o =? max) (removelast outs))) eqn:Ef.
  - split; [discriminate|]. intros [_ [o [Ho [_ [_ [_ Hf]]]]]]. inversion Ho; subst o.
    apply andb_true_iff in Ef. destruct Ef as [Ef E4]. apply andb_true_iff in Ef. destruct Ef as [Ef E3]. apply andb_true_iff in Ef. destruct Ef as [E1 E2].
    apply Z.eqb_eq in E1. apply negb_true_iff in E2, E3, E4. apply Z.eqb_neq in E2, E3.
    apply Hfb in Hf; auto. congruence.
  - split; [intros _|reflexivity]. split; [reflexivity|]. exists outs. repeat split; auto.
    intros H1 H2 H3. apply Hfb. apply Z.eqb_eq in H1. apply Z.eqb_neq in H2, H3. rewrite H1, H2, H3 in Ef. cbn in Ef.
    now apply negb_false_iff in Ef.
Qed.

(* the batcher clauses on an observed history (CBat / CBatC): conservation of ids and the callback count *)
Definition Clause_bat_core (evs : list tbev) (batches : list (list Z)) (fired : list (Z * Z)) : Prop :=
  (forall i, (i < length (ev_reqs evs))%nat -> count_occ Z.eq_dec (map fst fired) (Z.of_nat i) = 1%nat) /\
  Permutation (concat batches) (concat (map (fun r : list Z * bool => if snd r then [] else fst r) (ev_reqs evs))).

Theorem clauses_bat_sound : forall max failed evs batches fired,
  clauses_bat max failed evs batches fired = 0 -> Clause_bat_core evs batches fired.
Proof.
  intros max failed evs batches fired. unfold clauses_bat, Clause_bat_core.
  destruct (forallb (fun i => Nat.eqb (count_occ Z.eq_dec (map fst fired) (Z.of_nat i)) 1) (seq 0 (length (ev_reqs evs)))) eqn:E1; cbn [negb]; [|discriminate].
  destruct (perm_b Z.eq_dec (concat batches) (concat (map (fun r : list Z * bool => if snd r then [] else fst r) (ev_reqs evs)))) eqn:E2; cbn [negb]; [|discriminate].
  intros _. split; [|exact (proj1 (perm_b_spec Z.eq_dec _ _) E2)].
  intros i Hi. rewrite forallb_forall in E1. apply Nat.eqb_eq. apply E1. apply in_seq. lia.
Qed.

(* ---- metrics: the checker of one observed MergeSplit says exactly what the clauses say ---------------------------- *)
Definition Clause_m4 (sz max : Z) (a : tmreq) (b : option tmreq) (obs : option (list tout4)) : Prop :=
  exists outs, obs = Some outs /\                                                                  (* returned *)
    Permutation (concat (map out_flat4 outs)) (in_flat4 a ++ opt_flat4 b) /\   (* conservation: point, contexts, IDENTITY, type *)
    (max = 0 \/
     (Forall (fun o => out_size4 o <= max \/ length (out_flat4 o) = 1%nat) (removelast outs) /\
      forall o, last_opt outs = Some o -> out_size4 o <= max \/ (length (out_flat4 o) <= 1)%nat)) /\   (* size bound *)
    Forall (fun o => out_cached4 o = -1 \/ out_cached4 o = out_size4 o) outs /\                      (* cached size *)
    (sz = 0 -> max <> 0 -> Forall (fun o => out_size4 o = max) (removelast outs)).                   (* fullness *)

Theorem clauses_m4_sound : forall sz max a b obs, clauses_m4 sz max a b obs = 0 <-> Clause_m4 sz max a b obs.
Proof.
  intros sz max a b obs. unfold clauses_m4, Clause_m4.
  destruct obs as [outs|]; [|split; [discriminate|intros [o [H _]]; discriminate H]].
  destruct (perm_b dec5 (concat (map out_flat4 outs)) (in_flat4 a ++ opt_flat4 b)) eqn:Ep; cbn [negb].
  2:{ split; [discriminate|]. intros [o [Ho [Hp _]]]. inversion Ho; subst o. apply (proj2 (perm_b_spec dec5 _ _)) in Hp. congruence. }
  apply perm_b_spec in Ep.
  set (sb := (max =? 0) || (forallb (fun o => (out_size4 o <=? max) || Nat.eqb (length (out_flat4 o)) 1) (removelast outs) &&
                 match last_opt outs with Some o => (out_size4 o <=? max) || Nat.leb (length (out_flat4 o)) 1 | None => true end)).
  assert (Hsb : sb = true <-> (max = 0 \/
     (Forall (fun o => out_size4 o <= max \/ length (out_flat4 o) = 1%nat) (removelast outs) /\
      forall o, last_opt outs = Some o -> out_size4 o <= max \/ (length (out_flat4 o) <= 1)%nat))).
  { unfold sb. rewrite orb_true_iff, Z.eqb_eq, andb_true_iff.
    assert (Hb : forall o, ((out_size4 o <=? max) || Nat.eqb (length (out_flat4 o)) 1) = true <-> (out_size4 o <= max \/ length (out_flat4 o) = 1%nat))
      by (intros o; rewrite orb_true_iff, Z.leb_le, Nat.eqb_eq; reflexivity).
    rewrite (forallb_Forall _ _ _ Hb).
    split; (intros [H|[H1 H2]]; [now left|right; split; [exact H1|]]).
    - intros o Ho. rewrite Ho in H2. apply orb_true_iff in H2. destruct H2 as [H2|H2]; [left; now apply Z.leb_le|right; now apply Nat.leb_le].
    - destruct (last_opt outs) as [o|]; [|reflexivity]. destruct (H2 o eq_refl) as [H|H]; apply orb_true_iff; [left; now apply Z.leb_le|right; now apply Nat.leb_le]. }
  destruct sb eqn:Es; cbn [negb].
  2:{ split; [discriminate|]. intros [o [Ho [_ [Hs _]]]]. inversion Ho; subst o. apply Hsb in Hs. discriminate Hs. }
  assert (Hcb : forall o, ((out_cached4 o =? -1) || (out_cached4 o =? out_size4 o)) = true <-> (out_cached4 o = -1 \/ out_cached4 o = out_size4 o))
    by (intros o; rewrite orb_true_iff, !Z.eqb_eq; reflexivity).
  destruct (forallb (fun o => (out_cached4 o =? -1) || (out_cached4 o =? out_size4 o)) outs) eqn:Ec; cbn [negb].
  2:{ split; [discriminate|]. intros [o [Ho [_ [_ [Hc _]]]]]. inversion Ho; subst o. apply (forallb_Forall _ _ _ Hcb) in Hc. congruence. }
  assert (Hfb : forallb (fun o => out_size4 o =? max) (removelast outs) = true <-> Forall (fun o => out_size4 o = max) (removelast outs))
    by (apply forallb_Forall; intros o; apply Z.eqb_eq).
  destruct ((sz =? 0) && negb (max =? 0) && negb (forallb (fun o => out_size4 o =? max) (removelast outs))) eqn:Ef.
  - split; [discriminate|]. intros [o [Ho [_ [_ [_ Hf]]]]]. inversion Ho; subst o.
    apply andb_true_iff in Ef. destruct Ef as [Ef E3]. apply andb_true_iff in Ef. destruct Ef as [E1 E2].
    apply Z.eqb_eq in E1. apply negb_true_iff in E2, E3. apply Z.eqb_neq in E2. apply Hfb in Hf; auto. congruence.
  - split; [intros _|reflexivity]. exists outs. split; [reflexivity|]. split; [exact Ep|]. split; [apply Hsb; reflexivity|].
    split; [apply (forallb_Forall _ _ _ Hcb); exact Ec|].
    intros H1 H2. apply Hfb. apply Z.eqb_eq in H1. apply Z.eqb_neq in H2. rewrite H1, H2 in Ef. cbn in Ef. now apply negb_false_iff in Ef.
Qed.

(* ---- batcher: all four clauses (callback count, conservation of ids, batch size, error iff) --------------------- *)
Lemma memZ_In x l : memZ x l = true <-> In x l.
Proof. unfold memZ. rewrite existsb_exists. split; [intros [y [Hy E]]; apply Z.eqb_eq in E; now subst|intros H; exists x; split; [exact H|apply Z.eqb_refl]]. Qed.
Lemma inter_b_spec l1 l2 : inter_b l1 l2 = true <-> exists x, In x l1 /\ In x l2.
Proof. unfold inter_b. rewrite existsb_exists. split; intros [x [H1 H2]]; exists x; (split; [exact H1|]); apply memZ_In; exact H2. Qed.

Lemma in_combine_seq {A} (l : list A) : forall k n b, In (n, b) (combine (seq k (length l)) l) <-> (k <= n)%nat /\ nth_error l (n - k) = Some b.
Proof.
  induction l as [|x l IH]; intros k n b; cbn [length seq combine].
  - split; [intros []|intros [_ H]; destruct (n - k)%nat; discriminate H].
  - split.
    + intros [H|H]; [inversion H; subst; split; [lia|rewrite Nat.sub_diag; reflexivity]|].
      apply IH in H. destruct H as [Hk Hn]. split; [lia|]. replace (n - k)%nat with (S (n - S k)) by lia. exact Hn.
    + intros [Hk Hn]. destruct (n - k)%nat as [|m] eqn:Em.
      * left. inversion Hn; subst. f_equal. lia.
      * right. apply IH. split; [lia|]. replace (n - S k)%nat with m by lia. exact Hn.
Qed.

(* the error clause for request i = (ids, foreign): its callback reports an error iff its own MergeSplit failed or the
   export of a batch holding one of its ids failed; a request without ids whose MergeSplit succeeded makes no claim *)
Definition Err_clause (failed : nat -> list Z -> bool) (batches : list (list Z)) (fired : list (Z * Z)) (i : nat) (ids : list Z) (foreign : bool) : Prop :=
  (ids <> [] \/ foreign = true) ->
  forall p, In p fired -> fst p = Z.of_nat i ->
    (snd p <> 0 <-> (foreign = true \/ exists nb idsb, nth_error batches nb = Some idsb /\ (exists x, In x idsb /\ In x ids) /\ failed nb idsb = true)).

Definition Clause_bat (max : Z) (failed : nat -> list Z -> bool) (evs : list tbev) (batches : list (list Z)) (fired : list (Z * Z)) : Prop :=
  Clause_bat_core evs batches fired /\
  (max = 0 \/ Forall (fun b => Z.of_nat (length b) <= max) batches) /\
  forall i, (i < length (ev_reqs evs))%nat ->
    Err_clause failed batches fired i (fst (nth i (ev_reqs evs) ([], false))) (snd (nth i (ev_reqs evs) ([], false))).

Theorem clauses_bat_sound_full : forall max failed evs batches fired,
  clauses_bat max failed evs batches fired = 0 -> Clause_bat max failed evs batches fired.
Proof.
  intros max failed evs batches fired H. split; [exact (clauses_bat_sound _ _ _ _ _ H)|].
  unfold clauses_bat in H.
  destruct (forallb (fun i => Nat.eqb (count_occ Z.eq_dec (map fst fired) (Z.of_nat i)) 1) (seq 0 (length (ev_reqs evs)))); cbn [negb] in H; [|discriminate].
  destruct (perm_b Z.eq_dec (concat batches) _); cbn [negb] in H; [|discriminate].
  destruct ((max =? 0) || forallb (fun b => Z.of_nat (length b) <=? max) batches) eqn:E3; cbn [negb] in H; [|discriminate].
  split.
  - apply orb_true_iff in E3. destruct E3 as [E3|E3]; [left; now apply Z.eqb_eq|right].
    apply Forall_forall. intros b Hb. rewrite forallb_forall in E3. apply Z.leb_le. exact (E3 b Hb).
  - match type of H with (if negb (forallb ?f ?l) then _ else _) = _ => destruct (forallb f l) eqn:E7 end; cbn [negb] in H; [|discriminate].
    intros i Hi. rewrite forallb_forall in E7. assert (Hin : In i (seq 0 (length (ev_reqs evs)))) by (apply in_seq; lia).
    specialize (E7 i Hin). destruct (nth i (ev_reqs evs) ([], false)) as [ids foreign]. cbn [fst snd].
    intros Hclaim p Hp Hpi.
    set (want := foreign || existsb (fun nb => inter_b (snd nb) ids && failed (fst nb) (snd nb)) (combine (seq 0 (length batches)) batches)) in *.
    assert (Hf : forallb (fun p => negb (fst p =? Z.of_nat i) || Bool.eqb (negb (snd p =? 0)) want) fired = true).
    { destruct ids as [|x t]; destruct foreign; try exact E7. destruct Hclaim as [Hc|Hc]; [congruence|discriminate Hc]. }
    rewrite forallb_forall in Hf. specialize (Hf p Hp). rewrite Hpi, Z.eqb_refl in Hf. cbn [negb orb] in Hf. apply eqb_prop in Hf.
    assert (Hw : want = true <-> (foreign = true \/ exists nb idsb, nth_error batches nb = Some idsb /\ (exists x, In x idsb /\ In x ids) /\ failed nb idsb = true)).
    { unfold want. rewrite orb_true_iff, existsb_exists. split; (intros [Hx|Hx]; [now left|right]).
      - destruct Hx as [[nb idsb] [Hc Hb]]. cbn [fst snd] in Hb. apply andb_true_iff in Hb. destruct Hb as [Hb1 Hb2].
        apply in_combine_seq in Hc. destruct Hc as [_ Hc]. rewrite Nat.sub_0_r in Hc. exists nb, idsb. split; [exact Hc|]. split; [apply inter_b_spec; exact Hb1|exact Hb2].
      - destruct Hx as [nb [idsb [Hn [Hi2 Hfl]]]]. exists (nb, idsb). split; [apply in_combine_seq; split; [lia|rewrite Nat.sub_0_r; exact Hn]|].
        cbn [fst snd]. apply andb_true_iff. split; [apply inter_b_spec; exact Hi2|exact Hfl]. }
    rewrite <- Hw, <- Hf. rewrite negb_true_iff. split; [intros Hn; apply Z.eqb_neq; exact Hn|intros Hn; apply Z.eqb_neq; exact Hn].
Qed.
