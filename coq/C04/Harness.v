(* C04/Harness.v — comparison of the model with what the Go harnesses recorded from the real
   MergeSplit / defaultBatcher (work/C04/Cases_k.v).  Imports only the model. *)
From Verif Require Import Common.Base C04.Model.
Local Open Scope Z_scope.

(* ---- wire types (everything is Z so that a case is written as one (...)%Z term) -------------- *)
Definition titem := (Z * Z * Z)%type.                       (* id, own byte size, count weight *)
Definition tscope := (Z * Z * list titem)%type.             (* scope ctx, header bytes, items *)
Definition tres := (Z * Z * list tscope)%type.              (* resource ctx, header bytes, scopes *)
Definition treq := (Z * list tres)%type.                    (* cachedSize, payload *)
Definition tshape3 := list (Z * list (Z * list Z)).         (* [(rctx, [(sctx, [id])])] *)
Definition tout3 := (Z * Z * tshape3)%type.                 (* cachedSize, real size in the active unit, shape *)

Definition tmetric := (Z * Z * Z * Z * list titem)%type.    (* ident, kind, header bytes, data header bytes, points *)
Definition tmscope := (Z * Z * list tmetric)%type.
Definition tmres := (Z * Z * list tmscope)%type.
Definition tmreq := (Z * list tmres)%type.
Definition tshape4 := list (Z * list (Z * list (Z * Z * list Z))).   (* [(rctx, [(sctx, [(ident, kind, [id])])])] *)
Definition tout4 := (Z * Z * tshape4)%type.

(* batcher events: (0, ids, foreign?) consume a request holding these ids (foreign <> 0: MergeSplit fails)
                   (1, [], 0) timer flush | (2, [b], err) export of batch b returns | (3, [], 0) shutdown flush *)
Definition tbev := (Z * list Z * Z)%type.

Inductive ccase :=
| CL3 (signal sz max : Z) (a : treq) (b : option treq) (obs : option (list tout3))
| CM4 (sz max : Z) (a : tmreq) (b : option tmreq) (obs : option (list tout4))
| CSov (samples : list (Z * Z))                              (* (n, BytesSizer.DeltaSize n) *)
| CCfg (flush_timeout min_size max_size : Z) (valid : bool)  (* BatchConfig.Validate() == nil *)
| CBat (min_size max_size slack : Z) (evs : list tbev)
       (batches : list (list Z))                             (* exported batches in start order: ids *)
       (fired : list (Z * Z))                                (* OnDone calls: (request index, error? 1/0) in order *)
| CE2E (signal sz min_size max_size : Z) (reqs : list treq)    (* real requests through the real exporter, one consumer: *)
       (batches : list (list Z))                             (* ids of every exported payload, compared as a set     *)
| CBatC (min_size max_size slack workers : Z) (evs : list tbev)  (* worker contention: export results name the batch *)
        (batches : list (list Z))                            (* by its FIRST ID; batches are compared as a set     *)
        (fired : list (Z * Z)).

(* ---- decoding --------------------------------------------------------------------------------- *)
Definition sizer_of (z : Z) : sizer := if z =? 0 then Items else Bytes.
Definition item_of (t : titem) : item := let '(i, r, c) := t in {| iid := i; iraw := r; icnt := c |}.
Definition scope_of (t : tscope) : scope := let '(c, h, l) := t in {| sctx := c; shdr := h; sitems := map item_of l |}.
Definition res_of (t : tres) : res := let '(c, h, l) := t in {| rctx := c; rhdr := h; rscopes := map scope_of l |}.
Definition req_of (t : treq) : req := {| rcached := fst t; rp := map res_of (snd t) |}.

Definition metric_of (t : tmetric) : metric :=
  let '(i, k, h, dh, l) := t in {| mid := i; mkind := k; mhdr := h; mdhdr := dh; mpts := map item_of l |}.
Definition mscope_of (t : tmscope) : mscope := let '(c, h, l) := t in {| msctx := c; mshdr := h; msmetrics := map metric_of l |}.
Definition mres_of (t : tmres) : mres := let '(c, h, l) := t in {| mrctx := c; mrhdr := h; mrscopes := map mscope_of l |}.
Definition mreq_of (t : tmreq) : mreq := {| mrcached := fst t; mrp := map mres_of (snd t) |}.

(* ---- observables of the model's outputs ----------------------------------------------------- *)
Definition shape3 (p : payload) : tshape3 :=
  map (fun r => (rctx r, map (fun s => (sctx s, map iid (sitems s))) (rscopes r))) p.
Definition out3 (w : item -> Z) (sz : sizer) (r : req) : tout3 := (rcached r, payload_size w sz (rp r), shape3 (rp r)).

Definition shape4 (p : mpayload) : tshape4 :=
  map (fun r => (mrctx r, map (fun s => (msctx s, map (fun m => (mid m, mkind m, map iid (mpts m))) (msmetrics s))) (mrscopes r))) p.
Definition out4 (sz : sizer) (r : mreq) : tout4 := (mrcached r, mpayload_size sz (mrp r), shape4 (mrp r)).

(* signal 0 logs / 1 traces: every item weighs 1; signal 2 profiles: a profile weighs its samples *)
Definition weight_of (signal : Z) : item -> Z := if signal =? 2 then w_samples else w_unit.
Definition model_l3 (signal sz max : Z) (a : treq) (b : option treq) : option (list tout3) :=
  option_map (map (out3 (weight_of signal) (sizer_of sz)))
             (merge_split (weight_of signal) (sizer_of sz) max (req_of a) (option_map req_of b)).
Definition model_m4 (sz max : Z) (a : tmreq) (b : option tmreq) : option (list tout4) :=
  option_map (map (out4 (sizer_of sz))) (mmerge_split (sizer_of sz) max (mreq_of a) (option_map mreq_of b)).

(* ---- equality on observables ---------------------------------------------------------------- *)
Definition lz_eqb := list_eqb Z.eqb.
Definition shape3_eqb : tshape3 -> tshape3 -> bool :=
  list_eqb (fun x y => Z.eqb (fst x) (fst y) &&
     list_eqb (fun u v => Z.eqb (fst u) (fst v) && lz_eqb (snd u) (snd v)) (snd x) (snd y)).
Definition out3_eqb (x y : tout3) : bool :=
  let '(c1, s1, h1) := x in let '(c2, s2, h2) := y in Z.eqb c1 c2 && Z.eqb s1 s2 && shape3_eqb h1 h2.
Definition shape4_eqb : tshape4 -> tshape4 -> bool :=
  list_eqb (fun x y => Z.eqb (fst x) (fst y) &&
     list_eqb (fun u v => Z.eqb (fst u) (fst v) &&
        list_eqb (fun m n => let '(i1, k1, l1) := m in let '(i2, k2, l2) := n in
                             Z.eqb i1 i2 && Z.eqb k1 k2 && lz_eqb l1 l2) (snd u) (snd v)) (snd x) (snd y)).
Definition out4_eqb (x y : tout4) : bool :=
  let '(c1, s1, h1) := x in let '(c2, s2, h2) := y in Z.eqb c1 c2 && Z.eqb s1 s2 && shape4_eqb h1 h2.

(* ---- the batcher over list-of-ids requests --------------------------------------------------- *)
(* The Go harness drives the real defaultBatcher with a request type whose MergeSplit is: append,
   then cut into chunks of max_size ids (max_size = 0: no cut); a "foreign" request makes MergeSplit
   fail.  Requests are (ids, foreign). *)
Definition lreq := (list Z * bool)%type.

(* slack 0: chunks of exactly max ids; slack s > 0: a chunk that starts with id x holds max - (x mod (s+1)) ids, at
   least 1 (results that are not filled up to max, like byte-based splitting); the FIRST chunk holds at least
   [keep] ids: everything the receiver of a merge already held (the real extraction is a greedy prefix) *)
Fixpoint chunks (fuel : nat) (slack max keep : Z) (l : list Z) : list (list Z) :=
  match fuel with
  | O => [l]
  | S f =>
    if (max <? Z.of_nat (length l)) then
      let c := Z.to_nat (Z.max keep (Z.max 1 (max - (hd 0 l) mod (slack + 1)))) in
      firstn c l :: chunks f slack max 0 (skipn c l)
    else [l]
  end.

Definition lsplit (slack max : Z) (a : lreq) (b : option lreq) : option (list lreq) :=
  match b with
  | Some (_, true) => None
  | _ =>
    if snd a then None else
    let l := fst a ++ match b with Some (x, _) => x | None => [] end in
    let keep := match b with Some _ => Z.min (Z.of_nat (length (fst a))) max | None => 0 end in
    if max =? 0 then Some [(l, false)]
    else Some (map (fun c => (c, false)) (chunks (length l) slack max keep l))
  end.

Definition lsizeof (r : lreq) : Z := Z.of_nat (length (fst r)).

Definition bev_of (t : tbev) : @bevent lreq :=
  let '(k, ids, x) := t in
  if k =? 0 then EConsume (ids, negb (x =? 0))
  else if k =? 1 then ETimer
  else if k =? 2 then EResult (Z.to_nat (hd 0 ids)) (negb (x =? 0))
  else EShutdown.

(* batches in the order their export was started: replay the events and collect every start *)
Fixpoint brun_log (slack min max : Z) (es : list tbev) (sn : @bstate lreq * nat) (started : list (list Z))
  : @bstate lreq * list (list Z) :=
  match es with
  | [] => (fst sn, started)
  | e :: es' =>
    let sn' := bstep (lsplit slack max) lsizeof lsizeof min sn (bev_of e) in
    let before := b_nbatch (fst sn) in
    let newly := filter (fun x => (before <=? fst (fst x))%nat) (b_flying (fst sn')) in
    brun_log slack min max es' sn' (started ++ map (fun x => fst (snd (fst x))) newly)
  end.

Definition model_bat (slack min max : Z) (evs : list tbev) : list (list Z) * list (Z * Z) :=
  let '(st, started) := brun_log slack min max evs (b_init, O) [] in
  (started, map (fun p : nat * bool => (Z.of_nat (fst p), if snd p then 1 else 0)) (b_fired st)).

(* worker contention: translate "(2, [first id], err)" into "(2, [batch number], err)" by running the model *)
Fixpoint find_fly (key : Z) (l : list (nat * lreq * list dref)) : option nat :=
  match l with
  | [] => None
  | (b, r, _) :: t => if hd 0 (fst r) =? key then Some b else find_fly key t
  end.

Fixpoint tr_evs (slack min max : Z) (es : list tbev) (sn : @bstate lreq * nat) : list tbev :=
  match es with
  | [] => []
  | e :: es' =>
    let '(k, ids, x) := e in
    let e' := if k =? 2 then
                match find_fly (hd 0 ids) (b_flying (fst sn)) with
                | Some b => (2, [Z.of_nat b], x)
                | None => (2, [Z.of_nat (b_nbatch (fst sn))], x)      (* no such batch in flight: a no-op result *)
                end
              else e in
    e' :: tr_evs slack min max es' (bstep (lsplit slack max) lsizeof lsizeof min sn (bev_of e'))
  end.

(* the specification's verdict on the error of request i's callback (Model.erun), for the same history *)
Definition spec_err (slack min max : Z) (evs : list tbev) (i : Z) : Z :=
  if snd (erun (lsplit slack max) lsizeof lsizeof min (map bev_of evs)) (Z.to_nat i) then 1 else 0.

Definition pz_eqb (a b : Z * Z) : bool := Z.eqb (fst a) (fst b) && Z.eqb (snd a) (snd b).

(* ---- the batcher over payload requests (the composition proved about in Proofs8: merge_split inside Consume, the
   queue's sizer = the true size) ---- *)
Definition model_e2e (signal sz mn mx : Z) (reqs : list treq) : list (list Z) :=
  let w := weight_of signal in
  let s := sizer_of sz in
  let evs := map (fun t => EConsume (req_of t)) reqs ++ [EShutdown] in
  let st := fst (brun (fun a b => merge_split w s mx a b) (fun r => payload_size w s (rp r)) (fun r => sumZf w (items_of (rp r))) mn evs) in
  map (fun f => map iid (items_of (rp (snd (fst f))))) (b_flying st).

(* ---- check_case -------------------------------------------------------------------------------- *)
Definition check_case (c : ccase) : bool :=
  match c with
  | CL3 sg sz max a b obs => option_eqb (list_eqb out3_eqb) (model_l3 sg sz max a b) obs
  | CM4 sz max a b obs => option_eqb (list_eqb out4_eqb) (model_m4 sz max a b) obs
  | CSov l => forallb (fun p => Z.eqb (delta Bytes (fst p)) (snd p)) l
  | CCfg ft mn mx ok => Bool.eqb (batch_cfg_valid ft mn mx) ok
  | CBat mn mx sl evs bs fired =>
    let '(mb, mf) := model_bat sl mn mx evs in
    list_eqb lz_eqb mb bs && list_eqb pz_eqb mf fired &&
    (* every OnDone the IMPLEMENTATION made carries the error the specification demands *)
    forallb (fun p => Z.eqb (snd p) (spec_err sl mn mx evs (fst p))) fired
  | CE2E sg sz mn mx reqs bs =>
    let mb := model_e2e sg sz mn mx reqs in
    forallb (fun b => existsb (lz_eqb b) mb) bs && forallb (fun b => existsb (lz_eqb b) bs) mb &&
    Nat.eqb (length mb) (length bs)
  | CBatC mn mx sl _ evs bs fired =>
    let evs' := tr_evs sl mn mx evs (b_init, O) in
    let '(mb, mf) := model_bat sl mn mx evs' in
    forallb (fun b => existsb (lz_eqb b) mb) bs && Nat.eqb (length mb) (length bs) &&
    list_eqb pz_eqb mf fired &&
    forallb (fun p => Z.eqb (snd p) (spec_err sl mn mx evs' (fst p))) fired
  end.

(* model output, for replay files *)
Inductive cout :=
| OL3 (o : option (list tout3)) | OM4 (o : option (list tout4)) | OSov (l : list (Z * Z))
| OCfg (b : bool) | OBat (o : list (list Z) * list (Z * Z)).

Definition model_out (c : ccase) : cout :=
  match c with
  | CL3 sg sz max a b _ => OL3 (model_l3 sg sz max a b)
  | CM4 sz max a b _ => OM4 (model_m4 sz max a b)
  | CSov l => OSov (map (fun p => (fst p, delta Bytes (fst p))) l)
  | CCfg ft mn mx _ => OCfg (batch_cfg_valid ft mn mx)
  | CBat mn mx sl evs _ _ => OBat (model_bat sl mn mx evs)
  | CE2E sg sz mn mx reqs _ => OBat (model_e2e sg sz mn mx reqs, [])
  | CBatC mn mx sl _ evs _ _ => OBat (model_bat sl mn mx (tr_evs sl mn mx evs (b_init, O)))
  end.
