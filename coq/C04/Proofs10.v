(* C04/Proofs10.v — metrics, every sizer (the bytes sizer is the point): termination of the repaired split loop although the
   memo drifts (C04-CACHEDRIFT).  The drift has a direction: removedSize never OVERSTATES what left (the nested length
   prefixes only shrink further), so the memo stays >= the true size; the isolation step recomputes it, which can then only
   lower it, and takes exactly one point away. *)
From Verif Require Import Common.Base C04.Model C04.Proofs C04.Proofs2 C04.Proofs6.
From Coq Require Import Permutation.
Local Open Scope Z_scope.

Section WalkLe.
  Context {A : Type}.
  Variable sz : sizer.
  Variable csize : A -> Z.
  Variable part : option (A -> Z -> A * A * Z).
  Variable keep_ext : A -> bool.
  Variable P : A -> Prop.
  Hypothesis part_le : forall ex, part = Some ex -> forall c cap e rest er,
    P c -> ex c cap = (e, rest, er) -> 0 <= csize rest /\ csize rest <= csize c - er.

  Lemma walk_le : forall l cap rm d k rm',
    Forall P l -> walk sz csize part keep_ext l cap rm = (d, k, rm') ->
    sumZf (fun c => delta sz (csize c)) k <= sumZf (fun c => delta sz (csize c)) l - (rm' - rm).
  Proof.
    induction l as [|c l IH]; intros cap rm d k rm' HP Hw; cbn [walk] in Hw.
    - inversion Hw; subst. cbn [sumZf]. lia.
    - inversion HP as [|? ? Pc Pl]; subst. cbn [sumZf]. destruct (cap =? 0).
      + destruct (walk sz csize part keep_ext l cap rm) as [[d0 k0] rm0] eqn:E.
        inversion Hw; subst. pose proof (IH _ _ _ _ _ Pl E). cbn [sumZf]. lia.
      + destruct (delta sz (csize c) >? cap).
        * destruct part as [ex|] eqn:Epart.
          -- destruct (ex c cap) as [[e rest] er] eqn:Eex.
             destruct (part_le ex eq_refl c cap e rest er Pc Eex) as [Hr0 Hr].
             destruct (walk sz csize (Some ex) keep_ext l 0 _) as [[d0 k0] rm0] eqn:E.
             inversion Hw; subst. pose proof (IH _ _ _ _ _ Pl E) as Hi. cbn [sumZf].
             pose proof (delta_le sz _ _ Hr0 Hr). lia.
          -- destruct (walk sz csize None keep_ext l 0 rm) as [[d0 k0] rm0] eqn:E.
             inversion Hw; subst. pose proof (IH _ _ _ _ _ Pl E). cbn [sumZf]. lia.
        * destruct (walk sz csize part keep_ext l (cap - delta sz (csize c)) _) as [[d0 k0] rm0] eqn:E.
          inversion Hw; subst. pose proof (IH _ _ _ _ _ Pl E). lia.
  Qed.
End WalkLe.

(* what is left of a metric is at most its size minus what was reported as removed *)
Lemma extract_metric_le sz m cap e rest er : wf_metric sz m -> extract_metric sz m cap = (e, rest, er) ->
  0 <= metric_size sz rest /\ metric_size sz rest <= metric_size sz m - er.
Proof.
  intros Hwf H.
  destruct (extract_metric_ok sz m cap e rest er 0 0 Hwf H) as [_ [Hwr _]].
  destruct (extract_metric_bounds sz m cap e rest er Hwf H) as [N0 [N1 _]].
  split; [exact (proj1 (wf_metric_size _ _ Hwr))|].
  unfold extract_metric in H. destruct (mkind m =? 0) eqn:Ek; [inversion H; subst; lia|].
  destruct (walk sz (point_size sz) None (fun _ => true) (mpts m) _ 0) as [[d k] rm] eqn:E.
  inversion H; subst; clear H.
  pose proof (walk_exact sz (point_size sz) None (fun _ => true) (fun ex Hex => ltac:(discriminate Hex)) _ _ _ _ _ _ E) as Hx.
  destruct Hwr as [_ [Hd Hk]]. cbn [mdhdr mpts] in Hd, Hk. destruct (wf_pts_size _ _ Hk) as [K0 _].
  unfold metric_size. cbn [mkind mhdr mdhdr mpts]. rewrite Ek.
  set (X := hdr sz (mdhdr m) + sumZf (fun i => delta sz (point_size sz i)) (mpts m)) in *.
  assert (Hx2 : hdr sz (mdhdr m) + sumZf (fun i => delta sz (point_size sz i)) k = X - er) by (unfold X; lia).
  rewrite Hx2. assert (H0 : 0 <= X - er) by lia. assert (H1 : X - er <= X) by lia.
  pose proof (delta_mono sz _ _ H0 H1). lia.
Qed.

Lemma extract_mscope_le sz s cap e rest er : wf_mscope sz s -> extract_mscope sz s cap = (e, rest, er) ->
  0 <= mscope_size sz rest /\ mscope_size sz rest <= mscope_size sz s - er.
Proof.
  intros Hwf H.
  destruct (extract_mscope_ok2 sz sz s cap e rest er 0 (conj Hwf Hwf) H) as [_ [[Hwr _] _]].
  split; [exact (proj1 (wf_mscope_size _ _ Hwr))|].
  unfold extract_mscope in H. destruct Hwf as [Hh Hms].
  destruct (walk sz (metric_size sz) (Some (extract_metric sz)) (metric_keep sz) (msmetrics s) _ 0) as [[d k] rm] eqn:E.
  inversion H; subst; clear H.
  assert (Hp : forall ex, Some (extract_metric sz) = Some ex -> forall c cap0 e0 rest0 er0,
            wf_metric sz c -> ex c cap0 = (e0, rest0, er0) -> 0 <= metric_size sz rest0 /\ metric_size sz rest0 <= metric_size sz c - er0).
  { intros ex Hex; inversion Hex; subst. intros. eapply extract_metric_le; eauto. }
  pose proof (walk_le sz (metric_size sz) (Some (extract_metric sz)) (metric_keep sz) (wf_metric sz) Hp _ _ _ _ _ _ Hms E) as Hx.
  unfold mscope_size. cbn [mshdr msmetrics]. lia.
Qed.

Lemma extract_mres_le sz r cap e rest er : wf_mres sz r -> extract_mres sz r cap = (e, rest, er) ->
  0 <= mres_size sz rest /\ mres_size sz rest <= mres_size sz r - er.
Proof.
  intros Hwf H.
  destruct (extract_mres_ok2 sz sz r cap e rest er (conj Hwf Hwf) H) as [_ [[Hwr _] _]].
  split; [exact (proj1 (wf_mres_size _ _ Hwr))|].
  unfold extract_mres in H. destruct Hwf as [Hh Hss].
  destruct (walk sz (mscope_size sz) (Some (extract_mscope sz)) mscope_nonempty (mrscopes r) _ 0) as [[d k] rm] eqn:E.
  inversion H; subst; clear H.
  assert (Hp : forall ex, Some (extract_mscope sz) = Some ex -> forall c cap0 e0 rest0 er0,
            wf_mscope sz c -> ex c cap0 = (e0, rest0, er0) -> 0 <= mscope_size sz rest0 /\ mscope_size sz rest0 <= mscope_size sz c - er0).
  { intros ex Hex; inversion Hex; subst. intros. eapply extract_mscope_le; eauto. }
  pose proof (walk_le sz (mscope_size sz) (Some (extract_mscope sz)) mscope_nonempty (wf_mscope sz) Hp _ _ _ _ _ _ Hss E) as Hx.
  unfold mres_size. cbn [mrhdr mrscopes]. lia.
Qed.

Definition mpsum (sz : sizer) (p : mpayload) : Z := sumZf (fun r => delta sz (mres_size sz r)) p.

Lemma extract_mpayload_le sz p cap d k rm : wf_mpayload sz p -> extract_mpayload sz p cap = (d, k, rm) ->
  mpsum sz k <= mpsum sz p - rm.
Proof.
  unfold extract_mpayload. intros Hwf E.
  assert (Hp : forall ex, Some (extract_mres sz) = Some ex -> forall c cap0 e0 rest0 er0,
            wf_mres sz c -> ex c cap0 = (e0, rest0, er0) -> 0 <= mres_size sz rest0 /\ mres_size sz rest0 <= mres_size sz c - er0).
  { intros ex Hex; inversion Hex; subst. intros. eapply extract_mres_le; eauto. }
  pose proof (walk_le sz (mres_size sz) (Some (extract_mres sz)) mres_nonempty (wf_mres sz) Hp _ _ _ _ _ _ Hwf E) as Hx.
  unfold mpsum. lia.
Qed.

(* what is left after an extraction with ANY sizer is not larger, measured with sz *)
Lemma pts_nn sz (c : item) : wf_item sz c -> 0 <= delta sz (point_size sz c).
Proof. intros [A B]. lia. Qed.
Lemma metric_nn sz c : wf_metric sz c -> 0 <= delta sz (metric_size sz c).
Proof. intros H. destruct (wf_metric_size _ _ H) as [A _]. pose proof (delta_ge sz _ A). lia. Qed.
Lemma mscope_nn sz c : wf_mscope sz c -> 0 <= delta sz (mscope_size sz c).
Proof. intros H. destruct (wf_mscope_size _ _ H) as [A _]. pose proof (delta_ge sz _ A). lia. Qed.
Lemma mres_nn sz c : wf_mres sz c -> 0 <= delta sz (mres_size sz c).
Proof. intros H. destruct (wf_mres_size _ _ H) as [A _]. pose proof (delta_ge sz _ A). lia. Qed.

Lemma extract_metric_mono sz szx m cap e rest er : wf_metric sz m -> extract_metric szx m cap = (e, rest, er) ->
  delta sz (metric_size sz rest) <= delta sz (metric_size sz m) /\ wf_metric sz rest.
Proof.
  intros Hwf H. unfold extract_metric in H. destruct (mkind m =? 0) eqn:Ek; [inversion H; subst; split; [lia|exact Hwf]|].
  destruct (walk szx (point_size szx) None (fun _ => true) (mpts m) _ 0) as [[d k] rm] eqn:E.
  inversion H; subst; clear H. destruct Hwf as [H1 [H2 H3]].
  destruct (walk_mono szx (point_size szx) None (fun _ => true) (fun i => delta sz (point_size sz i)) (wf_item sz)
              (fun ex Hex => ltac:(discriminate Hex)) _ _ _ _ _ _ H3 E (pts_nn sz)) as [Hm Hk].
  assert (Hwr : wf_metric sz {| mid := mid m; mkind := mkind m; mhdr := mhdr m; mdhdr := mdhdr m; mpts := k |}) by (repeat split; assumption).
  split; [|exact Hwr]. destruct (wf_metric_size _ _ Hwr) as [A _]. apply delta_le; [exact A|].
  unfold metric_size. cbn [mkind mhdr mdhdr mpts]. rewrite Ek. destruct (wf_pts_size _ _ Hk) as [K0 _].
  assert (0 <= hdr sz (mdhdr m) + sumZf (fun i => delta sz (point_size sz i)) k) by lia.
  assert (hdr sz (mdhdr m) + sumZf (fun i => delta sz (point_size sz i)) k <= hdr sz (mdhdr m) + sumZf (fun i => delta sz (point_size sz i)) (mpts m)) by lia.
  pose proof (delta_le sz _ _ H H0). lia.
Qed.

Lemma extract_mscope_mono sz szx s cap e rest er : wf_mscope sz s -> extract_mscope szx s cap = (e, rest, er) ->
  delta sz (mscope_size sz rest) <= delta sz (mscope_size sz s) /\ wf_mscope sz rest.
Proof.
  unfold extract_mscope. intros [Hh Hs] H.
  destruct (walk szx (metric_size szx) (Some (extract_metric szx)) (metric_keep szx) (msmetrics s) _ 0) as [[d k] rm] eqn:E.
  inversion H; subst; clear H.
  assert (Hp : forall ex, Some (extract_metric szx) = Some ex -> forall c cap0 e0 rest0 er0,
            wf_metric sz c -> ex c cap0 = (e0, rest0, er0) ->
            delta sz (metric_size sz rest0) <= delta sz (metric_size sz c) /\ wf_metric sz rest0).
  { intros ex Hex; inversion Hex; subst. intros. eapply extract_metric_mono; eauto. }
  destruct (walk_mono szx (metric_size szx) (Some (extract_metric szx)) (metric_keep szx) (fun c => delta sz (metric_size sz c)) (wf_metric sz)
              Hp _ _ _ _ _ _ Hs E (metric_nn sz)) as [Hm Hk].
  assert (Hwr : wf_mscope sz {| msctx := msctx s; mshdr := mshdr s; msmetrics := k |}) by (split; assumption).
  split; [|exact Hwr]. destruct (wf_mscope_size _ _ Hwr) as [A _]. apply delta_le; [exact A|].
  unfold mscope_size; cbn [mshdr msmetrics]. lia.
Qed.

Lemma extract_mres_mono sz szx r cap e rest er : wf_mres sz r -> extract_mres szx r cap = (e, rest, er) ->
  delta sz (mres_size sz rest) <= delta sz (mres_size sz r) /\ wf_mres sz rest.
Proof.
  unfold extract_mres. intros [Hh Hs] H.
  destruct (walk szx (mscope_size szx) (Some (extract_mscope szx)) mscope_nonempty (mrscopes r) _ 0) as [[d k] rm] eqn:E.
  inversion H; subst; clear H.
  assert (Hp : forall ex, Some (extract_mscope szx) = Some ex -> forall c cap0 e0 rest0 er0,
            wf_mscope sz c -> ex c cap0 = (e0, rest0, er0) ->
            delta sz (mscope_size sz rest0) <= delta sz (mscope_size sz c) /\ wf_mscope sz rest0).
  { intros ex Hex; inversion Hex; subst. intros. eapply extract_mscope_mono; eauto. }
  destruct (walk_mono szx (mscope_size szx) (Some (extract_mscope szx)) mscope_nonempty (fun c => delta sz (mscope_size sz c)) (wf_mscope sz)
              Hp _ _ _ _ _ _ Hs E (mscope_nn sz)) as [Hm Hk].
  assert (Hwr : wf_mres sz {| mrctx := mrctx r; mrhdr := mrhdr r; mrscopes := k |}) by (split; assumption).
  split; [|exact Hwr]. destruct (wf_mres_size _ _ Hwr) as [A _]. apply delta_le; [exact A|].
  unfold mres_size; cbn [mrhdr mrscopes]. lia.
Qed.

Lemma extract_mpayload_mono sz szx p cap d k rm : wf_mpayload sz p -> extract_mpayload szx p cap = (d, k, rm) ->
  mpsum sz k <= mpsum sz p /\ wf_mpayload sz k.
Proof.
  unfold extract_mpayload. intros Hwf E.
  assert (Hp : forall ex, Some (extract_mres szx) = Some ex -> forall c cap0 e0 rest0 er0,
            wf_mres sz c -> ex c cap0 = (e0, rest0, er0) ->
            delta sz (mres_size sz rest0) <= delta sz (mres_size sz c) /\ wf_mres sz rest0).
  { intros ex Hex; inversion Hex; subst. intros. eapply extract_mres_mono; eauto. }
  exact (walk_mono szx (mres_size szx) (Some (extract_mres szx)) mres_nonempty (fun c => delta sz (mres_size sz c)) (wf_mres sz)
              Hp _ _ _ _ _ _ Hwf E (mres_nn sz)).
Qed.

Lemma mpsum_items p : mpsum Items p = mcount p.
Proof. rewrite <- MT_count. reflexivity. Qed.

(* ---- the loop ------------------------------------------------------------------------------------------------- *)
Lemma msplit_loop_total_bytes : forall fuel max p cached acc,
  wf_mpayload Bytes p -> mpsum Bytes p <= cached ->
  (Z.to_nat (cached - max) + length (mpoints_of p) < fuel)%nat ->
  exists out, msplit_loop fuel Bytes max p cached acc = Some out.
Proof.
  induction fuel as [|f IH]; intros max p cached acc Hwf Hge Hf; [lia|]. cbn [msplit_loop].
  destruct (cached >? max) eqn:Eg; [|eauto]. rewrite Z.gtb_ltb in Eg. apply Z.ltb_lt in Eg.
  destruct (extract_mpayload Bytes p max) as [[d k] rm] eqn:E.
  pose proof (extract_mpayload_le _ _ _ _ _ _ Hwf E) as Hle.
  pose proof (extract_mpayload_removed _ _ _ _ _ _ Hwf E) as Hrm.
  destruct (extract_mpayload_mono Bytes Bytes _ _ _ _ _ Hwf E) as [_ Hwk].
  destruct (extract_mpayload_mono Items Bytes _ _ _ _ _ (wf_mpayload_items p) E) as [Hcnt _]. rewrite !mpsum_items in Hcnt. unfold mcount in Hcnt.
  destruct (rm <=? 0) eqn:Eb.
  - apply Z.leb_le in Eb. assert (rm = 0) by lia. subst rm.
    destruct (mpoints_of k) as [|i0 t] eqn:Ek; [eauto|].
    destruct (extract_mpayload Items k 1) as [[d1 k1] rm1] eqn:E1.
    destruct (extract_mpayload_mono Bytes Items _ _ _ _ _ Hwk E1) as [Hm1 Hwk1].
    assert (H01 : 0 <= 1) by lia.
    destruct (extract_mpayload_items _ _ _ _ _ H01 E1) as [_ [_ Hk1]]. rewrite !MT_count in Hk1. unfold mcount in Hk1.
    rewrite Ek in Hk1. cbn [length] in Hk1, Hcnt.
    change (mpayload_size Bytes k1) with (mpsum Bytes k1).
    apply IH; [exact Hwk1|lia|]. lia.
  - apply Z.leb_gt in Eb. apply IH; [exact Hwk|lia|]. lia.
Qed.

(* the memo is unknown or does not understate the size (true of every fresh or exactly measured request, and kept by the
   split: extract_mpayload_le) *)
Definition memo_ge (r : mreq) : Prop := mrcached r = -1 \/ mpayload_size Bytes (mrp r) <= mrcached r.
Definition memo_ge_opt (b : option mreq) : Prop := match b with Some r => memo_ge r | None => True end.

Lemma mreq_size_ge r : memo_ge r -> mpsum Bytes (mrp r) <= mreq_size Bytes r.
Proof.
  unfold memo_ge, mreq_size. change (mpayload_size Bytes (mrp r)) with (mpsum Bytes (mrp r)).
  intros [H|H]; [rewrite H; cbn; lia|]. destruct (mrcached r =? -1); lia.
Qed.

Lemma mmerge_split_total_bytes max a b :
  wf_mpayload Bytes (mrp a) -> wf_mopt Bytes b -> memo_ge a -> memo_ge_opt b ->
  exists out, mmerge_split Bytes max a b = Some out.
Proof.
  intros Ha Hb Ma Mb. unfold mmerge_split. destruct (max =? 0); [eauto|].
  assert (Hw : wf_mpayload Bytes (mrp (mmerged Bytes a b))).
  { destruct b; simpl; [|exact Ha]. unfold wf_mpayload. apply Forall_app. split; assumption. }
  assert (Hge : mpsum Bytes (mrp (mmerged Bytes a b)) <= mreq_size Bytes (mmerged Bytes a b)).
  { destruct b as [r|]; cbn [mmerged]; [|apply mreq_size_ge; exact Ma].
    pose proof (mreq_size_ge a Ma). pose proof (mreq_size_ge r Mb).
    cbn [mrp]. unfold mpsum in *. rewrite sumZf_app. unfold mreq_size at 1. cbn [mrcached mrp].
    destruct (mreq_size Bytes a + mreq_size Bytes r =? -1); [cbn [mpayload_size]; rewrite sumZf_app; lia|lia]. }
  apply msplit_loop_total_bytes; [exact Hw|exact Hge|]. unfold fuel_of. lia.
Qed.
